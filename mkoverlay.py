#!/usr/bin/env python3
"""Write build/overlay.json mapping /verif/harness/*.go into /repo's module (virtually)."""
import json, os, glob, sys
V = os.path.dirname(os.path.abspath(__file__))
REPO = os.environ.get("VERIF_REPO", "/repo")
# harness files that reach into internal/crossbar through the export wrappers (left out of the black-box harness)
NEEDS_CROSSBAR_EXPORTS = {"mode_hub.go", "mode_relay.go", "mode_leak.go", "mode_stress.go", "mode_expiry.go", "mode_sched.go", "mode_status.go"}
BLACKBOX_MISSING_MODES = {"hub", "path", "relay", "relay-raw", "leak", "stress", "expiry", "sched", "status", "status-lag", "status-frame", "lag"}


def make(dst=None, skip_exports=(), blackbox=False):
    """blackbox=True: the harness without the in-package wrappers of internal/crossbar and without the modes that need them —
    what is left (relaymain, the store modes, the host-side modes) still builds when a change to /repo alters the hub's internals"""
    rep = {}
    if blackbox:
        skip_exports = tuple(skip_exports) + ("internal__crossbar",)
    for f in sorted(glob.glob(V + "/harness/*.go")):
        if blackbox and os.path.basename(f) in NEEDS_CROSSBAR_EXPORTS:
            continue
        rep[f"{REPO}/cmd/verifdrv/{os.path.basename(f)}"] = f
    for d in sorted(glob.glob(V + "/harness/export/*")):
        pkg = os.path.basename(d)
        if pkg in skip_exports: continue
        for f in sorted(glob.glob(d + "/*.go")):
            rel = pkg.replace("__", "/")
            rep[f"{REPO}/{rel}/zz_verif_{os.path.basename(f)}"] = f
    os.makedirs(V + "/build", exist_ok=True)
    dst = dst or V + "/build/overlay.json"
    json.dump({"Replace": rep}, open(dst, "w"), indent=1)
    return dst
if __name__ == "__main__":
    print(make())
