#!/usr/bin/env python3
"""Write build/overlay.json mapping /verif/harness/*.go into /repo's module (virtually)."""
import json, os, glob, sys
V = os.path.dirname(os.path.abspath(__file__))
REPO = os.environ.get("VERIF_REPO", "/repo")
def make(dst=None, skip_exports=()):
    rep = {}
    for f in sorted(glob.glob(V + "/harness/*.go")):
        rep[f"{REPO}/cmd/verifdrv/{os.path.basename(f)}"] = f
    for d in sorted(glob.glob(V + "/harness/export/*")):
        pkg = os.path.basename(d)
        if pkg in skip_exports: continue
        for f in sorted(glob.glob(d + "/*.go")):
            rel = pkg.replace("__", "/")
            rep[f"{REPO}/{rel}/zz_verif_{os.path.basename(f)}"] = f
    os.makedirs(V + "/build", exist_ok=True)
    dst = dst or V + "/build/overlay.json"
    json.dump({"Replace": rep}, open(dst, "w"), indent=1)
    return dst
if __name__ == "__main__":
    print(make())
