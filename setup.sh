#!/bin/sh
# Build the framework offline from files on disk: extractor + translator output first (the Lean library imports it), then the Lean
# library + model driver, then the Go harness.
set -e
cd "$(dirname "$0")"
export GOFLAGS=-mod=mod GOPROXY=off GOSUMDB=off GOTOOLCHAIN=local
mkdir -p build evidence
python3 -c "import sys; sys.path.insert(0,'.'); import vlib; ok2,msg=vlib.run_extract(); print('extract', ok2, msg[:300]); sys.exit(0 if ok2 else 1)"
python3 -c "import sys; sys.path.insert(0,'.'); import vlib; vlib.gen_main()"
(cd lean && lake build Relay relaydrv)
python3 -c "import sys; sys.path.insert(0,'.'); import vlib; ok,log,exe=vlib.build_harness(); print('harness', ok, log[-2000:]); sys.exit(0 if ok else 1)"
