#!/bin/sh
# Build the framework offline from files on disk: Lean library + model driver, Go harness, extractor.
set -e
cd "$(dirname "$0")"
export GOFLAGS=-mod=mod GOPROXY=off GOSUMDB=off GOTOOLCHAIN=local
mkdir -p build evidence
python3 -c "import sys; sys.path.insert(0,'.'); import vlib; vlib.gen_main()"
(cd lean && lake build Relay relaydrv)
python3 -c "import sys; sys.path.insert(0,'.'); import vlib; ok,log,exe=vlib.build_harness(); print('harness', ok, log[-2000:]); ok2,msg=vlib.run_extract(); print('extract', ok2, msg[:300]); sys.exit(0 if ok and ok2 else 1)"
