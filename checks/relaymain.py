"""The production wiring `relay.Relay(closed, wg, config)` itself, black-box on the real clock (harness mode `relaymain`): configuration
defaults (buffer size out of range / unset), the periodic pruner, the stats interval, shutdown. One composite scenario per case; judged
directly (no model): a reader that keeps reading gets a back-to-back burst completely and is not disconnected; a deny holds until the
expiry given in the request whatever the pruner does in between; /status follows a swap that leaves the connection count unchanged
within one reporting interval; Relay returns on shutdown."""
import re
import vlib

SIG_PROPS = {"burst-incomplete": {"C05"}, "relay-closed-a-reading-connection": {"C05", "C06"}, "deny-lapsed-before-expiry": {"C07", "C10"},
             "deny-not-accepted": {"C07", "C09", "C10", "C11"}, "status-not-membership": {"C14"}, "shutdown-hung": {"C13"}, "goroutines-left-after-shutdown": {"C13"},
             "relay-crash-or-hang": {"C05", "C06", "C07", "C08", "C10", "C13", "C14"}, "bad-output": {"C05", "C06", "C07", "C13", "C14"}}
RELAYMAIN_RULE = (" mode relaymain (oracle only, real clock): `relay.Relay` started with buffer size 0 / 1 / 128 / 600 (the out-of-range values are "
                  "replaced by the default) and prune interval 0.4-1 s: a 100-frame back-to-back burst to a reading connection, a deny expiring 3-5 s later (more than two prune "
                  "intervals ahead) polled every 200 ms, a status query after a connection swap, shutdown.")


class RelayMainMode(vlib.Mode):
    name = "relaymain"
    compare = False
    shrinkable = False
    chunk = 1

    def __init__(self, focus, ncases=2):
        super().__init__()
        self.focus, self.ncases = focus, ncases

    def timeout(self, tier):
        return 600

    def generate(self, rng, tier):
        pool = [(0, 700), (128, 2000), (1, 1000), (600, 400), (-5, 800), (512, 600), (2, 450), (300, 1000)]
        n = self.ncases if tier == "quick" else len(pool)
        first = [(0, rng.choice([500, 700])), (rng.choice([64, 128, 300]), 2000)][:max(1, n)]   # whole-second prune intervals too          # buffer size left unset is the configuration the project's own tests use
        rest = rng.sample(pool[2:], max(0, n - len(first)))
        return [[f"e2e {b} {p}"] for b, p in first + rest]

    def oracle(self, case, out):
        return [(s, d) for s, d in self._oracle(case, out) if self.focus is None or self.focus in SIG_PROPS.get(s, {self.focus})]

    def _oracle(self, case, out):
        o = out[0] if out else "<<nothing>>"
        if o.startswith("<<") or o in ("stuck", "dead") or o.startswith("panic"):
            return [("relay-crash-or-hang", f"{case[0]} -> {o}")]
        parts = [p.strip() for p in o.split("|")]
        if len(parts) != 4:
            return [("bad-output", o[:200])]
        fails = []
        m = re.match(r"burst got=(\d+)/(\d+) reader=(\w+)", parts[0])
        if not m: return [("bad-output", parts[0])]
        buf = int(case[0].split(" ")[1])
        effective = buf if 1 <= buf <= 512 else 256          # relay.go replaces an out-of-range buffer size by 256
        if m.group(3) != "open":
            # a queue that can hold the whole burst cannot overflow, however slow the reader's pump is: then a close is the relay's own doing
            if effective >= int(m.group(2)):
                fails.append(("relay-closed-a-reading-connection", f"{case[0]}: a connection that kept reading was closed by the relay after {m.group(1)} of "
                              f"{m.group(2)} back-to-back frames although its queue ({effective}) can hold the whole burst"))
        elif m.group(1) != m.group(2):
            fails.append(("burst-incomplete", f"{case[0]}: the reader got {m.group(1)} of {m.group(2)} frames and is still connected"))
        m = re.match(r"deny status=(\d+) refused=(\d+)/(\d+) early=(\S+) listed=(\w+)", parts[1])
        if not m: return [("bad-output", parts[1])]
        if m.group(1) != "204":
            fails.append(("deny-not-accepted", f"{case[0]}: a valid deny was answered {m.group(1)}"))
        elif m.group(2) != m.group(3) or m.group(5) != "true":
            fails.append(("deny-lapsed-before-expiry", f"{case[0]}: before the expiry given in the deny request a session for the booking was answered "
                          f"{m.group(4)} (refused {m.group(2)} of {m.group(3)} polls; still listed: {m.group(5)})"))
        if parts[2] != "status swap=ok":
            fails.append(("status-not-membership", f"{case[0]}: one reporting interval after a connection was replaced by another, GET /status said: {parts[2]}"))
        m = re.match(r"shutdown=(\w+) left=(-?\d+)", parts[3])
        if not m: return [("bad-output", parts[3])]
        if m.group(1) != "ok":
            fails.append(("shutdown-hung", f"{case[0]}: relay.Relay did not return within 8 s of shutdown"))
        elif int(m.group(2)) > 6:
            # 3-4 goroutines live as long as the process on the unchanged tree (hub loop, code-store sweeper, signal handler)
            fails.append(("goroutines-left-after-shutdown", f"{case[0]}: {m.group(2)} goroutines more than before the relay was started are still alive 4 s after "
                          "shutdown with two connections open (the process-lifetime ones account for 3-4)"))
        return fails

    def nontrivial(self, case, out):
        return bool(out) and out[0].startswith("burst")

    def describe(self, case):
        return [case[0] + "   (buffer size, prune interval in ms)"]
