"""C02 — connection codes are single-use, short-lived and die with the booking"""
from tiecommon import TIE_LOCKS, TIE_TTLCODE
import vlib
from relaycommon import RelayMode
from vlib import hx

RULE = ("TRANSLATOR TIE: internal/ttlcode/ttlcode.go is translated to Lean on every run (Relay/Extracted/GenTtlcode.lean) and proved to refine to "
        "the code-store model method by method for all reachable states, arguments, injective code namings and map iteration orders "
        "(Relay/Tie/TtlCode.lean); mode genttlcode runs the translated code itself against the real store. CORRESPONDENCE (mode ttlcode): histories of submit / exchange (issued, used, never-issued, not-yet-issued) / sweep / delete-by-booking / clock moves "
        "(forwards past the TTL boundary, and backwards) / concurrent race blocks (2..16 goroutines exchanging one code) over <=4 "
        "booking ids, ttl in {30,45}; non-trivial = contains a successful exchange AND (a refused re-exchange or an expiry refusal "
        "or a purge refusal or a race block); distinct = distinct op sequence")
ASSUMPTIONS = ["translator vocabulary (Relay/Base/GoLite.lean): int64 as unbounded Int (now + ttl does not overflow), pointer receiver as threaded value, mutex calls not data", "uuid.New() is collision-free and unguessable (crypto/rand): checked only as a test (v4 format, pairwise distinct)",
               "each CodeStore method is one atomic step (store mutex; C12)",
               "the periodic sweeper is the operation `clean` allowed at any time (theorems do not depend on the 2xTTL timer)"]
P = "Relay.Props.C02"
THEOREMS = [(f"TtlCode.{n}", P) for n in
            ["exchange_at_most_once", "exchange_concurrent_at_most_once", "expired_step_invalid", "expired_admits_none",
             "purge_kills", "code_frame_exchange", "code_frame_clean", "code_frame_submit", "codes_distinct", "successes_le_one"]] + \
           [(f"TieTtlCode.{n}", "Relay.Tie.TtlCode") for n in
            ["submit_tie", "exchange_tie", "exchange_unknown", "clean_tie", "deleteByBooking_tie", "count_tie", "good_after", "coverage"]]
BIDS = ["b1", "b2", "b3", ""]
THEOREMS = THEOREMS + TIE_LOCKS + TIE_TTLCODE



class TtlMode(vlib.Mode):
    name = "ttlcode"
    chunk = 4000

    def generate(self, rng, tier):
        n = 600 if tier == "quick" else 30000
        cases = []
        for _ in range(n):
            ttl = rng.choice([30, 45])
            now = rng.randrange(1000, 2000)
            case = [f"ttl {ttl}", f"now {now}"]
            issued = 0
            for _ in range(rng.choice([4, 8, 15, 30])):
                r = rng.random()
                if r < 0.3 or issued == 0:
                    case.append(f"submit {hx(rng.choice(BIDS))} {rng.randrange(1000)}"); issued += 1
                elif r < 0.55:
                    k = rng.randrange(issued) if rng.random() < 0.9 else issued + rng.randrange(3)
                    if k < issued and rng.random() < 0.12:
                        case.append(f"exchange {rng.choice('Cubn')}{k}")     # another spelling of the issued uuid: must be refused, must not consume or keep alive anything
                        case.append(f"exchange c{k}")
                    else:
                        case.append(f"exchange c{k}" if rng.random() < 0.95 else "exchange x")
                elif r < 0.63: case.append("clean")
                elif r < 0.72: case.append(f"delbid {hx(rng.choice(BIDS))}")
                elif r < 0.88:
                    now += rng.choice([0, 1, 5, ttl - 1, ttl, ttl + 1, 2 * ttl, -3, 10]); case.append(f"now {now}")
                elif r < 0.93: case.append("count")
                else: case.append(f"race c{rng.randrange(issued)} {rng.choice([2, 3, 8, 16])}")
            case.append("count")
            cases.append(case)
        return cases

    def _walk(self, case, out):
        """independent reference: per code (issue time, ttl, bid, tok, state)"""
        fails, codes, ttl, now = [], [], 30, 0
        stats = {"ok": 0, "re": 0, "exp": 0, "purged": 0, "race": 0}
        for l, o in zip(case, out):
            f = l.split(" ")
            if o.startswith("panic") or o.startswith("<<"):
                fails.append(("crash", f"{l} -> {o}")); break
            if f[0] == "ttl": ttl = int(f[1])
            elif f[0] == "now": now = int(f[1])
            elif f[0] == "submit":
                if o != f"issued c{len(codes)}":
                    fails.append(("code-not-distinct-or-malformed", f"{l} -> {o}")); break
                codes.append({"t0": now, "ttl": ttl, "bid": f[1], "tok": f[2], "used": 0, "purged": False})
            elif f[0] == "delbid":
                for c in codes:
                    if c["bid"] == f[1]: c["purged"] = True
            elif f[0] == "exchange" and f[1][0] in "Cubn":
                if o.startswith("token "):
                    fails.append(("respelled-code-admitted", f"{l} -> {o}: a string that is not the issued code was exchanged")); break
            elif f[0] in ("exchange", "race"):
                k = int(f[1][1:]) if f[1] != "x" else -1
                c = codes[k] if 0 <= k < len(codes) else None
                if f[0] == "race":
                    stats["race"] += 1
                    wins = int(o.split(" ")[1]) if o.startswith("wins ") else -1
                    if wins < 0: fails.append(("bad-output", o)); break
                    if wins > 1: fails.append(("code-admitted-twice", f"{wins} of {f[2]} simultaneous exchanges of one code succeeded")); break
                    ok = wins == 1
                else:
                    ok = o.startswith("token ")
                    if ok and c is not None and o != f"token {c['bid']} {c['tok']}":
                        fails.append(("wrong-token", f"{l} -> {o}, issued for ({c['bid']},{c['tok']})")); break
                if ok:
                    if c is None: fails.append(("unissued-code-admitted", f"{l} -> {o}")); break
                    if c["used"]: fails.append(("code-admitted-twice", f"code c{k} exchanged successfully a second time")); break
                    if now > c["t0"] + c["ttl"]:
                        fails.append(("expired-code-admitted", f"code c{k} issued at {c['t0']} ttl {c['ttl']} exchanged at {now}")); break
                    if c["purged"]:
                        fails.append(("purged-code-admitted", f"code c{k} of booking {c['bid']} exchanged after delete-by-booking")); break
                    c["used"] += 1; stats["ok"] += 1
                elif c is not None:
                    if c["used"]: stats["re"] += 1
                    elif now > c["t0"] + c["ttl"]: stats["exp"] += 1
                    elif c["purged"]: stats["purged"] += 1
        return fails, stats

    def oracle(self, case, out):
        return self._walk(case, out)[0]

    def nontrivial(self, case, out):
        st = self._walk(case, out)[1]
        return st["ok"] > 0 and (st["re"] + st["exp"] + st["purged"] + st["race"]) > 0

    def account(self, stats, case, out):
        super().account(stats, case, out)
        st = self._walk(case, out)[1]
        b = stats.setdefault("branches", {})
        for k, v in st.items(): b[k] = b.get(k, 0) + v

    def describe(self, case):
        res = []
        for l in case:
            f = l.split(" ")
            if f[0] in ("submit", "delbid"): f[1] = repr(vlib.unhx(f[1]).decode())
            res.append(" ".join(f))
        return res


class GenTtlMode(TtlMode):
    """the same histories; the model side is the Lean TRANSLATION of ttlcode.go (not the hand model)"""
    name = "genttlcode"
    impl_mode = "ttlcode"
    model_mode = "genttlcode"

    def corpus(self):
        return TtlMode().corpus()


def modes(tier):
    return [TtlMode(), GenTtlMode(), RelayMode("C02")]   # relay: codes as the handlers and the websocket admission use them (die with the booking)

# whole histories of API calls over the translated handlers and stores (Relay/Tie/AccessE2E.lean): translated_code_single_use, translated_old_code_refused
from tiecommon import TIE_ACCESS
THEOREMS = THEOREMS + TIE_ACCESS
