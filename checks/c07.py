"""C07 — cancelling a booking takes effect and stays in effect, whatever races with it"""
from relaymain import RelayMainMode, RELAYMAIN_RULE
from tiecommon import TIE_DENY, TIE_TTLCODE, TIE_CHANMAP, TIE_ACCESS, TIE_NOTE, TIE_ASSUMPTION
import re
import c10
import vlib
from relaycommon import RelayMode

RULE = ("mode sched: schedules over the internal steps of session / deny / allow / websocket admission on ONE booking, replayed on the "
        "real handlers through the named scheduling points (gate a point, start requests, wait until one is parked there, run others to "
        "completion, release): 9 families (a request parked at session.checked / session.allowed / session.minted / deny.listed / "
        "deny.purged / deny.notified / allow.done / ws.pre_exchange / ws.checked while a complete deny, allow, session or admission of the same "
        "booking runs), each with random surrounding sequential operations (existing connection, earlier codes, later allow); the "
        "observations (answers, deny-list membership, joined connections, live codes) are compared with the interleaving model and judged "
        "by DenySticks. mode relay: sequential histories over several bookings (see C01) with the C07 oracle. non-trivial = the schedule "
        "contains an acknowledged deny and another request of the same booking overlapping it; distinct = distinct script")
ASSUMPTIONS = ["each segment between two scheduling points is atomic (store calls hold their mutex: C12)",
               "one in-flight instance per handler kind in the replayed schedules (points are identified by name)",
               "preemption inside a store method and network reordering between client and relay are outside the model",
               "the relay's own goroutines (hub, crossbar listener, tear-down) run to quiescence between script steps; gating of hub.recorded / "
               "xbar.deny_processed / ws.registered is not generated"]
THEOREMS = [("Conc.race_session_erases_deny", "Relay.Props.C07"), ("Conc.race_admission_slips_past", "Relay.Props.C07"),
            ("Conc.not_DenySticks", "Relay.Props.C07"), ("Conc.handlers_as_modelled", "Relay.Props.C07"),
            ("Conc.violations_are_the_two_shapes", "Relay.Props.C07Class"), ("Conc.run_cinv", "Relay.Props.C07Class"),
            ("Conc.deny_sticks_without_races", "Relay.Props.C07Class"),
            ("Conc.k1_is_pattern_A", "Relay.Props.C07Class"), ("Conc.k2_is_pattern_B", "Relay.Props.C07Class"),
            ("Relay.deny_sticks_atomic_partial", "Relay.Props.C07Seq"), ("Relay.deny_effect", "Relay.Props.C07Seq"),
            ("Relay.run_inv", "Relay.Props.C07Seq"), ("TtlCode.purge_kills", "Relay.Props.C02"),
            ("ChanMap.delparent_closes_exactly", "Relay.Props.C08ChanMap")]

POINT_OF_KIND = {"session": ["session.checked", "session.allowed", "session.minted"],
                 "deny": ["deny.listed", "deny.purged", "deny.notified"], "allow": ["allow.done"],
                 "ws": ["ws.pre_exchange", "ws.checked"]}
THEOREMS = THEOREMS + TIE_DENY + TIE_TTLCODE + TIE_CHANMAP + TIE_ACCESS
RULE = TIE_NOTE + RULE
ASSUMPTIONS = ASSUMPTIONS + [TIE_ASSUMPTION]

RULE = RULE + RELAYMAIN_RULE



class SchedMode(vlib.Mode):
    name = "sched"
    chunk = 40
    shrinkable = False

    def timeout(self, tier):
        return 900

    def corpus(self):
        k1 = ["gate session.checked", "start session", "wait session.checked", "start deny", "join h1", "obs",
              "release session.checked", "join h0", "obs", "start ws c0", "join h2", "obs"]
        k2 = ["start session", "join h0", "gate ws.checked", "start ws c0", "wait ws.checked", "start deny", "join h2", "obs",
              "release ws.checked", "join h1", "obs"]
        return [k1, k2]

    def generate(self, rng, tier):
        n = 60 if tier == "quick" else 1500
        cases = []
        for _ in range(n):
            case, h, codes = [], 0, 0
            def start(kind, arg=None):
                nonlocal h
                case.append(f"start {kind}" + (f" {arg}" if arg is not None else "")); h += 1
                return h - 1
            # sequential prelude
            if rng.random() < 0.5:
                a = start("session"); case.append(f"join h{a}"); codes += 1
                if rng.random() < 0.7:
                    b = start("ws", f"c{codes - 1}"); case.append(f"join h{b}")
            if rng.random() < 0.2:
                a = start("deny"); case.append(f"join h{a}")
                a = start("allow"); case.append(f"join h{a}")
            # the gated request
            kind = rng.choice(["session", "session", "deny", "allow", "ws", "ws"])
            point = rng.choice(POINT_OF_KIND[kind])
            if kind == "ws":
                a = start("session"); case.append(f"join h{a}"); codes += 1
            case.append(f"gate {point}")
            g = start(kind, f"c{codes - 1}" if kind == "ws" else None)
            case.append(f"wait {point}")
            # other requests of the same booking run to completion while it is parked
            for _ in range(rng.choice([1, 1, 2])):
                # one in-flight instance per handler kind: the other request is of a different kind than the parked one
                other = rng.choice([k for k in (["deny", "deny", "deny", "allow", "session", "ws"] if kind != "deny" else ["session", "allow", "ws"]) if k != kind])
                if other == "ws":
                    if codes == 0: continue
                    o = start("ws", f"c{rng.randrange(codes)}")
                else:
                    o = start(other)
                case.append(f"join h{o}")
                if other == "session": codes += 1
                case.append("obs")
            case.append(f"release {point}")
            case.append("gate -")
            case.append(f"join h{g}")
            if kind == "session": codes += 1
            case.append("obs")
            # sequential epilogue
            if rng.random() < 0.5 and codes:
                o = start("ws", f"c{codes - 1}"); case.append(f"join h{o}"); case.append("obs")
            if rng.random() < 0.3:
                o = start("session"); case.append(f"join h{o}"); case.append("obs")
            cases.append(case)
        return cases

    def _walk(self, case, out):
        """DenySticks on the observed run + the pattern of the race, for the known-finding signatures"""
        fails = []
        kinds, started_at, joined_at, parked = {}, {}, {}, {}
        acked_at = None       # index of the join of the last acknowledged deny (no acknowledged allow since)
        for i, (l, o) in enumerate(zip(case, out)):
            f = l.split(" ")
            if o.startswith("<<") or o in ("stuck", "dead") or o.startswith("panic"):
                fails.append(("relay-crash-or-hang", f"{l} -> {o}")); break
            if f[0] == "start":
                k = int(o.split("h")[1]) if o.startswith("started h") else -1
                kinds[k] = f[1]; started_at[k] = i
            elif f[0] == "wait" and o.startswith("at "):
                k = max(started_at, key=lambda x: started_at[x])
                parked[k] = [i, None, f[1]]
            elif f[0] == "release":
                for k, p in parked.items():
                    if p[1] is None and p[2] == f[1]: p[1] = i
            elif f[0] == "join":
                k = int(f[1][1:]); joined_at[k] = i
                if kinds.get(k) == "deny" and o == "204":
                    # an explicit allow that overlaps the deny (started after the deny started) may be ordered after it
                    overl = any(kinds.get(a) == "allow" and started_at[a] > started_at[k] and out[joined_at[a]] == "204" for a in joined_at if a != k)
                    pending_allow = any(kinds.get(a) == "allow" and a not in joined_at for a in kinds)
                    acked_at = None if (overl or pending_allow) else i
                if kinds.get(k) == "allow" and o == "204": acked_at = None
                if kinds.get(k) == "session" and o == "200" and acked_at is not None and started_at[k] > acked_at:
                    fails.append(self._sig(case, parked, acked_at, "a session request started after the deny was acknowledged got a code")); break
                if kinds.get(k) == "ws" and o == "joined" and acked_at is not None and started_at[k] > acked_at:
                    fails.append(self._sig(case, parked, acked_at, "a websocket presented after the deny was acknowledged was admitted")); break
            elif f[0] == "obs" and acked_at is not None and not any(p[1] is None for p in parked.values()):
                d = dict(p.split("=") for p in o.split(" "))
                if d.get("denied") != "t":
                    fails.append(self._sig(case, parked, acked_at, "the acknowledged deny is no longer on the deny list (silently erased)")); break
                if d.get("members") != "0":
                    fails.append(self._sig(case, parked, acked_at, f"{d.get('members')} connection(s) live under the denied booking at quiescence")); break
        return fails

    def from_model(self, case, impl_out, model_out):
        # the model's `obs` also prints its two ghost pattern flags (Props/C07Class: every violation of the model
        # sets one of them); they are not observable on the implementation and are kept aside for the signatures
        fl, res = {"A": False, "B": False}, []
        for o in model_out:
            m = re.search(r" A=([tf]) B=([tf])$", o)
            if m:
                fl = {"A": fl["A"] or m.group(1) == "t", "B": fl["B"] or m.group(2) == "t"}
                o = o[:m.start()]
            res.append(o)
        self.model_flags = getattr(self, "model_flags", {})
        self.model_flags[tuple(case)] = fl
        return res

    def _sig(self, case, parked, acked_at, what):
        # a known-finding signature needs BOTH the schedule shape on the implementation and (when the model ran this
        # case) the model's pattern flag: a violation the classification theorem does not explain stays a VIOLATION
        fl = getattr(self, "model_flags", {}).get(tuple(case), {"A": True, "B": True})
        for k, (w, r, point) in parked.items():
            if w < acked_at and (r is None or r > acked_at):
                if point == "session.checked" and not fl["A"]: break
                if point == "ws.checked" and not fl["B"]: break
                if point == "session.checked":
                    return ("K1-session-allow-erases-deny", what + " [pattern A: a session passed its deny check, a deny completed, then the session's Allow ran]")
                if point == "ws.checked":
                    return ("K2-admission-registers-after-deny", what + " [pattern B: an admission passed the deny re-check, the deny completed and was processed, then the connection registered]")
        return ("deny-did-not-stick", what)

    def oracle(self, case, out):
        return self._walk(case, out)

    def nontrivial(self, case, out):
        return any(l == "start deny" for l in case) and any(o.startswith("at ") for o in out)

    def account(self, stats, case, out):
        super().account(stats, case, out)
        pts = stats.setdefault("gated_points", {})
        for l in case:
            if l.startswith("gate ") and l != "gate -":
                pts[l[5:]] = pts.get(l[5:], 0) + 1


def modes(tier):
    # the register histories of C10 run here too: "refused until the expiry given in the deny request" is the register's business
    return [SchedMode(), RelayMode("C07"), c10.DenyMode(), RelayMainMode("C07", 3), StubbornMode("C07"), HubForC07("C13")]

from lagcommon import StubbornMode, STUBBORN_RULE
RULE = RULE + STUBBORN_RULE

# the hub's cancel bookkeeping over all histories of the translated code (Relay/Tie/HubDcs.lean): a deny reaches every live connection of the booking
from tiecommon import TIE_HUB, TIE_HUB_NOTE, TIE_HUB_ASSUMPTION
THEOREMS = THEOREMS + TIE_HUB
RULE = TIE_HUB_NOTE + RULE
ASSUMPTIONS = ASSUMPTIONS + [TIE_HUB_ASSUMPTION]


# a deny closes the connections the hub has RECORDED under the booking: the hub histories of C03/C05/C13, judged here on the cancel bookkeeping
# alone (after every event the cancel-channel store holds exactly the joined clients that have a booking id)
from hubcommon import HubMode


class HubForC07(HubMode):
    def generate(self, rng, tier):
        cases = HubMode.generate(self, rng, tier)
        return cases[:len(cases) // 3]

    def oracle(self, case, out):
        return [x for x in HubMode.oracle(self, case, out) if x[0] in ("cancel-bookkeeping-wrong", "hub-crash", "hub-stuck")]
