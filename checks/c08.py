"""C08 — no client behaviour or admin sequence can stop or crash the relay"""
import vlib
from vlib import hx
from hubcommon import HubMode
import c12
import c02
from relaycommon import RelayMode
from lagcommon import LagMode
from tiecommon import TIE_DENY, TIE_TTLCODE, TIE_CHANMAP, TIE_NOTE, TIE_ASSUMPTION

RULE = ("chanmap mode: op sequences add/deleteChild/deleteAndCloseChild/deleteParent/deleteAndCloseParent over <=3 parents "
        "(incl. empty name), 85% following the hub's discipline (fresh child + fresh channel per add; e.g. deny -> disconnect -> "
        "reconnect of one booking), 15% undisciplined (re-used names/channels); the complete store state (both maps, closed "
        "channels) is compared after every op. hub mode: see C03 — here the failures reported are: hub loop stuck, process crash, a "
        "member lost although its own queue had room. non-trivial = a close of a parent/child happened and something was added "
        "afterwards; distinct = distinct op sequence")
ASSUMPTIONS = ["the hub is the only user of the cancel-channel store and follows the discipline `Disc` (fresh uuid name, fresh channel per add)",
               "OS/kernel behaviour of sockets (half-open detection, memory exhaustion by flooding) is outside the model; fault injection over loopback is mode relay-faults (thorough)"]
THEOREMS = [(f"ChanMap.{n}", "Relay.Props.C08ChanMap") for n in
            ["chanmap_never_panics", "chanmap_consistent", "delparent_closes_exactly", "delchild_removes", "step_inv", "run_inv"]] + \
           [("Hub.evicted_only_own_backlog", "Relay.Props.C05"), ("Hub.stays_member", "Relay.Props.C05"),
            ("Hub.no_silent_skip", "Relay.Props.C05"), ("Hub.run_inv", "Relay.Props.HubInv")]
PARENTS = ["bk1", "bk2", ""]
THEOREMS = THEOREMS + TIE_DENY + TIE_TTLCODE + TIE_CHANMAP
RULE = TIE_NOTE + RULE
ASSUMPTIONS = ASSUMPTIONS + [TIE_ASSUMPTION]



class ChanMapMode(vlib.Mode):
    name = "chanmap"
    chunk = 3000

    def generate(self, rng, tier):
        n = 600 if tier == "quick" else 30000
        cases = []
        for _ in range(n):
            disc = rng.random() < 0.85
            case, nc = [], 0
            for _ in range(rng.choice([4, 8, 16, 30])):
                r = rng.random()
                if r < 0.4 or nc == 0:
                    if disc or rng.random() < 0.5:
                        c, ch = f"c{nc}", nc
                    else:
                        c, ch = f"c{rng.randrange(nc + 1)}", rng.randrange(nc + 1)
                    p = rng.choice(PARENTS if not disc else PARENTS[:2] + PARENTS[:2] + [""])
                    case.append(f"add {hx(p)} {hx(c if rng.random() < 0.97 else '')} {ch}"); nc += 1
                elif r < 0.7:
                    case.append(f"delchild {hx('c%d' % rng.randrange(nc + 1))} {rng.choice([0, 0, 1])}")
                else:
                    case.append(f"delparent {hx(rng.choice(PARENTS))} {rng.choice([0, 1, 1])}")
            cases.append(case)
        return cases

    def project(self, case, out):
        res, dead = [], False
        for o in out:
            if dead: res.append("dead")
            elif o.startswith("panic"): res.append("panic"); dead = True
            else: res.append(o)
        return res

    def _disciplined(self, case):
        seenc, seench = set(), set()
        for l in case:
            f = l.split(" ")
            if f[0] == "add":
                if f[2] in seenc or f[3] in seench: return False
                seenc.add(f[2]); seench.add(f[3])
        return True

    def oracle(self, case, out):
        fails = []
        for l, o in zip(case, out):
            if o.startswith("panic") or o.startswith("<<"):
                if self._disciplined(case):
                    fails.append(("chanmap-panic", f"{l} -> {o} in a history that follows the hub's discipline"))
                break
            if o == "dead": break
            if "/NIL" in o or "/EMPTY" in o:
                fails.append(("chanmap-empty-inner-map-kept", f"{l} -> {o}")); break
            if self._disciplined(case) and " ents=" in o:
                d = dict(p.split("=", 1) for p in o.split(" ")[1:])
                ents = {tuple(e.split("/")[:2]) for e in d["ents"].split(",") if e}
                par = {tuple(reversed(e.split(">"))) for e in d["par"].split(",") if e}
                if ents != par:
                    fails.append(("chanmap-maps-inconsistent", f"{l} -> children {sorted(ents)} vs parent-by-child {sorted(par)}")); break
        return fails

    def nontrivial(self, case, out):
        closed = [i for i, (l, o) in enumerate(zip(case, out)) if l.endswith(" 1") and o.startswith("ok")]
        return bool(closed) and any(l.startswith("add") for l in case[closed[0]:])

    def describe(self, case):
        res = []
        for l in case:
            f = l.split(" ")
            f[1] = repr(vlib.unhx(f[1]).decode())
            if f[0] == "add": f[2] = repr(vlib.unhx(f[2]).decode())
            res.append(" ".join(f))
        return res


class StressForC08(c12.StressMode):
    """the same concurrent windows as C12 (status polls + flooding writers + connects/disconnects): here what is judged is that
    the relay neither deadlocks nor exits and still serves afterwards"""
    def generate(self, rng, tier):
        if tier == "quick":
            return [[f"stress {ms} {rng.randrange(10**6)} 16"] for ms in (1500, 1500)]
        return [[f"stress {ms} {rng.randrange(10**6)} {w}"] for ms in (2000, 4000) for w in (16, 32)]

    def run_impl(self, impl_exe, cases, tier):
        return vlib.run_cases_isolating([impl_exe, "stress"], cases, timeout=600, env=vlib.GOENV, chunk=1)


class TtlForC08(c02.TtlMode):
    """the code store's histories (incl. exchanging a stale, not yet swept code): no operation may hang or crash the store"""
    def oracle(self, case, out):
        return [(s, d) for s, d in super().oracle(case, out) if s == "crash"] + \
               [("store-stuck", f"{l} -> {o}") for l, o in zip(case, out) if o in ("stuck", "dead")][:1]


class RelayForC08(RelayMode):
    """the loopback relay histories (zero-length frames, odd paths, bad codes, repeated scopes, the relay's own `stats` topic):
    whatever clients do, the process must survive — more cases wait for the stats reporter to consume what was sent to it"""
    settle_prob = 0.3

    def gen_case(self, rng):
        case = super().gen_case(rng)
        if rng.random() < 0.25:
            # degenerate frames addressed to the relay's own consumer on the `stats` topic, then time for it to consume them
            from relaycommon import tok, sval, lval
            from vlib import hx
            now = int(case[1].split(" ")[1])
            ncodes = sum(1 for l in case if l.startswith("session ") and ";sig=good;" in l and "alg=HS256" in l)   # only a lower bound is needed: use a fresh instance instead
            tail = ["config 0 64", f"now {now}", f"session {tok(now, topic=sval('stats'), bid=sval('b1'), scopes=lval(['write']))} {hx('stats')}",     # write-only: whatever the reporter publishes is not this probe's business
                    f"ws {hx('/session/stats')} c0"]
            for payload in rng.sample(["-", hx("{}"), hx("{"), hx("[]"), hx("null"), hx('{"cmd":"updat"}'), hx('{"cmd":5}'), hx("\x00"), hx(" "), hx('"')], 5):
                tail.append(f"send n0 {payload} {rng.choice([1, 2])}")
            tail += ["settle 1300", "sync", "members"]
            return tail
        return case


def modes(tier):
    return [ChanMapMode(), HubMode("C08"), StressForC08(), TtlForC08(), RelayForC08("C08"), LagMode("C08")]

# the hub's event loop as translated from the current source (Relay/Tie/Hub.lean)
from tiecommon import TIE_HUB, TIE_HUB_NOTE, TIE_HUB_ASSUMPTION
THEOREMS = THEOREMS + TIE_HUB
RULE = TIE_HUB_NOTE + RULE
ASSUMPTIONS = ASSUMPTIONS + [TIE_HUB_ASSUMPTION]
