"""C10 — deny and allow lists behave as one consistent register"""
from tiecommon import TIE_LOCKS, TIE_DENY, TIE_ACCESS
import vlib
from relaycommon import RelayMode
from vlib import hx

RULE = ("TRANSLATOR TIE: internal/deny/deny.go is translated to Lean on every run (Relay/Extracted/GenDeny.lean) and proved equal to the "
        "register model method by method for all states, arguments and map iteration orders (Relay/Tie/Deny.lean); mode gendeny runs the "
        "translated code itself against the real store (differential test of the translator). CORRESPONDENCE (mode deny): histories of allow/deny/prune/clock/isdenied/lists over <=5 ids (incl. the empty id) and <=8 expiry values "
        "around the clock (equal-to-now boundaries) drawn from one PRNG; a case is non-trivial when it contains a deny, "
        "an allow and a prune that removed something or a re-decision of an id; distinct = distinct op sequence")
ASSUMPTIONS = ["translator vocabulary (Relay/Base/GoLite.lean): int64 as unbounded Int, pointer receiver as threaded value, mutex calls not data", "each deny.Store method is one atomic step (C12)", "Go map iteration order is unobservable (lists are compared as sets)"]

P = "Relay.Props.C10"
THEOREMS = [(f"Deny.{n}", P) for n in
            ["reg_disjoint", "reg_refines_cell", "reg_latest_wins_deny", "reg_latest_wins_allow", "prune_exact",
             "only_own_expiry_removes", "lists_exact", "bad_params_noop", "good_params_act", "step_inv"]] + \
           [(f"TieDeny.{n}", "Relay.Tie.Deny") for n in
            ["allow_tie", "deny_tie", "isDenied_tie", "setNow_tie", "prune_tie", "getDenyList_tie", "getAllowList_tie", "coverage"]]

IDS = ["b1", "b2", "b3", "bk-4", ""]
THEOREMS = THEOREMS + TIE_LOCKS + TIE_DENY + TIE_ACCESS



class DenyMode(vlib.Mode):
    name = "deny"

    def generate(self, rng, tier):
        n = 400 if tier == "quick" else 20000
        cases = []
        for _ in range(n):
            L = rng.choice([3, 6, 12, 25, 40])
            now = rng.randrange(50, 150)
            case = [f"now {now}"]
            for _ in range(L):
                r = rng.random()
                id_ = hx(rng.choice(IDS))
                e = now + rng.choice([-2, -1, 0, 0, 1, 2, 5, 30])
                if r < 0.25: case.append(f"deny {id_} {e}")
                elif r < 0.5: case.append(f"allow {id_} {e}")
                elif r < 0.62: case.append("prune")
                elif r < 0.75:
                    now += rng.choice([0, 1, 1, 2, 3, 10, -1]); case.append(f"now {now}")
                elif r < 0.88: case.append(f"isdenied {id_}")
                else: case.append("lists")
            case.append("lists")
            cases.append(case)
        return cases

    def nontrivial(self, case, out):
        kinds = {l.split(" ")[0] for l in case}
        return {"deny", "allow", "prune"} <= kinds

    def oracle(self, case, out):
        """the property evaluated directly on what the real store answered (independent of the Lean model):
        per-id reference cell + disjointness"""
        fails = []
        cell, now = {}, 0
        for l, o in zip(case, out):
            f = l.split(" ")
            if o.startswith("panic") or o.startswith("<<"):
                fails.append(("crash", f"{l} -> {o}")); break
            if f[0] == "now": now = int(f[1])
            elif f[0] == "deny": cell[f[1]] = ("d", int(f[2]))
            elif f[0] == "allow": cell[f[1]] = ("a", int(f[2]))
            elif f[0] == "prune":
                for k in [k for k, v in cell.items() if v[1] < now]: del cell[k]
            elif f[0] == "isdenied":
                exp = "true" if cell.get(f[1], ("", 0))[0] == "d" else "false"
                if o != exp: fails.append(("status-not-latest", f"isdenied {f[1]} answered {o}, latest decision says {exp}"))
            elif f[0] == "lists":
                try:
                    a, d = o.split(" ")
                    A = set(x for x in a.split("=", 1)[1].split(",") if x); D = set(x for x in d.split("=", 1)[1].split(",") if x)
                except Exception:
                    fails.append(("bad-output", o)); break
                if A & D: fails.append(("on-both-lists", f"ids on both lists: {sorted(A & D)}"))
                EA = {k for k, v in cell.items() if v[0] == "a"}; ED = {k for k, v in cell.items() if v[0] == "d"}
                if A != EA or D != ED:
                    fails.append(("lists-not-exact", f"lists allow={sorted(A)} deny={sorted(D)} but register should hold allow={sorted(EA)} deny={sorted(ED)}"))
            if fails: break
        return fails

    def describe(self, case):
        outl = []
        for l in case:
            f = l.split(" ")
            if f[0] in ("deny", "allow", "isdenied"):
                f[1] = repr(vlib.unhx(f[1]).decode("utf-8", "replace"))
            outl.append(" ".join(f))
        return outl


class GenDenyMode(DenyMode):
    """the same histories; the model side is the Lean TRANSLATION of deny.go (not the hand model)"""
    name = "gendeny"
    impl_mode = "deny"
    model_mode = "gendeny"

    def corpus(self):
        return DenyMode().corpus()


def modes(tier):
    return [DenyMode(), GenDenyMode(), RelayMode("C10")]   # relay: the register as the handlers use it (clock exactly on expiry instants)
