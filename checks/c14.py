"""C14 — status reports tell the truth and the published client can read them (codec half)

Codec half: every report the relay can emit is JSON the published status client (pkg/status)
decodes into the same values.  (The membership half — the listing equals the set of joined
connections — is a separate part of this check file.)
"""
from relaymain import RelayMainMode, RELAYMAIN_RULE
import math, re
import vlib
from vlib import hx, unhx

CODEC_RULE = (
    "duration: int64 nanosecond counts (every boundary of the ns/us/ms/s/m/h unit selection, powers of ten +-1, "
    "+-2^k, int64 extremes, uniform-in-bit-length random values) through the real Duration.String and ParseDuration, and "
    "grammar-generated / mutated duration texts (signs, missing parts, all unit names incl. both micro signs, fractions up "
    "to 330 digits, values around every overflow rule) through the real ParseDuration, all from one PRNG; "
    "status: hubs of 0-6 members with generated metadata (user agent / forwarded-for / topic / scopes with quotes, "
    "control characters, HTML characters, invalid UTF-8, U+2028, 4-byte runes, 3000-byte strings; scopes nil / empty / many; "
    "expiry = zero time, past, far, first and last second of the years 0 and 9999) and traffic histories (never, one "
    "message, many; last message long ago / just now / in the future) fed through the real accumulators; each hub is "
    "reported by the real GetStats+json.Marshal, the real GET /status handler and (a few per run) the real statsReporter "
    "goroutine, and decoded by the real pkg/status types; plus statistics objects with generated `last` texts / numbers "
    "and instants around the RFC 3339 year limits. A case is non-trivial when it has a member with traffic and a member "
    "without, or a duration line that round-trips a non-zero value; distinct = distinct op sequence")

CODEC_ASSUMPTIONS = [
    "JSON text layer of encoding/json (string escaping, number formatting/parsing) is not modelled: floats are opaque "
    "tokens and a metadata string is taken after json.Marshal's coercion to valid UTF-8 (each invalid byte becomes U+FFFD, "
    "so a user agent that is not valid UTF-8 is reported lossily); exercised only by the differential run",
    "non-finite size/fps (mean inter-arrival time exactly 0 ns, only by forged statistics) is an excluded point: "
    "json.Marshal fails, no frame is sent (hypothesis `finite`)",
    "connectedAt comes from time.Now() and is always within years 0..9999",
    "strings.ToLower is modelled on ASCII and encoding/json key folding on ASCII (neither producer emits a non-ASCII key or an "
    "upper-case non-ASCII letter in `last`); time.Time parsing is the RFC 3339 fast path (the layout-parser fallback for "
    "non-canonical spellings is not modelled; the producers never emit such spellings)",
    "GET /status uses different (snake_case) field names than pkg/status expects: pkg/status is documented to read the "
    "stats-topic format only; for the REST body the check pins what pkg/status recovers (topic, scopes, connected, stats) "
    "and that the REST model type itself recovers every field",
]

PC = "Relay.Props.C14"
CODEC_THEOREMS = [(n, PC) for n in [
    "Dur.duration_roundtrip",                    # ParseDuration(d.String()) = d for every int64 d
    "TimeText.rfc3339_roundtrip",                # UnmarshalJSON(MarshalText(t)) = t, years 0..9999
    "TimeText.format_out_of_range",              # MarshalText fails outside years 0..9999
    "Status.never_roundtrip",                    # never-used direction -> Never=true, 999h
    "Status.stats_roundtrip",                    # used direction -> same duration/size/fps
    "Status.report_roundtrip",                   # finite -> yearsInRange -> decode(encode(report)) = view
    "Status.frame_roundtrip",                    # the whole stats-topic array
    "Status.finite_getStats",
    "Status.nonfinite_no_frame",                 # excluded point 1
    "Status.expiry_out_of_range_rejects_report", # excluded point 2 (K4)
    "Status.expiry_out_of_range_rejects_frame",
    "Status.k4_witness",
    "Status.not_ReportRoundtripAllYears",
    "Status.rest_decoded_by_status_client",      # what pkg/status recovers from GET /status
    "Status.not_RestRoundtrip",
    "Status.numeric_last_is_ns",
]]

INT64_MIN, INT64_MAX = -2 ** 63, 2 ** 63 - 1
YEAR0, YEAR10000 = -62167219200, 253402300800     # first second of year 0 / of year 10000 (UTC)
NEVER_NS = 999 * 3600 * 10 ** 9


# ----------------------------------------------------------------------------- helpers (independent of the Lean model)


def go_runes(b):
    """Go's reading of bytes as text: each byte that does not start a valid UTF-8 sequence -> U+FFFD"""
    out, i, n = [], 0, len(b)
    while i < n:
        b0 = b[i]
        if b0 < 0x80:
            out.append(chr(b0)); i += 1; continue
        need, lo, hi = 0, 0x80, 0xBF
        if 0xC2 <= b0 <= 0xDF:
            need = 1
        elif 0xE0 <= b0 <= 0xEF:
            need = 2
            if b0 == 0xE0: lo = 0xA0
            if b0 == 0xED: hi = 0x9F
        elif 0xF0 <= b0 <= 0xF4:
            need = 3
            if b0 == 0xF0: lo = 0x90
            if b0 == 0xF4: hi = 0x8F
        tail = b[i + 1:i + 1 + need]
        if need == 0 or len(tail) < need or not (lo <= tail[0] <= hi) or any(not (0x80 <= t <= 0xBF) for t in tail[1:]):
            out.append("\ufffd"); i += 1; continue
        out.append(b[i:i + 1 + need].decode("utf-8")); i += 1 + need
    return "".join(out)


def coerced_hex(h):
    return hx(go_runes(unhx(h)).encode("utf-8"))


_DUR_BIG = re.compile(r"^(-?)(?:(\d+)h)?(?:(\d+)m)?(\d+)(?:\.(\d+))?s$")
_DUR_SMALL = re.compile(r"^(-?)(\d+)(?:\.(\d+))?(ns|µs|ms)$")


def ref_duration(s):
    """reference reading of a text in Duration.String's own output format (None if not of that form)"""
    if s == "0s":
        return 0
    m = _DUR_SMALL.match(s)
    if m:
        scale = {"ns": 0, "µs": 3, "ms": 6}[m.group(4)]
        frac = (m.group(3) or "")
        if len(frac) > scale:
            return None
        v = int(m.group(2)) * 10 ** scale + (int(frac.ljust(scale, "0")) if scale else 0)
        return -v if m.group(1) else v
    m = _DUR_BIG.match(s)
    if m:
        frac = (m.group(5) or "")
        if len(frac) > 9:
            return None
        v = ((int(m.group(2) or 0) * 60 + int(m.group(3) or 0)) * 60 + int(m.group(4))) * 10 ** 9 + int(frac.ljust(9, "0") or 0)
        return -v if m.group(1) else v
    return None


def days_from_civil(y, m, d):
    y -= m <= 2
    era = y // 400
    yoe = y - era * 400
    doy = (153 * (m - 3 if m > 2 else m + 9) + 2) // 5 + d - 1
    doe = yoe * 365 + yoe // 4 - yoe // 100 + doy
    return era * 146097 + doe - 719468


_RFC = re.compile(r"^(\d{4})-(\d\d)-(\d\d)T(\d\d):(\d\d):(\d\d)(?:\.(\d{1,9}))?Z$")


def ref_time(s):
    m = _RFC.match(s)
    if not m:
        return None
    y, mo, d, h, mi, sec = (int(m.group(i)) for i in range(1, 7))
    return days_from_civil(y, mo, d) * 86400 + h * 3600 + mi * 60 + sec, int((m.group(7) or "").ljust(9, "0") or 0)


# ----------------------------------------------------------------------------- mode: duration

UNITS = ["ns", "us", "µs", "μs", "ms", "s", "m", "h"]


def _edge_durations():
    e = [0, 1, -1, INT64_MAX, INT64_MIN, INT64_MIN + 1, INT64_MAX - 1]
    for b in (10 ** 3, 10 ** 6, 10 ** 9, 60 * 10 ** 9, 3600 * 10 ** 9, 100 * 3600 * 10 ** 9):
        for k in (1, 2, 9, 10, 59, 60, 61, 99, 100, 999, 1000):
            for d in (-1, 0, 1):
                e.append(b * k + d)
    for k in range(19):
        for d in (-1, 0, 1):
            e.append(10 ** k + d)
    for k in range(64):
        for d in (-1, 0, 1):
            e.append(2 ** k + d)
    e += [3599999999999, 3600000000001, 59999999999, 60000000001, 2562047 * 3600 * 10 ** 9, 999 * 3600 * 10 ** 9]
    out = []
    for v in e:
        for s in (v, -v):
            if INT64_MIN <= s <= INT64_MAX:
                out.append(s)
    return out


def _rand_duration(rng):
    r = rng.random()
    if r < 0.55:
        v = rng.randrange(0, 2 ** rng.randrange(1, 64))
    elif r < 0.8:
        # few significant digits: exercises trailing-zero stripping
        v = rng.randrange(1, 10 ** rng.randrange(1, 5)) * 10 ** rng.randrange(0, 16)
    elif r < 0.9:
        v = (rng.randrange(0, 3000) * 3600 + rng.randrange(0, 60) * 60 + rng.randrange(0, 60)) * 10 ** 9 + rng.choice([0, 0, 1, 10 ** 8, 999999999, rng.randrange(0, 10 ** 9)])
    else:
        v = rng.randrange(0, 2 ** 63)
    if rng.random() < 0.4:
        v = -v
    return max(INT64_MIN, min(INT64_MAX, v))


FIXED_TEXTS = ["", "0", "-0", "+0", "-", "+", "1", "1s", "1.s", ".s", "-.s", ".5s", "1.5h", "1h1m1s1ms1us1ns", "1µs", "1μs",
               "9223372036854775807ns", "9223372036854775808ns", "-9223372036854775808ns",
               "9223372036854775808ns9223372036854775808ns", "-9223372036854775808ns9223372036854775808ns",
               "9223372036854775809ns", "2562047h47m16.854775807s", "2562047h47m16.854775808s", "-2562047h47m16.854775808s",
               "2562048h", "0.3333333333333333333h", "0.9223372036854775807h", "0.9223372036854775808h", "0.92233720368547758079h",
               "1." + "0" * 37 + "1s", "0." + "0" * 330 + "1h", "0." + "0" * 310 + "1h", "0." + "0" * 305 + "9h",
               "1.123456789123456789h", "1e3s", "1 s", " 1s", "1S", "1.5.5s", "1..5s", "3000000h", "0.100000000000000000000h",
               "1.0000000000000000000000001h", "0.00000000000000000000001h", "100000000000000000000s", "1.99999999999999999999999h",
               "999h", "never", "0s", "00s", "0.0s", "1m0s", "1h0m0s", "1.000000001s", "922337203685477580.8s", "9223372036.854775808s"]


def _rand_text(rng):
    s = rng.choice(["", "", "", "-", "+"])
    for _ in range(rng.randrange(1, 4)):
        ip = "" if rng.random() < 0.1 else str(rng.randrange(0, 10 ** rng.randrange(1, 21)))
        if rng.random() < 0.4:
            fp = ""
        else:
            fp = "." + "".join(rng.choice("0123456789") for _ in range(rng.choice([0, 1, 2, 3, 6, 9, 12, 15, 17, 18, 19, 20, 21, 25, 30])))
            if rng.random() < 0.1:
                fp = "." + "0" * rng.randrange(0, 40) + fp[1:]
        s += ip + fp + rng.choice(UNITS + ["d", "", "x", "S"])
    if rng.random() < 0.05:
        s = s.replace("s", rng.choice([" s", "\xff", "s "]), 1)
    return s


class DurationMode(vlib.Mode):
    name = "duration"
    shrink_budget = 40

    def generate(self, rng, tier):
        n_fmt, n_txt = (100000, 12000) if tier == "quick" else (1000000, 200000)
        vals = _edge_durations()
        vals += [_rand_duration(rng) for _ in range(n_fmt)]
        lines = [f"fmt {v}" for v in vals]
        lines += ["parse " + hx(t.encode("utf-8", "surrogateescape") if isinstance(t, str) else t) for t in FIXED_TEXTS]
        for _ in range(n_txt):
            t = _rand_text(rng)
            lines.append("parse " + hx(t.encode("utf-8").replace("\xff".encode("utf-8"), b"\xff")))
        rng.shuffle(lines)
        return [lines[i:i + 2000] for i in range(0, len(lines), 2000)]

    def nontrivial(self, case, out):
        return any(l.startswith("fmt ") and l != "fmt 0" for l in case)

    def oracle(self, case, out):
        fails = []
        for l, o in zip(case, out):
            f = l.split(" ")
            if o.startswith("panic") or o.startswith("<<"):
                fails.append(("crash", f"{l} -> {o}")); break
            if f[0] == "fmt":
                p = o.split(" ")
                if len(p) != 3 or p[1] != "ok" or p[2] != f[1]:
                    fails.append(("duration-not-roundtrip", f"Duration({f[1]}).String() = {unhx(p[0]).decode('utf-8', 'replace')!r} parses back as {' '.join(p[1:])}"))
                    break
                r = ref_duration(unhx(p[0]).decode("utf-8", "replace"))
                if r != int(f[1]):
                    fails.append(("duration-text-wrong", f"Duration({f[1]}).String() = {unhx(p[0]).decode('utf-8', 'replace')!r} denotes {r}"))
                    break
            elif f[0] == "parse":
                r = ref_duration(unhx(f[1]).decode("utf-8", "replace"))
                if r is not None and INT64_MIN <= r <= INT64_MAX and o != f"ok {r}":
                    # texts in Duration.String's own format must be read exactly
                    if not (r == INT64_MIN and False):
                        fails.append(("duration-parse-wrong", f"ParseDuration({unhx(f[1])!r}) = {o}, the text denotes {r}"))
                        break
        return fails

    def account(self, stats, case, out):
        k = stats.setdefault("lines", {"fmt": 0, "parse_ok": 0, "parse_err": 0})
        for l, o in zip(case, out):
            if l.startswith("fmt"): k["fmt"] += 1
            elif o.startswith("ok"): k["parse_ok"] += 1
            else: k["parse_err"] += 1

    def describe(self, case):
        outl = []
        for l in case[:40]:
            f = l.split(" ")
            if f[0] == "parse":
                f[1] = repr(unhx(f[1]).decode("utf-8", "replace"))
            outl.append(" ".join(f))
        return outl


# ----------------------------------------------------------------------------- mode: status

ODD_STRINGS = [b"", b"Mozilla/5.0 (X11; Linux x86_64)", b"crossbar", b"internal", b'"', b'a"b\\c', b"\x00", b"\x01\x1f\x7f", b"\n\r\t",
               b"<script>&amp;</script>", "  ".encode(), "\U0001F600 emoji".encode(), "µ ſ K Ü".encode(), b"\xff",
               b"\xc3", b"a\xe2\x82", b"\xed\xa0\x80", b"\xf4\x90\x80\x80", b"\xc0\xaf", b"ok\xffok\xfe", "�".encode(),
               b"10.0.0.1, 192.168.0.7", b"::1", b"null", b"Never", b"x" * 3000, ("é" * 1500).encode(), b"\\u0041", b"\xf0\x9f\x98"]
TOPICS = [b"stats", b"123", b"expt/abc-01", b"", b"a b", "tü".encode(), b"\xfftopic"]
SCOPE_ITEMS = [b"read", b"write", b"stats", b"relay:stats", b"", b"host", b'"q"', b"\xff", b"x" * 200]


def _rand_bytes(rng):
    r = rng.random()
    if r < 0.6:
        return rng.choice(ODD_STRINGS)
    if r < 0.8:
        return bytes(rng.randrange(0, 256) for _ in range(rng.randrange(1, 12)))
    return "".join(chr(rng.choice([rng.randrange(32, 127), rng.randrange(0, 32), rng.randrange(0x80, 0x800), rng.randrange(0x800, 0xD800),
                                   rng.randrange(0xE000, 0x10000), rng.randrange(0x10000, 0x110000)])) for _ in range(rng.randrange(1, 10))).encode("utf-8")


def _rand_scopes(rng):
    r = rng.random()
    if r < 0.12: return "nil"
    if r < 0.25: return "[]"
    return "+".join(hx(rng.choice(SCOPE_ITEMS)) for _ in range(rng.choice([1, 2, 2, 3, 3, 8, 40])))


def _rand_hist(rng, forged_zero=False):
    if forged_zero:
        return "1000:" + ",".join(f"0/{rng.randrange(0, 100)}" for _ in range(rng.randrange(1, 4)))
    if rng.random() < 0.35:
        return "-"
    ago = rng.choice([0, 1, 999, 1000, 1500, 10 ** 6, 10 ** 9, 59 * 10 ** 9, 60 * 10 ** 9, 3600 * 10 ** 9, 3 * 10 ** 15,
                      rng.randrange(0, 10 ** rng.randrange(1, 18)), -3600 * 10 ** 9, -10 ** rng.randrange(10, 18)])
    n = rng.choice([1, 1, 2, 3, 10, 60])
    items = []
    for _ in range(n):
        dt = rng.choice([1, 1000, 10 ** 6, 20 * 10 ** 6, 50 * 10 ** 6, 10 ** 9, rng.randrange(1, 10 ** 10), -5])
        items.append(f"{dt}/{rng.choice([0, 1, 5, 188, 1316, 65536, rng.randrange(0, 10 ** 6)])}")
    if all(it.startswith("-5/") for it in items) or sum(int(it.split('/')[0]) for it in items) == 0:
        items[0] = "1000/" + items[0].split("/")[1]
    return f"{ago}:" + ",".join(items)


EXPIRIES = [-62135596800, YEAR0, YEAR0 + 1, 0, 1, 1700000000, 1700003600, 4102444800, 32503680000, YEAR10000 - 1, YEAR10000 - 2,
            951782400, 68169600 - 86400, -1]


def _client_line(rng, i, exp=None, forged=False):
    exp = rng.choice(EXPIRIES + [rng.randrange(YEAR0, YEAR10000)]) if exp is None else exp
    csec = 1600000000 + i * 1000 + rng.randrange(0, 1000)
    cns = rng.choice([0, 1, 10, 123456789, 999999999, 500000000, 120000000, rng.randrange(0, 10 ** 9)])
    return " ".join(["client", str(i), hx(rng.choice(TOPICS)), rng.choice("01"), rng.choice("01"), str(csec), str(cns), str(exp),
                     hx(_rand_bytes(rng)), _rand_scopes(rng), hx(_rand_bytes(rng)),
                     _rand_hist(rng, forged), _rand_hist(rng)])


LAST_TEXTS = ["Never", "never", "NEVER", " Never ", "never ", "\tnever\n", "nEVER ", " never", "", " ", "Nev er", "never.", "n",
              "0s", "1.5s", " 1.5S ", "1H2M", "2.90373838s", "5.166µs", "5.166μs", "5.166US", "1h0m0.000000001s", "-1.5ms", "999h",
              "1", "s", "1.5", "1 s", "+3m", "9223372036854775807ns", "9223372036854775808ns", "-9223372036854775808ns", "1d",
              "2562047h47m16.854775807s", "\u0085 7ns 　", "​7ns", "7ns​", "7 ns"]


def _split_recs(o):
    """R/F/T line -> (tag, status, [(id, P fields, D fields|None)], extra)"""
    extra = None
    if " # " in o:
        o, extra = o.split(" # ", 1)
    elif o.endswith(" #"):
        o, extra = o[:-2], ""
    p = o.split(" ")
    tag, status = p[0], p[1] if len(p) > 1 else ""
    recs = []
    if len(p) > 2 and p[2] != "-":
        for r in p[2].split(";"):
            q = r.split("|")
            recs.append((q[0], q[1].split(","), q[2].split(",") if len(q) > 2 else None))
    return tag, status, recs, extra


class StatusMode(vlib.Mode):
    name = "status"
    shrinkable = False      # ids are positional and `report` lines are two-phase; cases are small already

    def corpus(self):
        """exactly one deliberate K4 case: a member whose (correctly signed, issuer-chosen) token expires
        after year 9999 makes the published client drop the whole report array"""
        return [["client 0 7374617473 1 1 1700000000 1 -62135596800 696e7465726e616c 72656164+7374617473+7772697465 63726f7373626172 - -",
                 f"client 1 313233 1 1 1700000001 2 {YEAR10000} - 72656164+7772697465 476f2d687474702d636c69656e742f312e31 - 1000000:20000000/5",
                 "client 2 313233 1 0 1700000002 3 1700003600 - 72656164 - 2000000:20000000/7 -",
                 "report", "rest"]]

    def generate(self, rng, tier):
        n, n_frame, n_forged = (600, 6, 4) if tier == "quick" else (25000, 40, 60)
        cases = []
        for ci in range(n):
            k = rng.choice([0, 1, 1, 2, 3, 3, 4, 6])
            case = [_client_line(rng, i) for i in range(k)]
            case.append("report")
            if rng.random() < 0.6: case.append("rest")
            if ci < n_frame: case.append("frame")
            if rng.random() < 0.3: case.append("report")
            cases.append(case)
        for _ in range(n_forged):     # excluded point: non-finite fps (forged statistics) -> json.Marshal fails
            k = rng.randrange(1, 4)
            z = rng.randrange(0, k)
            case = [_client_line(rng, i, forged=(i == z)) for i in range(k)] + ["report", "rest"]
            cases.append(case)
        # statistics decoding and instants
        m = 40 if tier == "quick" else 1500
        for _ in range(m):
            case = []
            for _ in range(40):
                r = rng.random()
                if r < 0.3:
                    case.append("stat " + hx(rng.choice(LAST_TEXTS).encode()))
                elif r < 0.45:
                    t = _rand_text(rng).replace("\xff", "")
                    if rng.random() < 0.5: t = rng.choice(["", " ", "\t", " "]) + "".join(c.upper() if c < "\x80" else c for c in t) + rng.choice(["", " ", "\n"])
                    if any(ord(c) > 127 and c not in "µμ " for c in t): t = "1s"
                    case.append("stat " + hx(t.encode()))
                elif r < 0.55:
                    d = _rand_duration(rng)
                    case.append("stat " + hx(self._go_duration_text(d).encode()))
                elif r < 0.7:
                    case.append("statn " + str(rng.choice([0, 1, -1, 3600 * 10 ** 9, INT64_MAX, INT64_MIN, INT64_MAX + 1, INT64_MIN - 1,
                                                          10 ** 30, _rand_duration(rng)])))
                elif r < 0.72:
                    case.append("statnull")
                else:
                    sec = rng.choice([YEAR0, YEAR0 - 1, YEAR10000, YEAR10000 - 1, -62135596800, 0, 951782400, 951782399, 951868800,
                                      4107542400 - 1, 4107542400, 1709164800, 1709251199, 1709251200, -2208988800, 2 ** 40, -2 ** 40,
                                      rng.randrange(YEAR0 - 10 ** 9, YEAR10000 + 10 ** 9), rng.randrange(YEAR0, YEAR10000),
                                      days_from_civil(rng.randrange(0, 10000), rng.choice([1, 2, 2, 3, 12]), rng.choice([1, 28, 29, 31])) * 86400 + rng.choice([0, 86399, -1])])
                    case.append(f"time {sec} {rng.choice([0, 1, 100, 999999999, 120000000, rng.randrange(0, 10 ** 9)])}")
            cases.append(case)
        return cases

    @staticmethod
    def _go_duration_text(d):
        """Duration.String written independently (used only to generate inputs)"""
        u = abs(d)
        neg = "-" if d < 0 else ""
        def frac(v, prec):
            s = str(v % 10 ** prec).rjust(prec, "0").rstrip("0") if prec else ""
            return ("." + s) if s else ""
        if u == 0: return "0s"
        if u < 10 ** 3: return f"{neg}{u}ns"
        if u < 10 ** 6: return f"{neg}{u // 10 ** 3}{frac(u, 3)}µs"
        if u < 10 ** 9: return f"{neg}{u // 10 ** 6}{frac(u, 6)}ms"
        w = u // 10 ** 9
        s = f"{w % 60}{frac(u, 9)}s"
        if w // 60: s = f"{w // 60 % 60}m" + s
        if w // 3600: s = f"{w // 3600}h" + s
        return neg + s

    def timeout(self, tier):
        return 900 if tier == "quick" else 3600

    # ---- two-phase protocol: the model is told the time-dependent / float values the implementation produced
    def to_model(self, case, impl_out):
        out = []
        for l, o in zip(case, impl_out + ["<<missing>>"] * (len(case) - len(impl_out))):
            if l in ("report", "frame", "rest"):
                tag, status, recs, extra = _split_recs(o) if o[:2] in ("R ", "F ", "T ") else ("", "", [], None)
                obs = []
                if l == "rest":
                    lasts = {r[0]: (r[1][8], r[1][11]) for r in recs if len(r[1]) >= 14}
                    for x in (extra or "").split():
                        q = x.split(":")
                        if len(q) == 5:
                            tl, rl = lasts.get(q[0], ("3073", "3073"))
                            obs.append(":".join([q[0], tl, q[1], q[2], rl, q[3], q[4]]))
                else:
                    for r in recs:
                        if len(r[1]) >= 14:
                            P = r[1]
                            obs.append(":".join([r[0], P[8], P[9], P[10], P[11], P[12], P[13]]))
                out.append(" ".join([l] + obs))
            else:
                out.append(l)
        return out

    def project(self, case, impl_out):
        res = []
        for o in impl_out:
            if o[:2] in ("R ", "F ", "T "):
                o = o.split(" # ")[0]
                if o.endswith(" #"): o = o[:-2]
                p = o.split(" ")
                if len(p) > 1 and p[1].startswith("reject"):
                    p[1] = "reject"
                if len(p) > 1 and p[1] == "marshal-error":
                    p = p[:2]
                o = " ".join(p)
            res.append(o)
        return res

    def nontrivial(self, case, out):
        cl = [l.split(" ") for l in case if l.startswith("client ")]
        return (any(c[11] == "-" or c[12] == "-" for c in cl) and any(c[11] != "-" or c[12] != "-" for c in cl)) or \
            any(l.startswith(("stat ", "time ")) for l in case)

    # ---- the property on the implementation's own answers
    def _check_stats(self, where, hist, Plast, Psize, Pfps, D, rest):
        """D = [last, size, fps, never]"""
        fails = []
        last_text = unhx(Plast).decode("utf-8", "replace")
        if hist == "-":
            if last_text != "Never":
                fails.append(("report-wrong", f"{where}: no traffic but last={last_text!r}"))
            if D is not None and (D[3] != "1" or int(D[0]) != NEVER_NS or D[1] != "0" or D[2] != "0"):
                fails.append(("decoded-differs", f"{where}: never-used direction decoded as {D}"))
            return fails
        ago = int(hist.split(":")[0])
        items = [tuple(int(x) for x in it.split("/")) for it in hist.split(":")[1].split(",")]
        d = ref_duration(last_text)
        if d is None:
            fails.append(("report-wrong", f"{where}: last={last_text!r} is not a duration text"))
            return fails
        if not (ago <= d <= ago + 300 * 10 ** 9):
            fails.append(("report-wrong", f"{where}: last message {ago} ns ago but last={last_text!r}"))
        mean_sz = sum(s for _, s in items) / len(items)
        mean_dt = sum(t for t, _ in items) / len(items)
        if not rest:
            sz = _f64(int(Psize))
            if abs(sz - mean_sz) > 0.5 + 1e-6 * max(1.0, mean_sz) or sz != math.floor(sz):
                fails.append(("report-wrong", f"{where}: size={sz} but mean message size is {mean_sz}"))
            fps = _f64(int(Pfps))
            if mean_dt != 0 and not math.isclose(fps, 1e9 / mean_dt, rel_tol=1e-9):
                fails.append(("report-wrong", f"{where}: fps={fps} but mean inter-arrival is {mean_dt} ns"))
        if D is not None:
            if D[3] != "0" or int(D[0]) != d:
                fails.append(("decoded-differs", f"{where}: last={last_text!r} ({d} ns) decoded as last={D[0]} never={D[3]}"))
            if D[1] != Psize or D[2] != Pfps:
                fails.append(("decoded-differs", f"{where}: size/fps bits {Psize}/{Pfps} decoded as {D[1]}/{D[2]}"))
        return fails

    def oracle(self, case, out):
        fails = []
        clients = {}
        forged = False
        for l, o in zip(case, out):
            f = l.split(" ")
            if o.startswith("panic") or o.startswith("<<"):
                fails.append(("crash", f"{l} -> {o}")); break
            if f[0] == "client":
                clients[f[1]] = f
                for h in (f[11], f[12]):
                    if h != "-" and sum(int(it.split("/")[0]) for it in h.split(":")[1].split(",")) == 0:
                        forged = True
            elif f[0] in ("report", "frame", "rest"):
                tag, status, recs, extra = _split_recs(o)
                rest = f[0] == "rest"
                beyond = [c[1] for c in clients.values() if not (YEAR0 <= int(c[7]) < YEAR10000)]
                if status == "marshal-error":
                    if not forged:
                        fails.append(("report-not-marshalled", f"{l}: json.Marshal / the JSON producer refused the reports"))
                    continue
                if status in ("badjson", "length-mismatch") or status.startswith("code-"):
                    fails.append(("invalid-json", f"{l}: {o[:200]}")); continue
                if status.startswith("reject"):
                    if status == "reject:parsing-time" and beyond and not rest:
                        fails.append(("K4-expiry-beyond-9999", f"member(s) {beyond} have a token expiry outside years 0..9999: expiresAt is \"\" and "
                                      f"the published client rejects the whole array of {len(recs)} reports ({status})"))
                    else:
                        fails.append(("reports-rejected", f"{l}: the published client rejects the whole array ({status})"))
                    continue
                if status != "ok":
                    fails.append(("bad-output", o[:200])); continue
                if sorted(r[0] for r in recs) != sorted(clients, key=int) and sorted(r[0] for r in recs) != sorted(clients):
                    fails.append(("listing-differs", f"{l}: reports for {[r[0] for r in recs]}, members {sorted(clients)}")); continue
                for rid, P, D in recs:
                    c = clients[rid]
                    w = f"{f[0]} member {rid}"
                    want = [coerced_hex(c[2]), c[3], c[4]]
                    exp_in = YEAR0 <= int(c[7]) < YEAR10000
                    # produced part (for rest: as read back by the REST model type itself)
                    ct, et = ref_time(unhx(P[3]).decode("ascii", "replace")), ref_time(unhx(P[4]).decode("ascii", "replace"))
                    scopes_want = c[9] if c[9] in ("nil", "[]") else "+".join(coerced_hex(h) for h in c[9].split("+"))
                    if P[0:3] != want or P[5] != coerced_hex(c[8]) or P[6] != scopes_want or P[7] != coerced_hex(c[10]) or \
                            ct != (int(c[5]), int(c[6])) or (exp_in and et != (int(c[7]), 0)) or (not exp_in and P[4] != "-"):
                        fails.append(("report-wrong", f"{w}: produced {P[:8]} for member {c[2:11]}"))
                    fails += self._check_stats(w + " tx", c[11], P[8], P[9], P[10], D[10:14] if D else None, rest)
                    fails += self._check_stats(w + " rx", c[12], P[11], P[12], P[13], D[14:18] if D else None, rest)
                    if D is None:
                        continue
                    if rest:
                        # pkg/status recognises only the names shared with the REST schema
                        got = [D[0], D[3], D[4], D[8]]
                        exp_ = [want[0], c[5], c[6], scopes_want]
                    else:
                        got = D[0:10]
                        exp_ = want + [c[5], c[6], c[7], "0", coerced_hex(c[8]), scopes_want, coerced_hex(c[10])]
                    if got != exp_:
                        fails.append(("decoded-differs", f"{w}: decoded {got} but the member has {exp_}"))
            elif f[0] == "stat":
                t = unhx(f[1]).decode("utf-8", "replace")
                if all(ord(ch) < 128 for ch in t):
                    n = t.lower().strip(" \t\n\r\x0b\x0c")
                    if n in ("never", ""):
                        if not o.startswith(f"ok {NEVER_NS} 1 "):
                            fails.append(("statistics-decode", f"last={t!r} decoded as {o}"))
                    else:
                        d = ref_duration(n)
                        if d is not None and INT64_MIN <= d <= INT64_MAX and not o.startswith(f"ok {d} 0 "):
                            fails.append(("statistics-decode", f"last={t!r} decoded as {o}"))
            elif f[0] == "statn":
                v = int(f[1])
                if INT64_MIN <= v <= INT64_MAX and not o.startswith(f"ok {v} 0 "):
                    fails.append(("statistics-decode", f"numeric last={v} decoded as {o}"))
            elif f[0] == "time":
                sec, ns = int(f[1]), int(f[2])
                if YEAR0 <= sec < YEAR10000:
                    p = o.split(" ")
                    if len(p) != 3 or p[1:] != [str(sec), str(ns)] or ref_time(unhx(p[0]).decode("ascii", "replace")) != (sec, ns):
                        fails.append(("time-not-roundtrip", f"instant {sec}.{ns:09d} -> {o}"))
                elif o != "err":
                    fails.append(("time-range", f"instant {sec} is outside years 0..9999 but MarshalText gave {o}"))
            if len(fails) > 5:
                break
        return fails

    def describe(self, case):
        outl = []
        for l in case:
            f = l.split(" ")
            if f[0] == "client":
                for i in (2, 8, 10):
                    f[i] = repr(unhx(f[i]))[1:][:60]
                if f[9] not in ("nil", "[]"):
                    f[9] = "[" + ",".join(repr(unhx(h))[1:][:20] for h in f[9].split("+")[:6]) + "]"
            elif f[0] == "stat":
                f[1] = repr(unhx(f[1]).decode("utf-8", "replace"))
            outl.append(" ".join(f)[:300])
        return outl


def _f64(bits):
    import struct
    return struct.unpack("<d", struct.pack("<Q", bits))[0]


def codec_modes(tier):
    return [DurationMode(), StatusMode()]


from relaycommon import RelayMode

MEMBER_THEOREMS = [("Relay.status_lists_exactly_members", "Relay.Props.C14Members"), ("Relay.gone_not_reported", "Relay.Props.C14Members"),
                   ("Relay.run_inv_info", "Relay.Props.C14Members"), ("Access.client_bound_to_token", "Relay.Props.C01")]
MEMBER_RULE = (" | membership half: relay mode (see C01) — after every history prefix GET /status with a relay:stats token must list exactly "
               "the joined connections plus the stats feeder, each with its topic, read/write capability, scopes, expiry, user agent and "
               "forwarded address (compared with the python reference and with the Lean model's report).")

RULE = CODEC_RULE + MEMBER_RULE + RELAYMAIN_RULE
ASSUMPTIONS = CODEC_ASSUMPTIONS + ["'within one reporting interval' for the stats topic is not exhibited (the stats feeder's 1 s rate limit and statsEvery timer are real-time); the REST report is computed synchronously from the membership table",
                                   "GET /status uses snake_case member names by its API specification; the published pkg/status client reads the stats-topic (camelCase) format only — decoding the REST body with it keeps only the shared names (proved as rest_decoded_by_status_client; not an alarm)"]
THEOREMS = CODEC_THEOREMS + MEMBER_THEOREMS


class LagMode(vlib.Mode):
    """a stats-topic listener that is one report behind (its queue holds the previous report by reference while the
    feeder produces the next): the report it eventually reads must be the one that was handed on (implementation only)"""
    name = "status-lag"
    impl_mode = "status"
    compare = False
    shrinkable = False

    def generate(self, rng, tier):
        return [["lagframes"] for _ in range(2 if tier == "quick" else 8)]

    def oracle(self, case, out):
        o = out[0] if out else ""
        if o == "lag ok": return []
        if o.startswith("lag first-report-changed"):
            return [("stats-report-changed-after-handoff", "a stats report still queued at a lagging listener was overwritten by the next report: " + o)]
        return [("stats-feeder-not-reporting", f"lagging-listener scenario -> {o}")]

    def nontrivial(self, case, out):
        return bool(out) and out[0].startswith("lag ")


def modes(tier):
    return codec_modes(tier) + [RelayMode("C14"), LagMode(), RelayMainMode("C14", 2), StatusLoadMode()]

from lagcommon import StatusLoadMode, STATUSLOAD_RULE
RULE = RULE + STATUSLOAD_RULE
