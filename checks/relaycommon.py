"""Loopback relay mode shared by C01, C09, C11 (and the socket-level parts of C04/C05/C13/C14): the real access API and
crossbar wired as relay.Relay wires them, one fresh instance per case, under a virtual clock."""
import re
import vlib
from vlib import hx, unhx

HOST = "https://access.example.io"
TARGET = "wss://relay.example.io"
TOPICS = ["t1", "t2", "stats", "t1x", "T1", "t-1_a"]     # "stats" is the relay's own reporting topic: scopes and isolation hold there too
BIDS = ["b1", "b2", "b3"]
ZERO = -62135596800


def sval(s): return "s" + hx(s)
def lval(xs): return "l" + ",".join(hx(x) for x in xs)


def tok(now, **o):
    d = dict(alg="HS256", sig="good", exp=f"i{now + 3600}", nbf=f"i{now - 1000}", iat=f"i{now - 1000}", aud=lval([HOST]),
             scopes=lval(["read", "write"]), topic=sval("t1"), prefix=sval("session"), bid=sval("b1"))
    d.update(o)
    return ";".join(f"{k}={v}" for k, v in d.items())


def parse_tok(spec):
    """python twin of the credential record, used only by the oracle"""
    if spec == "-" or spec in ("raw:-", "raw:"):
        return None
    if spec.startswith("raw:"):
        return dict(wf=False)
    kv = dict(p.split("=", 1) for p in spec.split(";"))
    def tclaim(v):
        if v in ("", "a"): return ("ok", None)
        if v[0] == "i": return ("ok", int(v[1:]))
        if v[0] == "f":
            import math
            return ("ok", math.floor(float(v[1:])))     # whole seconds, rounded down (also before the epoch)
        return ("bad", None)
    def sclaim(v):
        if v in ("", "a"): return ("ok", "")
        if v[0] == "s": return ("ok", unhx(v[1:]).decode("utf-8", "replace"))
        return ("bad", None)
    def lst(v, allow_s):
        if v in ("", "a"): return ("ok", [])
        if v[0] == "l": return ("ok", [unhx(x).decode("utf-8", "replace") for x in v[1:].split(",") if x != ""] if v[1:] else [])
        if v[0] == "s" and allow_s: return ("ok", [unhx(v[1:]).decode("utf-8", "replace")])
        return ("bad", None)
    fields = dict(exp=tclaim(kv.get("exp", "a")), nbf=tclaim(kv.get("nbf", "a")), iat=tclaim(kv.get("iat", "a")),
                  aud=lst(kv.get("aud", "a"), True), scopes=lst(kv.get("scopes", "a"), False),
                  topic=sclaim(kv.get("topic", "a")), prefix=sclaim(kv.get("prefix", "a")), bid=sclaim(kv.get("bid", "a")))
    if kv.get("aud", "a") == "l": fields["aud"] = ("ok", [])
    wf = all(v[0] == "ok" for v in fields.values())
    b = {k: v[1] for k, v in fields.items()}
    alg = kv.get("alg")
    b.update(wf=wf, hmac=alg in ("HS256", "HS384", "HS512"), sig=kv.get("sig") == "good")
    return b


def header_valid(b, now):
    """'currently valid token': HMAC-signed with the secret, inside nbf/exp, addressed to this relay's audience"""
    if b is None or not b.get("wf"): return False
    if not (b["hmac"] and b["sig"]): return False
    if b["exp"] is not None and not now < b["exp"]: return False
    if b["iat"] is not None and not b["iat"] <= now: return False
    if b["nbf"] is not None and not b["nbf"] <= now: return False
    aud = b["aud"]
    return bool(aud) and any(a == HOST for a in aud) and not all(a == "" for a in aud)


def session_valid(b, now, pid, allow_nobid, denied):
    return (header_valid(b, now) and b["topic"] != "" and b["scopes"] and b["prefix"] != "" and b["exp"] is not None
            and b["exp"] != ZERO and b["iat"] is not None and b["nbf"] is not None and b["topic"] == pid
            and (b["bid"] != "" or allow_nobid) and b["bid"] not in denied)


def admin_valid(b, now, scope):
    return header_valid(b, now) and bool(b["scopes"]) and b["exp"] is not None and b["exp"] != ZERO and scope in b["scopes"]


DEFECTS = [
    ("sig=badsecret", dict(sig="badsecret")), ("sig=tampered", dict(sig="tampered")), ("sig=empty", dict(sig="empty")),
    ("alg=none", dict(alg="none", sig="empty")), ("alg=none+sig", dict(alg="none")), ("alg=RS256", dict(alg="RS256")),
    ("alg=unknown", dict(alg="HS999")), ("exp=absent", dict(exp="a")), ("exp=now", "exp=now"), ("exp=now-1", "exp=now-1"),
    ("exp=now+1", "exp=now+1"), ("exp=frac", "exp=frac"), ("exp=string", dict(exp=sval("soon"))), ("exp=0", dict(exp="i0")),
    ("nbf=now+1", "nbf=now+1"), ("nbf=now", "nbf=now"), ("nbf=absent", dict(nbf="a")), ("iat=now+5", "iat=now+5"),
    ("iat=absent", dict(iat="a")), ("aud=other", dict(aud=lval(["https://other.example.io"]))), ("aud=absent", dict(aud="a")),
    ("aud=string", dict(aud=sval(HOST))), ("aud=multi", dict(aud=lval(["x", HOST]))), ("aud=emptylist", dict(aud="l")),
    ("aud=emptystrings", dict(aud=lval(["", ""]))), ("aud=prefix", dict(aud=lval([HOST + "/"]))), ("aud=number", dict(aud="i5")),
    ("scopes=absent", dict(scopes="a")), ("scopes=string", dict(scopes=sval("read"))), ("scopes=empty", dict(scopes="l")),
    ("topic=absent", dict(topic="a")), ("topic=number", dict(topic="i7")), ("prefix=absent", dict(prefix="a")),
    ("bid=absent", dict(bid="a")), ("alg=HS384", dict(alg="HS384")), ("alg=HS512", dict(alg="HS512")),
    # tokens of the other connection type presented at /session/…: their scopes (host / client) carry no read/write capability
    ("prefix=shell+host", dict(prefix=sval("shell"), scopes=lval(["host"]))), ("prefix=shell+client", dict(prefix=sval("shell"), scopes=lval(["client"]))),
    ("prefix=shell+rw", dict(prefix=sval("shell"))), ("prefix=Session", dict(prefix=sval("Session"))),
]


def apply_defect(rng, now, base, name_spec):
    name, spec = name_spec
    if isinstance(spec, dict):
        base.update(spec)
    elif spec == "exp=now": base["exp"] = f"i{now}"
    elif spec == "exp=now-1": base["exp"] = f"i{now - 1}"
    elif spec == "exp=now+1": base["exp"] = f"i{now + 1}"
    elif spec == "exp=frac": base["exp"] = f"f{now + rng.choice([0, 1, 50])}.{rng.choice([5, 25, 999])}"
    elif spec == "nbf=now+1": base["nbf"] = f"i{now + 1}"
    elif spec == "nbf=now": base["nbf"] = f"i{now}"
    elif spec == "iat=now+5": base["iat"] = f"i{now + 5}"
    return base


SCOPESETS = [["read", "write"], ["read"], ["write"], ["read", "write", "extra"], ["Read"], ["relay:admin"], ["read ", "writer"],
             ["write", "relay:stats"], ["host"], ["read", "read"], ["write", "write"], ["read", "read", "read"], ["read", "write", "read"],
             ["write", "read", "write", "write"], ["thread"], ["readonly"], ["rewrite"], ["read", "overwrite:config"], ["writer", "bread"], ["READ", "WRITE"]]
ADMIN_SCOPES = [["relay:admin"], ["relay:admin", "read"], ["relay:admin "], ["Relay:Admin"], ["relay:admins"], ["admin"],
                ["relay:stats"], ["read", "write"], ["relay:stats", "relay:admin"], ["relay:admin:x"], ["relay:admin:"], ["relay:stats:x"], ["relay:stats:"],
                ["relay"], ["relay:"], [":admin"], ["relay::admin"], ["xrelay:admin"], ["relay:admin,relay:stats"], ["relay:*"], ["*"], [""],
                # repeated entries (a scope LIST, not a set: counting or summing them must not turn ordinary scopes into privileged ones)
                ["relay:stats", "relay:stats"], ["relay:stats"] * 3, ["write"] * 16, ["read"] * 16, ["read"] * 32, ["host"] * 4 + ["client"] * 2,
                ["read", "write"] * 8, ["client"] * 4, ["host"] * 8, ["read"] * 2 + ["write"] * 15, ["relay:stats", "read"] * 2]
WS_PATHS = [("/session/{t}", True), ("/session/{t}/", True), ("/shell/{t}", False), ("/{t}", False), ("/session/{t}!x", True),
            ("/sessionx/{t}", False), ("/session/{t}x", True), ("/session/{t}/more", True), ("/Session/{t}", False)]


def record(widx, seq, payload):
    body = bytes([0xAB, widx % 256, seq % 256, len(payload) % 256]) + payload
    return body + bytes([sum(body) % 256])


def parse_records(bs):
    """-> list of (writer, seq) or None if the stream is not a sequence of whole intact records"""
    out, i = [], 0
    while i < len(bs):
        if i + 5 > len(bs) or bs[i] != 0xAB: return None
        ln = bs[i + 3]
        end = i + 4 + ln + 1
        if end > len(bs): return None
        if sum(bs[i:end - 1]) % 256 != bs[end - 1]: return None
        out.append((bs[i + 1], bs[i + 2]))
        i = end
    return out


class RelayMode(vlib.Mode):
    name = "relay"
    chunk = 60
    shrink_budget = 40
    focus = None
    settle_prob = 0.15

    def __init__(self, focus, profile="mixed"):
        super().__init__()
        self.focus, self.profile = focus, profile

    def timeout(self, tier):
        return 900 if tier == "quick" else 3000

    # ------------------------------------------------------------------ generation
    def generate(self, rng, tier):
        n = {"quick": 90, "thorough": 2500}[tier]
        return [self.gen_case(rng) for _ in range(n)] + [self.gen_volume_case(rng) for _ in range(1 if tier == "quick" else 4)]

    def gen_volume_case(self, rng):
        """many bookings and many outstanding codes at once (thresholds, housekeeping that only starts at a size)"""
        now = 1000000 + rng.randrange(0, 5000)
        case = ["config 0 256", f"now {now}"]
        admin = tok(now, scopes=lval(["relay:admin"]), topic="a", prefix="a", bid="a")
        nb = rng.choice([260, 300, 520])
        for i in range(nb):
            case.append(f"deny {admin} {sval(f'vb{i}')} {sval(str(now + 400 + (i % 7)))}")
        case.append(f"listdeny {admin}")
        for i in range(0, nb, 5):
            case.append(f"allow {admin} {sval(f'vb{i}')} {sval(str(now + 500))}")
        case.append(f"listdeny {admin}"); case.append(f"listallow {admin}")
        t = TOPICS[0]
        ncodes = 0
        for i in range(rng.choice([130, 270])):
            b = f"vb{i}" if i % 3 == 0 else f"ok{i}"
            case.append(f"session {tok(now, topic=sval(t), bid=sval(b), scopes=lval(['read', 'write']))} {hx(t)}")
            if not (i % 3 == 0 and i % 5 != 0): ncodes += 1
        for k in range(0, min(ncodes, 12)):
            case.append(f"ws {hx('/session/' + t)} c{k * 7 % max(ncodes, 1)}")
        case.append(f"now {now + 31}")
        case.append(f"ws {hx('/session/' + t)} c{max(ncodes - 1, 0)}")
        case.append(f"session {tok(now + 31, topic=sval(t), bid=sval('ok-last'), scopes=lval(['read']))} {hx(t)}")
        case.append("sync"); case.append("members")
        return case

    def gen_case(self, rng):
        allow_nobid = rng.random() < 0.3
        now = 1000000 + rng.randrange(0, 5000)
        case = [f"config {int(allow_nobid)} 256", f"now {now}"]
        st = dict(now=now, codes=[], conns=[], denied=set(), nconn=0)   # generator-side bookkeeping (not an oracle)
        admin = lambda **o: tok(st["now"], scopes=lval(["relay:admin"]), topic="a", prefix="a", bid="a", **o)
        stats = lambda **o: tok(st["now"], scopes=lval(["relay:stats"]), topic="a", prefix="a", bid="a", **o)
        if rng.random() < 0.5:
            # traffic-focused opening: several connections with different scope sets on one or two topics
            tops = rng.sample(TOPICS[:3], rng.choice([1, 2]))
            for _ in range(rng.choice([2, 3, 4, 5])):
                t, b = rng.choice(tops), rng.choice(BIDS)
                sc = rng.choice([["read", "write"], ["read", "write"], ["read"], ["write"], ["write", "x"], ["read", "relay:stats"],
                                 ["read", "read"], ["write", "write"], ["read", "read", "read"], ["thread", "write"], ["read", "rewrite"]])
                case.append(f"session {tok(now, topic=sval(t), bid=sval(b), scopes=lval(sc))} {hx(t)}")
                meta = (" " + hx(rng.choice(["y" * 300, ("Mozilla/5.0 " + "(KHTML, like Gecko) " * 30).strip(), "z" * 257])) + " " + hx(", ".join(f"10.1.{i}.{i}" for i in range(40)))) if rng.random() < 0.3 else ""
                case.append(f"ws {hx('/session/' + t)} c{len(st['codes'])}{meta}")
                st["codes"].append(t); st["joined"] = st.get("joined", 0) + 1
            if rng.random() < 0.5:
                case.append(f"status {stats()}")       # what /status says about the connections just made (metadata verbatim)
        if rng.random() < 0.12:
            # cancel, re-admit, reconnect, cancel AGAIN: the second cancellation of the same booking must close the new connections too
            t, b = rng.choice(TOPICS[:2]), rng.choice(BIDS)
            for rnd in range(rng.choice([2, 3])):
                for _ in range(rng.choice([1, 2])):
                    case.append(f"session {tok(now, topic=sval(t), bid=sval(b), scopes=lval(['read', 'write']))} {hx(t)}")
                    case.append(f"ws {hx('/session/' + t)} c{len(st['codes'])}")
                    st["codes"].append(t); st["joined"] = st.get("joined", 0) + 1
                case.append(f"deny {admin()} {sval(b)} {sval(str(now + 500))}"); case.append("sync")
                if rng.random() < 0.3:       # the booking system repeats its cancellation
                    case.append(f"deny {admin()} {sval(b)} {sval(str(now + 500))}"); case.append("sync")
                case.append("members")
                case.append(f"allow {admin()} {sval(b)} {sval(str(now + 500))}"); case.append("sync")
        if rng.random() < 0.08:
            # booking churn inside one code lifetime: a long-lived code, the booking's allow entry shortened by a second session, pruned away,
            # then the booking cancelled and re-admitted: the first code must be dead (cancelled with the booking), whatever the allow list held
            t, b = rng.choice(TOPICS[:2]), rng.choice(BIDS)
            case.append(f"session {tok(now, topic=sval(t), bid=sval(b), scopes=lval(['read', 'write']))} {hx(t)}")
            a_code = len(st["codes"]); st["codes"].append(t)
            case.append(f"session {tok(now, topic=sval(t), bid=sval(b), scopes=lval(['read']), exp=f'i{now + 2}')} {hx(t)}")
            st["codes"].append(t)
            st["now"] = now = now + rng.choice([3, 6, 9])
            case.append(f"now {now}")
            if rng.random() < 0.8: case.append("prune")
            case.append(f"deny {admin()} {sval(b)} {sval(str(now + 500))}"); case.append("sync")
            if rng.random() < 0.8:
                case.append(f"allow {admin()} {sval(b)} {sval(str(now + 500))}"); case.append("sync")
            case.append(f"ws {hx('/session/' + t)} c{a_code}")
            case.append("members")
        steps = rng.choice([6, 10, 16, 24])
        used = []     # request lines issued so far with a token that was built valid: replayed verbatim later (possibly after the clock moved)
        for _ in range(steps):
            r = rng.random()
            now = st["now"]
            if used and rng.random() < 0.07:
                line = rng.choice(used)
                case.append(line)
                if line.split(" ")[0] in ("deny", "allow"): case.append("sync")
                continue
            if rng.random() < 0.05:
                # a token of the other connection type (its scopes carry no read/write capability) presented at /session/…, then its code used
                t, b = rng.choice(TOPICS[:3]), rng.choice(BIDS)
                cred = tok(now, topic=sval(t), bid=sval(b), prefix=sval("shell"), scopes=lval(rng.choice([["host"], ["client"], ["host", "client"], ["host", "read"]])))
                case.append(f"session {cred} {hx(t)}")
                if b not in st["denied"]:
                    st["codes"].append(t)
                    case.append(f"ws {hx('/session/' + t)} c{len(st['codes']) - 1}")
                    if "72656164" in cred.split("scopes=")[1].split(";")[0]: st["joined"] = st.get("joined", 0) + 1
                continue
            if r < 0.30:      # session request, valid or with one/two defects
                t, b = rng.choice(TOPICS[:3]), rng.choice(BIDS)
                base = dict(topic=sval(t), bid=sval(b), scopes=lval(rng.choice(SCOPESETS[:4] if rng.random() < 0.7 else SCOPESETS)))
                k = rng.random()
                if k < 0.45: pass
                elif k < 0.9: apply_defect(rng, now, base, rng.choice(DEFECTS))
                else:
                    apply_defect(rng, now, base, rng.choice(DEFECTS)); apply_defect(rng, now, base, rng.choice(DEFECTS))
                pid = t if rng.random() < 0.85 else rng.choice(TOPICS + ["", "t1/x"])
                cred = tok(now, **base) if rng.random() < 0.95 else rng.choice(["-", "raw:" + hx("garbage"), "raw:" + hx("a.b.c"), "raw:" + hx("Bearer x")])
                case.append(f"session {cred} {hx(pid)}")
                # generator-side guess (never used to judge): was a code probably issued, and for which topic?
                if (k < 0.45 or "prefix=s" + hx("shell") in cred or "prefix=s" + hx("Session") in cred) and pid == t and cred.startswith("alg=") and b not in st["denied"] \
                        and cred.count("sig=good") == 1 and "alg=HS256" in cred:
                    st["codes"].append(t)
            elif r < 0.50:    # websocket attempt
                tmpl, _ = rng.choice(WS_PATHS) if rng.random() < 0.3 else WS_PATHS[0]
                ncodes = len(st["codes"])
                if ncodes and rng.random() < 0.8:
                    k = rng.randrange(ncodes) if rng.random() < 0.3 else ncodes - 1 - rng.randrange(min(3, ncodes))
                    t = st["codes"][k] if rng.random() < 0.9 else rng.choice(TOPICS[:3])
                    ref = f"c{k}"
                else:
                    t = rng.choice(TOPICS[:3]); ref = rng.choice(["-", "x", f"c{ncodes + rng.randrange(3)}"])
                meta = ""
                if rng.random() < 0.35:     # client-controlled metadata of unusual size/content (reported verbatim by /status and the stats topic)
                    # (no leading/trailing blanks: HTTP itself strips optional whitespace around header values — not the relay's doing)
                    ua = rng.choice(["Mozilla/5.0 (X11; Linux x86_64) " + "AppleWebKit/537.36 " * rng.choice([1, 12, 40]), "x" * rng.choice([255, 256, 257, 1000, 4000]), "y" * rng.choice([257, 300, 2048]),
                                     "ua with \"quotes\" and \\ backslash", "tab\there", "ü-agent/1.0", "inner  double  blanks", "a"]).strip()
                    meta = " " + hx(ua)
                    if rng.random() < 0.5:
                        meta += " " + hx(rng.choice([", ".join(f"10.{i}.{i * 7 % 250}.{i * 13 % 250}" for i in range(rng.choice([2, 20, 60]))), "::1", "unknown", "1.2.3.4, evil\"quote"]))
                case.append(f"ws {hx(tmpl.format(t=t))} {ref}{meta}")
                if ref.startswith("c") and tmpl == WS_PATHS[0][0]: st["joined"] = st.get("joined", 0) + 1
            elif r < 0.62:    # traffic
                nj = st.get("joined", 0)
                if nj:
                    w = rng.randrange(nj)
                    for q in range(rng.choice([1, 1, 2, 4, 9])):
                        st["nconn"] += 1
                        payload = bytes(rng.randrange(256) for _ in range(rng.choice([0, 1, 3, 20, 200])))
                        if rng.random() < 0.08:
                            case.append(f"send n{w} - {rng.choice([1, 2])}")      # a zero-length websocket frame (legal)
                        case.append(f"send n{w} {hx(record(w, st['nconn'], payload))} {rng.choice([1, 2])}")
                    case.append("sync")
            elif r < 0.72:    # deny / allow
                verb = rng.choice(["deny", "deny", "allow"])
                cred = admin() if rng.random() < 0.6 else rng.choice([
                    tok(now, scopes=lval(rng.choice(ADMIN_SCOPES)), topic="a", prefix="a", bid="a"),
                    admin(sig="badsecret"), admin(exp=f"i{now}"), admin(exp="a"), admin(aud=lval(["nope"])), "-", tok(now),
                    admin(iat="a"), admin(iat="a"), admin(nbf="a"), admin(iat="a", nbf="a"), admin(nbf=f"i{now + 3600}"), admin(nbf=f"i{now + 1}"),
                    admin(iat=f"i{now + 3600}")])
                bid = rng.choice([sval(rng.choice(BIDS))] * 6 + ["a", "s-"])
                exp = rng.choice([sval(str(now + 500))] * 5 + [sval(str(now)), sval(str(now - 1)), "a", sval("abc"), sval("-5"),
                                                                   sval("9223372036854775808"), sval("+7"), "s-", sval("1e3"), sval("-9223372036854775808"),
                                                                   sval("-9223372036854775807"), sval("9223372036854775807"), sval("-9223372036854775809")])
                if rng.random() < 0.3 and exp == sval(str(now + 500)):
                    exp = sval(str(now + rng.choice([1, 2, 7, 40])))         # a near expiry: the clock can be moved exactly onto it later
                case.append(f"{verb} {cred} {bid} {exp}")
                if exp.startswith("s") and exp[1:] and unhx(exp[1:]).decode().lstrip("-").isdigit() and abs(int(unhx(exp[1:]).decode())) < 10**12:
                    st.setdefault("marks", []).append(int(unhx(exp[1:]).decode()))
                if cred == admin(): used.append(case[-1])
                if verb == "deny" and cred.startswith("alg=") and "relay:admin".encode().hex() in cred and bid.startswith("s") and bid != "s-":
                    st["denied"].add(unhx(bid[1:]).decode())
                case.append("sync")
            elif r < 0.80:
                cred = admin() if rng.random() < 0.6 else tok(now, scopes=lval(rng.choice(ADMIN_SCOPES)), topic="a", prefix="a", bid="a")
                case.append(f"{rng.choice(['listdeny', 'listallow'])} {cred}")
                if cred == admin(): used.append(case[-1])
            elif r < 0.87:
                cred = stats() if rng.random() < 0.6 else rng.choice([tok(now, scopes=lval(rng.choice(ADMIN_SCOPES)), topic="a", prefix="a", bid="a"),
                                                                      stats(sig="tampered"), stats(exp="a"), "-", tok(now), stats(nbf=f"i{now + 3600}"), stats(iat="a")])
                case.append(f"status {cred}")
                if cred == stats(): used.append(case[-1])
            elif r < 0.90 and rng.random() < 0.5:
                case.append("prune")          # the periodic pruner runs: entries whose own expiry has passed go, nothing else changes
            elif r < 0.93:
                marks = st.setdefault("marks", [])
                if marks and rng.random() < 0.35:
                    st["now"] = rng.choice(marks) + rng.choice([0, 0, 0, -1, 1])    # exactly on (or next to) an expiry / not-before instant used earlier
                else:
                    st["now"] += rng.choice([1, 5, 29, 30, 31, 100, 3700, -5, -1500])   # the clock may also be set back
                case.append(f"now {st['now']}")
            else:
                nj = st.get("joined", 0)
                if nj:
                    case.append(f"close n{rng.randrange(nj)}"); case.append("sync")
        if rng.random() < 0.4:
            # a fresh, perfectly good code presented on a path that is NOT the one it was issued for: extra segments, doubled or missing
            # slashes, the topic as a prefix of the segment, another prefix — admitted only where the path's topic is exactly the token's
            # (no doubled slashes: net/http's mux answers those with a 301 redirect before the relay sees them)
            now = st["now"]
            t = rng.choice(TOPICS[:3])
            for _ in range(rng.choice([1, 2, 3])):
                case.append(f"session {tok(now, topic=sval(t), bid=sval('b-path'), scopes=lval(rng.choice([['read', 'write'], ['read'], ['write']])))} {hx(t)}")
                st["codes"].append(t)
                tmpl = rng.choice(["/session/{t}/more", "/session/{t}/side/x", "/session/{t}/", "/session/{t}x", "/session/x{t}",
                                   "/session/{t}.x", "/session/{t}/{t}", "/shell/{t}", "/Session/{t}", "/session/{t}", "/session/{t}/more"])
                case.append(f"ws {hx(tmpl.format(t=t))} c{len(st['codes']) - 1}")
            case.append("members")
        if rng.random() < 0.25:
            # an admin request whose token lacks one registered claim COMBINED with each kind of bound parameter (expiry in the past, now,
            # in the future; booking id present / empty): every branch of the handlers is reached with every shape of token
            now = st["now"]
            for _ in range(rng.choice([2, 3, 4])):
                cred = rng.choice([admin(iat="a"), admin(nbf="a"), admin(iat="a", nbf="a"), admin(), admin(exp="a"), admin(iat=f"i{now + 50}")])
                verb = rng.choice(["deny", "allow"])
                bid = rng.choice([sval(rng.choice(BIDS)), sval(rng.choice(BIDS)), "s-", "a"])
                exp = rng.choice([sval(str(now - 1)), sval(str(now - 1000)), sval(str(now)), sval(str(now + 500)), "a",
                                  # far-away instants: differences that overflow when turned into nanoseconds, the ends of int64
                                  sval(str(now - 9223372037)), sval(str(now - 9223372036)), sval("-9223372036854775808"), sval(str(now - 18446744074)),
                                  sval("9223372036854775807"), sval(str(now + 9223372037))])
                case.append(f"{verb} {cred} {bid} {exp}")
                case.append("sync")
        if rng.random() < 0.3:
            # scope names that differ from `read` / `write` by letter case, blanks or plural only: they carry no capability
            now = st["now"]
            t = rng.choice(TOPICS[:3])
            for _ in range(rng.choice([1, 2])):
                sc = rng.choice([["READ"], ["Write"], ["read", "Write"], ["write", "READ"], ["Read", "WRITE"], ["rEAD"], ["WRITE", "read"], ["READ", "write"],
                                 ["read ", "write"], [" write", "read"], ["reads", "write"], ["read", "writes"], ["Read"], ["wRITE", "Read", "host"]])
                case.append(f"session {tok(now, topic=sval(t), bid=sval('b-case'), scopes=lval(sc))} {hx(t)}")
                st["codes"].append(t)
                case.append(f"ws {hx('/session/' + t)} c{len(st['codes']) - 1}")
            case.append("members")
        # The relay's expiry timers run on REAL time while the cases run on a virtual clock: a connection admitted within a few (virtual)
        # seconds of its token's expiry would really be closed a moment later — or, at exp - now == 0, at once, racing with the very
        # observation of the admission. Such admissions are the business of the real-time expiry mode (C06); here every websocket
        # attempt made while SOME earlier session token is within 5 s of its expiry presents a never-issued code instead.
        exps, cur = [], 0
        for i, l in enumerate(case):
            f = l.split(" ")
            if f[0] == "now": cur = int(f[1])
            elif f[0] == "session":
                m = re.search(r"exp=[if](-?\d+)", f[1])
                if m: exps.append(int(m.group(1)))
            elif f[0] == "ws" and len(f) >= 3 and f[2].startswith("c") and any(0 <= e - cur <= 5 for e in exps):
                f[2] = "x"
                case[i] = " ".join(f)

        def short_lived():
            # the relay's expiry timers run on REAL time: a token expiring within a few (virtual) seconds of its admission would really expire
            # during a real-time wait — the model, which knows only the virtual clock, would rightly disagree
            exps, nows = [], []
            for l in case:
                f = l.split(" ")
                if f[0] == "now": nows.append(int(f[1]))
                elif f[0] == "session":
                    m = re.search(r"exp=[if](-?\d+)", f[1])
                    if m: exps.append(int(m.group(1)))
            return any(0 <= e - n <= 5 for e in exps for n in nows)
        if any(l.startswith("send ") for l in case) and any(hx("stats") in l for l in case if l.startswith("session ")) and rng.random() < self.settle_prob \
                and not short_lived():
            case.append("settle 1300")     # the relay's stats reporter drains its queue once a second: whatever was sent on `stats` reaches it
        case.append("sync")
        case.append("members")
        return case

    # ------------------------------------------------------------------ making the sync waits deterministic
    # (the expectation passed to `sync` only shortens/lengthens the wait; it is computed from the
    #  implementation's own earlier answers: who joined which topic with which capabilities)

    # ------------------------------------------------------------------ oracle (independent python reference)
    def _walk(self, case, out):
        F = []          # (property, signature, description)
        stats = dict(session_ok=0, session_refused=0, ws_joined=0, ws_refused=0, delivered=0, admin_ok=0, admin_refused=0)
        now, allow_nobid = 1000000, False
        denied, allowed = {}, {}
        codes = []      # per issued code: dict(topic, scopes, bid, exp, nbf, t0, used, purged)
        conns = []      # joined connections: dict(topic, r, w, bid, exp, member, scopes)
        pending = {}    # conn index -> bytes expected since last sync
        for l, o in zip(case, out):
            f = l.split(" ")
            if o.startswith("<<") or o.startswith("panic") or o in ("stuck", "dead"):
                F.append(("C08", "relay-crash-or-hang", f"{l[:80]} -> {o}")); break
            op = f[0]
            if op == "config": allow_nobid = f[1] == "1"
            elif op == "now": now = int(f[1])
            elif op in ("session", "deny", "allow", "listdeny", "listallow", "status"):
                parts = o.split(" ")
                code = int(parts[0]) if parts[0].isdigit() else -1
                if code <= 0 or len(parts) < 2 or parts[1] not in ("json", "empty", "text") or (parts[1] == "empty" and code != 204):
                    F.append(("C11", "no-wellformed-answer", f"{l[:60]}.. -> {o[:60]}")); break
                ok = 200 <= code < 300
                b = parse_tok(f[1])
                if op == "session":
                    pid = unhx(f[2]).decode()
                    valid = session_valid(b, now, pid, allow_nobid, {k for k, v in denied.items()})
                    has_code = " code=c" in o
                    if (ok or has_code) and not valid:
                        F.append(("C01", "code-for-invalid-bearer", f"session answered {o[:40]} for a bearer that is not fully valid for topic {pid!r} at {now}: {f[1][:200]}")); break
                    if "leaked-code" in o:
                        F.append(("C01", "code-in-error-body", o[:80])); break
                    if ok != has_code:
                        F.append(("C11", "success-without-code", o[:80])); break
                    if ok:
                        stats["session_ok"] += 1
                        k = int(o.split("code=c")[1].split(" ")[0])
                        if k != len(codes): F.append(("C02", "code-not-fresh", o[:80])); break
                        codes.append(dict(topic=b["topic"], scopes=b["scopes"], bid=b["bid"], exp=b["exp"], nbf=b["nbf"], t0=now, used=False, purged=False))
                        allowed[b["bid"]] = b["exp"]; denied.pop(b["bid"], None)
                    else:
                        stats["session_refused"] += 1
                    if valid and not ok:
                        F.append(("C11x", "valid-session-refused", f"{o[:40]} for a fully valid request")); break
                elif op in ("deny", "allow"):
                    bid = None if f[2] == "a" else unhx(f[2][1:]).decode()
                    expraw = None if f[3] == "a" else unhx(f[3][1:]).decode()
                    try: expv = int(expraw) if expraw not in (None, "") and (expraw.lstrip("+-").isdigit()) and -2**63 <= int(expraw) < 2**63 else None
                    except Exception: expv = None
                    good_params = bid not in (None, "") and expv is not None and expv >= now
                    auth = admin_valid(b, now, "relay:admin")
                    if ok and not (auth and good_params):
                        F.append(("C09" if not auth else "C10", "admin-call-granted-without-right" if not auth else "bad-params-accepted",
                                  f"{op} answered {code} (token admin-valid={auth}, params ok={good_params})")); break
                    if not ok and auth and good_params:
                        # a deny / allow that is valid in every respect must take effect (C10: "until the expiry given", however far away)
                        F.append(("C10", "valid-deny-or-allow-refused", f"{op} of {bid!r} until {expv} by a valid relay:admin token at {now} -> {code}")); break
                    if auth and not header_valid(b, now): pass
                    if not ok and header_valid(b, now) and not admin_valid(b, now, "relay:admin") and code != 401 and good_params:
                        F.append(("C09", "missing-scope-not-401", f"{op} with a valid token lacking relay:admin answered {code}")); break
                    if ok:
                        stats["admin_ok"] += 1
                        if op == "deny":
                            denied[bid] = expv; allowed.pop(bid, None)
                            for c in codes:
                                if c["bid"] == bid: c["purged"] = True
                            for c in conns:
                                if c["bid"] == bid and c["member"]: c["member"] = False; c["why"] = "denied"
                        else:
                            allowed[bid] = expv; denied.pop(bid, None)
                    else: stats["admin_refused"] += 1
                elif op in ("listdeny", "listallow"):
                    auth = admin_valid(b, now, "relay:admin")
                    if ok and not auth:
                        F.append(("C09", "admin-call-granted-without-right", f"{op} answered {code}")); break
                    if ok:
                        ids = set(x for x in o.split("ids=")[1].split(",") if x) if "ids=" in o else None
                        expd = {hx(k) for k in (denied if op == "listdeny" else allowed)}
                        if ids != expd:
                            F.append(("C10", "list-not-exact", f"{op} returned {sorted(ids or [])}, register should hold {sorted(expd)}")); break
                    if not ok and auth:
                        F.append(("C09x", "valid-admin-call-refused", f"{op} -> {code}")); break
                elif op == "status":
                    auth = admin_valid(b, now, "relay:stats")
                    if ok and not auth:
                        F.append(("C09", "status-granted-without-right", f"status answered {code}")); break
                    if not ok and auth:
                        F.append(("C09x", "valid-status-call-refused", f"status -> {code}")); break
                    if ok and "conns=" in o:
                        got = sorted(e.split(":")[0] + ":" + e.split(":")[1] + ":" + e.split(":")[2] + ":" + e.split(":")[5] for e in o.split("conns=")[1].split("|") if e)
                        exp = sorted([hx("stats") + ":tt:" + ",".join(sorted({hx(x) for x in ["read", "stats", "write"]})) + f":{ZERO}"] +
                                     [hx(c["topic"]) + ":" + ("t" if c["r"] else "f") + ("t" if c["w"] else "f") + ":" +
                                      ",".join(sorted({hx(x) for x in c["scopes"]})) + f":{c['exp']}" for c in conns if c["member"]])
                        if got != exp:
                            F.append(("C14", "status-not-membership", f"status lists {got}, joined are {exp}")); break
                        # client-controlled metadata is reported verbatim, whatever its size or content
                        meta_got = sorted((e.split(":")[3], e.split(":")[4]) for e in o.split("conns=")[1].split("|") if e and e.split(":")[3] != hx("crossbar"))
                        meta_exp = sorted((c["ua"], c["xff"]) for c in conns if c["member"])
                        if meta_got != meta_exp:
                            bad = [m for m in meta_got if m not in meta_exp][:1] + [m for m in meta_exp if m not in meta_got][:1]
                            F.append(("C14", "status-metadata-not-verbatim", "status reports user agent / forwarded address " +
                                      " vs sent ".join(f"({len(unhx(a))} B {unhx(a)[:40]!r}, {len(unhx(b))} B {unhx(b)[:40]!r})" for a, b in bad))); break
            elif op == "ws":
                path = unhx(f[1]).decode()
                ref = f[2]
                c = codes[int(ref[1:])] if ref[0] == "c" and int(ref[1:]) < len(codes) else None
                if o.startswith("joined"):
                    stats["ws_joined"] += 1
                    d = dict(p.split("=") for p in o.split(" ")[2:])
                    topic = unhx(d["topic"]).decode()
                    why = None
                    if c is None: why = "without a code the access API issued"
                    elif c["used"]: why = "with a code that was already used"
                    elif now > c["t0"] + 30: why = f"with a code older than its time-to-live ({now - c['t0']} s)"
                    elif c["purged"] or c["bid"] in denied: why = "under a denied booking"
                    elif c["topic"] != topic: why = f"to topic {topic!r} with a code issued for {c['topic']!r}"
                    elif not (c["nbf"] <= now <= c["exp"]): why = "outside the token's nbf/exp window"
                    elif not ({"read", "write"} & set(c["scopes"])): why = "with neither read nor write scope"
                    if why:
                        F.append(("C02" if "used" in why or "older" in why else ("C07" if "denied" in why else ("C06" if "window" in why else ("C04" if "scope" in why else "C01"))),
                                  "joined-" + why.split(" ")[0] + "-" + why.split(" ")[-1].strip("()'"), f"websocket {path!r} joined {why}")); break
                    r_, w_ = "read" in c["scopes"], "write" in c["scopes"]
                    if (d["r"] == "t") != r_ or (d["w"] == "t") != w_:
                        F.append(("C04", "capabilities-not-from-scopes", f"scopes {c['scopes']} gave read={d['r']} write={d['w']}")); break
                    c["used"] = True
                    conns.append(dict(topic=topic, r=r_, w=w_, bid=c["bid"], exp=c["exp"], member=True, scopes=c["scopes"],
                                      ua=(f[3] if len(f) > 3 else hx(f"ua{len(conns)}")), xff=(f[4] if len(f) > 4 else hx(f"10.9.8.{len(conns) % 250}"))))
                else:
                    stats["ws_refused"] += 1
                    if c is not None and o == "refused": c["used"] = True   # the code is consumed by the attempt
            elif op == "send":
                k = int(f[1][1:])
                if k < len(conns) and conns[k]["member"] and conns[k]["w"]:
                    data = unhx(f[2])
                    for j, c in enumerate(conns):
                        if j != k and c["member"] and c["topic"] == conns[k]["topic"] and c["r"]:
                            pending[j] = pending.get(j, b"") + data; stats["delivered"] += 1
            elif op == "prune":
                for d_ in (denied, allowed):
                    for k_ in [k_ for k_, v_ in d_.items() if v_ < now]: del d_[k_]
            elif op == "close":
                k = int(f[1][1:])
                if k < len(conns): conns[k]["member"] = False
            elif op == "sync":
                got = {}
                for e in [x for x in o.split(" ")[1:] if x]:
                    name, rest = e.split("=", 1)
                    state, frames = rest.split(":", 1)
                    got[int(name[1:])] = (state, [unhx(x) for x in frames.split("|") if x])
                for j, c in enumerate(conns):
                    state, frames = got.get(j, ("missing", []))
                    stream = b"".join(frames)
                    exp = pending.get(j, b"")
                    if stream != exp:
                        if not c["r"] and stream:
                            F.append(("C04", "nonreader-received", f"n{j} (no read scope) received {len(stream)} bytes"))
                        elif stream and not exp:
                            F.append(("C03", "unexpected-delivery", f"n{j} on {c['topic']!r} received {len(stream)} bytes nobody sent to it (wrong topic, own message, non-writer or not joined)"))
                        else:
                            F.append(("C05", "stream-not-intact", f"n{j} received {stream.hex()[:80]} expected {exp.hex()[:80]}"))
                        break
                    for fr in frames:
                        if parse_records(fr) is None:
                            F.append(("C05", "frame-splits-a-message", f"n{j}: a frame is not a whole number of messages")); break
                    if c["member"] and state != "open":
                        F.append(("C06", "connection-ended-by-relay", f"n{j} is {state} although nothing ended it")); break
                    if not c["member"] and state == "open":
                        F.append(("C07" if c.get("why") == "denied" else "C13", "connection-not-closed", f"n{j} should be gone ({c.get('why', 'closed')}) but is {state}")); break
                if F: break
                pending = {}
            elif op == "members":
                exp = ",".join(sorted(f"n{j}:{hx(c['topic'])}" for j, c in enumerate(conns) if c["member"]))
                gotm = o.split(" ")[0].split("=", 1)[1]
                if gotm != exp:
                    F.append(("C13", "membership-not-as-history", f"hub has {gotm}, history says {exp}")); break
        return F, stats

    def oracle(self, case, out):
        F, _ = self._walk(case, out)
        res = []
        for prop, sig, desc in F:
            # "never success to a bad request" (C11) is also what the per-endpoint grant checks of C01 / C09 / C10 say
            also_c11 = self.focus == "C11" and sig in ("code-for-invalid-bearer", "admin-call-granted-without-right", "status-granted-without-right", "bad-params-accepted")
            # the register's verdict is what the session handler consults: a code granted under a listed booking is the register's business too
            also_c10 = self.focus == "C10" and sig in ("code-for-invalid-bearer", "list-not-exact", "bad-params-accepted")
            also_c02 = self.focus == "C02" and sig.startswith("joined-") and ("booking" in sig or "used" in sig or "older" in sig or "issued" in sig)
            if self.focus is None or prop == self.focus or sig == "relay-crash-or-hang" or also_c11 or also_c10 or also_c02:
                res.append((sig, desc))
        return res

    def to_model(self, case, impl_out):
        return case

    def project(self, case, out):
        """frame boundaries are scheduling-dependent: compare the concatenated stream per connection"""
        res = []
        for l, o in zip(case, out):
            if l.startswith("sync") and o.startswith("sync"):
                es = []
                for e in [x for x in o.split(" ")[1:] if x]:
                    name, rest = e.split("=", 1)
                    state, frames = rest.split(":", 1)
                    es.append(f"{name}={state}:{''.join(x for x in frames.split('|'))}")
                res.append("sync " + " ".join(es))
            else:
                res.append(o)
        return res

    def from_model(self, case, impl_out, model_out):
        return self.project(case, model_out)

    def nontrivial(self, case, out):
        st = self._walk(case, out)[1]
        return st["session_ok"] > 0 and st["session_refused"] + st["ws_refused"] + st["admin_refused"] > 0

    def account(self, stats, case, out):
        super().account(stats, case, out)
        st = self._walk(case, out)[1]
        b = stats.setdefault("branches", {})
        for k, v in st.items(): b[k] = b.get(k, 0) + v
        codes = stats.setdefault("status_codes", {})
        for l, o in zip(case, out):
            if l.split(" ")[0] in ("session", "deny", "allow", "listdeny", "listallow", "status"):
                c = o.split(" ")[0]; codes[c] = codes.get(c, 0) + 1

    def describe(self, case):
        res = []
        for l in case:
            f = l.split(" ")
            if f[0] in ("session", "deny", "allow", "listdeny", "listallow", "status") and ";" in f[1]:
                kv = dict(p.split("=", 1) for p in f[1].split(";"))
                def show(v):
                    if v and v[0] == "s": return repr(unhx(v[1:]).decode("utf-8", "replace"))
                    if v and v[0] == "l": return "[" + ",".join(unhx(x).decode("utf-8", "replace") for x in v[1:].split(",") if x) + "]"
                    return v
                f[1] = "{" + " ".join(f"{k}={show(v)}" for k, v in kv.items()) + "}"
            if f[0] == "session": f[2] = "path-id=" + repr(unhx(f[2]).decode())
            if f[0] == "ws": f[1] = repr(unhx(f[1]).decode())
            if f[0] in ("deny", "allow"):
                f[2] = "bid=" + (repr(unhx(f[2][1:]).decode()) if f[2] != "a" else "<absent>")
                f[3] = "exp=" + (repr(unhx(f[3][1:]).decode()) if f[3] != "a" else "<absent>")
            if f[0] == "send": f[2] = f"<{len(unhx(f[2]))} bytes>"
            res.append(" ".join(f))
        return res


class RawMode(vlib.Mode):
    """malformed request stream against the access API (implementation only: the property oracle decides).
    Every request in it is invalid by construction, so any 2xx is a violation; every answer must be a complete
    well-formed response; a known-good request in between must still be served."""
    name = "relay-raw"
    impl_mode = "relay"
    compare = False
    chunk = 40
    shrink_budget = 30

    def generate(self, rng, tier):
        n = 40 if tier == "quick" else 1500
        cases = []
        paths = ["/", "/session", "/session/", "/session/t1/", "/session/t1/x", "/sessions/t1", "/bids", "/bids/deny/", "/bids/allow/x",
                 "/status/", "/nope", "/bids/deny?bid=b1", "/bids/deny?exp=5", "/bids/deny?bid=&exp=5", "/bids/deny?bid=b1&exp=",
                 "/bids/deny?bid=b1&exp=-1", "/bids/deny?bid=b1&exp=9223372036854775808", "/bids/deny?bid=b1&exp=1e3",
                 "/bids/deny?bid=b1&exp=-9223372036854775808", "/bids/allow?bid=b1&exp=-9223372036854775808", "/bids/deny?bid=b1&exp=-9223372036854775000",
                 "/bids/deny?bid=b1&exp=abc", "/bids/allow?bid=b1&exp=abc", "/bids/deny?bid=b1&exp=5&exp=x", "/session/t1?x=1",
                 "/status?x=1", "/bids/deny", "/bids/allow", "/status", "/session/t1"]
        methods = ["GET", "POST", "PUT", "DELETE", "PATCH", "HEAD", "OPTIONS"]
        for _ in range(n):
            now = 1000000 + rng.randrange(1000)
            case = ["config 0 256", f"now {now}"]
            good = tok(now)
            for _ in range(rng.choice([8, 16, 30])):
                r = rng.random()
                if r < 0.45:
                    # right endpoint, bad credential: absent / garbage / invalid / missing one claim
                    bad = rng.choice(["-", "raw:" + hx("garbage"), "raw:" + hx("a.b.c"), "raw:" + hx("Bearer " + "x" * 40),
                                      tok(now, sig="badsecret"), tok(now, alg="none", sig="empty"), tok(now, exp="a"), tok(now, nbf="a"),
                                      tok(now, iat="a"), tok(now, aud="a"), tok(now, scopes="a"), tok(now, exp=f"i{now}"),
                                      tok(now, exp=sval("x")), tok(now, scopes=lval(["relay:admin"]), exp="a"),
                                      tok(now, scopes=lval(["relay:stats"]), exp="a"), tok(now, scopes=lval(["relay:admin"]), aud="a"),
                                      tok(now, scopes=lval(["relay:admin"]), nbf="a", iat="a", sig="tampered")])
                    ep = rng.choice([("POST", "/session/t1"), ("POST", f"/bids/deny?bid=b1&exp={now + 50}"), ("POST", f"/bids/allow?bid=b1&exp={now + 50}"),
                                     ("GET", "/bids/deny"), ("GET", "/bids/allow"), ("GET", "/status")])
                    case.append(f"raw {ep[0]} {hx(ep[1])} {bad}")
                elif r < 0.8:
                    m, p = rng.choice(methods), rng.choice(paths)
                    cred = rng.choice([good, tok(now, scopes=lval(["relay:admin"])), "-"])
                    # skip the combinations that are valid requests
                    # go-openapi ignores one trailing slash, so those spellings are the valid endpoints too
                    valid = (m, p.split("?")[0].rstrip("/")) in {("POST", "/session/t1"), ("GET", "/bids/deny"), ("GET", "/bids/allow"), ("GET", "/status")}
                    if not valid and not (m == "POST" and p.startswith("/bids/deny?bid=b1&exp=5&")):
                        case.append(f"raw {m} {hx(p)} {cred}")
                else:
                    case.append(f"session {good} {hx('t1')}")     # known-good request: must still be served
            case.append(f"session {good} {hx('t1')}")
            cases.append(case)
        return cases

    def oracle(self, case, out):
        fails = []
        for l, o in zip(case, out):
            f = l.split(" ")
            if o.startswith("<<") or o.startswith("panic") or o in ("stuck", "dead"):
                fails.append(("server-died-or-hung", f"{self.describe([l])[0][:120]} -> {o}")); break
            if f[0] == "raw":
                parts = o.split(" ")
                if parts[0] == "0":
                    fails.append(("no-answer", f"{self.describe([l])[0][:160]} -> transport error / empty reply ({o})")); break
                if len(parts) < 3 or parts[1] not in ("json", "text", "empty"):
                    fails.append(("answer-not-wellformed", f"{self.describe([l])[0][:160]} -> {o}")); break
                if parts[2] == "granted":
                    fails.append(("success-for-bad-request", f"{self.describe([l])[0][:160]} -> {o}")); break
            elif f[0] == "session":
                if not o.startswith("200 json code="):
                    fails.append(("good-request-no-longer-served", f"known-good session request answered {o[:60]}")); break
        return fails

    def nontrivial(self, case, out):
        kinds = {o.split(" ")[0] for l, o in zip(case, out) if l.startswith("raw")}
        return len(kinds) >= 3

    def account(self, stats, case, out):
        super().account(stats, case, out)
        codes = stats.setdefault("status_codes", {})
        for l, o in zip(case, out):
            if l.startswith("raw"):
                c = o.split(" ")[0]; codes[c] = codes.get(c, 0) + 1

    def describe(self, case):
        res = []
        for l in case:
            f = l.split(" ")
            if f[0] == "raw":
                cred = f[3]
                if ";" in cred:
                    kv = dict(p.split("=", 1) for p in cred.split(";"))
                    cred = "{" + " ".join(f"{k}={v[:24]}" for k, v in kv.items() if k in ("alg", "sig", "exp", "nbf", "iat", "aud", "scopes")) + "}"
                res.append(f"raw {f[1]} {unhx(f[2]).decode()!r} cred={cred}")
            else:
                res.append(RelayMode.describe(self, [l])[0] if f[0] != "config" and f[0] != "now" else l)
        return res
