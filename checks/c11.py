"""C11 — the access API always answers, and never with success to a bad request"""
from tiecommon import TIE_DENY, TIE_TTLCODE, TIE_ACCESS, TIE_NOTE, TIE_ASSUMPTION
from relaycommon import RelayMode, RawMode

RULE = ("relay mode (see C01): every answer must be a complete HTTP response with JSON (or empty 204) body, success only for a request "
        "valid in every respect (independent python twin of validity), plus mode relay-raw: a stream of requests invalid by construction "
        "— method x path (unknown routes, trailing slashes, empty id) x query values (missing, empty, -1, 2^63, 1e3, text, repeated) x "
        "Authorization (absent, garbage, two-segment, bad signature, alg none, and correctly signed tokens omitting exp / nbf / iat / aud "
        "/ scopes) — where any 2xx, transport error, empty reply or hang is a failure and a known-good request must still be served "
        "afterwards. non-trivial = >=3 distinct status codes seen; distinct = distinct op sequence")
ASSUMPTIONS = ["go-openapi's own serialisation and net/http's per-request panic recovery are outside the model (checked dynamically only)",
               "invalid tokens are answered 500 'token invalid' by design of the maintainers (their own test asserts it)"]
P = "Relay.Props.C11"
THEOREMS = [(f"Access.{n}", P) for n in ["success_iff_valid", "refusal_keeps_state", "missing_claims_refused", "deny_status",
                                         "allow_status", "list_status", "status_status"]] + \
           [("Access.session_refused_no_effect", "Relay.Props.C01"), ("Access.session_ok_iff", "Relay.Props.C01")]
THEOREMS = THEOREMS + TIE_DENY + TIE_TTLCODE + TIE_ACCESS
RULE = TIE_NOTE + RULE
ASSUMPTIONS = ASSUMPTIONS + [TIE_ASSUMPTION]



def modes(tier):
    return [RelayMode("C11"), RawMode()]


# "…or leaves the server unable to answer the next request": the same API under load. Windows of the C12 stress mix (16 goroutines: session /
# deny / allow / list / status requests, websocket joins, traffic, disconnects against one relay); judged here only on answers: every request
# answered, the instance not stuck.
import c12 as _c12
import vlib


class StressForC11(_c12.StressMode):
    name = "stress"

    def generate(self, rng, tier):
        if tier == "quick":
            return [[f"stress {ms} {rng.randrange(10**6)} 16"] for ms in (700, 1200)]
        return [[f"stress {ms} {rng.randrange(10**6)} {w}"] for ms in (1000, 2000, 4000) for w in (16, 32)]

    def run_impl(self, impl_exe, cases, tier):
        return vlib.run_cases_isolating([impl_exe, "stress"], cases, timeout=600, env=vlib.GOENV, chunk=1)

    def oracle(self, case, out):
        return [(("api-stops-answering-under-load" if k.startswith("process-fault") else k), m) for k, m in _c12.StressMode.oracle(self, case, out)
                if k.startswith("process-fault") or k.startswith("request-not-answered")]


_modes_c11 = modes


def modes(tier):
    return _modes_c11(tier) + [StressForC11()]

RULE = RULE + (" stress mode: windows of 16 concurrent goroutines mixing every API request with websocket joins, traffic and disconnects against "
               "one relay; every request must be answered and the instance must not get stuck.")
