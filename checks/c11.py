"""C11 — the access API always answers, and never with success to a bad request"""
from tiecommon import TIE_DENY, TIE_TTLCODE, TIE_ACCESS, TIE_NOTE, TIE_ASSUMPTION
from relaycommon import RelayMode, RawMode

RULE = ("relay mode (see C01): every answer must be a complete HTTP response with JSON (or empty 204) body, success only for a request "
        "valid in every respect (independent python twin of validity), plus mode relay-raw: a stream of requests invalid by construction "
        "— method x path (unknown routes, trailing slashes, empty id) x query values (missing, empty, -1, 2^63, 1e3, text, repeated) x "
        "Authorization (absent, garbage, two-segment, bad signature, alg none, and correctly signed tokens omitting exp / nbf / iat / aud "
        "/ scopes) — where any 2xx, transport error, empty reply or hang is a failure and a known-good request must still be served "
        "afterwards. non-trivial = >=3 distinct status codes seen; distinct = distinct op sequence")
ASSUMPTIONS = ["go-openapi's own serialisation and net/http's per-request panic recovery are outside the model (checked dynamically only)",
               "invalid tokens are answered 500 'token invalid' by design of the maintainers (their own test asserts it)"]
P = "Relay.Props.C11"
THEOREMS = [(f"Access.{n}", P) for n in ["success_iff_valid", "refusal_keeps_state", "missing_claims_refused", "deny_status",
                                         "allow_status", "list_status", "status_status"]] + \
           [("Access.session_refused_no_effect", "Relay.Props.C01"), ("Access.session_ok_iff", "Relay.Props.C01")]
THEOREMS = THEOREMS + TIE_DENY + TIE_TTLCODE + TIE_ACCESS
RULE = TIE_NOTE + RULE
ASSUMPTIONS = ASSUMPTIONS + [TIE_ASSUMPTION]



def modes(tier):
    return [RelayMode("C11"), RawMode()]
