"""Shared correspondence modes for the relay hub (C03, C04, C05, C08, C13, C14): in-package mode `hub`, `path`."""
import vlib
from vlib import hx

TOPICS = ["a", "a/b", "ab", "a%2Fb", "stats"]
BIDS = ["b1", "b2", ""]


def parse_state(o):
    """'<res> m=.. dcs=.. pbc=n' -> (res, {name: (topic, qlen)}, set(dcs), pbc)"""
    parts = o.split(" ")
    res = parts[0]
    d = dict(p.split("=", 1) for p in parts[1:] if "=" in p)
    mem = {}
    for x in filter(None, d.get("m", "").split(",")):
        n, t, q = x.split(":")
        mem[int(n)] = (t, int(q))
    return res, mem, set(filter(None, d.get("dcs", "").split(","))), int(d.get("pbc", "0") or 0)


class HubMode(vlib.Mode):
    name = "hub"
    chunk = 1500
    focus = None   # property id: which failures this check reports

    def __init__(self, focus):
        super().__init__()
        self.focus = focus

    def generate(self, rng, tier):
        n = 500 if tier == "quick" else 15000
        cases = []
        for _ in range(n):
            ntop = rng.choice([1, 2, 3])
            tops = rng.sample(TOPICS, ntop)
            case, regs, seq, regtopics = [], 0, 0, []
            for _ in range(rng.choice([6, 12, 24, 40])):
                r = rng.random()
                if regs == 0 or r < 0.2:
                    rw = rng.choice([(1, 1), (1, 1), (1, 0), (0, 1), (0, 0)])
                    tp = rng.choice(tops)
                    case.append(f"reg {hx(tp)} {hx(rng.choice(BIDS))} {rw[0]} {rw[1]} {rng.choice([1, 1, 2, 3, 8])}")
                    regs += 1; regtopics.append(tp)
                elif r < 0.62:
                    k = rng.randrange(regs + (1 if rng.random() < 0.05 else 0))
                    ln = rng.choice([0, 1, 2, 5])
                    data = bytes([k % 256, seq % 256] + [rng.randrange(256) for _ in range(ln)]) if rng.random() < 0.95 else b""
                    seq += 1
                    case.append(f"in n{k} {hx(data)} {rng.choice([1, 2])}")
                elif r < 0.68 and len(set(regtopics)) >= 2:
                    # frames of writers on pairwise DIFFERENT topics queued at the same instant (hub momentarily busy); same-topic
                    # senders are not mixed in one burst: a frame already in flight from a reader that the burst itself drops
                    # is legitimately still relayed by the real hub, which the sequential model does not represent
                    ks, seen_t = [], set()
                    for k in rng.sample(range(regs), regs):
                        if regtopics[k] not in seen_t: ks.append(k); seen_t.add(regtopics[k])
                    ks = ks[:rng.choice([2, 2, 3])]
                    items = []
                    for k in ks:
                        seq += 1
                        items.append(f"n{k}:{hx(bytes([k % 256, seq % 256, 0xEE]))}")
                    case.append("burst " + ",".join(items))
                elif r < 0.9:
                    case.append(f"drain n{rng.randrange(regs)} {rng.choice([0, 0, 1, 2, 7])}")
                else:
                    case.append(f"unreg n{rng.randrange(regs + (1 if rng.random() < 0.1 else 0))}")
            for k in range(regs):
                case.append(f"drain n{k} 600")
            cases.append(case)
        return cases

    # ---- independent reference (python), used only by the oracle
    def _walk(self, case, out):
        fails, st = [], {"delivered": 0, "evicted": 0, "frames": 0, "merged": 0, "discards": 0, "nonwriter_in": 0, "topics": set()}
        clients = []   # dict(topic,bid,r,w,cap,member,queue(list of bytes))
        for l, o in zip(case, out):
            f = l.split(" ")
            if o.startswith("panic") or o.startswith("<<"):
                fails.append(("C08", "hub-crash", f"{l} -> {o}")); break
            if o in ("stuck", "dead"):
                fails.append(("C08", "hub-stuck", f"{l} -> the hub loop no longer takes events")); break
            res, mem, dcs, pbc = parse_state(o)
            if f[0] == "reg":
                clients.append(dict(topic=f[1], bid=f[2], r=f[3] == "1", w=f[4] == "1", cap=int(f[5]), member=True, q=[]))
                st["topics"].add(f[1])
            elif f[0] == "unreg":
                k = int(f[1][1:])
                if k < len(clients): clients[k]["member"] = False; clients[k]["q"] = []
            elif f[0] == "in":
                k = int(f[1][1:])
                data = vlib.unhx(f[2])
                if k < len(clients) and clients[k]["member"]:
                    s = clients[k]
                    if not s["w"]: st["nonwriter_in"] += 1
                    else:
                        for j, c in enumerate(clients):
                            if c["member"] and j != k and c["topic"] == s["topic"]:
                                if len(c["q"]) < c["cap"]: c["q"].append(data); st["delivered"] += 1
                                else: c["member"] = False; c["q"] = []; st["evicted"] += 1
            elif f[0] == "burst":
                for item in f[1].split(","):
                    nk, dat = item.split(":")
                    k, data = int(nk[1:]), vlib.unhx(dat)
                    if k < len(clients) and clients[k]["member"] and clients[k]["w"]:
                        s = clients[k]
                        for j, c in enumerate(clients):
                            if c["member"] and j != k and c["topic"] == s["topic"]:
                                if len(c["q"]) < c["cap"]: c["q"].append(data); st["delivered"] += 1
                                else: c["member"] = False; c["q"] = []; st["evicted"] += 1
            elif f[0] == "drain":
                k, kk = int(f[1][1:]), int(f[2])
                exp = "none"
                if k < len(clients) and clients[k]["member"] and clients[k]["q"]:
                    c = clients[k]
                    if c["r"]:
                        blk = c["q"][:kk + 1]; c["q"] = c["q"][kk + 1:]
                        exp = "frame:" + hx(b"".join(blk)); st["frames"] += 1; st["merged"] += len(blk) > 1
                    else:
                        c["q"] = c["q"][1:]; exp = "discard"; st["discards"] += 1
                if res != exp:
                    if res.startswith("frame:") and k < len(clients) and not clients[k]["r"]:
                        fails.append(("C04", "nonreader-received", f"{l}: non-reader n{k} got {res}"))
                    else:
                        fails.append(("C05", "stream-not-intact", f"{l}: reader n{k} got {res}, the messages sent to its topic say {exp}"))
                    break
            # membership / queue lengths / bookkeeping must match the reference after every op
            expm = {j: (c["topic"], len(c["q"])) for j, c in enumerate(clients) if c["member"]}
            if mem != expm:
                why = self._classify(clients, mem, expm, f)
                fails.append(why + (f"after `{l}`: hub has {sorted(mem.items())}, reference {sorted(expm.items())}",)); break
            expd = {f"{c['bid']}/{j}" for j, c in enumerate(clients) if c["member"] and c["bid"] != "-"}
            if dcs != expd or pbc != len(expd):
                fails.append(("C13", "cancel-bookkeeping-wrong", f"after `{l}`: deny channel store {sorted(dcs)} pbc={pbc}, reference {sorted(expd)}")); break
        return fails, st

    def _classify(self, clients, mem, expm, f):
        sender = int(f[1][1:]) if f[0] == "in" else None
        if f[0] == "burst":
            return ("C03", "burst-delivered-to-wrong-topic-or-sender")
        for j, (t, q) in mem.items():
            if j in expm and t != expm[j][0]:
                return ("C03", "member-filed-under-another-topic")      # it will be sent that topic's traffic, and its own topic's not
        for j, (t, q) in mem.items():
            if j in expm and q > expm[j][1]:
                if sender is not None and sender < len(clients):
                    if not clients[sender]["w"] or not clients[sender]["member"]:
                        return ("C04", "nonwriter-or-nonmember-was-relayed")
                    if j == sender: return ("C03", "sender-heard-itself")
                    if clients[j]["topic"] != clients[sender]["topic"]: return ("C03", "delivered-across-topics")
                return ("C05", "unexpected-extra-message")
        for j in expm:
            if j not in mem: return ("C08", "member-lost")
            if mem[j][1] < expm[j][1]: return ("C05", "message-skipped-for-connected-reader")
        for j in mem:
            if j not in expm: return ("C05", "full-reader-not-dropped")
        return ("C05", "queue-mismatch")

    def oracle(self, case, out):
        fails, _ = self._walk(case, out)
        res = []
        for prop, sig, desc in fails:
            # every check reports crashes; otherwise only its own property's failures
            if prop == self.focus or sig in ("hub-crash", "hub-stuck") or self.focus is None:
                res.append((sig, desc))
        return res

    def nontrivial(self, case, out):
        st = self._walk(case, out)[1]
        return st["delivered"] > 0 and st["frames"] > 0 and len(st["topics"]) >= 1

    def account(self, stats, case, out):
        super().account(stats, case, out)
        st = self._walk(case, out)[1]
        b = stats.setdefault("branches", {})
        for k, v in st.items():
            if k != "topics": b[k] = b.get(k, 0) + int(v)
        b["multi_topic_cases"] = b.get("multi_topic_cases", 0) + (len(st["topics"]) > 1)

    def describe(self, case):
        res = []
        for l in case:
            f = l.split(" ")
            if f[0] == "reg":
                f[1] = "topic=" + repr(vlib.unhx(f[1]).decode()); f[2] = "bid=" + repr(vlib.unhx(f[2]).decode())
                f[3] = "read=" + f[3]; f[4] = "write=" + f[4]; f[5] = "cap=" + f[5]
            res.append(" ".join(f))
        return res


class PathMode(vlib.Mode):
    name = "path"

    def generate(self, rng, tier):
        n = 3000 if tier == "quick" else 100000
        alpha = "abAZ09_%-/.+&'()*,!?#= ~\\é"
        segs = ["session", "shell", "", "a", "a/b", "ab", "a%2Fb", "x-y_z", "stats", "a!b", "a b"]
        cases = []
        batch = []
        for i in range(n):
            r = rng.random()
            if r < 0.6:
                p = rng.choice(["", "/", "//"]) + rng.choice(segs) + rng.choice(["/", "", "//"]) + rng.choice(segs) + rng.choice(["", "/", "/x", "?c=1", "//"])
            else:
                p = "".join(rng.choice(alpha) for _ in range(rng.randrange(0, 14)))
            batch.append(f"route {hx(p)}")
            if len(batch) == 50:
                cases.append(batch); batch = []
        if batch: cases.append(batch)
        return cases

    def nontrivial(self, case, out):
        return any(o.split(" ")[-1] != "-" for o in out)

    def describe(self, case):
        return ["route " + repr(vlib.unhx(l.split(" ")[1]).decode("utf-8", "replace")) for l in case]


class GenHubMode(HubMode):
    """the same histories; the model side is the Lean TRANSLATION of Hub.run's select cases and Hub.remove (Relay/Extracted/GenCrossbar.lean,
    with the translated cancel-channel store inside) plus the bounded queues as environment — not the hand model"""
    name = "genhub"
    impl_mode = "hub"
    model_mode = "genhub"

    def generate(self, rng, tier):
        cases = HubMode.generate(self, rng, tier)
        return cases[:len(cases) // 3]

    def corpus(self):
        return HubMode(self.focus).corpus()
