"""C16 — each destination rule owns one outgoing connection, replaced/removed on command"""
import vlib
from vlib import hx, unhx

RULE = ("sequences of <=12 rule operations (add / replace / identical re-add / delete / deleteAll, incl. the empty id and the "
        "reserved id 'deleteAll'), broadcasts on feed and plain topics from an outside sender or 'as' a destination, messages "
        "coming in from destinations, destinations dropping connections / going down (thorough: coming up again), over <=5 ids, "
        "6 streams (aggregated stream/a<-fa, stream/b<-fa+fb, a stream without feeds, two plain topics, the empty topic) and "
        "fresh / shared / re-used / down destinations, all drawn from one PRNG; every rule change is followed by `await` barriers "
        "(socket counts per destination) and mostly by a broadcast the superseded version was subscribed to; a case is "
        "non-trivial when it has a replace or delete of a live rule followed by a broadcast that some socket received; "
        "distinct = distinct op sequence")
ASSUMPTIONS = [
    "agg.Hub and the inner hub.Hub are running and take every hand-off (rwc.Hub.Run blocks otherwise); aggregation rules are static during a case",
    "each `case` of rwc.Hub.Run / agg.Hub.Run / hub.Hub.Run is one atomic step (one goroutine per hub; Rules/Clients are only read by the harness after a barrier hand-off: K5)",
    "rule Token and File are empty (Reconnect path, no file writing); destinations are well-formed ws:// URLs",
    "message loss by the hubs' non-blocking sends is outside this property: the harness paces messages and re-sends (<=3x) before it reports a live socket as not served",
    "`promptly` = the old socket is seen closed by the destination server within 2 s of the operation being applied",
]

P = "Relay.Props.C16"
THEOREMS = [(f"Rwc.{n}", P) for n in
            ["one_live_per_id", "no_orphans", "hub_refines_cell", "live_is_latest_rule", "nothing_live_after_delete",
             "live_matches_rule", "nothing_after_supersede", "received_sub", "others_keep_flowing", "listing_exact",
             "reserved_id_unreachable", "step_inv"]]

CFG = {"stream/a": ["fa"], "stream/b": ["fa", "fb"]}
IDS = ["r1", "r2", "r3", "", "deleteAll"]
STREAMS = ["stream/a", "stream/b", "stream/a", "stream/b", "plain", "plain", "plain", "p2", "stream/none", ""]
TOPICS = ["fa", "fa", "fb", "plain", "plain", "p2", "", "stream/a"]


def topics_of(st):
    return CFG.get(st, []) if st.startswith("stream/") else [st]


def s(h):
    return unhx(h).decode("utf-8", "replace")


class Ref:
    """reference for the oracle and for the generator's barriers; works on the hex fields of the op lines"""

    def __init__(self):
        self.rules = {}     # id(hex) -> (stream(hex), dest(hex))
        self.down = set()
        self.acc = {}

    def live_on(self, d):
        return sum(1 for (_, dd) in self.rules.values() if dd == d)

    def open_n(self, d):
        return 0 if d in self.down else self.live_on(d)

    def add(self, i, st, d):
        if s(i) == "deleteAll":
            return
        self.rules[i] = (st, d)
        if d not in self.down:
            self.acc[d] = self.acc.get(d, 0) + 1

    def delete(self, i):
        if s(i) == "deleteAll":
            self.rules.clear()
        else:
            self.rules.pop(i, None)

    def set_down(self, d):
        self.down.add(d)

    def set_up(self, d):
        if d in self.down:
            self.down.discard(d)
            self.acc[d] = self.acc.get(d, 0) + self.live_on(d)

    def drop(self, d):
        if d not in self.down:
            self.acc[d] = self.acc.get(d, 0) + self.live_on(d)

    def rx(self, topic, sender):
        """destinations (one entry per socket) at which a broadcast on `topic` (hex) from `sender` (hex or None) arrives"""
        t = s(topic)
        return sorted(d for (st, d) in self.rules.values()
                      if t in topics_of(s(st)) and d != sender and d not in self.down)

    def inject(self, d):
        if d in self.down:
            return []
        out = []
        for (st, dd) in list(self.rules.values()):
            if dd == d:
                out += self.rx(st, d)
        return sorted(out)

    def conns(self):
        return sorted(d for (_, d) in self.rules.values() if d not in self.down)

    def regs(self):
        return sorted(f"{d}@{hx(t)}" for (st, d) in self.rules.values() for t in topics_of(s(st)))


def parse(line):
    """None for a malformed line (both sides must answer bad-op)"""
    f = line.split()
    ishex = lambda x: x == "-" or (len(x) % 2 == 0 and len(x) > 0 and all(c in "0123456789abcdef" for c in x))
    if not f:
        return None
    k = f[0]
    if k == "add" and len(f) == 4 and all(map(ishex, f[1:])): return f
    if k in ("del", "down", "up", "drop") and len(f) == 2 and ishex(f[1]): return f
    if k == "await" and (len(f) == 4 or (len(f) == 5 and f[4] == "slow")) and ishex(f[1]): return f
    if k == "bcast" and len(f) == 5 and f[2] == "ext" and ishex(f[1]) and ishex(f[3]): return f
    if k == "bcast" and len(f) == 6 and f[2] == "as" and ishex(f[1]) and ishex(f[3]) and ishex(f[4]): return f
    if k == "inject" and len(f) == 4 and ishex(f[1]) and ishex(f[2]): return f
    if k in ("conns", "rules") and len(f) == 1: return f
    return None


def ms(x):
    return [y for y in x.split(",") if y]


def diff_ms(got, exp):
    g, e = list(got), list(exp)
    for x in list(g):
        if x in e:
            g.remove(x); e.remove(x)
    return g, e   # extras, missing


class RwcMode(vlib.Mode):
    name = "rwc"
    shrink_budget = 20

    def timeout(self, tier):
        return 900 if tier == "quick" else 7200

    # ------------------------------------------------------------------ generation
    def gen_case(self, rng, tier, L):
        ref = Ref()
        out = []
        ver = [0]

        def await_(d, slow=False):
            out.append(f"await {d} {ref.open_n(d)} {ref.acc.get(d, 0)}" + (" slow" if slow else ""))

        def bcast(topic=None):
            if topic is None:
                livet = sorted({t for (st, _) in ref.rules.values() for t in topics_of(s(st))})
                topic = rng.choice(livet) if livet and rng.random() < 0.75 else rng.choice(TOPICS)
            t = hx(topic)
            dests = sorted({d for (_, d) in ref.rules.values()})
            if dests and rng.random() < 0.2:
                snd = rng.choice(dests)
                out.append(f"bcast {t} as {snd} {hx('m')} {len(ref.rx(t, snd))}")
            else:
                out.append(f"bcast {t} ext {hx('m')} {len(ref.rx(t, None))}")

        def probe_old(old):
            """a broadcast the superseded version was subscribed to"""
            if old is None:
                return
            ts = topics_of(s(old[0]))
            if ts and rng.random() < 0.75:
                bcast(rng.choice(ts))

        for _ in range(L):
            r = rng.random()
            cur = sorted({d for (_, d) in ref.rules.values()})
            if r < 0.42 or (not ref.rules and r < 0.8):
                i = rng.choices(IDS, weights=[30, 25, 15, 12, 8])[0]
                ih = hx(i)
                st = hx(rng.choice(STREAMS))
                old = ref.rules.get(ih)
                q = rng.random()
                ver[0] += 1
                if q < 0.10 and old is not None:
                    d = old[1]                                    # identical destination: replaced all the same
                    if rng.random() < 0.5: st = old[0]
                elif q < 0.24:
                    d = hx(rng.choice(["sh1", "sh1", "sh2"]))      # destination shared between ids
                elif q < 0.31:
                    d = hx(f"dn{ver[0]}")                          # a destination that refuses connections
                    out.append(f"down {d}"); ref.set_down(d)
                elif q < 0.34:
                    d = hx("")
                else:
                    d = hx(f"{i or 'e'}-v{ver[0]}")                # every rule version its own destination
                out.append(f"add {ih} {st} {d}")
                ref.add(ih, st, d)
                if old is not None and s(ih) != "deleteAll" and old[1] != d:
                    await_(old[1])
                await_(d)
                if s(ih) != "deleteAll":
                    probe_old(old)
            elif r < 0.55:
                i = rng.choices(IDS, weights=[28, 25, 15, 12, 20])[0]
                ih = hx(i)
                if i == "deleteAll":
                    olds = list(ref.rules.values())
                else:
                    olds = [ref.rules[ih]] if ih in ref.rules else []
                out.append(f"del {ih}")
                ref.delete(ih)
                for d in sorted({o[1] for o in olds}):
                    await_(d)
                probe_old(rng.choice(olds) if olds else None)
            elif r < 0.80:
                bcast()
            elif r < 0.86:
                d = rng.choice(cur) if cur and rng.random() < 0.85 else hx("nobody")
                out.append(f"inject {d} {hx('in')} {len(ref.inject(d))}")
            elif r < 0.91:
                if cur:
                    d = rng.choice(cur)
                    out.append(f"drop {d}"); ref.drop(d); await_(d)
            elif r < 0.94:
                if cur:
                    d = rng.choice(cur)
                    out.append(f"down {d}"); ref.set_down(d); await_(d)
            elif r < 0.96 and tier != "quick":
                dn = sorted(ref.down)
                if dn:
                    d = rng.choice(dn)
                    out.append(f"up {d}"); ref.set_up(d); await_(d, slow=True)
            else:
                out.append(rng.choice(["rules", "conns"]))
        for t in rng.sample(["fa", "fb", "plain", "p2"], 2):
            bcast(t)
        out += ["rules", "conns"]
        return out

    def generate(self, rng, tier):
        n = 64 if tier == "quick" else 1300
        cases = []
        for k in range(n):
            L = rng.choice([3, 6, 9, 12, 12])
            case = self.gen_case(rng, tier, L)
            if k % 16 == 7:   # a malformed stream mixed in
                junk = ["frob", "add 7231", "add 7 7 7", "del", "bcast 6661 ext", "await zz 0 0", "inject 6431 6d", "add 72 zz 64"]
                for _ in range(2):
                    case.insert(rng.randrange(len(case)), rng.choice(junk))
            cases.append(case)
        return cases

    # ------------------------------------------------------------------ oracle
    def oracle(self, case, out):
        """the property evaluated on what the real hubs / sockets did, against an independent python reference"""
        fails = []
        ref = Ref()
        for l, o in zip(case, out):
            f = parse(l)
            if o.startswith("panic") or o.startswith("<<"):
                fails.append(("crash", f"{l} -> {o}")); break
            if o == "stuck":
                fails.append(("stuck", f"{l}: a hub did not take the hand-off within 5 s")); break
            if f is None:
                if o != "bad-op": fails.append(("bad-output", f"malformed line {l!r} answered {o}"))
                continue
            if o == "bad-op":
                fails.append(("bad-output", f"{l} answered bad-op")); break
            k = f[0]
            try:
                if k == "add": ref.add(f[1], f[2], f[3])
                elif k == "del": ref.delete(f[1])
                elif k == "down": ref.set_down(f[1])
                elif k == "up": ref.set_up(f[1])
                elif k == "drop": ref.drop(f[1])
                elif k == "await":
                    kv = dict(x.split("=") for x in o.split())
                    n, t = int(kv["n"]), int(kv["t"])
                    en, et = ref.open_n(f[1]), ref.acc.get(f[1], 0)
                    if n > en:
                        fails.append(("stale-or-extra-connection", f"{n} socket(s) open to {s(f[1])!r} 2 s after the change, the rules in force own {en}"))
                    elif n < en:
                        fails.append(("connection-missing", f"{n} socket(s) open to {s(f[1])!r}, the rules in force own {en}"))
                    elif t != et:
                        fails.append(("unexpected-reconnect", f"{t} connections accepted by {s(f[1])!r} so far, expected {et}"))
                elif k in ("bcast", "inject"):
                    got = ms(o.split("=", 1)[1])
                    exp = ref.inject(f[1]) if k == "inject" else ref.rx(f[1], f[3] if f[2] == "as" else None)
                    extra, missing = diff_ms(got, exp)
                    if extra:
                        fails.append(("received-by-superseded-or-unsubscribed", f"{l}: message arrived at {[s(x) for x in extra]} which no rule in force sends it to"))
                    if missing:
                        fails.append(("live-rule-not-served", f"{l}: message did not arrive at {[s(x) for x in missing]}"))
                elif k == "conns":
                    extra, missing = diff_ms(ms(o.split("=", 1)[1]), ref.conns())
                    if extra: fails.append(("stale-or-extra-connection", f"open sockets nobody owns: {[s(x) for x in extra]}"))
                    if missing: fails.append(("connection-missing", f"no socket to {[s(x) for x in missing]}"))
                elif k == "rules":
                    kv = dict(x.split("=", 1) for x in o.split())
                    rl, cl, rg = ms(kv["rules"]), ms(kv["clients"]), ms(kv["regs"])
                    if any(x.split(":")[0] == hx("deleteAll") for x in rl + cl):
                        fails.append(("reserved-id-present", f"the reserved id is listed: {o}"))
                    exp_r = sorted(f"{i}:{st}:{d}" for i, (st, d) in ref.rules.items())
                    exp_c = sorted(f"{i}:{d}" for i, (st, d) in ref.rules.items())
                    if sorted(rl) != exp_r:
                        fails.append(("listing-not-added-minus-deleted", f"listing {sorted(rl)} but added minus deleted is {exp_r}"))
                    if len({x.split(":")[0] for x in cl}) != len(cl):
                        fails.append(("more-than-one-client-per-id", f"clients {cl}"))
                    if sorted(cl) != exp_c:
                        fails.append(("clients-not-matching-rules", f"clients {sorted(cl)} but rules in force are {exp_c}"))
                    extra, missing = diff_ms(rg, ref.regs())
                    if extra: fails.append(("hub-registration-leak", f"still registered with the message hub: {extra}"))
                    if missing: fails.append(("hub-registration-missing", f"not registered with the message hub: {missing}"))
                    if int(kv["orphans"]) != 0:
                        fails.append(("superseded-not-cancelled", f"{kv['orphans']} client(s) dropped from the map with a context that is not cancelled (or listed but cancelled)"))
            except Exception as e:
                fails.append(("bad-output", f"{l} -> {o} ({e})")); break
            if fails: break
        return fails

    def nontrivial(self, case, out):
        ref = Ref()
        superseded = False
        for l, o in zip(case, out):
            f = parse(l)
            if f is None: continue
            if f[0] == "add":
                superseded |= f[1] in ref.rules
                ref.add(f[1], f[2], f[3])
            elif f[0] == "del":
                superseded |= (f[1] in ref.rules) or (s(f[1]) == "deleteAll" and bool(ref.rules))
                ref.delete(f[1])
            elif f[0] == "bcast" and superseded and o.startswith("rx=") and len(o) > 3:
                return True
        return False

    def describe(self, case):
        outl = []
        for l in case:
            f = l.split()
            p = parse(l)
            if p is None:
                outl.append(l + "   (malformed)"); continue
            k = f[0]
            if k == "add": outl.append(f"add id={s(f[1])!r} stream={s(f[2])!r} dest={s(f[3])!r}")
            elif k in ("del",): outl.append(f"delete id={s(f[1])!r}")
            elif k in ("down", "up", "drop"): outl.append(f"{k} dest={s(f[1])!r}")
            elif k == "await": outl.append(f"await dest={s(f[1])!r} open={f[2]} accepted={f[3]}" + (" slow" if len(f) == 5 else ""))
            elif k == "bcast" and f[2] == "ext": outl.append(f"broadcast topic={s(f[1])!r} from outside (expect {f[4]} receipts)")
            elif k == "bcast": outl.append(f"broadcast topic={s(f[1])!r} as dest={s(f[3])!r} (expect {f[5]} receipts)")
            elif k == "inject": outl.append(f"message in from dest={s(f[1])!r} (expect {f[3]} receipts)")
            else: outl.append(l)
        return outl


def modes(tier):
    return [RwcMode()]
