"""C16 — each destination rule owns one outgoing connection, replaced/removed on command"""
import concurrent.futures
import vlib
from vlib import hx, unhx

RULE = ("sequences of <=12 rule operations (add / replace / identical re-add / delete / deleteAll / delete of the k-th id of the "
        "implementation's own listing, incl. the empty id, the reserved id 'deleteAll' and 1-3 NEAR-reserved / unusual ids per case: "
        "the reserved id with leading/trailing blanks, tabs, newlines, NBSP, a leading or trailing '/', other case, one letter "
        "off, NUL / zero-width / homoglyph / percent-encoded variants; ids differing from another id of the case (the empty id "
        "included) only by surrounding whitespace, a leading '/' or case; ids with '/', blanks, '..', unicode; ids of 300+ bytes "
        "-- all of them ordinary, pairwise distinct keys on the unchanged tree), broadcasts on feed and plain topics from an outside sender or 'as' a destination, messages "
        "coming in from destinations, destinations dropping connections / going down (thorough: coming up again), over <=8 ids, "
        "6 streams (aggregated stream/a<-fa, stream/b<-fa+fb, a stream without feeds, two plain topics, the empty topic) and "
        "fresh / shared / re-used / down destinations, all drawn from one PRNG; an add of an unusual id is mostly followed by a "
        "dump of the listing, the client map and the hub registrations; every rule change is followed by `await` barriers "
        "(socket counts per destination) and mostly by a broadcast the superseded version was subscribed to; a case is "
        "non-trivial when it has a replace or delete of a live rule followed by a broadcast that some socket received; "
        "plus BACK-OFF scenarios (quick 18, thorough 200; about one general case in eight ends with such a tail): 1-3 rules whose "
        "destination is down -- nothing listening on its own port, or refusing the upgrade, from the start or going down after the "
        "rule connected, two ids may share it -- so that their clients sit in the 1st (2nd, thorough: 3rd) back-off sleep of "
        "1 s / 2 s / 4 s, optionally with a message queued for them; each is then deleted / replaced by a rule to another (up or "
        "down) or the same destination / deleted by listing position / removed by deleteAll / kept (control) in random order, "
        "next to 0-2 bystander rules; the old destinations come up right afterwards (most of them), `idle` lets the pending "
        "back-off run out, and the recording destinations say what they saw: no connection and no message at a destination "
        "whose rule was removed, exactly one socket per rule in force; such a case is non-trivial when a destination came up "
        "after its rule was removed while it was down and the back-off time was waited out; "
        "distinct = distinct op sequence")
ASSUMPTIONS = [
    "agg.Hub and the inner hub.Hub are running and take every hand-off (rwc.Hub.Run blocks otherwise); aggregation rules are static during a case",
    "each `case` of rwc.Hub.Run / agg.Hub.Run / hub.Hub.Run is one atomic step (one goroutine per hub; Rules/Clients are only read by the harness after a barrier hand-off: K5)",
    "rule Token and File are empty (Reconnect path, no file writing); destinations are well-formed ws:// URLs",
    "message loss by the hubs' non-blocking sends is outside this property: the harness paces messages and re-sends (<=3x) before it reports a live socket as not served",
    "`promptly` = the old socket is seen closed by the destination server within 2 s of the operation being applied",
    "back-off of a rule's client as configured by reconws.New (1 s, factor 2, at most 10 s, no jitter): the scenarios wait 1.1 s / 2 s / "
    "4.1 s after the destination came up for a dial that was pending when the rule was removed; a rule still in force is given 12 s to connect",
]

P = "Relay.Props.C16"
THEOREMS = [(f"Rwc.{n}", P) for n in
            ["one_live_per_id", "no_orphans", "hub_refines_cell", "live_is_latest_rule", "nothing_live_after_delete",
             "live_matches_rule", "nothing_after_supersede", "received_sub", "others_keep_flowing", "listing_exact",
             "reserved_id_unreachable", "id_taken_verbatim", "delete_taken_verbatim", "step_inv",
             "cancelled_never_dials", "superseded_never_connects", "accepts_count_dials", "idle_is_silent"]]

CFG = {"stream/a": ["fa"], "stream/b": ["fa", "fb"]}
RESERVED = "deleteAll"
PLAIN_IDS = ["r1", "r2", "r3", ""]
# ids an implementation that canonicalises (trim, strip a leading slash, fold case, unescape, cut at NUL ...) around its
# reserved-id guard would confuse with the reserved one; rwc.Hub.Run compares with == and stores the id verbatim, so on the
# unchanged tree every one of them is an ordinary rule id, distinct from all others
NEAR_RESERVED = [
    "/deleteAll", " deleteAll", "deleteAll ", "\tdeleteAll", "deleteAll\t", "deleteAll\n", "\r\ndeleteAll", " deleteAll ",
    " /deleteAll", "/ deleteAll", "//deleteAll", "deleteAll/", "./deleteAll", "/deleteAll/", "\u00a0deleteAll", "deleteAll\u3000",
    "DeleteAll", "deleteall", "DELETEALL", "delete All", "deleteAl", "deleteAlll", "deleteAll\x00", "\x00deleteAll",
    "%64eleteAll", "deleteAll?x=1", "deleteAll#", "dele\u200bteAll", "d\u0435leteAll", "\uff44eleteAll", " " * 64 + "deleteAll",
    "deleteAll" + " " * 200,
]
OTHER_IDS = ["a/b", "a b", "x/../y", "..", "caf\u00e9", "cafe\u0301", "\u898f\u5247", "\U0001f642", "r1\x00", "0", "-", "2d",
             "L" * 300, "deleteAll" * 40, "r/" * 150]
TWIN_DECOR = [lambda i: " " + i, lambda i: i + " ", lambda i: "\t" + i, lambda i: i + "\n", lambda i: "/" + i, lambda i: i + "/",
              lambda i: " /" + i, lambda i: "  " + i + "  ", lambda i: "\u00a0" + i, lambda i: i.upper(), lambda i: i.capitalize()]


def twin(rng, i):
    """an id that differs from `i` only by surrounding whitespace / a slash / case (never `i` itself, never the reserved id)"""
    for _ in range(20):
        j = rng.choice(TWIN_DECOR)(i)
        if j != i and j != RESERVED:
            return j
    return i + " "


def case_ids(rng):
    """the ids of one case: 3-4 plain ones, the reserved id, 1-3 unusual ones (some of them twins of an id of the case)"""
    plain = rng.sample(PLAIN_IDS, rng.choice([3, 4]))
    odd = []
    for _ in range(rng.choice([1, 2, 2, 3])):
        q = rng.random()
        if q < 0.45: j = rng.choice(NEAR_RESERVED)
        elif q < 0.80: j = twin(rng, rng.choice(plain + odd))
        else: j = rng.choice(OTHER_IDS)
        if j not in plain and j not in odd and j != RESERVED:
            odd.append(j)
    return plain, odd
STREAMS = ["stream/a", "stream/b", "stream/a", "stream/b", "plain", "plain", "plain", "p2", "stream/none", ""]
TOPICS = ["fa", "fa", "fb", "plain", "plain", "p2", "", "stream/a"]


def topics_of(st):
    return CFG.get(st, []) if st.startswith("stream/") else [st]


def s(h):
    return unhx(h).decode("utf-8", "replace")


def show(h):
    """an id (hex field) for a message: repr, long ones abbreviated"""
    if h == "none": return "nothing"
    x = s(h)
    return repr(x) if len(x) <= 48 else f"{x[:20]!r}...{x[-12:]!r} ({len(x)} chars)"


class Ref:
    """reference for the oracle and for the generator's barriers; works on the hex fields of the op lines"""

    def __init__(self):
        self.rules = {}     # id(hex) -> (stream(hex), dest(hex))
        self.down = set()
        self.acc = {}

    def live_on(self, d):
        return sum(1 for (_, dd) in self.rules.values() if dd == d)

    def open_n(self, d):
        return 0 if d in self.down else self.live_on(d)

    def add(self, i, st, d):
        if s(i) == "deleteAll":
            return
        self.rules[i] = (st, d)
        if d not in self.down:
            self.acc[d] = self.acc.get(d, 0) + 1

    def delete(self, i):
        if s(i) == "deleteAll":
            self.rules.clear()
        else:
            self.rules.pop(i, None)

    def set_down(self, d):
        self.down.add(d)

    def set_up(self, d):
        if d in self.down:
            self.down.discard(d)
            self.acc[d] = self.acc.get(d, 0) + self.live_on(d)

    def drop(self, d):
        if d not in self.down:
            self.acc[d] = self.acc.get(d, 0) + self.live_on(d)

    def rx(self, topic, sender):
        """destinations (one entry per socket) at which a broadcast on `topic` (hex) from `sender` (hex or None) arrives"""
        t = s(topic)
        return sorted(d for (st, d) in self.rules.values()
                      if t in topics_of(s(st)) and d != sender and d not in self.down)

    def inject(self, d):
        if d in self.down:
            return []
        out = []
        for (st, dd) in list(self.rules.values()):
            if dd == d:
                out += self.rx(st, d)
        return sorted(out)

    def conns(self):
        return sorted(d for (_, d) in self.rules.values() if d not in self.down)

    def regs(self):
        return sorted(f"{d}@{hx(t)}" for (st, d) in self.rules.values() for t in topics_of(s(st)))


def parse(line):
    """None for a malformed line (both sides must answer bad-op)"""
    f = line.split()
    ishex = lambda x: x == "-" or (len(x) % 2 == 0 and len(x) > 0 and all(c in "0123456789abcdef" for c in x))
    if not f:
        return None
    k = f[0]
    if k == "add" and len(f) == 4 and all(map(ishex, f[1:])): return f
    if k in ("del", "down", "up", "drop") and len(f) == 2 and ishex(f[1]): return f
    if k == "dell" and len(f) == 2 and 1 <= len(f[1]) <= 6 and all(c in "0123456789" for c in f[1]): return f
    if k == "idle" and len(f) == 2 and 1 <= len(f[1]) <= 5 and all(c in "0123456789" for c in f[1]): return f
    if k == "await" and (len(f) == 4 or (len(f) == 5 and f[4] == "slow")) and ishex(f[1]): return f
    if k == "bcast" and len(f) == 5 and f[2] == "ext" and ishex(f[1]) and ishex(f[3]): return f
    if k == "bcast" and len(f) == 6 and f[2] == "as" and ishex(f[1]) and ishex(f[3]) and ishex(f[4]): return f
    if k == "inject" and len(f) == 4 and ishex(f[1]) and ishex(f[2]): return f
    if k in ("conns", "rules") and len(f) == 1: return f
    return None


def showl(entries):
    """listing entries `id:stream:dest` / `id:dest` (hex fields) for a message"""
    return "[" + ", ".join(":".join(show(y) for y in x.split(":")) for x in entries) + "]"


def ms(x):
    return [y for y in x.split(",") if y]


def diff_ms(got, exp):
    g, e = list(got), list(exp)
    for x in list(g):
        if x in e:
            g.remove(x); e.remove(x)
    return g, e   # extras, missing


class RwcMode(vlib.Mode):
    name = "rwc"
    shrink_budget = 20

    def timeout(self, tier):
        return 900 if tier == "quick" else 7200

    # ------------------------------------------------------------------ generation
    def gen_case(self, rng, tier, L):
        ref = Ref()
        out = []
        ver = [0]
        plain, odd = case_ids(rng)
        ids = plain + [RESERVED] + odd
        w_add = [22] * len(plain) + [8] + [16] * len(odd)
        w_del = [20] * len(plain) + [20] + [14] * len(odd)
        tag = {i: (i or "e") for i in plain}
        tag[RESERVED] = RESERVED
        tag.update({i: f"u{k + 1}" for k, i in enumerate(odd)})   # destination names stay short and printable

        def await_(d, slow=False):
            out.append(f"await {d} {ref.open_n(d)} {ref.acc.get(d, 0)}" + (" slow" if slow else ""))

        def bcast(topic=None):
            if topic is None:
                livet = sorted({t for (st, _) in ref.rules.values() for t in topics_of(s(st))})
                topic = rng.choice(livet) if livet and rng.random() < 0.75 else rng.choice(TOPICS)
            t = hx(topic)
            dests = sorted({d for (_, d) in ref.rules.values()})
            if dests and rng.random() < 0.2:
                snd = rng.choice(dests)
                out.append(f"bcast {t} as {snd} {hx('m')} {len(ref.rx(t, snd))}")
            else:
                out.append(f"bcast {t} ext {hx('m')} {len(ref.rx(t, None))}")

        def probe_old(old):
            """a broadcast the superseded version was subscribed to"""
            if old is None:
                return
            ts = topics_of(s(old[0]))
            if ts and rng.random() < 0.75:
                bcast(rng.choice(ts))

        for _ in range(L):
            r = rng.random()
            cur = sorted({d for (_, d) in ref.rules.values()})
            if r < 0.42 or (not ref.rules and r < 0.8):
                i = rng.choices(ids, weights=w_add)[0]
                ih = hx(i)
                st = hx(rng.choice(STREAMS))
                old = ref.rules.get(ih)
                q = rng.random()
                ver[0] += 1
                if q < 0.10 and old is not None:
                    d = old[1]                                    # identical destination: replaced all the same
                    if rng.random() < 0.5: st = old[0]
                elif q < 0.24:
                    d = hx(rng.choice(["sh1", "sh1", "sh2"]))      # destination shared between ids
                elif q < 0.31:
                    d = hx(f"dn{ver[0]}")                          # a destination that refuses connections
                    out.append(f"down {d}"); ref.set_down(d)
                elif q < 0.34:
                    d = hx("")
                else:
                    d = hx(f"{tag[i]}-v{ver[0]}")                  # every rule version its own destination
                out.append(f"add {ih} {st} {d}")
                ref.add(ih, st, d)
                if old is not None and s(ih) != "deleteAll" and old[1] != d:
                    await_(old[1])
                await_(d)
                if i in odd and rng.random() < 0.6:
                    out.append("rules")                            # what is it stored / listed under?
                if s(ih) != "deleteAll":
                    probe_old(old)
            elif r < 0.55 and rng.random() < 0.3:
                # delete by the id the implementation lists the rule under
                k = rng.randrange(8)
                listed = sorted(ref.rules)
                out.append(f"dell {k}")
                olds = []
                if listed:
                    ih = listed[k % len(listed)]
                    olds = [ref.rules[ih]]
                    ref.delete(ih)
                for d in sorted({o[1] for o in olds}):
                    await_(d)
                if rng.random() < 0.5:
                    out.append("rules")
                probe_old(olds[0] if olds else None)
                if ref.rules and rng.random() < 0.5:
                    bcast()                                        # the others keep flowing
            elif r < 0.55:
                i = rng.choices(ids, weights=w_del)[0]
                ih = hx(i)
                if i == "deleteAll":
                    olds = list(ref.rules.values())
                else:
                    olds = [ref.rules[ih]] if ih in ref.rules else []
                out.append(f"del {ih}")
                ref.delete(ih)
                for d in sorted({o[1] for o in olds}):
                    await_(d)
                probe_old(rng.choice(olds) if olds else None)
            elif r < 0.80:
                bcast()
            elif r < 0.86:
                d = rng.choice(cur) if cur and rng.random() < 0.85 else hx("nobody")
                out.append(f"inject {d} {hx('in')} {len(ref.inject(d))}")
            elif r < 0.91:
                if cur:
                    d = rng.choice(cur)
                    out.append(f"drop {d}"); ref.drop(d); await_(d)
            elif r < 0.94:
                if cur:
                    d = rng.choice(cur)
                    out.append(f"down {d}"); ref.set_down(d); await_(d)
            elif r < 0.96 and tier != "quick":
                dn = sorted(ref.down)
                if dn:
                    d = rng.choice(dn)
                    out.append(f"up {d}"); ref.set_up(d); await_(d, slow=True)
            else:
                out.append(rng.choice(["rules", "conns"]))
        orphaned = [d for d in sorted(ref.down) if ref.live_on(d) == 0 and ref.acc.get(d, 0) == 0 and s(d).startswith("dn")]
        if orphaned and rng.random() < 0.6:
            # destinations that were down all along and whose rule is gone come up: the removed rule's client may still be
            # in a back-off sleep (how deep depends on how long the case took so far)
            for d in orphaned:
                out.append(f"up {d}"); ref.set_up(d)
            out.append(f"idle {rng.choice([1100, 1100, 2100])}")
            for d in orphaned:
                await_(d)
        for t in rng.sample(["fa", "fb", "plain", "p2"], 2):
            bcast(t)
        out += ["rules", "conns"]
        return out

    def gen_backoff_case(self, rng, tier, depth):
        """rules removed / replaced while their client sits in its depth-th back-off sleep; the old destination comes up
        before that sleep ends"""
        ref = Ref()
        out = []
        plain, odd = case_ids(rng)
        pool = plain + odd[:1]
        rng.shuffle(pool)
        nv = min(rng.choice([1, 2, 2, 3]), len(pool))
        vids, bids = pool[:nv], pool[nv:nv + rng.choice([0, 1, 1, 2])]
        ver = [0]

        def await_(d, slow=False):
            out.append(f"await {d} {ref.open_n(d)} {ref.acc.get(d, 0)}" + (" slow" if slow else ""))

        def bcast(topic):
            t = hx(topic)
            out.append(f"bcast {t} ext {hx('m')} {len(ref.rx(t, None))}")

        def stream():
            return hx(rng.choice(["stream/a", "stream/b", "plain", "plain", "p2"]))

        # --- setup: bystanders connect; victims end up in the back-off sleep after a failed dial
        setup = [("v", i) for i in vids] + [("b", i) for i in bids]
        rng.shuffle(setup)
        victims = []          # (id hex, old destination)
        for kind, i in setup:
            ih, st = hx(i), stream()
            ver[0] += 1
            if kind == "b":
                d = hx(f"by{ver[0]}")
                out.append(f"add {ih} {st} {d}"); ref.add(ih, st, d); await_(d)
                continue
            how = rng.choice(["closed", "closed", "refuse", "later", "later"])
            if victims and rng.random() < 0.15:
                d = victims[-1][1]                                   # two ids, one destination that is down
                how = "shared"
            else:
                own = how == "closed" or (how == "later" and rng.random() < 0.6)
                d = hx(("pt" if own else "dn") + str(ver[0]))        # pt*: a port of its own, nothing listening while down
            if how in ("closed", "refuse"):
                out.append(f"down {d}"); ref.set_down(d)
            out.append(f"add {ih} {st} {d}"); ref.add(ih, st, d); await_(d)
            if how == "later":
                if rng.random() < 0.5:
                    bcast(rng.choice(topics_of(s(st)) or ["plain"]))
                out.append(f"down {d}"); ref.set_down(d); await_(d)
            victims.append((ih, d))
        # --- messages that stay queued in the clients of the down destinations
        for ih, d in victims:
            if rng.random() < 0.6:
                ts = topics_of(s(ref.rules[ih][0]))
                if ts: bcast(rng.choice(ts))
        # --- deeper back-off: 1 s (and 2 s) sleeps run out, the next dial fails as well
        out.append(f"idle {[40, 1100, 3150][depth - 1]}")               # (depth 1: the first dial has failed by now)
        # --- the rules are removed / replaced while their clients sleep
        order = list(victims)
        rng.shuffle(order)
        newdown = []
        for ih, d in order:
            if ih not in ref.rules:
                continue                                             # gone with a deleteAll
            act = rng.choices(["del", "replace-up", "replace-same", "replace-down", "dell", "delall", "keep"],
                              weights=[30, 25, 8, 7, 10, 8, 12])[0]
            olds = [ref.rules[ih][1]]
            if act == "del":
                out.append(f"del {ih}"); ref.delete(ih)
            elif act == "dell":
                listed = sorted(ref.rules)
                out.append(f"dell {listed.index(ih) + len(listed) * rng.randrange(3)}"); ref.delete(ih)
            elif act == "delall":
                olds = sorted({dd for (_, dd) in ref.rules.values()})
                out.append(f"del {hx(RESERVED)}"); ref.delete(hx(RESERVED))
            elif act.startswith("replace"):
                ver[0] += 1
                st = stream() if rng.random() < 0.6 else ref.rules[ih][0]
                if act == "replace-up":
                    nd = hx(f"nw{ver[0]}")
                elif act == "replace-same":
                    nd = d
                else:
                    nd = hx(rng.choice(["pt", "dn"]) + str(ver[0]))
                    out.append(f"down {nd}"); ref.set_down(nd); newdown.append(nd)
                out.append(f"add {ih} {st} {nd}"); ref.add(ih, st, nd)
                if nd != d: await_(nd)
            else:
                continue
            for od in olds:
                await_(od)
        # --- the old destinations come up again, well before the pending sleep ends
        ups = [d for d in dict.fromkeys(d for _, d in victims) if rng.random() < 0.9]
        ups += [d for d in newdown if rng.random() < 0.5]
        rng.shuffle(ups)
        for d in ups:
            out.append(f"up {d}"); ref.set_up(d)
        # the others keep flowing meanwhile (on a topic no rule subscribes to whose own reconnect is still pending: the
        # reference takes a destination that came up as connected, which is only so once the `await ... slow` below returned)
        pending = {d for d in ups if ref.live_on(d) > 0}
        busy = {t for (st, d) in ref.rules.values() if d in pending for t in topics_of(s(st))}
        livet = sorted({t for (st, _) in ref.rules.values() for t in topics_of(s(st))} - busy)
        if livet and rng.random() < 0.7:
            bcast(rng.choice(livet))
        out.append(f"idle {[1100, 2000, 4100][depth - 1]}")
        # --- what did the destinations see?  (a rule in force whose destination came up connects when ITS sleep ends)
        every = list(dict.fromkeys([d for _, d in victims] + newdown + sorted({d for (_, d) in ref.rules.values()})))
        for d in every:
            await_(d, slow=ref.open_n(d) > 0)
        for t in rng.sample(["fa", "fb", "plain", "p2"], 2):
            bcast(t)
        out += ["rules", "conns"]
        return out

    def generate(self, rng, tier):
        n = 64 if tier == "quick" else 1300
        cases = []
        for k in range(n):
            L = rng.choice([3, 6, 9, 12, 12])
            case = self.gen_case(rng, tier, L)
            if k % 16 == 7:   # a malformed stream mixed in
                junk = ["frob", "add 7231", "add 7 7 7", "del", "bcast 6661 ext", "await zz 0 0", "inject 6431 6d", "add 72 zz 64",
                        "dell", "dell -1", "dell 1x", "dell 6b", "dell 1234567", "dell +1", "dell 1 2"]
                junk += ["idle", "idle x", "idle -5", "idle 123456", "idle 10 10", "idle 6d"]
                for _ in range(2):
                    case.insert(rng.randrange(len(case)), rng.choice(junk))
            cases.append(case)
        # back-off scenarios: quick 14 in the first sleep (1 s) + 4 in the second (2 s); thorough also the third (4 s)
        depths = [1] * 14 + [2] * 4 if tier == "quick" else [1] * 120 + [2] * 60 + [3] * 20
        for depth in depths:
            cases.append(self.gen_backoff_case(rng, tier, depth))
        return cases

    # ------------------------------------------------------------------ running the implementation
    PAR = 4

    def run_impl(self, impl_exe, cases, tier):
        """cases are independent (every harness process has its own loopback ports): the waiting in them is spent in
        PAR processes side by side, longest first"""
        args = [impl_exe, self.impl_mode] + list(self.impl_args)
        if len(cases) < 2 * self.PAR:
            return vlib.run_cases_isolating(args, cases, timeout=self.timeout(tier), env=vlib.GOENV)
        def cost(c):
            return sum(int(l.split()[1]) if l.startswith("idle ") and parse(l) else 60 for l in c)
        bins = [[0, []] for _ in range(self.PAR)]
        for i in sorted(range(len(cases)), key=lambda i: -cost(cases[i])):
            b = min(bins, key=lambda b: b[0])
            b[0] += cost(cases[i]); b[1].append(i)
        outs = [None] * len(cases)
        with concurrent.futures.ThreadPoolExecutor(self.PAR) as ex:
            futs = [(b[1], ex.submit(vlib.run_cases_isolating, args, [cases[i] for i in b[1]], self.timeout(tier), vlib.GOENV))
                    for b in bins if b[1]]
            for idx, fu in futs:
                for i, o in zip(idx, fu.result()):
                    outs[i] = o
        return outs

    # ------------------------------------------------------------------ oracle
    def oracle(self, case, out):
        """the property evaluated on what the real hubs / sockets did, against an independent python reference"""
        fails = []
        ref = Ref()
        for l, o in zip(case, out):
            f = parse(l)
            if o.startswith("panic") or o.startswith("<<"):
                fails.append(("crash", f"{l} -> {o}")); break
            if o == "stuck":
                fails.append(("stuck", f"{l}: a hub did not take the hand-off within 5 s")); break
            if f is None:
                if o != "bad-op": fails.append(("bad-output", f"malformed line {l!r} answered {o}"))
                continue
            if o == "bad-op":
                fails.append(("bad-output", f"{l} answered bad-op")); break
            k = f[0]
            try:
                if k == "add": ref.add(f[1], f[2], f[3])
                elif k == "del": ref.delete(f[1])
                elif k == "dell":
                    # the harness deleted the k-th id of the implementation's own listing and says which one
                    got = o.split("=", 1)[1] if o.startswith("deleted=") else None
                    listed = sorted(ref.rules)
                    exp = listed[int(f[1]) % len(listed)] if listed else "none"
                    if got is None:
                        fails.append(("bad-output", f"{l} -> {o}")); break
                    if got == hx(RESERVED):
                        fails.append(("reserved-id-present", f"{l}: the implementation lists a rule under the reserved id; deleting the rule "
                                      f"by the id it is listed under takes down all {len(ref.rules)} rules in force"))
                    elif got != "none" and got not in ref.rules:
                        fails.append(("listed-id-never-added", f"{l}: the implementation lists id {show(got)}, which was never added "
                                      f"(in force: {[show(x) for x in listed]})"))
                    elif got != exp:
                        fails.append(("listing-not-added-minus-deleted", f"{l}: entry {f[1]} of the sorted listing is {show(got)}, "
                                      f"added minus deleted gives {show(exp)}"))
                    else:
                        if got != "none": ref.delete(got)
                elif k == "down": ref.set_down(f[1])
                elif k == "up":
                    if o == "port-lost":
                        fails.append(("harness-port-lost", f"{l}: the harness could not listen on the destination's port again (environment)")); break
                    ref.set_up(f[1])
                elif k == "drop": ref.drop(f[1])
                elif k == "idle":
                    if o != "ok":
                        fails.append(("bad-output", f"{l} -> {o}")); break
                elif k == "await":
                    kv = dict(x.split("=") for x in o.split())
                    n, t = int(kv["n"]), int(kv["t"])
                    en, et = ref.open_n(f[1]), ref.acc.get(f[1], 0)
                    carried = (f"; {kv['last']} message(s) came in over the most recent of them" if kv.get("last", "0") != "0" else "")
                    if n > en:
                        fails.append(("stale-or-extra-connection", f"{n} socket(s) open to {s(f[1])!r} 2 s after the change, the rules in force own {en}"))
                    elif n < en:
                        fails.append(("connection-missing", f"{n} socket(s) open to {s(f[1])!r}, the rules in force own {en}"))
                    elif t > et and ref.live_on(f[1]) == 0:
                        fails.append(("connection-from-removed-rule", f"destination {s(f[1])!r} has no rule in force, yet it accepted {t - et} "
                                      f"connection(s) after its rule was deleted / replaced ({t} accepted so far, {et} by rules in force at "
                                      f"the time){carried}"))
                    elif t != et:
                        fails.append(("unexpected-reconnect", f"{t} connections accepted by {s(f[1])!r} so far, expected {et} "
                                      f"({ref.live_on(f[1])} rule(s) in force own it){carried}"))
                elif k in ("bcast", "inject"):
                    got = ms(o.split("=", 1)[1])
                    exp = ref.inject(f[1]) if k == "inject" else ref.rx(f[1], f[3] if f[2] == "as" else None)
                    extra, missing = diff_ms(got, exp)
                    if extra:
                        fails.append(("received-by-superseded-or-unsubscribed", f"{l}: message arrived at {[s(x) for x in extra]} which no rule in force sends it to"))
                    if missing:
                        fails.append(("live-rule-not-served", f"{l}: message did not arrive at {[s(x) for x in missing]}"))
                elif k == "conns":
                    extra, missing = diff_ms(ms(o.split("=", 1)[1]), ref.conns())
                    if extra: fails.append(("stale-or-extra-connection", f"open sockets nobody owns: {[s(x) for x in extra]}"))
                    if missing: fails.append(("connection-missing", f"no socket to {[s(x) for x in missing]}"))
                elif k == "rules":
                    kv = dict(x.split("=", 1) for x in o.split())
                    rl, cl, rg = ms(kv["rules"]), ms(kv["clients"]), ms(kv["regs"])
                    if any(x.split(":")[0] == hx(RESERVED) for x in rl + cl):
                        fails.append(("reserved-id-present", f"an entry is stored / listed under the reserved id: rules={showl(rl)} clients={showl(cl)}"))
                    exp_r = sorted(f"{i}:{st}:{d}" for i, (st, d) in ref.rules.items())
                    exp_c = sorted(f"{i}:{d}" for i, (st, d) in ref.rules.items())
                    if sorted(rl) != exp_r:
                        fails.append(("listing-not-added-minus-deleted", f"listing {showl(sorted(rl))} but added minus deleted is {showl(exp_r)}"))
                    if len({x.split(":")[0] for x in cl}) != len(cl):
                        fails.append(("more-than-one-client-per-id", f"clients {cl}"))
                    if sorted(cl) != exp_c:
                        fails.append(("clients-not-matching-rules", f"clients {showl(sorted(cl))} but rules in force are {showl(exp_c)}"))
                    extra, missing = diff_ms(rg, ref.regs())
                    if extra: fails.append(("hub-registration-leak", f"still registered with the message hub: {extra}"))
                    if missing: fails.append(("hub-registration-missing", f"not registered with the message hub: {missing}"))
                    if int(kv["orphans"]) != 0:
                        fails.append(("superseded-not-cancelled", f"{kv['orphans']} client(s) dropped from the map with a context that is not cancelled (or listed but cancelled)"))
            except Exception as e:
                fails.append(("bad-output", f"{l} -> {o} ({e})")); break
            if fails: break
        return fails

    def nontrivial(self, case, out):
        ref = Ref()
        superseded = False
        lost_while_down = set()      # destinations that lost a rule while they were down
        revived = False              # ... and came up afterwards
        for l, o in zip(case, out):
            f = parse(l)
            if f is None: continue
            before = {d for (_, d) in ref.rules.values()}
            if f[0] == "add":
                superseded |= f[1] in ref.rules
                old = ref.rules.get(f[1])
                ref.add(f[1], f[2], f[3])
                if old is not None and s(f[1]) != RESERVED and old[1] in ref.down: lost_while_down.add(old[1])
            elif f[0] == "del":
                superseded |= (f[1] in ref.rules) or (s(f[1]) == "deleteAll" and bool(ref.rules))
                gone = [r[1] for r in ref.rules.values()] if s(f[1]) == RESERVED else [r[1] for i, r in ref.rules.items() if i == f[1]]
                ref.delete(f[1])
                lost_while_down |= {d for d in gone if d in ref.down}
            elif f[0] == "dell" and o.startswith("deleted=") and o != "deleted=none":
                superseded |= o[8:] in ref.rules
                if o[8:] != hx(RESERVED):
                    if o[8:] in ref.rules and ref.rules[o[8:]][1] in ref.down: lost_while_down.add(ref.rules[o[8:]][1])
                    ref.delete(o[8:])
            elif f[0] == "down": ref.set_down(f[1])
            elif f[0] == "up":
                revived |= f[1] in lost_while_down and f[1] in ref.down
                ref.set_up(f[1])
            elif f[0] == "idle" and revived and int(f[1]) >= 1000:
                return True
            elif f[0] == "bcast" and superseded and o.startswith("rx=") and len(o) > 3:
                return True
        return False

    def describe(self, case):
        outl = []
        for l in case:
            f = l.split()
            p = parse(l)
            if p is None:
                outl.append(l + "   (malformed)"); continue
            k = f[0]
            if k == "add": outl.append(f"add id={show(f[1])} stream={s(f[2])!r} dest={s(f[3])!r}")
            elif k in ("del",): outl.append(f"delete id={show(f[1])}")
            elif k == "dell": outl.append(f"delete the rule listed at position {f[1]} (mod the number listed) of the implementation's sorted listing, by the id it is listed under")
            elif k in ("down", "up", "drop"):
                outl.append(f"{k} dest={s(f[1])!r}" + (" (a port of its own: nothing listens on it while down)" if s(f[1]).startswith("pt") else ""))
            elif k == "idle": outl.append(f"let {f[1]} ms pass")
            elif k == "await": outl.append(f"await dest={s(f[1])!r} open={f[2]} accepted={f[3]}" + (" slow" if len(f) == 5 else ""))
            elif k == "bcast" and f[2] == "ext": outl.append(f"broadcast topic={s(f[1])!r} from outside (expect {f[4]} receipts)")
            elif k == "bcast": outl.append(f"broadcast topic={s(f[1])!r} as dest={s(f[3])!r} (expect {f[5]} receipts)")
            elif k == "inject": outl.append(f"message in from dest={s(f[1])!r} (expect {f[3]} receipts)")
            else: outl.append(l)
        return outl


def modes(tier):
    return [RwcMode()]


# "the rule listing always equals the rules added and not since deleted", as the host's HTTP / websocket rule API (internal/vw) applies it:
# the vwapi histories of C18 (which end in listings through all three interfaces and re-apply rule ids with one member changed), judged
# here on the listing clauses only
import c18 as _c18


class VwForC16(_c18.VwApiMode):
    KEEP = ("listing-not-latest-rule", "reserved-id-listed", "delete-all-incomplete", "crash", "stuck")

    def generate(self, rng, tier):
        cases = _c18.VwApiMode.generate(self, rng, tier)
        return cases[:len(cases) // 3]

    def oracle(self, case, out):
        return [x for x in _c18.VwApiMode.oracle(self, case, out) if x[0] in self.KEEP]


_modes_c16 = modes


def modes(tier):
    return _modes_c16(tier) + [VwForC16()]

RULE = RULE + " vwapi mode (see C18): the rule API of the host process in front of the rwc hub; listing clauses."
