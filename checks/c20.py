"""C20 — play files parse as documented; the log filter passes exactly what the rules allow"""
import os, re
import vlib
from vlib import hx, unhx

RULE = ("play-file lines from a grammar-directed generator (comment / delay / condition / filter / plain prefixes x "
        "whitespace placements incl. \\t \\f \\r \\n and the non-blanks \\v \\xa0 x duration shapes (valid, unit-less, "
        "one-character, overflow, wrap-around, long fractions) x pattern shapes (compiling, non-compiling, quotes, '>' "
        "inside, invalid UTF-8) x counts (empty, zeros, int64 boundary)), a malformed stream over a syntax-biased byte "
        "alphabet (all byte values 0..255 occur), rendered well-formed commands (round trip), Check over small files, "
        "time.ParseDuration / strconv.Atoi directly, and histories of accept/deny/reset (as play-file lines through the "
        "real parser and as direct actions) interleaved with received lines through the real Filter and the real "
        "FilterLines goroutine; all from one PRNG. non-trivial parse case = at least 3 different result kinds; "
        "non-trivial filter case = an accept and a deny in effect and both a passed and a dropped line; distinct = distinct op sequence")
ASSUMPTIONS = [
    "regexp.Compile / MatchString for USER-SUPPLIED patterns are parameters of the model; their verdicts are computed by the real "
    "library for the strings the model selects (phase 1 `want`), never by the harness choosing the substring",
    "the five fixed expressions of regex.go are modelled by hand as byte scanners (leftmost-first = greedy scan, `<(.*)>` = last '>' "
    "before the first newline); time.ParseDuration (Go 1.23, incl. float64 fraction arithmetic and uint64 wrap) and strconv.Atoi "
    "are modelled in Lean and tied to the real functions by the `dur` / `atoi` operations",
    "a play-file line is a byte string; the model's List Char is its Latin-1 view (one Char per byte)",
    "FilterLines handles one event (action or line) completely before the next (single goroutine, unbuffered channels)",
    "Play/ConditionCheckLines timing behaviour (time.After, channel waits) is not part of C20",
]

P = "Relay.Props.C20"
THEOREMS = [(f"PlayFile.{n}", P) for n in
            ["parse_total_exclusive", "parse_kind_by_shape", "comment_never_sent", "comment_exact", "plain_verbatim",
             "delayed_send_exact", "delayed_send_exact_line", "delay_without_unit_rejected", "conditional_send_exact",
             "filter_command_exact", "parse_uses_only_wanted", "print_parse_roundtrip", "parse_error_iff_malformed",
             "check_iff_malformed", "durLoop_fuel"]] + \
           [(f"Filter.{n}", P) for n in ["filter_pass_iff", "filter_log_exact", "filter_keys_exact"]]

MODEL_EXE = vlib.LEAN + "/.lake/build/bin/relaydrv"
IMPL_EXE = vlib.BUILD + "/verifdrv"

# ------------------------------------------------------------------ reference parser (oracle side)
# The property statement evaluated directly: the README grammar with the code's five expressions, written
# with explicit classes for python's `re` on bytes (independent of the Lean model and of Go's regexp engine).
_W = rb"[\t\n\f\r ]*"
R_COMMENT = re.compile(rb"^" + _W + rb"#+([+-]*)" + _W + rb"([^\n]*)")
R_DELAY = re.compile(rb"^" + _W + rb"\[" + _W + rb"([a-zA-Z0-9.]*)" + _W + rb"\]" + _W + rb"([^\n]*)")
R_COND = re.compile(rb"^" + _W + rb"<([^\n]*)>" + _W + rb"([^\n]*)")
R_ARGS = re.compile(rb"^" + _W + rb"'([^']*)'" + _W + rb"," + _W + rb"([0-9]*)" + _W + rb"," + _W + rb"([0-9hmns.]*)" + _W)
R_FILTER = re.compile(rb"^" + _W + rb"\|" + _W + rb"([-+a-zA-Z]+)" + _W + rb">" + _W + rb"([^\n]*)")

UNITS = {b"ns": 1, b"us": 1000, "µs".encode(): 1000, "μs".encode(): 1000, b"ms": 10**6, b"s": 10**9,
         b"m": 60 * 10**9, b"h": 3600 * 10**9}
T63 = 1 << 63


def go_duration(s):
    """time.ParseDuration (Go 1.23) on bytes: ns or None"""
    neg = False
    if s[:1] in (b"-", b"+"):
        neg = s[:1] == b"-"
        s = s[1:]
    if s == b"0":
        return 0
    if s == b"":
        return None
    d = 0
    while s:
        if not (s[0] == 46 or 48 <= s[0] <= 57):
            return None
        i, x = 0, 0
        while i < len(s) and 48 <= s[i] <= 57:
            if x > T63 // 10:
                return None
            x = x * 10 + s[i] - 48
            if x > T63:
                return None
            i += 1
        pre, v, s = i > 0, x, s[i:]
        f, scale, post = 0, 1.0, False
        if s[:1] == b".":
            s = s[1:]
            i, x, ovf = 0, 0, False
            while i < len(s) and 48 <= s[i] <= 57:
                if not ovf:
                    if x > (T63 - 1) // 10:
                        ovf = True
                    else:
                        y = x * 10 + s[i] - 48
                        if y > T63:
                            ovf = True
                        else:
                            x = y
                            scale *= 10
                i += 1
            post, f, s = i > 0, x, s[i:]
        if not pre and not post:
            return None
        i = 0
        while i < len(s) and not (s[i] == 46 or 48 <= s[i] <= 57):
            i += 1
        if i == 0:
            return None
        u, s = s[:i], s[i:]
        if u not in UNITS:
            return None
        unit = UNITS[u]
        if v > T63 // unit:
            return None
        v *= unit
        if f > 0:
            v += int(float(f) * (float(unit) / scale))
            if v > T63:
                return None
        d = (d + v) % (1 << 64)
        if d > T63:
            return None
    if neg:
        return -d
    if d > T63 - 1:
        return None
    return d


def go_atoi(s):
    neg = False
    ds = s
    if s[:1] in (b"-", b"+"):
        neg = s[:1] == b"-"
        ds = s[1:]
    if ds == b"" or not all(48 <= c <= 57 for c in ds):
        return None
    n = int(ds)
    if neg:
        return -n if n <= T63 else None
    return n if n <= T63 - 1 else None


def ref_pattern(line):
    """the user-supplied pattern of a line according to the grammar (None if the line has none)"""
    if R_COMMENT.match(line) or R_DELAY.match(line):
        return None
    m = R_COND.match(line)
    if m:
        a = R_ARGS.match(m.group(1))
        return a.group(1) if a else None
    m = R_FILTER.match(line)
    if m and m.group(1).lower() in (b"-", b"d", b"deny", b"+", b"a", b"accept"):
        return m.group(2)
    return None


def ref_parse(line, compiles):
    """expected canonical rendering of ParseLine(line) by the documented grammar; compiles: bytes -> bool"""
    m = R_COMMENT.match(line)
    if m:
        return f"comment {1 if m.group(1) == b'+' else 0} {hx(m.group(2))}"
    m = R_DELAY.match(line)
    if m:
        arg, msg = m.group(1), m.group(2)
        t = 0
        if arg:
            t = go_duration(arg)
            if t is None:
                return "error delay-format"
        return f"send {hx(msg)} {t} nocond" if msg else f"wait {t}"
    m = R_COND.match(line)
    if m:
        a = R_ARGS.match(m.group(1))
        if not a:
            return "error cond-args"
        if not compiles(a.group(1)):
            return "error cond-regexp"
        n = go_atoi(a.group(2))
        if n is None:
            return "error cond-count"
        d = go_duration(a.group(3))
        if d is None:
            return "error cond-timeout"
        return f"send {hx(m.group(2))} 0 cond {hx(a.group(1))} {n} {d}"
    m = R_FILTER.match(line)
    if m:
        v = m.group(1).lower()
        if v in (b"r", b"reset"):
            return "filter reset nil"
        if v in (b"-", b"d", b"deny"):
            verb = "deny"
        elif v in (b"+", b"a", b"accept"):
            verb = "accept"
        else:
            return "error filter-verb"
        if not compiles(m.group(2)):
            return "error filter-regexp"
        return f"filter {verb} {hx(m.group(2))}"
    return f"send {hx(line)} 0 nocond"


def classify(line, exp, got):
    """signature + description of a parse result that is not what the grammar says"""
    ek, gk = exp.split(" ")[0], got.split(" ")[0]
    L = repr(line)
    if gk in ("panic", "<<process", "stuck", "unknown-type"):
        return ("parse-failed", f"ParseLine({L}) did not return a result: {got}")
    m = R_DELAY.match(line)
    if ek == "error" and exp == "error delay-format" and gk in ("send", "wait") and m and not R_COMMENT.match(line):
        arg = m.group(1)
        if all(c == 46 or 48 <= c <= 57 for c in arg):
            return ("delay-without-unit-accepted",
                    f"ParseLine({L}) accepted the delay argument {arg!r} which has no unit (result: {got}); a duration needs a unit, expected an error")
        return ("invalid-delay-accepted", f"ParseLine({L}) accepted the invalid delay argument {arg!r} (result: {got}), expected an error")
    if R_COMMENT.match(line) and gk != "comment":
        return ("comment-not-comment", f"ParseLine({L}) is a comment line but parsed to {got}")
    if ek == "error" and gk != "error":
        return ("malformed-accepted", f"ParseLine({L}) is malformed ({exp}) but was accepted as {got}")
    if ek != "error" and gk == "error":
        return ("wellformed-rejected", f"ParseLine({L}) is well-formed (expected {exp}) but was rejected: {got}")
    if ek == gk == "send":
        return ("send-payload-wrong", f"ParseLine({L}) = {got}, the grammar says {exp}")
    return ("parse-not-grammar", f"ParseLine({L}) = {got}, the grammar says {exp}")


# ------------------------------------------------------------------ generator pieces

BLANKS = [b"", b"", b"", b" ", b" ", b"  ", b"\t", b" \t ", b"\f", b"\r", b" \r\t"]
ODD_BLANKS = [b"\n", b" \n ", b"\v", b"\xa0", b"\x85", b"\xc2\xa0", b"\x00"]
VALID_DUR = [b"0", b"0s", b"5s", b"1s", b"100ms", b"10ms", b"1.5h", b"2m45s", b"1h5.3m0.5s", b".5s", b"5.s", b"10ns", b"3us",
             b"0.1s", b"0.001s", b"1h", b"8760h", b"1.2s", b"0.3s", b"1m", b"007s", b"2562047h47m16.854775807s",
             b"9223372036854775807ns", b"9223372036854775808ns9223372036854775808ns", b"0.3333333333333333333h",
             b"0.0000000000009223372036854775807h", b"1.0000000000000000000000000000000000000001s", b"00000000000000000000001s",
             b"0.000001ms", b"1.999999999999999999999s", b"0.1ns", b"0.9ns", b"1h1h", b"0.0s", b"0h0m0s"]
BAD_DUR = [b"5", b"x", b"s", b"h", b"1", b"9", b".", b"m", b"1.5", b"10", b"5x", b"5S", b"ms", b".s", b"1..5s", b"5sec", b"1d",
           b"1s0", b"s5", b"5ss", b"9223372036854775808ns", b"2562047h47m16.854775808s", b"9999999999h", b"99999999999999999999s",
           b"1e3s", b"0x5s", b"5H", b"5M", b"1.2.3s", b"0.5", b"00"]
MSGS = [b'{"some":"msg"}', b"foo", b"x", b"set foo=bar", b'{"stop":"motor"}', b"a b  c ", b"[1s] nested", b"<'a',1,1s> nested",
        b"|+> nested", b"# not a comment", b"#", b"[", b"<", b"|", b">", b"a>b", b'{"a":">"}', b"]", b"trailing  \t", b"\xc3\xa9t\xc3\xa9",
        b"\xff\xfe", b"a\nb", b"0", b"'", b",", b"]]", b"x[1s]"]
PATS = [b"foo", b"a", rb'\"is\"\s*:\s*\"running\"', rb"^\s*{", rb"^\s*\{", b'"hb"', b"", b"a(", b"[", b"*", b"a|b", b"x>y", b">", b"a,b",
        rb"\'foo\'", b"(?!x)", b"\xff", b"\xc3\xa9", b"[0-9]+", b"^$", b".*", b"(a)(b)", b"a{2,3}", b"a{3,2}", b"\\", b"(?i)abc", b"a b", b" a", b"a "]
COUNTS = [b"5", b"1", b"0", b"", b"007", b"10", b"08", b"09", b"010", b"0130", b"00", b"0x10", b"0b11", b"0o7", b"1_000", b"9223372036854775807", b"9223372036854775808", b"99999999999999999999", b"-1", b"+5",
          b"1x", b"0000000000000000000000005", b"1 2"]
TIMEOUTS = [b"10s", b"1m", b"1s", b"5ms", b"100ms", b"1h30m", b"1.5s", b"0", b"0s", b"10", b"", b"5us", b"5x", b"1", b"s", b".5s",
            b"10ns", b"9223372036854775807ns", b"9223372036854775808ns", b"3h2m1s", b"1.s", b"mm", b"1h1"]
VERBS = [b"+", b"-", b"a", b"d", b"r", b"A", b"D", b"R", b"accept", b"ACCEPT", b"Accept", b"deny", b"DENY", b"Deny", b"reset", b"RESET",
         b"aCCept", b"dEnY", b"x", b"acc", b"++", b"+-", b"ad", b"resets", b"accepts", b"den", b"rr", b"ar", b"z"]
SYNTAX = b"#[]<>|'+-,. \t0123456789smhnuadr\n\"{}:\\xE"


def blank(rng, p_odd=0.04):
    if rng.random() < p_odd:
        return rng.choice(ODD_BLANKS)
    return rng.choice(BLANKS)


def rand_bytes(rng, n, alphabet=None):
    if alphabet is None:
        return bytes(rng.randrange(256) for _ in range(n))
    return bytes(rng.choice(alphabet) for _ in range(n))


def gen_duration(rng):
    r = rng.random()
    if r < 0.35:
        return rng.choice(VALID_DUR)
    if r < 0.6:
        return rng.choice(BAD_DUR)
    if r < 0.68:   # one character
        return bytes([rng.choice(b"0123456789smhx.aZ")])
    if r < 0.9:    # composed terms
        out = b""
        for _ in range(rng.choice([1, 1, 2, 3])):
            ip = str(rng.choice([0, 1, 5, 12, 300, 59, 999999, rng.randrange(10**rng.choice([1, 3, 9, 15, 19]))])).encode()
            if rng.random() < 0.15:
                ip = b""
            fp = b""
            if rng.random() < 0.4:
                fp = b"." + "".join(rng.choice("0123456789") for _ in range(rng.choice([0, 1, 2, 3, 6, 9, 12, 18, 20, 25, 40]))).encode()
            unit = rng.choice([b"ns", b"us", b"ms", b"s", b"m", b"h", b"s", b"ms", b"", b"d", b"S", b"sec"])
            out += ip + fp + unit
        return out
    return rand_bytes(rng, rng.choice([1, 2, 3, 5]), b"0123456789.smhnuxZ")


def gen_msg(rng):
    r = rng.random()
    if r < 0.55:
        return rng.choice(MSGS)
    if r < 0.7:
        return b""
    if r < 0.85:
        return rand_bytes(rng, rng.choice([1, 3, 8, 20]), SYNTAX)
    return rand_bytes(rng, rng.choice([1, 4, 12]))


def gen_pat(rng):
    r = rng.random()
    if r < 0.75:
        return rng.choice(PATS)
    if r < 0.9:
        return rand_bytes(rng, rng.choice([1, 2, 4, 7]), b"ab.*+?()[]{}|^$\\ '>,-0s")
    return rand_bytes(rng, rng.choice([1, 3]))


def gen_comment(rng):
    return blank(rng) + b"#" * rng.choice([1, 1, 1, 2, 3]) + rng.choice([b"", b"", b"+", b"-", b"++", b"+-", b"-+", b"--+"]) + blank(rng) + gen_msg(rng)


def gen_delay(rng):
    arg = gen_duration(rng) if rng.random() < 0.9 else b""
    line = blank(rng) + b"[" + blank(rng) + arg + blank(rng) + b"]" + blank(rng) + gen_msg(rng)
    r = rng.random()
    if r < 0.05:
        line = line.replace(b"]", b"", 1)
    elif r < 0.08:
        line = line.replace(b"[", b"[[", 1)
    elif r < 0.12:
        line = blank(rng) + b"[" + rng.choice([b"-5s", b"+5s", b"5 s", b"1s 2s", b"5_s", b"5s,", b"\xc2\xb5s", b"1\xc2\xb5s"]) + b"]" + blank(rng) + gen_msg(rng)
    return line


def gen_cond(rng):
    q = b"'"
    inner = blank(rng) + q + gen_pat(rng) + q + blank(rng) + b"," + blank(rng) + rng.choice(COUNTS) + blank(rng) + b"," + blank(rng) + \
        (rng.choice(TIMEOUTS) if rng.random() < 0.6 else gen_duration(rng)) + blank(rng) + rng.choice([b"", b"", b"", b"", b"x", b"> y", b", 3", b"'"])
    r = rng.random()
    if r < 0.04:
        inner = inner.replace(b",", b"", 1)
    elif r < 0.07:
        inner = inner.replace(q, b"", 1)
    elif r < 0.09:
        inner = inner.replace(q, b'"')
    line = blank(rng) + b"<" + inner + b">" + blank(rng) + gen_msg(rng)
    if rng.random() < 0.04:
        line = line.replace(b">", b"", 1)
    return line


def gen_filter(rng):
    verb = rng.choice(VERBS) if rng.random() < 0.93 else rng.choice([b"", b"1", b"a1", b"+ -", b"\xc3\xa9"])
    line = blank(rng) + b"|" + blank(rng) + verb + blank(rng) + b">" + blank(rng) + gen_pat(rng)
    if rng.random() < 0.04:
        line = line.replace(b">", b"", 1)
    return line


def gen_plain(rng):
    r = rng.random()
    if r < 0.5:
        return blank(rng) + rng.choice([b'{"some":"msg"}', b"set foo=bar", b"hello", b"", b" ", b"  \t", b"x#y", b"a[1s]", b"a<b>", b"a|+>b", b"\v# x",
                                        b"\xa0[1s] x", b"[1s", b"[1 s] x", b"<abc", b"|+ a", b"|> a", b"[-1s] x", b"]", b">"])
    return gen_msg(rng)


def gen_malformed(rng):
    n = rng.choice([0, 1, 2, 3, 5, 8, 13, 21])
    if rng.random() < 0.8:
        return rand_bytes(rng, n, SYNTAX)
    return rand_bytes(rng, n)


# rendered well-formed commands (mirror of PlayFile.render): ("kind", fields...) -> (line, expected output)
def no_prefix(msg):
    return not (R_COMMENT.match(msg) or R_DELAY.match(msg) or R_COND.match(msg) or R_FILTER.match(msg))


def wf_msg(msg):
    return msg != b"" and b"\n" not in msg and msg[:1] not in (b" ", b"\t", b"\f", b"\r")


def gen_rendered(rng):
    def msg():
        for _ in range(20):
            m = gen_msg(rng)
            if wf_msg(m):
                return m
        return b"m"

    def dur():
        return rng.choice([0, 1, 5, 10**9, 1500, T63 - 1, rng.randrange(10**rng.choice([1, 4, 9, 12, 18]))])
    k = rng.randrange(7)
    if k == 0:
        e, m = rng.random() < 0.5, msg() if rng.random() < 0.9 else b""
        return b"#" + (b"+" if e else b"-") + b" " + m, f"comment {1 if e else 0} {hx(m)}"
    if k == 1:
        d = dur()
        return b"[" + str(d).encode() + b"ns]", f"wait {d}"
    if k == 2:
        m, d = msg(), dur()
        return b"[" + (b"" if d == 0 else str(d).encode() + b"ns") + b"] " + m, f"send {hx(m)} {d} nocond"
    if k == 3:
        m = gen_msg(rng)
        if not no_prefix(m):
            m = b"plain " + m
        return m, f"send {hx(m)} 0 nocond"
    if k == 4:
        p = rng.choice([b"foo", b"a>b", rb'\"is\"\s*:\s*\"running\"', b"", b"^x$", b"a,b", b" a "])
        m = msg().replace(b">", b"}") if rng.random() < 0.9 else b""
        n, d = rng.choice([0, 1, 5, 10, T63 - 1]), dur()
        return b"<'" + p + b"'," + str(n).encode() + b"," + str(d).encode() + b"ns> " + m, f"send {hx(m)} 0 cond {hx(p)} {n} {d}"
    if k == 5:
        p = rng.choice([b"foo", rb"^\s*{"[:-1] + rb"\{", b'"hb"', b"", b"a>b", b"[0-9]+", b"x y "])
        v = rng.choice(["accept", "deny"])
        return b"|" + (b"+" if v == "accept" else b"-") + b"> " + p, f"filter {v} {hx(p)}"
    return b"|r>", "filter reset nil"


KINDS = [gen_comment, gen_delay, gen_delay, gen_cond, gen_cond, gen_filter, gen_filter, gen_plain, gen_malformed]


class PlayMode(vlib.Mode):
    name = "playfile"
    shrink_budget = 60

    def __init__(self):
        super().__init__()
        self.want = {}      # hex line -> hex pattern | None        (phase 1, from the model)
        self.comp = {}      # hex pattern -> bool                   (phase 2, real regexp.Compile)
        self.mat = {}       # (hex pattern, hex line) -> bool       (phase 2, real MatchString)
        self.expect = {}    # hex line -> expected output of rendered commands

    # ---- phases ---------------------------------------------------------------------------------
    @staticmethod
    def _run(exe, ops, env=None):
        if not ops:
            return []
        out = vlib.run_cases_isolating([exe, "playfile"], [ops], timeout=600, env=env)[0]
        if len(out) != len(ops):
            raise RuntimeError(f"{exe}: expected {len(ops)} answers, got {len(out)}: {out[-1:]}")
        return out

    @staticmethod
    def _lines_of(case):
        """hex lines that go through ParseLine"""
        for op in case:
            f = op.split(" ")
            if f[0] in ("parse", "fcmd") and len(f) >= 2:
                yield f[1]
            elif f[0] == "check":
                yield from f[1:]

    def prepare(self, cases):
        # phase 1: which string does the MODEL hand to regexp.Compile for each line?
        need = []
        seen = set()
        for c in cases:
            for h in self._lines_of(c):
                if h not in self.want and h not in seen:
                    seen.add(h)
                    need.append(h)
        for h, o in zip(need, self._run(MODEL_EXE, [f"want {h}" for h in need])):
            self.want[h] = None if o == "none" else o
        # phase 2: the real library's verdicts
        pats, seen = [], set()
        def add_pat(p):
            if p not in self.comp and p not in seen:
                seen.add(p)
                pats.append(p)
        for c in cases:
            for h in self._lines_of(c):
                if self.want[h] is not None:
                    add_pat(self.want[h])
                rp = ref_pattern(unhx(h))          # the oracle's own reading of the grammar
                if rp is not None:
                    add_pat(hx(rp))
            for op in c:
                f = op.split(" ")
                if f[0] in ("facc", "fden") and len(f) >= 2:
                    add_pat(f[1])
        for p, o in zip(pats, self._run(IMPL_EXE, [f"compiles {p}" for p in pats], vlib.GOENV)):
            self.comp[p] = (o == "t")
        pairs, seen = [], set()
        for c in cases:
            ps = self._case_patterns(c)
            for op in c:
                f = op.split(" ")
                if f[0] == "recv" and len(f) >= 2:
                    for p in ps:
                        if (p, f[1]) not in self.mat and (p, f[1]) not in seen:
                            seen.add((p, f[1]))
                            pairs.append((p, f[1]))
        for k, o in zip(pairs, self._run(IMPL_EXE, [f"matches {p} {l}" for p, l in pairs], vlib.GOENV)):
            self.mat[k] = (o == "1")

    def _case_patterns(self, case):
        """every compiling pattern text that can be on a list in this case (superset of what the model holds)"""
        ps = []
        for op in case:
            f = op.split(" ")
            cand = []
            if f[0] in ("facc", "fden") and len(f) >= 2:
                cand.append(f[1])
            elif f[0] == "fcmd" and len(f) >= 2:
                if self.want.get(f[1]) is not None:
                    cand.append(self.want[f[1]])
                rp = ref_pattern(unhx(f[1]))
                if rp is not None:
                    cand.append(hx(rp))
            for p in cand:
                if self.comp.get(p) and p not in ps:
                    ps.append(p)
        return ps

    def _verdict(self, h):
        p = self.want[h]
        return "x" if p is None else ("t" if self.comp[p] else "f")

    def to_model(self, case, impl_out):
        self.prepare([case])
        ps = self._case_patterns(case)
        out = []
        for op in case:
            f = op.split(" ")
            if f[0] in ("parse", "fcmd") and len(f) == 2:
                out.append(f"{f[0]} {f[1]} {self._verdict(f[1])}")
            elif f[0] == "check":
                out.append(" ".join(["check"] + [f"{h}/{self._verdict(h)}" for h in f[1:]]))
            elif f[0] in ("facc", "fden") and len(f) == 2:
                out.append(f"{f[0]} {f[1]} {'t' if self.comp[f[1]] else 'f'}")
            elif f[0] == "recv" and len(f) == 2:
                tab = ",".join(f"{p}={1 if self.mat[(p, f[1])] else 0}" for p in ps) or "none"
                out.append(f"recv {f[1]} {tab}")
            else:
                out.append(op)
        return out

    # ---- generation -----------------------------------------------------------------------------
    def generate(self, rng, tier):
        q = tier == "quick"
        cases = []
        # (a) small play files: lines through ParseLine, then Check over (some of) them
        for _ in range(860 if q else 30000):
            n = rng.choice([12, 25, 25, 40])
            lines = []
            for _ in range(n):
                if rng.random() < 0.18:
                    line, exp = gen_rendered(rng)
                    self.expect[hx(line)] = exp
                else:
                    line = rng.choice(KINDS)(rng)
                lines.append(line)
            case = [f"parse {hx(l)}" for l in lines]
            k = rng.choice([0, 1, 3, 6, 12])
            sub = [hx(l) for l in rng.sample(lines, min(k, len(lines)))]
            case.append(" ".join(["check"] + sub))
            if rng.random() < 0.3:   # a file of well-formed lines only
                good = [hx(gen_rendered(rng)[0]) for _ in range(rng.choice([1, 4, 8]))]
                case.append(" ".join(["check"] + good))
            if rng.random() < 0.35:  # the same lines as ONE file through the line reader: every line-ending convention, with and without a final newline
                fl = [l for l in rng.sample(lines, min(len(lines), rng.choice([1, 2, 5, 12]))) if b"\n" not in l and b"\r" not in l]
                if fl:
                    nl = rng.choice([b"\n", b"\n", b"\r\n"])
                    text = nl.join(fl) + rng.choice([nl, b"", b"", nl + nl])
                    case.append(f"byline {hx(text)}")
            cases.append(case)
        # (b) filter histories
        fpats = [b"a", b"b", b"^a", b"b$", b"", b"hb", b"[0-9]+", rb"^\s*\{", b"x|y", b".", b"a("]
        flines = [b"a", b"b", b"ab", b"ba", b"", b'{"hb":1}', b' {"t":12}', b"xyz", b"42", b"c", b"\xff", b"a\nb"]
        for _ in range(420 if q else 16000):
            case = []
            for _ in range(rng.choice([4, 8, 16, 30])):
                r = rng.random()
                if r < 0.45:
                    case.append(f"recv {hx(rng.choice(flines))}")
                elif r < 0.6:
                    case.append(f"fcmd {hx(blank(rng, 0) + b'|' + blank(rng, 0) + rng.choice([b'+', b'a', b'accept', b'ACCEPT']) + blank(rng, 0) + b'>' + blank(rng, 0) + rng.choice(fpats))}")
                elif r < 0.73:
                    case.append(f"fcmd {hx(blank(rng, 0) + b'|' + blank(rng, 0) + rng.choice([b'-', b'd', b'deny', b'Deny']) + blank(rng, 0) + b'>' + blank(rng, 0) + rng.choice(fpats))}")
                elif r < 0.79:
                    case.append(f"fcmd {hx(rng.choice([b'|r>', b'|reset>', b' | RESET > ignored', b'|R> a']))}")
                elif r < 0.84:
                    case.append(f"fcmd {hx(rng.choice(KINDS)(rng))}")       # any play line: only filter commands act
                elif r < 0.89:
                    case.append(f"facc {hx(rng.choice(fpats))}")
                elif r < 0.94:
                    case.append(f"fden {hx(rng.choice(fpats))}")
                elif r < 0.96:
                    case.append("freset")
                elif r < 0.97:
                    case.append("fnoop")
                else:
                    case.append("fstate")
            case.append(f"recv {hx(rng.choice(flines))}")
            case.append("fstate")
            cases.append(case)
        # (c) the two library functions directly
        for _ in range(60 if q else 2500):
            case = []
            for _ in range(30):
                r = rng.random()
                if r < 0.7:
                    d = gen_duration(rng)
                    if rng.random() < 0.15:
                        d = rng.choice([b"-", b"+", b"-", b""]) + d
                    if rng.random() < 0.05:
                        d = d.replace(b"us", rng.choice(["µs".encode(), "μs".encode(), b"\xb5s", b"\xc2s"]))
                    case.append(f"dur {hx(d)}")
                else:
                    a = rng.choice(COUNTS) if rng.random() < 0.6 else rand_bytes(rng, rng.choice([1, 2, 5, 18, 19, 20]), b"0123456789")
                    if rng.random() < 0.15:
                        a = rng.choice([b"-", b"+"]) + a
                    case.append(f"atoi {hx(a)}")
            cases.append(case)
        self.prepare(cases)
        return cases

    # ---- oracle ---------------------------------------------------------------------------------
    def _compiles(self, p):
        return self.comp[hx(p)]

    def oracle(self, case, out):
        self.prepare([case])
        fails = []
        results = {}            # hex line -> output kind, for the Check clause
        acc, den = set(), set()  # patterns in effect (since the last reset), by the statement
        for op, o in zip(case, out):
            f = op.split(" ")
            if o.startswith("panic") or o.startswith("<<") or o.startswith("stuck"):
                fails.append(("crash", f"{op} -> {o}"))
                break
            if f[0] in ("parse", "fcmd") and len(f) == 2:
                line = unhx(f[1])
                exp = ref_parse(line, self._compiles)
                results[f[1]] = o
                if o != exp:
                    fails.append(classify(line, exp, o))
                elif f[1] in self.expect and o != self.expect[f[1]]:
                    fails.append(("roundtrip", f"rendered command {line!r} parsed to {o}, was rendered from {self.expect[f[1]]}"))
                if f[0] == "fcmd" and not fails:
                    e = exp.split(" ")
                    if e[0] == "filter":
                        if e[1] == "reset":
                            acc, den = set(), set()
                        elif e[1] == "accept":
                            acc.add(e[2])
                        elif e[1] == "deny":
                            den.add(e[2])
            elif f[0] == "check":
                exps = [ref_parse(unhx(h), self._compiles) for h in f[1:]]
                bad = [e.split(" ")[1] for e in exps if e.startswith("error")]
                want = f"check n={len(bad)} err={1 if bad else 0} kinds={','.join(bad)}"
                if o != want:
                    sig = "check-not-iff-malformed"
                    fails.append((sig, f"Check over {[unhx(h) for h in f[1:]]} answered {o}; malformed lines by the grammar: {want}"))
            elif f[0] == "byline" and len(f) == 2:
                text = unhx(f[1])
                pieces = text.split(b"\n")
                if pieces and pieces[-1] == b"": pieces = pieces[:-1]
                want = f"byline n={len(pieces)} agree=t err=0"
                final_nl = text.endswith(b"\n")
                if o != want:
                    fails.append(("file-lines-not-one-value-each", f"a file of {len(pieces)} line(s) (final newline: {final_nl}) read line by line gave: {o}; "
                                  f"expected one value per line, each as ParseLine gives it: {want}"))
            elif f[0] == "dur" and len(f) == 2:
                d = go_duration(unhx(f[1]))
                want = "err" if d is None else f"ok {d}"
                if o != want:
                    fails.append(("duration-differs", f"time.ParseDuration({unhx(f[1])!r}) = {o}, reference says {want}"))
            elif f[0] == "atoi" and len(f) == 2:
                d = go_atoi(unhx(f[1]))
                want = "err" if d is None else f"ok {d}"
                if o != want:
                    fails.append(("atoi-differs", f"strconv.Atoi({unhx(f[1])!r}) = {o}, reference says {want}"))
            elif f[0] in ("facc", "fden") and len(f) == 2:
                if self.comp[f[1]]:
                    (acc if f[0] == "facc" else den).add(f[1])
            elif f[0] == "freset":
                acc, den = set(), set()
            elif f[0] == "recv" and len(f) == 2:
                nofilter = not acc and not den
                rule = nofilter or (not any(self.mat[(p, f[1])] for p in den) and any(self.mat[(p, f[1])] for p in acc))
                want = "pass" if rule else "drop"
                if o != want:
                    fails.append(("logged-not-rule", f"received line {unhx(f[1])!r} was {o}; accept patterns {sorted(unhx(p) for p in acc)}, "
                                  f"deny patterns {sorted(unhx(p) for p in den)}: the rule says {want}"))
            elif f[0] == "fstate":
                want = "accept=" + ",".join(sorted(acc)) + " deny=" + ",".join(sorted(den))
                if o != want:
                    fails.append(("filter-lists-wrong", f"filter holds {o}, commands since the last reset say {want}"))
            if fails:
                break
        return fails

    def nontrivial(self, case, out):
        kinds = {o.split(" ")[0] for o in out}
        if any(op.startswith("recv") for op in case):
            has = {op.split(" ")[0] for op in case}
            return {"pass", "drop"} <= kinds and ("fcmd" in has or "facc" in has) and len(has) >= 3
        if any(op.startswith("parse") for op in case):
            return len(kinds & {"comment", "wait", "send", "filter", "error"}) >= 3
        return "ok" in kinds and "err" in kinds

    def describe(self, case):
        outl = []
        for l in case:
            f = l.split(" ")
            outl.append(" ".join([f[0]] + [repr(unhx(x)) if re.fullmatch(r"-|([0-9a-f]{2})+", x) else x for x in f[1:]]))
        return outl


def modes(tier):
    return [PlayMode()]
