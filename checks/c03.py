"""C03 — topics are isolated and senders do not hear themselves"""
from relaycommon import RelayMode
from lagcommon import LagMode, LAG_RULE
from hubcommon import HubMode, GenHubMode, PathMode

RULE = ("hub mode: event histories (register with topic/booking/scopes/buffer 1..8, inbound from members and non-members, drain at "
        "arbitrary cut points, unregister incl. repeated/unknown) over 1-3 topics out of {a, a/b, ab, a%2Fb, stats}, driven through "
        "the real Hub.run goroutine; full membership, queue lengths and cancel-channel bookkeeping compared after every event. "
        "path mode: request paths (structured + random over the grammar's alphabet) through slashify/prefix/topic extraction. "
        "non-trivial = at least one delivery and one frame; distinct = distinct event sequence")
ASSUMPTIONS = ["client names are unique (uuid) — modelled as a fresh counter",
               "the hub loop handles one event at a time (single goroutine); registration topic = topic extracted from the path (mode path / relay)",
               "gorilla/websocket framing is outside the model"]
THEOREMS = [("Hub.isolation", "Relay.Props.C03"), ("Hub.no_echo", "Relay.Props.C03"), ("Hub.names_unique", "Relay.Props.C03"),
            ("Hub.offer_eq", "Relay.Props.C03"), ("Hub.deliver_iff", "Relay.Props.C03"), ("Hub.dropped_iff", "Relay.Props.C03"),
            ("Hub.untouched_iff", "Relay.Props.C03"), ("Hub.broadcast_members_sub", "Relay.Props.C03"),
            ("Hub.unjoined_never_relays", "Relay.Props.C03"), ("Hub.run_inv", "Relay.Props.HubInv"),
            ("Path.topic_chars", "Relay.Props.C03"), ("Hub.frames_are_fresh_slices", "Relay.Props.C05")]
OPTIONAL_EXPORTS = ()
RULE = RULE + LAG_RULE



def modes(tier):
    return [HubMode("C03"), GenHubMode("C03"), PathMode(), LagMode("C03"), RelayMode("C03")]   # relay: topics differing only in case / by one character, real sockets

# the hub's event loop as translated from the current source (Relay/Tie/Hub.lean)
from tiecommon import TIE_HUB, TIE_HUB_NOTE, TIE_HUB_ASSUMPTION
THEOREMS = THEOREMS + TIE_HUB
RULE = TIE_HUB_NOTE + RULE
ASSUMPTIONS = ASSUMPTIONS + [TIE_HUB_ASSUMPTION]
