"""C09 — administrative and status endpoints require their own scopes"""
from tiecommon import TIE_DENY, TIE_TTLCODE, TIE_ACCESS, TIE_NOTE, TIE_ASSUMPTION
from relaycommon import RelayMode

RULE = ("relay mode (see C01) — the failures reported here: deny/allow/list answered 2xx for a token that is not valid-with-relay:admin, "
        "status answered 2xx without relay:stats, a valid token lacking the scope answered with something other than 401, a refused "
        "call that changed a list or disconnected somebody (lists and membership are compared after every op). Scope sets include the "
        "look-alikes `relay:admin `, Relay:Admin, relay:admins, admin, relay:stats on admin endpoints and vice versa; every way a token "
        "can be invalid from C01. non-trivial = at least one granted and one refused call; distinct = distinct op sequence")
ASSUMPTIONS = ["go-openapi authenticates, then binds parameters (422), then calls the handler — as observed and modelled",
               "HMAC/JWT decoding abstracted as in C01"]
P = "Relay.Props.C09"
THEOREMS = [(f"Access.{n}", P) for n in ["deny_ok_iff", "allow_ok_iff", "list_ok_iff", "list_exact", "stats_ok_iff",
                                         "valid_without_scope_is_401", "refused_changes_nothing", "readonly_endpoints",
                                         "lookalike_scopes_refused", "isRelayAdmin_iff", "hasStatsScope_iff"]]
THEOREMS = THEOREMS + TIE_DENY + TIE_ACCESS
RULE = TIE_NOTE + RULE
ASSUMPTIONS = ASSUMPTIONS + [TIE_ASSUMPTION]



def modes(tier):
    return [RelayMode("C09")]
