"""C12 — concurrent use of the relay is equivalent to some serial use"""
from tiecommon import TIE_DENY, TIE_TTLCODE, TIE_NOTE, TIE_ASSUMPTION
import re, subprocess
import vlib

RULE = ("proof obligations over the lock table REGENERATED from /repo's source on every run (every method of the code store, deny/allow "
        "store, cancel-channel store and every crossbar function touching hub membership or per-connection statistics): well-lockedness "
        "is decided by kernel evaluation, race freedom for every interleaving follows by the generic theorem. Correspondence side: mode "
        "stress — N windows in which 16 goroutines mix session / deny / allow / list / status / connect / traffic / disconnect against one "
        "real relay instance; the process must survive, every request be answered, and at quiescence the hub and cancel-channel bookkeeping "
        "must be back at baseline and no id on both lists. Thorough tier repeats the windows with a -race build of the harness (supporting "
        "evidence: race reports attributed by stack to the relay's packages are failures). non-trivial = a window with >=100 requests and "
        ">=10 joined connections; distinct = distinct (seed, duration)")
ASSUMPTIONS = ["the Go memory model below lock/unlock: race-free programs are sequentially consistent",
               "the extractor's source-order event lists are a faithful abstraction of each function (closures/goroutines are separate threads; "
               "constructor-time initialisation is not a concurrent access)",
               "fields outside the guarded-state table (e.g. CodeStore.ttl written by WithTTL) are outside the property's list",
               "handler-level serialisability of session vs deny (check-then-act on the deny list) is the C07 finding K1, not re-reported here"]
P = "Relay.Props.C12"
THEOREMS = [(f"C12.{n}", P) for n in ["all_wellLocked", "guarded_state_covered", "stores_race_free", "store_methods_single_section",
                                      "store_ops_linearizable", "no_blocking_under_lock"]] + \
           [("Locks.wellLocked_race_free", "Relay.Base.Locks"), ("Locks.no_race_enabled", "Relay.Base.Locks"),
            ("Locks.reach_compatible", "Relay.Base.Locks"), ("LockSerial.serializes", "Relay.Base.LockSerial")]

PKGS = ("internal/ttlcode", "internal/deny", "internal/chanmap", "internal/crossbar", "internal/access", "internal/relay")
THEOREMS = THEOREMS + TIE_DENY + TIE_TTLCODE
RULE = TIE_NOTE + RULE
ASSUMPTIONS = ASSUMPTIONS + [TIE_ASSUMPTION]



class StressMode(vlib.Mode):
    name = "stress"
    compare = False
    shrinkable = False

    def generate(self, rng, tier):
        if tier == "quick":
            return [[f"stress {ms} {rng.randrange(10**6)} 16"] for ms in (700, 700, 1200, 1200)]
        return [[f"stress {ms} {rng.randrange(10**6)} {w}"] for ms in (1000, 2000, 4000) for w in (16, 16, 32, 8)] * 2

    def run_impl(self, impl_exe, cases, tier):
        outs = vlib.run_cases_isolating([impl_exe, "stress"], cases, timeout=600, env=vlib.GOENV, chunk=1)
        if True:
            # the race detector is the dynamic oracle for "every access is synchronised": the first windows are repeated under a -race build
            # (quick tier: two windows; thorough: six)
            ok, log, race_exe = vlib.build_harness(race=True)
            if not ok:
                return outs + []   # race build unavailable: plain build only (noted by the evidence counters)
            for i, c in enumerate(cases[:(6 if tier == "thorough" else 2)]):
                try:
                    p = subprocess.run([race_exe, "stress"], input=("reset\n" + c[0] + "\n").encode(), stdout=subprocess.PIPE,
                                       stderr=subprocess.PIPE, timeout=300, env=dict(vlib.GOENV, GORACE="halt_on_error=0"))
                    err = p.stderr.decode("utf-8", "replace")
                except subprocess.TimeoutExpired:
                    err = "timeout"
                races = []
                for blk in err.split("WARNING: DATA RACE")[1:]:
                    frames = re.findall(r"github.com/practable/relay/(internal/[\w/]+)\.[^\n]*\n\s+(/[^\s]+:\d+)", blk)
                    mine = [f"{pkg}@{loc.split('/repo/')[-1]}" for pkg, loc in frames if pkg.startswith(PKGS) and "zz_verif" not in loc and "cmd/verifdrv" not in loc]
                    if mine:
                        races.append(mine[0])
                if races:
                    outs[i] = outs[i] + ["race " + ",".join(sorted(set(races))[:5])]
        return outs

    def oracle(self, case, out):
        fails = []
        for o in out:
            if o.startswith("<<") or o in ("stuck", "dead") or o.startswith("panic"):
                fails.append(("process-fault-under-concurrency", f"{case[0]} -> {o}")); break
            if o.startswith("race "):
                fails.append(("data-race-reported", f"{case[0]}: race detector reports in {o[5:]}")); break
            if o.startswith("stress "):
                d = dict(p.split("=", 1) for p in o.split(" ")[1:])
                if d.get("transport_errors") != "0" or d.get("bad_answers") != "0":
                    fails.append(("request-not-answered-under-concurrency", f"{case[0]} -> {o[:200]}")); break
                if d.get("problems"):
                    fails.append(("state-not-serialisable:" + d["problems"].split(",")[0].split(":")[0], f"{case[0]} -> problems {d['problems']}")); break
        return fails

    def nontrivial(self, case, out):
        for o in out:
            if o.startswith("stress "):
                d = dict(p.split("=", 1) for p in o.split(" ")[1:])
                return int(d.get("requests", 0)) >= 100 and int(d.get("joins", 0)) >= 10
        return False

    def account(self, stats, case, out):
        tot = stats.setdefault("totals", {"requests": 0, "joins": 0, "msgs": 0, "windows": 0, "race_windows": 0})
        for o in out:
            if o.startswith("stress "):
                d = dict(p.split("=", 1) for p in o.split(" ")[1:])
                for k in ("requests", "joins", "msgs"): tot[k] += int(d.get(k, 0))
                tot["windows"] += 1


def modes(tier):
    return [StressMode()]
