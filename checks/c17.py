"""C17 — what the experiment sends into the host is what leaves it (ingest flush, fan-out by reference, egress)"""
import os
import vlib

RULE = ("streams over the four real ingest paths (ts = vw.handleTs behind HTTP with a piped body, ws = vw.handleWs "
        "websocket ingest, dst = messages arriving from a real rwc destination connection, tcp = tcpconnect.HandleConn "
        "over loopback TCP with max 1..1Mi): 1-8 chunks of 0..70000 bytes (a few ts streams of 1.1-1.6 MB in one burst to "
        "exceed maxFrameBytes), contents letters-per-chunk / random / counters, often equal-length neighbours; gap after "
        "each chunk 0 or 8-30 ms; 1-4 consumers per hub stream besides the lossless tap: hub.Client with Send depth 0..8 "
        "reading at the end / at once / receiving at once but looking at the bytes at the end / slowly, real websocket "
        "egress clients of handleWs, a real rwc destination dialling a local sink; tcp: receiver of In prompt / keeping "
        "slices until the end / slow. Several streams run concurrently per case. Flush placement is whatever the 1 ms "
        "timer did; it is read off the tap's message lengths and handed to the model (every placement is admissible). "
        "Non-trivial = a stream with >= 2 messages of which some consumer other than the tap read >= 1 (or a drop beyond "
        "max); distinct = distinct op lines. One malformed-line stream per run.")
ASSUMPTIONS = [
    "reader append and idle flush are atomic steps (both hold frameBuffer.mux); the hub's fan-out is one step per message",
    "consumers only read hub.Message.Data (gorilla's client-side masking works on its own write buffer; checked by reading the code, not proved)",
    "the flush array is modelled by the prefix ever written; the zero tail is never observable (a view is as long as what was just written)",
    "where the 1 ms idle timer fires is not predicted: the theorems hold for every placement, the run checks that what was observed is one of them",
    "which subscriber queue takes which message (non-blocking send) is an input of the model; the harness reads it off hub.Message.Sent stamps",
    "websocket messages larger than the 10 MiB read limit, TLS, and reconnection of a destination are not exercised",
]

P = "Relay.Props.C17"
THEOREMS = [(f"Flush.{n}", P) for n in
            ["output_is_ordered_slices", "ordered_slices_hold", "drops_exact", "lossless_when_within_max",
             "content_fixed_at_handoff", "ws_messages_in_order", "aliasing_reads_B_B", "aliasing_corrupts",
             "aliasing_partial", "slices_of_fixed", "runFrom_inv", "posFrom_ok", "runFrom_good"]]

VW_MAX = 1024000
ERR_TOKENS = ("bad-sub", "bad-path", "bad-request", "dial-failed", "destination-not-connected", "write-failed",
              "listen-failed", "accept-failed")


# ------------------------------------------------------------------ parsing shared by oracle / model glue

class Stream:
    def __init__(self, path, mx, subs):
        self.path, self.max, self.subs = path, mx, subs
        self.chunks = []      # (bytes, gap, type)

    @property
    def inp(self):
        return b"".join(c[0] for c in self.chunks)

    @property
    def eff_max(self):
        return VW_MAX if self.path == "ts" else self.max

    def modes(self):
        """read mode per consumer index (c0 = tap on hub paths)"""
        if self.path == "tcp":
            return [s.split(":", 1)[1] if ":" in s else "p" for s in self.subs[:1]] or ["p"]
        return ["p"] + [s.split(":", 1)[1] if ":" in s else "p" for s in self.subs]


def parse_case(case, out):
    """-> list of batches; batch = (run line index, [Stream...]); lines the harness refused are ignored, as there"""
    batches, cur = [], []
    for i, (l, o) in enumerate(zip(case, out)):
        f = l.split()
        if not f:
            continue
        if f[0] == "cfg" and o == "ok":
            cur.append(Stream(f[1], int(f[2]), [] if f[3] == "-" else f[3].split(",")))
        elif f[0] == "w" and o == "ok" and cur:
            cur[-1].chunks.append((vlib.unhx(f[1]), int(f[2]), f[3]))
        elif f[0] == "run" and len(f) == 1:
            batches.append((i, cur))
            cur = []
    return batches


def parse_result(res):
    """'c0=.. c1=..' -> list of consumers, each a list of (idx|None, len, type, bytes); None if not a result"""
    cons = []
    for k, tok in enumerate(res.split(" ")):
        pre = f"c{k}="
        if not tok.startswith(pre):
            return None
        body = tok[len(pre):]
        items = []
        if body != "-":
            for it in body.split(","):
                p = it.split("/")
                if len(p) != 4:
                    return None
                try:
                    items.append((None if p[0] == "?" else int(p[0]), int(p[1]), p[2], bytes.fromhex(p[3])))
                except ValueError:
                    return None
        cons.append(items)
    return cons


def split_results(o, n):
    parts = o.split(" | ") if o != "-" else []
    return parts if len(parts) == n else None


def locate_cuts(inp, mx, items):
    """the cut [a, b, c] of each reference message (message = inp[a:b], dropped beyond max = inp[b:c]).
    A message shorter than max forces the next one to follow it directly, so the messages form rigid blocks, each
    ending with a full-length message (behind which bytes may have been dropped) except possibly the last. The first
    block starts at 0; a last block ending with a short message must end where the input ends; every other block is
    placed at the earliest occurrence of its bytes behind its predecessor (complete for "some admissible placement
    exists"). Where nothing fits the block is put directly behind its predecessor. Returns (cuts, all_fit)"""
    blocks, cur = [], []
    for it in items:
        cur.append(it)
        if it[1] == mx:
            blocks.append(cur); cur = []
    open_tail = bool(cur)
    if cur:
        blocks.append(cur)
    cuts, pos, ok = [], 0, True
    for bi, blk in enumerate(blocks):
        data = b"".join(x[3] for x in blk)
        n = sum(x[1] for x in blk)
        a = pos
        if bi > 0 and len(data) == n and n > 0:
            anchored = len(inp) - n
            if bi == len(blocks) - 1 and open_tail and anchored >= pos and inp[anchored:] == data:
                a = anchored
            else:
                j = inp.find(data, pos)
                if j >= 0:
                    a = j
        if cuts:
            cuts[-1][2] = a
        if inp[a:a + n] != data:
            ok = False
        for x in blk:
            cuts.append([a, a + x[1], a + x[1]])
            a += x[1]
        pos = a
    if cuts and not open_tail:
        cuts[-1][2] = len(inp)
    return cuts, ok


def match_forward(items, ref):
    """greedy forward matching of contents against the reference contents -> list of ref index or None"""
    res, nxt = [], 0
    for (_, ln, ty, data) in items:
        j = next((k for k in range(nxt, len(ref)) if ref[k] == data), None)
        res.append(j)
        if j is not None:
            nxt = j + 1
    return res


def show(b, n=24):
    if b is None:
        return "?"
    if len(b) <= n and all(32 <= x < 127 for x in b):
        return repr(b.decode())
    if len(set(b)) == 1 and b:
        return f"{len(b)}x{bytes([b[0]])!r}"
    return f"{len(b)}B:{b[:12].hex()}…" if len(b) > 16 else b.hex()


# ------------------------------------------------------------------ the mode

class FlushMode(vlib.Mode):
    name = "flush"
    shrink_budget = 30
    chunk = 8

    def timeout(self, tier):
        return 900 if tier == "quick" else 3000

    # ---------------- generation
    def gen_content(self, rng, sizes):
        style = rng.choice(["letters", "letters", "random", "counter"])
        chunks, pos = [], 0
        for k, n in enumerate(sizes):
            if style == "letters":
                chunks.append(bytes([65 + (k % 26)]) * n)
            elif style == "random":
                chunks.append(bytes(rng.getrandbits(8) for _ in range(n)) if n < 5000 else rng.getrandbits(8 * n).to_bytes(n, "little"))
            else:
                chunks.append(bytes((pos + i) % 251 for i in range(n)))
            pos += n
        return chunks

    def gen_sizes(self, rng, path, mx):
        n = rng.choice([1, 2, 2, 3, 3, 4, 5, 6, 8])
        if path == "tcp":
            base = [1, 2, mx, mx, max(1, mx - 1), mx + 1, 2 * mx, 3 * mx + 1, 7] if mx <= 1024 else [1, 8, 188, 1000, 4096, 20000]
        else:
            base = [1, 2, 8, 8, 16, 188, 188, 1000, 4096, 5000]
        if rng.random() < 0.5:
            s = rng.choice(base)
            sizes = [s] * n                      # equal-length neighbours: the aliasing witness shape
            if rng.random() < 0.5:
                sizes[-1] = max(1, s // 2)
        else:
            sizes = [rng.choice(base) for _ in range(n)]
        if rng.random() < 0.06:
            sizes[rng.randrange(n)] = 0
        if path != "tcp" and rng.random() < 0.04:
            sizes[rng.randrange(n)] = 70000
        return sizes

    def gen_subs(self, rng, path):
        if path == "tcp":
            return [rng.choice(["c:p", "c:k", "c:k", "c:k", "c:s5", "c:s20"])]
        subs = []
        for _ in range(rng.choice([1, 2, 2, 3, 4])):
            r = rng.random()
            if r < 0.7:
                subs.append(f"h{rng.choice([0, 1, 1, 2, 2, 3, 5, 8, 8])}:{rng.choice(['e', 'e', 'e', 'k', 'k', 'p', 's3', 's12'])}")
            elif r < 0.85 and subs.count("w:p") + subs.count("w:s5") < 2:
                subs.append(rng.choice(["w:p", "w:s5"]))
            elif path != "dst" and not any(s.startswith("d:") for s in subs):
                subs.append(rng.choice(["d:p", "d:s10", "d:s10"]))
            else:
                subs.append("h8:e")
        return subs

    def gen_stream(self, rng, path=None):
        path = path or rng.choice(["ts"] * 9 + ["tcp"] * 5 + ["ws"] * 3 + ["dst"] * 3)
        mx = VW_MAX if path == "ts" else (rng.choice([1, 2, 4, 4, 8, 16, 64, 1024, 1048576]) if path == "tcp" else 0)
        sizes = self.gen_sizes(rng, path, mx)
        data = self.gen_content(rng, sizes)
        lines = [f"cfg {path} {mx} {','.join(self.gen_subs(rng, path))}"]
        for d in data:
            gap = 0 if rng.random() < 0.35 else rng.choice([8, 8, 10, 12, 20, 30])
            ty = "b" if path in ("ts", "tcp") or rng.random() < 0.6 else "t"
            lines.append(f"w {vlib.hx(d)} {gap} {ty}")
        return lines

    def big_stream(self, rng):
        a = rng.randrange(500000, 800000)
        b = rng.randrange(VW_MAX - a + 1000, VW_MAX - a + 300000)
        lines = [f"cfg ts {VW_MAX} {rng.choice(['h4:k', 'h2:e', 'h8:k'])}"]
        for n, gap in ((a, 0), (b, 20), (rng.choice([8, 188]), 0)):
            lines.append(f"w {rng.getrandbits(8 * n).to_bytes(n, 'little').hex()} {gap} b")
        return lines

    def directed(self):
        A, B, C = vlib.hx("AAAAAAAA"), vlib.hx("BBBBBBBB"), vlib.hx("CCCC")
        return [
            # the reproduced witness of the aliasing defect: queue depth 8, read afterwards
            [f"cfg ts {VW_MAX} h8:e", f"w {A} 30 b", f"w {B} 30 b", f"w {C} 0 b", "run"],
            [f"cfg tcp 1048576 c:k", f"w {A} 30 b", f"w {B} 30 b", f"w {C} 0 b", "run"],
            [f"cfg tcp 4 c:k", f"w {A} 20 b", f"w {B} 20 b", f"w {C} 0 b", "run"],
            [f"cfg ts {VW_MAX} h2:k,w:p,d:s10", f"w {A} 10 b", f"w {B} 10 b", f"w {C} 10 b", f"w {A} 0 b", "run",
             f"cfg ws 0 h8:e,w:p,d:s10", f"w {A} 0 t", "w - 0 b", f"w {B} 10 t", "run",
             f"cfg dst 0 h8:e,h1:k,w:p", f"w {A} 0 t", "w - 0 b", f"w {B} 10 t", "run"],
        ]

    def malformed(self):
        A = vlib.hx("AAAA")
        return ["w 41 0 b", "cfg ts", "cfg ts -1 h1:e", "cfg ts x h1:e", f"cfg ts {VW_MAX} h8:e", "w zz 0 b", "w 4 0 b", f"w {A} -1 b",
                f"w {A} 1001 b", f"w {A} 0 x", f"w {A} 0", "flush", "run now", f"w {A} 8 b", f"w {vlib.hx('BBBB')} 0 b", "", "run", "run"]

    def generate(self, rng, tier):
        per_case = 6
        n_cases = 30 if tier == "quick" else 640
        n_big = 2 if tier == "quick" else 12
        cases = [list(c) for c in self.directed()] + [self.malformed()]
        for _ in range(n_cases):
            case = []
            for _ in range(per_case):
                case.extend(self.gen_stream(rng))
            case.append("run")
            cases.append(case)
        for _ in range(n_big):
            case = self.big_stream(rng)
            for _ in range(2):
                case.extend(self.gen_stream(rng))
            case.append("run")
            cases.append(case)
        return cases

    # ---------------- per stream analysis used by oracle (independent of the model)
    def check_stream(self, st, res):
        p = st.path
        if res in ERR_TOKENS or res.startswith("panic"):
            return [(f"{p}:harness-{res.split(' ')[0]}", f"stream could not be run: {res}")], None
        cons = parse_result(res)
        if cons is None or not cons:
            return [(f"{p}:bad-output", res[:200])], None
        fails = []
        inp = st.inp
        ref = cons[0]
        posted = " | ".join(show(c[0]) for c in st.chunks)
        if p in ("ts", "tcp"):
            mx = st.eff_max
            cuts, ok = locate_cuts(inp, mx, ref)
            who = "tap" if p == "ts" else "receiver of In"
            # every message: non-empty, at most max, the slice at its cut; cuts forward; gap only behind a full message
            pos, prev_full = 0, False
            for k, ((_, ln, ty, data), (a, b, c)) in enumerate(zip(ref, cuts)):
                if ln == 0 or ln > mx or len(data) != ln:
                    fails.append((f"{p}:bad-length", f"message {k} has length {ln}/{len(data)} (max {mx})")); break
                if inp[a:b] != data or (a != pos and not prev_full) or a < pos:
                    fails.append((f"{p}:not-forward-slices", f"posted {posted}; {who} read " + " ".join(f"[{show(x[3])}]" for x in ref) +
                                  f": message {k} is not input[{pos}..{pos + ln}) nor a later slice behind a full-length message"))
                    break
                if p == "ts" and ty != "b":
                    fails.append((f"{p}:type-changed", f"message {k} type {ty}"))
                pos, prev_full = b, (ln == mx)
            else:
                if pos != len(inp) and not prev_full:
                    fails.append((f"{p}:bytes-lost", f"posted {len(inp)} bytes ({posted}); messages end at offset {pos} although the last one "
                                  f"is shorter than max: {len(inp) - pos} bytes never forwarded"))
            expect = [inp[a:b] for (a, b, c) in cuts]
        else:
            # message paths: the tap must see exactly the posted messages
            expect = [c[0] for c in st.chunks]
            types = [c[2] for c in st.chunks]
            got = [(x[3], x[2]) for x in ref]
            if got != list(zip(expect, types)):
                fails.append((f"{p}:not-the-posted-messages", f"posted {posted}; tap read " + " ".join(f"[{x[2]}:{show(x[3])}]" for x in ref)))
        if fails:
            return fails, (cons, None)
        # every other consumer: an increasing selection of the reference messages, bytes unaltered
        for ci, items in enumerate(cons[1:], 1):
            spec = st.subs[ci - 1] if ci - 1 < len(st.subs) else "?"
            if any(x[0] is None for x in items):
                idxs = match_forward(items, expect)
            else:
                idxs = [x[0] for x in items]
            last = -1
            for k, ((_, ln, ty, data), j) in enumerate(zip(items, idxs)):
                what = None
                if j is None or j >= len(expect):
                    what = "is not one of the forwarded messages (or out of order)"
                elif j <= last:
                    what = f"repeats or goes backwards (message #{j} after #{last})"
                elif expect[j] != data or ln != len(data):
                    what = f"should be message #{j} = [{show(expect[j])}] ({len(expect[j])} bytes, received with length {ln})"
                elif ty != (st.chunks[j][2] if p in ("ws", "dst") else "b"):
                    fails.append((f"{p}:type-changed", f"consumer c{ci} ({spec}) message {k} has type {ty}, posted as "
                                  f"{st.chunks[j][2] if p in ('ws', 'dst') else 'b'}"))
                if what:
                    fails.append((f"{p}:consumer-altered", f"posted {posted}; forwarded " + " ".join(f"[{show(x)}]" for x in expect) +
                                  f"; consumer c{ci} ({spec}) read " + " ".join(f"[{show(x[3])}]" for x in items) + f": item {k} {what}"))
                    break
                last = j
        return fails, (cons, expect)

    def oracle(self, case, out):
        fails = []
        if any(o.startswith("<<") for o in out):
            return [("crash", next(o for o in out if o.startswith("<<")))]
        if len(out) != len(case):
            return [("bad-output", f"{len(out)} outputs for {len(case)} lines")]
        for (i, streams) in parse_case(case, out):
            parts = split_results(out[i], len(streams))
            if parts is None:
                fails.append(("bad-output", f"run answered {out[i][:120]!r} for {len(streams)} streams"))
                continue
            for st, res in zip(streams, parts):
                f, _ = self.check_stream(st, res)
                fails.extend(f)
        for l, o in zip(case, out):
            if o.startswith("panic"):
                fails.append(("crash", f"{l[:60]} -> {o}"))
        return fails

    def nontrivial(self, case, out):
        if len(out) != len(case):
            return False
        for (i, streams) in parse_case(case, out):
            parts = split_results(out[i], len(streams))
            if parts is None:
                continue
            for st, res in zip(streams, parts):
                cons = parse_result(res)
                if cons and len(cons[0]) >= 2 and (st.path == "tcp" or any(len(c) >= 1 for c in cons[1:])):
                    return True
        return False

    def account(self, stats, case, out):
        super().account(stats, case, out)
        if len(out) != len(case):
            return
        ps = stats.setdefault("streams_by_path", {})
        ms = stats.setdefault("messages_seen", {"tap": 0, "consumers": 0, "queued_then_read": 0, "dropped_beyond_max_streams": 0})
        for (i, streams) in parse_case(case, out):
            parts = split_results(out[i], len(streams))
            if parts is None:
                continue
            for st, res in zip(streams, parts):
                ps[st.path] = ps.get(st.path, 0) + 1
                cons = parse_result(res)
                if not cons:
                    continue
                ms["tap"] += len(cons[0])
                ms["consumers"] += sum(len(c) for c in cons[1:])
                modes = st.modes()
                for ci, c in enumerate(cons):
                    if ci < len(modes) and modes[ci][0] in "eks" and len(c) >= 2 and (ci > 0 or st.path == "tcp"):
                        ms["queued_then_read"] += len(c)
                if st.path in ("ts", "tcp") and sum(x[1] for x in cons[0]) < len(st.inp):
                    ms["dropped_beyond_max_streams"] += 1

    # ---------------- model glue (two-phase: the flush placement is read off the implementation's message lengths)
    def to_model(self, case, impl_out):
        lines = []
        copy = os.environ.get("VERIF_C17_MODEL_COPY", "1")
        if len(impl_out) != len(case):
            return ["noop"]
        run_idx = {i: s for i, s in parse_case(case, impl_out)}
        for i, (l, o) in enumerate(zip(case, impl_out)):
            f = l.split()
            if i in run_idx:
                streams = run_idx[i]
                parts = split_results(o, len(streams)) or []
                for st, res in zip(streams, parts):
                    lines.extend(self.model_lines(st, parse_result(res), copy))
            elif o != "ok":
                lines.append(l if l.strip() else "noop")      # malformed line: both sides must refuse it
        return lines or ["nothing"]

    def model_lines(self, st, cons, copy):
        """model ops explaining one observed stream; `#c<i>` markers are comment lines (the driver answers bad-op)"""
        if cons is None:
            return []
        inp, modes = st.inp, st.modes()
        ref = cons[0]
        late = {ci for ci in range(len(cons)) if ci < len(modes) and modes[ci][0] in "eks"}
        if st.path in ("ts", "tcp"):
            lines = [f"cfg flush {st.eff_max} {copy}"]
            cuts, _ = locate_cuts(inp, st.eff_max, ref)
            expect = [inp[a:b] for (a, b, c) in cuts]
        else:
            lines = ["cfg msg"]
            expect = [c[0] for c in st.chunks]
        # who accepted which reference message
        acc = [[] for _ in expect]
        if st.path in ("ws", "dst"):
            tapmap = match_forward(ref, expect)
        else:
            tapmap = list(range(len(ref)))
        reads = {ci: 0 for ci in range(len(cons))}
        for ci, items in enumerate(cons):
            if ci == 0:
                idxs = tapmap
            elif any(x[0] is None for x in items):
                idxs = match_forward(items, expect)
            else:
                idxs = [tapmap[x[0]] if x[0] < len(tapmap) else None for x in items]
            last = -1
            for j in idxs:
                if j is not None and j > last and j < len(acc):
                    acc[j].append(ci)
                    last = j
        bounds, pos = set(), 0
        for c in st.chunks:
            pos += len(c[0]); bounds.add(pos)
        order = []      # (consumer) in read order
        for k in range(len(expect)):
            a_list = ",".join(str(x) for x in sorted(acc[k])) or "-"
            if st.path in ("ts", "tcp"):
                a, b, c = cuts[k]
                pts = [a] + sorted(x for x in bounds if a < x < c) + [c]
                for x, y in zip(pts, pts[1:]):
                    lines.append(f"w {vlib.hx(inp[x:y])}")
                lines.append(f"f {a_list}")
            else:
                lines.append(f"p {vlib.hx(expect[k])} {a_list}")
            for ci in sorted(acc[k]):
                if ci not in late:
                    lines.append(f"r {ci}"); order.append(ci)
        for ci in sorted(late):
            for k in range(len(expect)):
                if ci in acc[k]:
                    lines.append(f"r {ci}"); order.append(ci)
        return lines

    def _cons_lines(self, si, cons):
        return [f"s{si}c{ci} " + (",".join(x[3].hex() or "-" for x in items) or "none") for ci, items in enumerate(cons)]

    def project(self, case, impl_out):
        res = []
        if len(impl_out) != len(case):
            return list(impl_out)
        run_idx = {i: s for i, s in parse_case(case, impl_out)}
        si = 0
        for i, o in enumerate(impl_out):
            if i in run_idx:
                streams = run_idx[i]
                parts = split_results(o, len(streams))
                if parts is None:
                    res.append("run: " + o[:200]); continue
                for st, r in zip(streams, parts):
                    cons = parse_result(r)
                    res.extend(self._cons_lines(si, cons) if cons is not None else [f"s{si} {r[:200]}"])
                    si += 1
            elif o != "ok":
                res.append(o)
        return res

    def from_model(self, case, impl_out, model_out):
        """rebuild, from the model's answers, what each consumer should have read"""
        if len(impl_out) != len(case):
            return list(model_out)
        model_in = self.to_model(case, impl_out)
        if model_in == ["nothing"]:
            return []
        if len(model_out) != len(model_in):
            return ["model answered %d lines for %d" % (len(model_out), len(model_in))] + list(model_out)[-3:]
        res, si, cur = [], -1, None
        def flush_cur():
            if cur is not None:
                res.extend(f"s{cur[0]}c{ci} " + (",".join(v) or "none") for ci, v in sorted(cur[1].items()))
        # the number of consumers of each stream comes from the implementation's answer
        ncons = []
        for (i, streams) in parse_case(case, impl_out):
            parts = split_results(impl_out[i], len(streams)) or []
            for st, r in zip(streams, parts):
                c = parse_result(r)
                ncons.append(len(c) if c is not None else None)
        k = 0
        for l, o in zip(model_in, model_out):
            f = l.split()
            if f and f[0] == "cfg" and len(f) >= 2 and f[1] in ("flush", "msg") and o == "ok":
                flush_cur()
                si += 1
                while si < len(ncons) and ncons[si] is None:
                    res.append(f"s{si} <not modelled>"); si += 1
                cur = (si, {ci: [] for ci in range(ncons[si] if si < len(ncons) else 0)})
            elif f and f[0] == "r" and cur is not None:
                ci = int(f[1])
                if o.startswith("got "):
                    h = o[4:]
                    cur[1].setdefault(ci, []).append("-" if h == "-" else h)
                else:
                    cur[1].setdefault(ci, []).append("<" + o + ">")
            elif f and f[0] in ("w", "f", "p") and cur is not None and o != "bad-op":
                pass
            else:
                flush_cur(); cur = None
                res.append(o)
        flush_cur()
        return res

    def describe(self, case):
        outl = []
        for l in case:
            f = l.split()
            if len(f) == 4 and f[0] == "w":
                try:
                    f[1] = show(vlib.unhx(f[1]), 40)
                except ValueError:
                    pass
                outl.append(f"write {f[1]} then pause {f[2]} ms ({'binary' if f[3] == 'b' else 'text'})")
            else:
                outl.append(l)
        return outl


def modes(tier):
    return [FlushMode()]

# the plain hub underneath, as translated from the current source (Relay/Tie/PlainHub.lean)
from tiecommon import TIE_PLAINHUB, TIE_PLAINHUB_NOTE
THEOREMS = list(THEOREMS) + TIE_PLAINHUB
RULE = TIE_PLAINHUB_NOTE + RULE
