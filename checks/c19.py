"""C19 — the reconnecting websocket client comes back, backs off after failures, stops when told"""
import re
import vlib

RULE = ("one scenario per case: a per-attempt script of server behaviours (access: reset / EOF / hang / any status with "
        "JSON-with-uri, empty-uri, error-model, null, garbage, empty, wrong-type, http-scheme, user-info, unparsable uri, "
        "truncated body; websocket: reset / EOF / garbage / HTTP status / hang / upgrade then k messages each way then "
        "FIN | RST | Close frame | write error | stay), a loop (ReconnectAuth, Reconnect, public pkg/client), a back-off "
        "config (min 20 ms, max 160 ms, factor 1|2|3; library defaults via zeros; min>=max) and a cancellation trigger "
        "(before start, POST in flight, handshake in flight, connected after j messages, d ms into a back-off sleep), "
        "optionally with the endpoint refusing connections for the first T ms; all drawn from one PRNG; a case is "
        "non-trivial when >=2 attempts were observed including a back-off wait or an established connection; "
        "distinct = distinct scenario line")
ASSUMPTIONS = [
    "float64 arithmetic of jpillora/backoff (min*factor^attempt) is exact for the small integer factors and millisecond "
    "durations used; beyond 2^53 the value exceeds max anyway",
    "a cancellation that lands in the few instructions between a context check and the request it guards is identified "
    "with one landing just after the request went out (phase `post`/`handshake`)",
    "time.Sleep is never shorter than asked; loopback latency and scheduling add at most 15 ms + 25 % per gap in at "
    "least one of 3 runs",
    "TCP connect on loopback is instantaneous (a cancellation during connect is the model's phase `post`)",
    "Go select picks among ready cases only; the harness never has a send on Out pending at the cancellation instant",
]

P = "Relay.Props.C19"
THEOREMS = [(f"Reconws.{n}", P) for n in [
    "waits_follow_backoff", "reset_after_success", "always_retries_while_live", "quiescent_after_cancel",
    "backoff_shape", "waits_follow_backoff_auth", "waits_follow_backoff_auth_start", "waits_follow_backoff_plain",
    "reset_after_success_auth", "reset_after_success_auth_trace", "reset_after_success_plain",
    "always_retries_while_live_auth", "always_retries_while_live_plain",
    "every_behaviour_attempted_auth", "every_behaviour_attempted_plain",
    "attempts_before_cancel_auth", "attempts_before_cancel_plain",
    "quiescent_after_cancel_auth", "quiescent_after_cancel_plain", "post_after_cancel_without_recheck",
    "closes_on_cancel_connected", "fifo_while_connected", "fifo_no_forward", "status_ignored",
    "not_returns_promptly", "not_returns_promptly_plain", "returns_promptly_partial",
    "not_all_sockets_closed", "abandoned_socket_trace", "all_sockets_closed_partial"]]

STATUSES = [200, 200, 200, 201, 400, 401, 403, 404, 500, 502, 503]
ACC_FAIL_BODIES = "emngzthupb"
WS_FAIL = ["wrst", "weof", "wgarb", "w403", "w500", "w200", "w404"]


def clamp(mn, mx, f, k):
    mn = mn or 100
    mx = mx or 10000
    f = f or 2
    if mx <= mn:
        return mx
    return min(mx, mn * f ** k)


class Gen:
    def __init__(self, rng):
        self.rng = rng

    def ws_fail(self):
        return self.rng.choice(WS_FAIL)

    def ws_ok(self, fins="frcw", kmax=4):
        return f"wok:{self.rng.randrange(0, kmax + 1)}:{self.rng.choice(fins)}"

    def acc_fail(self):
        r = self.rng.random()
        if r < 0.2:
            return self.rng.choice(["arst", "aeof"])
        if r < 0.7:
            return f"a{self.rng.choice(STATUSES)}{self.rng.choice(ACC_FAIL_BODIES)}"
        return f"a{self.rng.choice(STATUSES)}j/{self.ws_fail()}"

    def acc_ok(self, fins="frcw"):
        return f"a{self.rng.choice(STATUSES)}j/{self.ws_ok(fins)}"

    def script(self, auth, n, p_ok):
        """n attempts that all return (no hang, no stay)"""
        out = []
        for _ in range(n):
            ok = self.rng.random() < p_ok
            if auth:
                out.append(self.acc_ok() if ok else self.acc_fail())
            else:
                out.append(self.ws_ok() if ok else self.ws_fail())
        return out

    def cfg(self):
        r = self.rng.random()
        if r < 0.55:
            return (20, 160, 2)
        if r < 0.9:
            return (20, 160, 3)
        if r < 0.95:
            return (20, 160, 1)
        return (40, 40, 2)      # min >= max: always max

    def scenario(self, auth):
        """a scenario whose cancellation trigger is reachable"""
        rng = self.rng
        mn, mx, f = self.cfg()
        loop = "auth" if auth else "plain"
        n = rng.choice([1, 2, 2, 3, 3, 4, 5, 6])
        # keep long failure streaks affordable
        p_ok = rng.choice([0.0, 0.2, 0.4, 0.6])
        s = self.script(auth, n, p_ok)
        kind = rng.choice(["wait", "wait", "post", "dial", "conn", "conn", "pre"] if auth else
                          ["wait", "wait", "dial", "conn", "conn", "pre"])
        last = n - 1
        if kind == "pre":
            cancel = "pre"
        elif kind == "post":
            cancel = f"post:{last}"
            if rng.random() < 0.5:
                s[last] = self.acc_ok("frcws")
        elif kind == "dial":
            cancel = f"dial:{last}"
            r = rng.random()
            tail = self.ws_ok("frcws") if r < 0.6 else self.ws_fail()
            s[last] = f"a{rng.choice(STATUSES)}j/{tail}" if auth else tail
        elif kind == "conn":
            k = rng.randrange(0, 5)
            j = rng.randrange(0, k + 1)
            tail = f"wok:{k}:{rng.choice('sfrcw')}"
            s[last] = f"a{rng.choice(STATUSES)}j/{tail}" if auth else tail
            cancel = f"conn:{last}:{j}"
        else:
            s[last] = self.acc_fail() if auth else self.ws_fail()
            cancel = f"wait:{last}:{rng.choice([2, 5, 8])}"
            if auth:
                s.append(rng.choice(["arst", "a200j/wok:1:f"]))   # never served: the loop is cancelled in its sleep
        return f"run {loop} {mn} {mx} {f} {cancel} " + " ".join(s)

    def down(self, auth):
        rng = self.rng
        f = rng.choice([2, 3])
        T = rng.choice([40, 100, 220] if f == 2 else [50, 160])
        loop = "auth" if auth else "plain"
        first = (self.acc_fail() if auth else self.ws_fail()) if rng.random() < 0.5 else (self.acc_ok() if auth else self.ws_ok())
        k = rng.randrange(0, 3)
        tail = f"wok:{k}:s"
        second = f"a200j/{tail}" if auth else tail
        return f"run {loop} 20 160 {f} conn:1:{k} down:{T} {first} {second}"

    def hang_cancel(self, auth):
        rng = self.rng
        pre = self.script(auth, rng.randrange(0, 3), 0.3)
        n = len(pre)
        if auth and rng.random() < 0.5:
            return f"run auth 20 160 2 post:{n} " + " ".join(pre + ["ahang"])
        tok = "a200j/whang" if auth else "whang"
        return f"run {'auth' if auth else 'plain'} 20 160 {rng.choice([2, 3])} dial:{n} " + " ".join(pre + [tok])

    def timeout_case(self, which):
        if which == "access":
            return "run auth 20 160 2 wait:1:5 ahang arst arst"
        if which == "ws-auth":
            return "run auth 20 160 2 wait:1:5 a200j/whang arst arst"
        return "run plain 20 160 2 wait:1:5 whang wrst"

    def defaults_case(self):
        return self.rng.choice(["run auth 0 0 0 wait:2:5 arst a200e a500g arst", "run plain 0 0 0 wait:1:5 wrst w403",
                                "run auth 0 300 0 wait:2:5 arst a200e a500g arst"])

    def client_case(self):
        rng = self.rng
        r = rng.random()
        if r < 0.4:
            return f"run client 1000 10000 2 conn:1:{rng.randrange(0, 3)} a200j/wok:{rng.randrange(0, 4)}:{rng.choice('frc')} a200j/wok:2:s"
        if r < 0.7:
            return f"run client 1000 10000 2 conn:2:1 {self.acc_fail()} a200j/wok:2:{rng.choice('frcw')} a201j/wok:1:s"
        if r < 0.85:
            return f"run client 1000 10000 2 wait:0:300 {self.acc_fail()} arst"
        return "run client 1000 10000 2 post:1 a200j/wok:1:f a200j/wok:1:s"

    def malformed(self):
        return self.rng.choice([
            "run auth 20 160 2 wait:0:5", "run both 20 160 2 pre arst", "run plain 20 160 2 post:0 wrst",
            "run auth 20 160 2 pre a204e", "run auth 20 160 2 pre a200j", "run auth 20 160 2 pre a200e/wrst",
            "run auth 20 160 2 conn:0 a200j/wok:1:f", "run auth x 160 2 pre arst", "run plain 20 160 2 pre wok:1:q",
            "run plain 20 160 2 pre w99", "run client 20 160 2 pre arst", "walk auth 20 160 2 pre arst", "run",
            "run auth 20 160 2 pre down:x arst", "run plain 20 160 2 pre arst", "run auth 20 160 2 dial:-1 arst"])


class ReconwsMode(vlib.Mode):
    name = "reconws"
    shrinkable = False

    def timeout(self, tier):
        return 900 if tier == "quick" else 3000

    def generate(self, rng, tier):
        g = Gen(rng)
        scale = 1 if tier == "quick" else 20
        lines = []
        # fixed boundary scenarios (always present)
        lines += [
            "run auth 20 160 2 wait:5:5 arst aeof a500g a401m a200j/wrst a200b arst",      # 20 40 80 160 160
            "run auth 20 160 3 wait:3:5 arst a200e a200j/w403 a503z arst",                  # 20 60 160
            "run plain 20 160 2 wait:4:5 wrst weof wgarb w500 w403",
            "run auth 20 160 2 wait:0:5 arst arst",                                        # the d54b2b4 shape
            "run auth 20 160 2 wait:1:8 a200j/wok:1:f a500m arst",
            "run auth 20 160 2 post:0 a200j/wok:1:s",
            "run auth 20 160 2 post:2 arst arst a403j/wok:2:f",
            "run auth 20 160 2 conn:4:2 arst a200j/wok:0:f a200j/wok:0:r a200j/wok:1:w a403j/wok:3:s",
            "run plain 20 160 2 conn:3:0 wok:0:f wok:0:c wok:2:w wok:1:s",
            "run plain 20 160 2 dial:1 wrst w403",
            "run plain 20 160 2 dial:2 wrst wrst wok:3:f",
            "run auth 20 160 2 dial:0 a500j/wok:2:c",
            "run auth 20 160 2 pre arst",
            "run plain 20 160 2 pre wok:1:f",
        ]
        for _ in range(170 * scale):
            lines.append(g.scenario(True))
        for _ in range(110 * scale):
            lines.append(g.scenario(False))
        for _ in range(10 * scale):
            lines.append(g.down(True))
            lines.append(g.down(False))
        for _ in range(10 * scale):
            lines.append(g.hang_cancel(True))
            lines.append(g.hang_cancel(False))
        for _ in range(2 if tier == "quick" else 8):
            lines.append(g.defaults_case())
        for _ in range(3 if tier == "quick" else 12):
            lines.append(g.client_case())
        if tier != "quick":
            lines += [g.timeout_case("access"), g.timeout_case("ws-auth"), g.timeout_case("ws-plain")]
        for _ in range(8 * scale if tier == "quick" else 40):
            lines.append(g.malformed())
        # wait hints for the harness come from the Lean model (retry / bucketing only; the printed
        # nominal value is then compared with the model again and judged by the oracle below)
        exe = vlib.LEAN + "/.lake/build/bin/relaydrv"
        outs = vlib.run_cases_isolating([exe, "reconws"], [[l] for l in lines], timeout=600)
        cases = []
        for l, o in zip(lines, outs):
            o = o[0] if o else ""
            if o.startswith("a") or o.startswith("after="):
                hints = []
                for part in o.split(" "):
                    if re.match(r"a\d+:", part):
                        m = re.match(r"a\d+:w(\d+)", part)
                        hints.append(m.group(1) if m else "0")
                l = l + " h=" + ",".join(hints)
            cases.append([l])
        return cases

    # ---- independent reading of a scenario line
    @staticmethod
    def parse(line):
        f = line.split(" ")
        if f and f[-1].startswith("h="):
            f = f[:-1]
        if len(f) < 7 or f[0] != "run":
            return None
        try:
            d = {"loop": f[1], "min": int(f[2]), "max": int(f[3]), "f": int(f[4]), "cancel": f[5].split(":"), "toks": f[6:], "down": 0}
        except ValueError:
            return None
        if d["toks"][0].startswith("down:"):
            if not d["toks"][0][5:].isdigit() or len(d["toks"]) < 2:
                return None
            d["down"] = int(d["toks"][0][5:])
            d["toks"] = d["toks"][1:]
        return d

    @staticmethod
    def tok_succeeds(t):
        m = re.search(r"wok:\d+:([frcws])$", t)
        return bool(m) and m.group(1) in "frcw"

    def expected_waits(self, d, nobs):
        """wait before each observed attempt, from the script alone (the property, not the model)"""
        mn, mx, f = d["min"], d["max"], d["f"]
        streak, exp = 0, []
        first = 0
        if d["down"]:
            t, k = 0, 0
            while t < d["down"]:
                t += clamp(mn, mx, f, k); k += 1
            streak, first = k, t
        for i in range(nobs):
            if i == 0 and d["down"]:
                exp.append(first)
            else:
                exp.append(0 if streak == 0 else clamp(mn, mx, f, streak - 1))
            if i < len(d["toks"]) and self.tok_succeeds(d["toks"][i]):
                streak = 0
            else:
                streak += 1
        return exp

    def oracle(self, case, out):
        fails = []
        line, o = case[0], (out[0] if out else "<<no output>>")
        if o.startswith("panic") or o.startswith("<<") or o.startswith("harness-error"):
            return [("crash", f"{line} -> {o}")]
        if o == "bad-op":
            return []
        d = self.parse(line)
        if d is None:
            return []
        if o == "stuck":
            return [("stopped-retrying", f"the scripted cancellation attempt was never reached: {line}")]
        parts = o.split(" ")
        atts = [p.split(":", 1)[1].split(",") for p in parts if re.match(r"a\d+:", p)]
        kv = dict(p.split("=") for p in parts if "=" in p and not re.match(r"a\d+:", p))
        if int(kv.get("after", "0")) != 0:
            fails.append(("attempt-after-cancel", f"{kv['after']} attempt(s) reached the servers after the context was cancelled: {o}"))
        flat = [t for a in atts for t in a]
        if any(t.startswith("w!") for t in flat):
            fails.append(("wait-off-backoff", f"gap between attempts outside tolerance of the back-off in 3 runs: {o}"))
        if "M!" in flat:
            fails.append(("message-order", f"messages lost, reordered or altered while connected: {o}"))
        bad = [t for t in flat if t in ("unexpected-msg", "no-close", "badreq", "upgrade-failed", "E!", "no-close-echo") or t.startswith("code")]
        if bad:
            fails.append(("protocol-anomaly", f"{bad}: {o}"))
        # waits as the property states them, from the script alone
        exp = self.expected_waits(d, len(atts))
        got = []
        for a in atts:
            m = re.match(r"w(\d+)$", a[0])
            got.append(int(m.group(1)) if m else (0 if not a[0].startswith("w!") else -1))
        if all(g >= 0 for g in got) and got != exp:
            fails.append(("wait-sequence", f"waits {got} but the back-off rule gives {exp}: {o}"))
        # liveness up to the cancellation + nothing beyond it
        c = d["cancel"]
        if c[0] != "pre":
            n = int(c[1])
            if len(atts) != n + 1:
                fails.append(("attempt-count", f"{len(atts)} attempts observed, the cancellation was attached to attempt {n}: {o}"))
            elif c[0] in ("conn", "dial") and "C" in atts[n] and not ("X" in atts[n] and "F" in atts[n]):
                fails.append(("no-close-on-cancel", f"cancelled while connected but no Close frame + socket close seen: {o}"))
            hang_here = n < len(d["toks"]) and ((c[0] == "post" and d["toks"][n] == "ahang") or
                                                  (c[0] == "dial" and d["toks"][n].endswith("whang")))
            if kv.get("ret") != "1" and not hang_here:
                fails.append(("no-return-after-cancel", f"the loop function had not returned 2*max after the cancellation: {o}"))
        else:
            if atts:
                fails.append(("attempt-after-cancel", f"attempts made although cancelled before the start: {o}"))
            if kv.get("ret") != "1":
                fails.append(("no-return-after-cancel", o))
        return fails

    def nontrivial(self, case, out):
        o = out[0] if out else ""
        n = len(re.findall(r"\ba\d+:", o))
        return n >= 2 and (",C," in o or re.search(r":w\d+", o) is not None)

    def account(self, stats, case, out):
        o = out[0] if out else ""
        d = self.parse(case[0])
        k = stats.setdefault("scenarios", {})
        key = "malformed" if d is None or o == "bad-op" else f"{d['loop']}/{d['cancel'][0]}" + ("/down" if d["down"] else "")
        k[key] = k.get(key, 0) + 1
        t = stats.setdefault("observed_tokens", {})
        for tok in re.findall(r"[:,]([A-Za-z!]+)\d*", o):
            t[tok] = t.get(tok, 0) + 1
        for name in ("open", "ghost", "ret"):
            m = re.search(name + r"=(\d+)", o)
            if m and ((name == "ret" and m.group(1) == "0") or (name != "ret" and m.group(1) != "0")):
                key = {"open": "sockets_never_closed_by_client", "ghost": "messages_delivered_from_abandoned_socket",
                       "ret": "loop_still_blocked_after_cancel"}[name]
                stats[key] = stats.get(key, 0) + (int(m.group(1)) if name != "ret" else 1)
        stats["attempts_observed"] = stats.get("attempts_observed", 0) + len(re.findall(r"\ba\d+:", o))

    def describe(self, case):
        d = self.parse(case[0])
        if d is None:
            return list(case)
        c = d["cancel"]
        how = {"pre": "cancel before start", "post": "cancel when POST #%s is received" % (c[1:] or ["?"])[0],
               "dial": "cancel when handshake #%s is received" % (c[1:] or ["?"])[0],
               "conn": "cancel in connection #%s after %s messages each way" % tuple((c[1:] + ["?", "?"])[:2]),
               "wait": "cancel %s ms after attempt #%s failed" % tuple((c[1:] + ["?", "?"])[:2][::-1])}.get(c[0], c[0])
        return [f"{d['loop']} min={d['min']}ms max={d['max']}ms factor={d['f']}" +
                (f" endpoint down for {d['down']}ms" if d["down"] else "") + f"; {how}; script: " + " ".join(d["toks"])]


def modes(tier):
    return [ReconwsMode()]
