"""C04 — read and write scopes are enforced on every connection"""
from tiecommon import TIE_ACCESS
from lagcommon import LagMode, LAG_RULE
from hubcommon import HubMode
from relaycommon import RelayMode

RULE = ("hub mode (see C03) with every subset of {read, write} on every participant; failures reported here: a message from a "
        "non-writer (or non-member) reached any queue; a frame was written for a non-reader. non-trivial = at least one delivery and "
        "one frame; distinct = distinct event sequence. The real pumps' scope tests are exercised over loopback by mode relay.")
ASSUMPTIONS = ["capabilities are derived once at admission from the exact strings read/write (serveWs; tied by mode relay)",
               "the queue side of readPump/writePump is emulated by the in-package harness; the real pumps run in mode relay"]
P = "Relay.Props.C04"
THEOREMS = [(f"Hub.{n}", P) for n in ["nonwriter_silent", "sent_grows_only_by_writers", "nonreader_deaf", "caps_fixed",
                                      "no_scope_no_admission", "scopes_only_read_write", "pumps_guard_scopes"]] + [("Hub.run_inv", "Relay.Props.HubInv")]
RULE = RULE + LAG_RULE

# the scopes a connection gets are the ones the session handler copies into the connection token: tied by translation
THEOREMS = THEOREMS + TIE_ACCESS



def modes(tier):
    return [HubMode("C04"), RelayMode("C04"), LagMode("C04")]
