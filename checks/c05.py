"""C05 — relayed data arrives complete, ordered and intact, or the reader is dropped"""
from relaymain import RelayMainMode, RELAYMAIN_RULE
from lagcommon import LagMode, LAG_RULE
from hubcommon import HubMode, GenHubMode
from relaycommon import RelayMode

RULE = ("hub mode (see C03): writers and readers with buffers 1..8, drains at arbitrary cut points (frames merging 1..8 queued "
        "messages), stalled readers that overflow; failures reported here: a reader's frame differs from the concatenation of the "
        "next whole messages sent to its topic by others, a connected reader skipped, a full reader not dropped. non-trivial = at "
        "least one delivery and one frame; distinct = distinct event sequence. Real sockets, sizes up to 10 MiB: mode relay.")
ASSUMPTIONS = ["gorilla/websocket writes a frame atomically or fails the connection (partial socket writes are outside the model)",
               "where the writer cuts frames is nondeterministic (goroutine scheduling); the theorems hold for every cut"]
P = "Relay.Props.C05"
THEOREMS = [(f"Hub.{n}", P) for n in ["frame_is_whole_messages", "stream_integrity", "delivered_exact", "per_sender_fifo",
                                      "no_silent_skip", "evicted_only_own_backlog", "stays_member", "frames_are_fresh_slices"]] + [("Hub.run_inv", "Relay.Props.HubInv")]
RULE = RULE + LAG_RULE

RULE = RULE + RELAYMAIN_RULE



def modes(tier):
    return [HubMode("C05"), GenHubMode("C05"), RelayMode("C05"), LagMode("C05"), RelayMainMode("C05", 2)]

# the hub's event loop as translated from the current source (Relay/Tie/Hub.lean)
from tiecommon import TIE_HUB, TIE_HUB_NOTE, TIE_HUB_ASSUMPTION
THEOREMS = THEOREMS + TIE_HUB
RULE = TIE_HUB_NOTE + RULE
ASSUMPTIONS = ASSUMPTIONS + [TIE_HUB_ASSUMPTION]
