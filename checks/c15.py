"""C15 — a stream carries exactly its latest rule's feeds; rule edits never crash the host"""
import json, os
import vlib
from vlib import hx, unhx

RULE = ("histories of register/unregister (stream and plain subscribers, unknown subscribers too), add/replace rule "
        "(empty, repeated feeds, a stream name used as feed, names without the 'stream/' prefix, the reserved id), delete "
        "(known, unknown, deleteAll, twice), tagged broadcasts (mostly on a topic somebody listens to; sender name sometimes equal "
        "to a subscriber's) and table dumps, over <=3 streams, <=4 feeds, <=4 subscribers, lengths 3..35, all drawn from one PRNG; "
        "in about half of the histories subscribers (stream and plain, registered or not) STALL: they stop draining their Send channel "
        "with 0..3 free buffer slots left, so that forwarders block holding an undelivered message, and later drain again (or never); "
        "stall scenarios: a stalled subscriber whose forwarders hold messages is unregistered / its rule replaced / deleted / "
        "delete-all / registered next to, then a fresh subscriber joins, a rule is added, feeds are broadcast and the tables dumped "
        "(the hub must answer every one of them; a hang is the observation `stuck` = oracle failure hub-hang); "
        "a malformed-line stream; the corpus (three historical crash sequences and variants; two re-registration cases run for "
        "correspondence only). Run against agg.Hub.Run, agg.Hub.RunWithStats (what vw starts) and, without the recover wrapper, "
        "as a process that may die. Discipline: the generator never registers a stream subscriber that is currently registered. "
        "A case is non-trivial when a stream subscriber received a forwarded message, a subscriber registered and a rule was "
        "replaced/deleted; distinct = distinct op sequence")
ASSUMPTIONS = [
    "each iteration of agg.Hub.RunOptionalStats is one atomic step (a single goroutine owns Rules/Streams/SubClients)",
    "a *hub.Client is identified by its immutable (Name, Topic); Topic/Name are not mutated after registration",
    "usage discipline: a stream subscriber is not registered again while it is registered (every caller in /repo registers a "
    "fresh client once); without it forwarders leak for good (theorem Agg.reregister_orphans_forwarder, corpus case 6)",
    "delivery is observed at quiescence (hub loops parked in select, every forwarder parked in select or blocked on a stalled "
    "subscriber's full Send channel, read from a stop-the-world goroutine dump): the inner hub's non-blocking send to a forwarder "
    "that is momentarily busy although its subscriber drains (drop under load) is outside the model",
    "a stalled subscriber is one whose Send buffer the harness has filled up to k free slots and does not read; what it is owed "
    "is observed when it drains again (unstall)",
    "with leaked forwarders (usage discipline broken) AND a stalled subscriber with free slots, which forwarder gets a free slot is a "
    "scheduler race: not generated",
    "Go map iteration order is unobservable (deliveries and tables are compared sorted)",
]

P = "Relay.Props.C15"
STALL_THEOREMS = ["stalls_never_crash_or_block_hub", "stalled_iff_history", "undelivered_were_owed", "drained_were_owed",
                  "draining_subscriber_unaffected", "draining_stream_subscriber_follows_rule", "broadcast_rows", "fstepS_parked"]
THEOREMS = [(f"Agg.{n}", P) for n in [
    "agg_never_panics", "stream_follows_latest_rule", "stream_forwarded_iff", "stream_delivery_follows_rule",
    "reregister_orphans_forwarder", "plain_delivery_exact", "plain_subscribers_unaffected",
    "removed_feed_stops", "deleted_rule_stops", "delete_all_stops", "unregistered_gets_nothing",
    "old_code_panics_delete_unregister", "old_code_panics_deleteAll_twice", "old_code_panics_delete_deleteAll",
    "step_inv"] + STALL_THEOREMS]

STREAMS = ["stream/a", "stream/b", "stream/c"]
ODD_STREAMS = ["stream/", "stream", "Stream/a", "deleteAll", "astream/a", "",
               # near-reserved / near-duplicate names (validate-vs-normalise): all ordinary, distinct names on the unchanged tree
               "/deleteAll", " deleteAll", "deleteAll ", "\tdeleteAll", "deleteAll\n", "DeleteAll", "deleteall", "stream/deleteAll",
               " stream/a", "stream/a ", "/stream/a", "stream/a/", "STREAM/A", "stream/\u00e9", "stream/" + "x" * 300]
FEEDS = ["f1", "f2", "audio", "video"]
NAMES = ["u1", "u2", "u3", "u4"]
SENDERS = ["x", "u1", "u2", "cam"]


def is_stream(t):
    return t.startswith("stream/")


def line(*fs):
    return " ".join([fs[0]] + [hx(f) for f in fs[1:]])


def sline(u, k):
    return f"stall {hx(u[0])} {hx(u[1])} {k}"


class Hist:
    """one history under construction: keeps what the generator needs to aim its ops (who is registered, the rules, who is stalled)"""

    def __init__(self, rng, stalls):
        self.rng = rng
        self.stalls = stalls
        self.streams = rng.sample(STREAMS, rng.choice([1, 2, 3]))
        if rng.random() < 0.15:
            self.streams[-1] = rng.choice(ODD_STREAMS)
        self.feeds = list(FEEDS)
        if rng.random() < 0.2:
            self.feeds[rng.randrange(4)] = rng.choice(self.streams + ["", "stream/zz"])
        self.subs = []
        for i in range(4):
            nm = rng.choice(NAMES) if rng.random() < 0.3 else NAMES[i]
            tp = rng.choice(self.streams) if rng.random() < 0.65 else rng.choice(self.feeds)
            if (nm, tp) not in self.subs:
                self.subs.append((nm, tp))
        self.regd = set()
        self.rules = {}
        self.stalled = set()
        self.case = []

    def add(self, st, fl):
        if st != "deleteAll":
            self.rules[st] = fl
        self.case.append(line("add", st, *fl))

    def delete(self, s):
        if s == "deleteAll":
            self.rules.clear()
        else:
            self.rules.pop(s, None)
        self.case.append(line("del", s))

    def reg(self, u):
        """False (and nothing emitted) when it would break the discipline: no re-registration of a registered stream subscriber"""
        if is_stream(u[1]) and u in self.regd:
            return False
        self.regd.add(u)
        self.case.append(line("reg", *u))
        return True

    def unreg(self, u):
        self.regd.discard(u)
        self.case.append(line("unreg", *u))

    def stall(self, u, k):
        self.stalled.add(u)
        self.case.append(sline(u, k))

    def unstall(self, u):
        self.stalled.discard(u)
        self.case.append(line("unstall", *u))

    def hot(self):
        """topics somebody currently listens to (through a rule or directly)"""
        return [f for u in sorted(self.regd) if is_stream(u[1]) for f in self.rules.get(u[1], [])] + \
               [u[1] for u in sorted(self.regd) if not is_stream(u[1])]

    def bc(self, t=None):
        rng = self.rng
        if t is None:
            hot = self.hot()
            q = rng.random()
            t = rng.choice(hot) if hot and q < 0.6 else rng.choice(self.feeds) if q < 0.93 else rng.choice(self.streams)
        self.case.append(line("bc", t, rng.choice(SENDERS)))

    def rand_op(self):
        rng = self.rng
        if self.stalls and rng.random() < 0.13:
            if self.stalled and rng.random() < 0.4:
                u = rng.choice(sorted(self.stalled)) if rng.random() < 0.85 else rng.choice(self.subs)
                self.unstall(u)
            else:
                live = sorted(self.regd)
                u = rng.choice(live) if live and rng.random() < 0.8 else rng.choice(self.subs)
                self.stall(u, rng.choice([0, 0, 0, 1, 1, 2, 3]))
            return
        r = rng.random()
        if r < 0.22:
            cand = [u for u in self.subs if not (is_stream(u[1]) and u in self.regd)]
            if cand:
                self.reg(rng.choice(cand))
        elif r < 0.32:
            self.unreg(rng.choice(self.subs))
        elif r < 0.49:
            st = rng.choice(self.streams) if rng.random() < 0.9 else rng.choice(ODD_STREAMS)
            k = rng.choice([0, 1, 1, 2, 2, 3])
            fl = [rng.choice(self.feeds) for _ in range(k)]
            if k >= 2 and rng.random() < 0.25:
                fl[1] = fl[0]
            self.add(st, fl)
        elif r < 0.59:
            q = rng.random()
            st = "deleteAll" if q < 0.3 else rng.choice(self.streams) if q < 0.9 else rng.choice(ODD_STREAMS + ["stream/none"])
            for x in ([st] + ([rng.choice([st, "deleteAll"])] if rng.random() < 0.15 else [])):
                self.delete(x)
        else:
            self.bc()
        if rng.random() < 0.07:
            self.case.append("st")


def gen_case(rng, L, stalls=False):
    h = Hist(rng, stalls)
    # mostly start with something to look at
    if rng.random() < 0.7:
        h.add(rng.choice(h.streams), [rng.choice(h.feeds) for _ in range(rng.choice([1, 2, 2, 3]))])
    while len(h.case) < L:
        h.rand_op()
    h.case.append("st")
    return h.case


def gen_stall_scenario(rng):
    """a stalled subscriber whose forwarders hold undelivered messages meets every kind of tear-down; then the hub must go on
    serving: a fresh subscriber, a new rule, broadcasts, a table dump (and the stalled one may drain again, or never)"""
    h = Hist(rng, True)
    st = h.streams[0] if is_stream(h.streams[0]) else "stream/a"
    if st not in h.streams:
        h.streams.append(st)
    k = rng.choice([1, 1, 2, 2, 3])
    fl = [rng.choice(h.feeds) for _ in range(k)]
    if k >= 2 and rng.random() < 0.3:
        fl[1] = fl[0]
    victim = (rng.choice(NAMES), st)
    others = [u for u in [(rng.choice(NAMES), st), (rng.choice(NAMES), rng.choice(fl)), (rng.choice(NAMES), rng.choice(h.feeds))]
              if u != victim]
    for u in [victim] + others:
        if u not in h.subs:
            h.subs.append(u)
    room = rng.choice([0, 0, 0, 0, 1, 1, 2])
    early = rng.random() < 0.3
    if early:
        h.stall(victim, room)            # not reading from the very start
    if rng.random() < 0.8:
        h.add(st, fl)
        h.reg(victim)
    else:
        h.reg(victim)                   # subscriber first, rule second
        h.add(st, fl)
    for u in others:
        if rng.random() < 0.6:
            h.reg(u)
    if not early:
        h.stall(victim, room)
    if others and rng.random() < 0.35:
        h.stall(rng.choice(others), rng.choice([0, 0, 1, 2]))
    # forwarders pick up messages they cannot deliver
    for _ in range(rng.choice([1, 1, 2, 3, 4])):
        h.bc(rng.choice(fl) if rng.random() < 0.9 else None)
    # tear-down(s) while the messages are held
    for _ in range(rng.choice([1, 1, 2, 3])):
        q = rng.random()
        if q < 0.34:
            h.unreg(victim)
        elif q < 0.52:
            h.add(st, [rng.choice(h.feeds) for _ in range(rng.choice([0, 1, 2]))])
        elif q < 0.66:
            h.delete(st)
        elif q < 0.80:
            h.delete("deleteAll")
        elif q < 0.90:
            h.unreg(rng.choice(h.subs))
        else:
            h.reg(victim)                # allowed only when it has left
        if rng.random() < 0.4:
            h.bc(rng.choice(fl))
    # the hub must still serve everybody else
    fresh = (rng.choice(["w1", "w2"]), rng.choice([st] + h.streams))
    if not is_stream(fresh[1]):
        fresh = (fresh[0], st)
    if fresh not in h.subs:
        h.subs.append(fresh)
    fl2 = [rng.choice(h.feeds) for _ in range(rng.choice([1, 2]))]
    if rng.random() < 0.5:
        h.reg(fresh); h.add(fresh[1], fl2)
    else:
        h.add(fresh[1], fl2); h.reg(fresh)
    h.bc(fl2[0])
    h.case.append("st")
    if rng.random() < 0.6:
        h.unstall(victim)
        h.bc(rng.choice(fl2 + fl))
    for _ in range(rng.choice([0, 0, 3, 8])):
        h.rand_op()
    if rng.random() < 0.5:
        for u in sorted(h.stalled):
            h.unstall(u)
        h.bc()
    h.case.append("st")
    return h.case


def gen_malformed(rng):
    good = gen_case(rng, rng.choice([4, 8]), rng.random() < 0.5)
    bad = ["", "nop", "reg", "reg 7531", "reg 7531 6631 6631", "unreg 7531", "add", "del", "del 61 62", "bc 6631", "bc 6631 78 79",
           "reg 753 6631", "reg 7G31 6631", "add 73747265616D2f61 6631", "reg ff 6631", "bc c0af 78", "reg 7531 - ", "add - -", "bc - -",
           "reg - -", "REG 7531 6631", "del -", "stall 7531 6631", "stall 7531 6631 0a", "stall 7531 6631 100", "stall 7531 6631 -1",
           "stall 7531 6631 1 1", "stall 753 6631 1", "stall 7531 6631 -", "unstall 7531", "unstall 7531 6631 6631", "unstall ff 6631",
           "stall 7531 6631 07", "stall - - 0", "unstall - -"]
    out = []
    for l in good:
        if rng.random() < 0.4:
            out.append(rng.choice(bad))
        out.append(l)
    out.append(rng.choice(bad))
    return [l for l in out if l.strip() != ""] + ["bc 6631 78", "st"]


def parse_deliveries(o):
    """'ok a@b:tag*n,...' -> {(name,topic): {tag: n}} or None"""
    if o == "ok":
        return {}
    if not o.startswith("ok "):
        return None
    res = {}
    try:
        for e in o[3:].split(","):
            who, rest = e.split(":", 1)
            nm, tp = who.split("@")
            tag, n = rest.rsplit("*", 1)
            res.setdefault((nm, tp), {})[tag] = int(n)
    except Exception:
        return None
    return res


class AggMode(vlib.Mode):
    """agg.Hub.Run (inner hub.Run), hub goroutine under a recover wrapper"""
    name = "agg"
    shrink_budget = 120
    N = (600, 14000)

    def corpus(self):
        p = f"{vlib.V}/corpus/agg.json"
        return [c["case"] for c in json.load(open(p))] if os.path.exists(p) else []

    def generate(self, rng, tier):
        n = self.N[0] if tier == "quick" else self.N[1]
        cases = [gen_case(rng, rng.choice([3, 6, 10, 16, 24, 34]), stalls=(i % 2 == 1)) for i in range(n)]
        cases += [gen_stall_scenario(rng) for _ in range(n // 4)]
        cases += [gen_malformed(rng) for _ in range(n // 12)]
        return cases

    def nontrivial(self, case, out):
        got_stream = any(o.startswith("ok ") and any(is_stream(unhx(e.split(":")[0].split("@")[1]).decode("utf-8", "replace"))
                                                     for e in o[3:].split(",")) for o in out)
        kinds = [l.split(" ")[0] for l in case]
        return got_stream and "reg" in kinds and ("del" in kinds or kinds.count("add") >= 2)

    def oracle(self, case, out):
        """The property evaluated on what the real hub delivered, from the history alone (no table):
        per broadcast, a registered stream subscriber gets count(feed in latest rule of its stream) copies, a registered plain
        subscriber of that topic one copy, both unless the sender has their name; nobody else gets anything; nothing is
        delivered by any other op; the hub never panics or hangs.
        Stalled subscribers: nothing is observed for them until they drain again; what they get then are only messages that
        were owed to them when they were broadcast (never more copies than owed; at least as many as their buffer had room
        for). Everybody who drains — next to a stalled one, after it, or a stalled one after draining again — is served exactly."""
        fails = []
        rules, regd, seq = {}, set(), 0
        stalled = {}    # (name, topic) -> {"room": free slots at stall time, "owed": {tag: copies owed at broadcast time}}
        for l, o in zip(case, out):
            f = l.split(" ")
            if o.startswith("panic") or o.startswith("<<") or o == "dead":
                fails.append(("hub-crash", f"{self.describe([l])[0]} -> {o}")); break
            if o == "stuck":
                fails.append(("hub-hang", f"{self.describe([l])[0]} -> {o}")); break
            if o == "bad-op":
                continue
            if f[0] == "st":
                # the tables must be exactly what the history says (no stale rule, no departed subscriber, no leaked sub-subscription)
                ex_rules = sorted(f"{hx(s)}={'+'.join(hx(x) for x in fl)}" for s, fl in rules.items())
                ex_regs = sorted(f"{hx(u[0])}@{hx(u[1])}" for u in regd if is_stream(u[1]))
                ex_subs = sorted(f"{hx(u[0])}@{hx(u[1])}:{len(rules[u[1]])}" for u in regd if is_stream(u[1]) and u[1] in rules)
                cnt = {}
                for u in regd:
                    for tp in (rules.get(u[1], []) if is_stream(u[1]) else [u[1]]):
                        cnt[tp] = cnt.get(tp, 0) + 1
                ex_inner = sorted(f"{hx(tp)}:{n}" for tp, n in cnt.items())
                exp = "rules=" + ",".join(ex_rules) + " regs=" + ",".join(ex_regs) + " subs=" + ",".join(ex_subs) + " inner=" + ",".join(ex_inner)
                if o != exp:
                    parts = [a.split("=", 1)[0] for a, b in zip(o.split(" "), exp.split(" ")) if a != b] if o.count(" ") == 3 else ["?"]
                    fails.append(("tables-not-as-history:" + "+".join(parts), f"hub tables {o!r}, history says {exp!r}"))
                    break
                continue
            try:
                args = [unhx(x).decode("utf-8") for x in (f[1:3] if f[0] == "stall" else f[1:])]
            except Exception:
                fails.append(("bad-output", f"{l} -> {o}")); break
            d = parse_deliveries(o)
            if d is None:
                fails.append(("bad-output", f"{l} -> {o}")); break
            if f[0] == "reg":
                u = (args[0], args[1])
                if is_stream(u[1]) and u in regd:
                    return fails  # usage discipline broken (corpus only): correspondence is still checked, the property is not claimed
                regd.add(u)
            elif f[0] == "unreg":
                regd.discard((args[0], args[1]))
            elif f[0] == "add":
                if args[0] != "deleteAll":
                    rules[args[0]] = args[1:]
            elif f[0] == "del":
                if args[0] == "deleteAll":
                    rules = {}
                else:
                    rules.pop(args[0], None)
            elif f[0] == "stall":
                stalled.setdefault((args[0], args[1]), {"room": int(f[3]), "owed": {}})
            elif f[0] == "unstall":
                u = (args[0], args[1])
                st = stalled.pop(u, None)
                if st is not None:
                    got = d.pop((hx(u[0]), hx(u[1])), {})
                    for tg, n in got.items():
                        owed = st["owed"].get(tg, 0)
                        if owed == 0:
                            sig = "plain-subscriber-wrong" if not is_stream(u[1]) else "received-feed-not-in-latest-rule"
                            fails.append((sig, f"{u[0]}@{u[1]} drained a message tagged {tg} that was not owed to it when it was broadcast"))
                        elif n > owed:
                            fails.append(("wrong-multiplicity", f"{u[0]}@{u[1]} drained {tg} x{n}, at most x{owed} were owed"))
                    need = min(st["room"], sum(st["owed"].values()))
                    if sum(got.values()) < need:
                        fails.append(("buffered-message-lost", f"{u[0]}@{u[1]} had room for {st['room']} message(s), was owed "
                                      f"{sum(st['owed'].values())}, drained only {sum(got.values())}"))
                    if fails:
                        break
            if f[0] != "bc":
                if d:
                    fails.append(("delivery-without-broadcast", f"{self.describe([l])[0]} delivered {o}")); break
                continue
            topic, sender = args
            tag = f"{hx(topic)}#{seq}"
            seq += 1
            exp = {}
            for u in regd:
                if u[0] == sender:
                    continue
                if is_stream(u[1]):
                    n = rules[u[1]].count(topic) if u[1] in rules else 0
                else:
                    n = 1 if u[1] == topic else 0
                if n and u in stalled:
                    stalled[u]["owed"][tag] = n       # nothing may be seen now; at most this much when it drains
                elif n:
                    exp[(hx(u[0]), hx(u[1]))] = n
            for who, tags in d.items():
                nm, tp = unhx(who[0]).decode("utf-8", "replace"), unhx(who[1]).decode("utf-8", "replace")
                for tg, n in tags.items():
                    if tg != tag:
                        fails.append(("stale-message", f"{nm}@{tp} got a message tagged {tg} during broadcast {tag}"))
                    elif who not in exp:
                        why = ("does not drain its channel (stalled)" if (nm, tp) in stalled else
                               "is not registered" if (nm, tp) not in regd else
                               "has the sender's name" if nm == sender else
                               f"latest rule of {tp} is {rules.get(tp)}" if is_stream(tp) else "subscribes to another topic")
                        sig = "plain-subscriber-wrong" if not is_stream(tp) else "received-feed-not-in-latest-rule"
                        fails.append((sig, f"{nm}@{tp} received {topic!r} x{n} but {why}"))
                    elif exp[who] != n:
                        fails.append(("wrong-multiplicity", f"{nm}@{tp} received {topic!r} x{n}, expected x{exp[who]}"))
            for who, n in exp.items():
                if tag not in d.get(who, {}):
                    nm, tp = unhx(who[0]).decode(), unhx(who[1]).decode()
                    sig = "plain-subscriber-wrong" if not is_stream(tp) else "feed-in-latest-rule-not-received"
                    fails.append((sig, f"{nm}@{tp} did not receive {topic!r} (expected x{n}; rule {rules.get(tp)})"))
            if fails:
                break
        return fails

    def describe(self, case):
        outl = []
        for l in case:
            f = l.split(" ")
            try:
                if f[0] == "stall" and len(f) == 4:
                    outl.append(" ".join([f[0]] + [repr(unhx(x).decode("utf-8", "replace")) for x in f[1:3]] + [f"free-slots={f[3]}"]))
                    continue
                outl.append(" ".join([f[0]] + [repr(unhx(x).decode("utf-8", "replace")) for x in f[1:]]))
            except Exception:
                outl.append(l)
        return outl


class AggStatsMode(AggMode):
    """the configuration vw runs in production: agg.Hub.RunWithStats (inner hub.RunWithStats loop)"""
    name = "agg-stats"
    impl_mode = "agg"
    model_mode = "agg"
    impl_args = ["stats"]
    N = (500, 10000)


class AggDieMode(AggMode):
    """same ops against the hub goroutine WITHOUT the recover wrapper: a panic is seen as the process dying"""
    name = "agg-die"
    impl_mode = "agg"
    model_mode = "agg"
    impl_args = ["die", "stats"]

    def generate(self, rng, tier):
        n = 40 if tier == "quick" else 1500
        return [gen_case(rng, rng.choice([6, 12, 24]), stalls=(i % 2 == 1)) for i in range(n)] + \
               [gen_stall_scenario(rng) for _ in range(n // 4)]


def modes(tier):
    return [AggMode(), AggStatsMode(), AggDieMode()]

# the plain hub underneath, as translated from the current source (Relay/Tie/PlainHub.lean)
from tiecommon import TIE_PLAINHUB, TIE_PLAINHUB_NOTE
THEOREMS = list(THEOREMS) + TIE_PLAINHUB
RULE = TIE_PLAINHUB_NOTE + RULE
