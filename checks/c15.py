"""C15 — a stream carries exactly its latest rule's feeds; rule edits never crash the host"""
import json, os
import vlib
from vlib import hx, unhx

RULE = ("histories of register/unregister (stream and plain subscribers, unknown subscribers too), add/replace rule "
        "(empty, repeated feeds, a stream name used as feed, names without the 'stream/' prefix, the reserved id), delete "
        "(known, unknown, deleteAll, twice), tagged broadcasts (mostly on a topic somebody listens to; sender name sometimes equal "
        "to a subscriber's) and table dumps, over <=3 streams, <=4 feeds, <=4 subscribers, lengths 3..35, all drawn from one PRNG; "
        "a malformed-line stream; the corpus (three historical crash sequences and variants; two re-registration cases run for "
        "correspondence only). Run against agg.Hub.Run, agg.Hub.RunWithStats (what vw starts) and, without the recover wrapper, "
        "as a process that may die. Discipline: the generator never registers a stream subscriber that is currently registered. "
        "A case is non-trivial when a stream subscriber received a forwarded message, a subscriber registered and a rule was "
        "replaced/deleted; distinct = distinct op sequence")
ASSUMPTIONS = [
    "each iteration of agg.Hub.RunOptionalStats is one atomic step (a single goroutine owns Rules/Streams/SubClients)",
    "a *hub.Client is identified by its immutable (Name, Topic); Topic/Name are not mutated after registration",
    "usage discipline: a stream subscriber is not registered again while it is registered (every caller in /repo registers a "
    "fresh client once); without it forwarders leak for good (theorem Agg.reregister_orphans_forwarder, corpus case 6)",
    "delivery is observed at quiescence (hub loops and all forwarders parked in select, read from a stop-the-world goroutine "
    "dump): the inner hub's non-blocking send to a busy forwarder (drop under load) and subscribers with a full Send buffer "
    "are outside the model",
    "Go map iteration order is unobservable (deliveries and tables are compared sorted)",
]

P = "Relay.Props.C15"
THEOREMS = [(f"Agg.{n}", P) for n in [
    "agg_never_panics", "stream_follows_latest_rule", "stream_forwarded_iff", "stream_delivery_follows_rule",
    "reregister_orphans_forwarder", "plain_delivery_exact", "plain_subscribers_unaffected",
    "removed_feed_stops", "deleted_rule_stops", "delete_all_stops", "unregistered_gets_nothing",
    "old_code_panics_delete_unregister", "old_code_panics_deleteAll_twice", "old_code_panics_delete_deleteAll",
    "step_inv"]]

STREAMS = ["stream/a", "stream/b", "stream/c"]
ODD_STREAMS = ["stream/", "stream", "Stream/a", "deleteAll", "astream/a", ""]
FEEDS = ["f1", "f2", "audio", "video"]
NAMES = ["u1", "u2", "u3", "u4"]
SENDERS = ["x", "u1", "u2", "cam"]


def is_stream(t):
    return t.startswith("stream/")


def line(*fs):
    return " ".join([fs[0]] + [hx(f) for f in fs[1:]])


def gen_case(rng, L):
    streams = rng.sample(STREAMS, rng.choice([1, 2, 3]))
    if rng.random() < 0.15:
        streams[-1] = rng.choice(ODD_STREAMS)
    feeds = list(FEEDS)
    if rng.random() < 0.2:
        feeds[rng.randrange(4)] = rng.choice(streams + ["", "stream/zz"])
    subs = []
    for i in range(4):
        nm = rng.choice(NAMES) if rng.random() < 0.3 else NAMES[i]
        tp = rng.choice(streams) if rng.random() < 0.65 else rng.choice(feeds)
        if (nm, tp) not in subs:
            subs.append((nm, tp))
    regd = set()
    rules = {}
    case = []

    def add(st, fl):
        if st != "deleteAll":
            rules[st] = fl
        case.append(line("add", st, *fl))

    # mostly start with something to look at
    if rng.random() < 0.7:
        add(rng.choice(streams), [rng.choice(feeds) for _ in range(rng.choice([1, 2, 2, 3]))])
    while len(case) < L:
        r = rng.random()
        if r < 0.22:
            cand = [u for u in subs if not (is_stream(u[1]) and u in regd)]  # discipline: no re-registration of a registered stream subscriber
            if not cand:
                continue
            u = rng.choice(cand)
            regd.add(u)
            case.append(line("reg", *u))
        elif r < 0.32:
            u = rng.choice(subs)
            regd.discard(u)
            case.append(line("unreg", *u))
        elif r < 0.49:
            st = rng.choice(streams) if rng.random() < 0.9 else rng.choice(ODD_STREAMS)
            k = rng.choice([0, 1, 1, 2, 2, 3])
            fl = [rng.choice(feeds) for _ in range(k)]
            if k >= 2 and rng.random() < 0.25:
                fl[1] = fl[0]
            add(st, fl)
        elif r < 0.59:
            q = rng.random()
            st = "deleteAll" if q < 0.3 else rng.choice(streams) if q < 0.9 else rng.choice(ODD_STREAMS + ["stream/none"])
            for s in ([st] + ([rng.choice([st, "deleteAll"])] if rng.random() < 0.15 else [])):
                if s == "deleteAll":
                    rules.clear()
                else:
                    rules.pop(s, None)
                case.append(line("del", s))
        else:
            # mostly a topic somebody currently listens to (through a rule or directly), sometimes one nobody should get
            hot = [f for u in regd if is_stream(u[1]) for f in rules.get(u[1], [])] + [u[1] for u in regd if not is_stream(u[1])]
            q = rng.random()
            t = rng.choice(hot) if hot and q < 0.6 else rng.choice(feeds) if q < 0.93 else rng.choice(streams)
            case.append(line("bc", t, rng.choice(SENDERS)))
        if rng.random() < 0.07:
            case.append("st")
    case.append("st")
    return case


def gen_malformed(rng):
    good = gen_case(rng, rng.choice([4, 8]))
    bad = ["", "nop", "reg", "reg 7531", "reg 7531 6631 6631", "unreg 7531", "add", "del", "del 61 62", "bc 6631", "bc 6631 78 79",
           "reg 753 6631", "reg 7G31 6631", "add 73747265616D2f61 6631", "reg ff 6631", "bc c0af 78", "reg 7531 - ", "add - -", "bc - -",
           "reg - -", "REG 7531 6631", "del -"]
    out = []
    for l in good:
        if rng.random() < 0.4:
            out.append(rng.choice(bad))
        out.append(l)
    out.append(rng.choice(bad))
    return [l for l in out if l.strip() != ""] + ["bc 6631 78", "st"]


def parse_deliveries(o):
    """'ok a@b:tag*n,...' -> {(name,topic): {tag: n}} or None"""
    if o == "ok":
        return {}
    if not o.startswith("ok "):
        return None
    res = {}
    try:
        for e in o[3:].split(","):
            who, rest = e.split(":", 1)
            nm, tp = who.split("@")
            tag, n = rest.rsplit("*", 1)
            res.setdefault((nm, tp), {})[tag] = int(n)
    except Exception:
        return None
    return res


class AggMode(vlib.Mode):
    """agg.Hub.Run (inner hub.Run), hub goroutine under a recover wrapper"""
    name = "agg"
    shrink_budget = 120
    N = (600, 14000)

    def corpus(self):
        p = f"{vlib.V}/corpus/agg.json"
        return [c["case"] for c in json.load(open(p))] if os.path.exists(p) else []

    def generate(self, rng, tier):
        n = self.N[0] if tier == "quick" else self.N[1]
        cases = [gen_case(rng, rng.choice([3, 6, 10, 16, 24, 34])) for _ in range(n)]
        cases += [gen_malformed(rng) for _ in range(n // 12)]
        return cases

    def nontrivial(self, case, out):
        got_stream = any(o.startswith("ok ") and any(is_stream(unhx(e.split(":")[0].split("@")[1]).decode("utf-8", "replace"))
                                                     for e in o[3:].split(",")) for o in out)
        kinds = [l.split(" ")[0] for l in case]
        return got_stream and "reg" in kinds and ("del" in kinds or kinds.count("add") >= 2)

    def oracle(self, case, out):
        """The property evaluated on what the real hub delivered, from the history alone (no table):
        per broadcast, a registered stream subscriber gets count(feed in latest rule of its stream) copies, a registered plain
        subscriber of that topic one copy, both unless the sender has their name; nobody else gets anything; nothing is
        delivered by any other op; the hub never panics or hangs."""
        fails = []
        rules, regd, seq = {}, set(), 0
        for l, o in zip(case, out):
            f = l.split(" ")
            if o.startswith("panic") or o.startswith("<<") or o == "dead":
                fails.append(("hub-crash", f"{self.describe([l])[0]} -> {o}")); break
            if o == "stuck":
                fails.append(("hub-hang", f"{self.describe([l])[0]} -> {o}")); break
            if o == "bad-op":
                continue
            if f[0] == "st":
                # the tables must be exactly what the history says (no stale rule, no departed subscriber, no leaked sub-subscription)
                ex_rules = sorted(f"{hx(s)}={'+'.join(hx(x) for x in fl)}" for s, fl in rules.items())
                ex_regs = sorted(f"{hx(u[0])}@{hx(u[1])}" for u in regd if is_stream(u[1]))
                ex_subs = sorted(f"{hx(u[0])}@{hx(u[1])}:{len(rules[u[1]])}" for u in regd if is_stream(u[1]) and u[1] in rules)
                cnt = {}
                for u in regd:
                    for tp in (rules.get(u[1], []) if is_stream(u[1]) else [u[1]]):
                        cnt[tp] = cnt.get(tp, 0) + 1
                ex_inner = sorted(f"{hx(tp)}:{n}" for tp, n in cnt.items())
                exp = "rules=" + ",".join(ex_rules) + " regs=" + ",".join(ex_regs) + " subs=" + ",".join(ex_subs) + " inner=" + ",".join(ex_inner)
                if o != exp:
                    parts = [a.split("=", 1)[0] for a, b in zip(o.split(" "), exp.split(" ")) if a != b] if o.count(" ") == 3 else ["?"]
                    fails.append(("tables-not-as-history:" + "+".join(parts), f"hub tables {o!r}, history says {exp!r}"))
                    break
                continue
            try:
                args = [unhx(x).decode("utf-8") for x in f[1:]]
            except Exception:
                fails.append(("bad-output", f"{l} -> {o}")); break
            d = parse_deliveries(o)
            if d is None:
                fails.append(("bad-output", f"{l} -> {o}")); break
            if f[0] == "reg":
                u = (args[0], args[1])
                if is_stream(u[1]) and u in regd:
                    return fails  # usage discipline broken (corpus only): correspondence is still checked, the property is not claimed
                regd.add(u)
            elif f[0] == "unreg":
                regd.discard((args[0], args[1]))
            elif f[0] == "add":
                if args[0] != "deleteAll":
                    rules[args[0]] = args[1:]
            elif f[0] == "del":
                if args[0] == "deleteAll":
                    rules = {}
                else:
                    rules.pop(args[0], None)
            if f[0] != "bc":
                if d:
                    fails.append(("delivery-without-broadcast", f"{self.describe([l])[0]} delivered {o}")); break
                continue
            topic, sender = args
            tag = f"{hx(topic)}#{seq}"
            seq += 1
            exp = {}
            for u in regd:
                if u[0] == sender:
                    continue
                if is_stream(u[1]):
                    n = rules[u[1]].count(topic) if u[1] in rules else 0
                else:
                    n = 1 if u[1] == topic else 0
                if n:
                    exp[(hx(u[0]), hx(u[1]))] = n
            for who, tags in d.items():
                nm, tp = unhx(who[0]).decode("utf-8", "replace"), unhx(who[1]).decode("utf-8", "replace")
                for tg, n in tags.items():
                    if tg != tag:
                        fails.append(("stale-message", f"{nm}@{tp} got a message tagged {tg} during broadcast {tag}"))
                    elif who not in exp:
                        why = ("is not registered" if (nm, tp) not in regd else
                               "has the sender's name" if nm == sender else
                               f"latest rule of {tp} is {rules.get(tp)}" if is_stream(tp) else "subscribes to another topic")
                        sig = "plain-subscriber-wrong" if not is_stream(tp) else "received-feed-not-in-latest-rule"
                        fails.append((sig, f"{nm}@{tp} received {topic!r} x{n} but {why}"))
                    elif exp[who] != n:
                        fails.append(("wrong-multiplicity", f"{nm}@{tp} received {topic!r} x{n}, expected x{exp[who]}"))
            for who, n in exp.items():
                if tag not in d.get(who, {}):
                    nm, tp = unhx(who[0]).decode(), unhx(who[1]).decode()
                    sig = "plain-subscriber-wrong" if not is_stream(tp) else "feed-in-latest-rule-not-received"
                    fails.append((sig, f"{nm}@{tp} did not receive {topic!r} (expected x{n}; rule {rules.get(tp)})"))
            if fails:
                break
        return fails

    def describe(self, case):
        outl = []
        for l in case:
            f = l.split(" ")
            try:
                outl.append(" ".join([f[0]] + [repr(unhx(x).decode("utf-8", "replace")) for x in f[1:]]))
            except Exception:
                outl.append(l)
        return outl


class AggStatsMode(AggMode):
    """the configuration vw runs in production: agg.Hub.RunWithStats (inner hub.RunWithStats loop)"""
    name = "agg-stats"
    impl_mode = "agg"
    model_mode = "agg"
    impl_args = ["stats"]
    N = (500, 10000)


class AggDieMode(AggMode):
    """same ops against the hub goroutine WITHOUT the recover wrapper: a panic is seen as the process dying"""
    name = "agg-die"
    impl_mode = "agg"
    model_mode = "agg"
    impl_args = ["die", "stats"]

    def generate(self, rng, tier):
        n = 40 if tier == "quick" else 1500
        return [gen_case(rng, rng.choice([6, 12, 24])) for _ in range(n)]


def modes(tier):
    return [AggMode(), AggStatsMode(), AggDieMode()]
