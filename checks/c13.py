"""C13 — whatever a connection used is given back when it ends"""
from relaymain import RelayMainMode, RELAYMAIN_RULE
from lagcommon import LagMode, LAG_RULE
from tiecommon import TIE_DENY, TIE_TTLCODE, TIE_CHANMAP, TIE_NOTE, TIE_ASSUMPTION
import vlib
from hubcommon import HubMode
from relaycommon import RelayMode
import c08

RULE = ("mode leak: against one real relay instance, N connections are opened (tokens living an hour, or 1 s for the expiry cause) and "
        "ended by client close, abrupt network loss (RST), cancellation of their bookings, or token expiry; then N refused websocket "
        "attempts of each kind; then shutdown. After every batch the hub membership, both cancel-channel maps, the code store and the "
        "goroutine count (after settling) must be back at the baseline taken after a warm-up connection, cancelled/expired connections "
        "must have been closed BY THE RELAY, and after shutdown the service goroutines must be gone without burning CPU. Plus hub mode "
        "and chanmap mode (bookkeeping compared with the model after every event) and relay mode (membership = history). N is 12-40 "
        "in quick, 100-300 in thorough (where the 10 s write-deadline eviction cause is added). non-trivial = a batch with >= 8 "
        "connections; distinct = distinct script")
ASSUMPTIONS = ["garbage-collector finalisation of sockets and OS descriptor tables are outside the model: the model says whether a close is issued, "
               "the harness observes the peer seeing it",
               "goroutine accounting uses runtime.NumGoroutine after settling, with a tolerance of 2",
               "the life-cycle machine abstracts each goroutine's reaction to an end cause as one step (the code between the select case and the return)"]
P = "Relay.Props.C13"
THEOREMS = [(f"Life.{n}", P) for n in ["all_released", "progress", "footprint", "inv_cause_all", "inv_step_all", "released_all",
                                        "shutdown_quiesces", "loops_present", "teardown_as_modelled"]] + \
           [("ChanMap.delchild_removes", "Relay.Props.C08ChanMap"), ("Relay.gone_not_reported", "Relay.Props.C14Members")]
THEOREMS = THEOREMS + TIE_CHANMAP + TIE_TTLCODE
RULE = TIE_NOTE + RULE
ASSUMPTIONS = ASSUMPTIONS + [TIE_ASSUMPTION]

RULE = RULE + LAG_RULE

RULE = RULE + RELAYMAIN_RULE



class LeakMode(vlib.Mode):
    name = "leak"
    compare = False
    shrinkable = False
    chunk = 1

    def timeout(self, tier):
        return 600

    def generate(self, rng, tier):
        big = tier == "thorough"
        cases = []
        for rep in range(2 if not big else 4):
            n = (lambda lo, hi: rng.randrange(lo, hi)) if not big else (lambda lo, hi: rng.randrange(lo * 6, hi * 8))
            case = ["baseline"]
            batches = [f"cycle clientclose {n(12, 40)}", f"cycle netloss {n(12, 30)}", f"cycle deny {n(8, 20)}", f"cycle expiry {n(8, 16)}",
                       f"refused nocode {rng.randrange(3, 6)}", f"refused badcode {rng.randrange(3, 6)}", f"cycle clientclose {n(12, 40)}"]
            rng.shuffle(batches)
            case += batches + ["shutdown"]
            cases.append(case)
        return cases

    def oracle(self, case, out):
        fails = []
        for l, o in zip(case, out):
            f = l.split(" ")
            if o.startswith("<<") or o in ("stuck", "dead") or o.startswith("panic") or o in ("open-failed", "dial-failed"):
                fails.append(("relay-crash-or-hang", f"{l} -> {o}")); break
            d = dict(p.split("=", 1) for p in o.split(" ")[1:] if "=" in p)
            if f[0] == "cycle":
                if any(d.get(k) != "0" for k in ("members", "dcs", "pbc", "codes")):
                    fails.append(("bookkeeping-not-released", f"after {l}: {o}"))
                if int(d.get("extra_goroutines", 0)) > 2:
                    fails.append(("goroutines-linger-after-connections-end", f"after {l}: {d['extra_goroutines']} goroutines above baseline"))
                if f[1] in ("deny", "expiry") and d.get("server_closed") != f[2]:
                    fails.append(("connection-not-closed-by-relay", f"{l}: relay closed {d.get('server_closed')} of {f[2]} sockets"))
            elif f[0] == "refused":
                if d.get("closed_by_relay") != d.get("of"):
                    fails.append(("K6-refused-websocket-left-open", f"{l}: the relay closed {d.get('closed_by_relay')} of {d.get('of')} refused sockets"))
                if int(d.get("extra_goroutines", 0)) > 2:
                    fails.append(("goroutines-linger-after-refusals", f"after {l}: {d['extra_goroutines']} above baseline"))
            elif f[0] == "shutdown":
                if int(d.get("cpu_ms_in_400ms", 0)) > 150:
                    fails.append(("service-loop-spins-after-shutdown", o))
                if int(d.get("goroutines_after", 0)) >= int(d.get("goroutines_before", 0)):
                    fails.append(("services-not-stopped-on-shutdown", o))
        return fails

    def nontrivial(self, case, out):
        return any(l.startswith("cycle") and int(l.split(" ")[2]) >= 8 for l in case)

    def account(self, stats, case, out):
        super().account(stats, case, out)
        t = stats.setdefault("connections_cycled", {})
        for l in case:
            f = l.split(" ")
            if f[0] in ("cycle", "refused"): t[f[1]] = t.get(f[1], 0) + int(f[2])


class ChanMapForC13(c08.ChanMapMode):
    def oracle(self, case, out):
        return [x for x in super().oracle(case, out) if x[0] in ("chanmap-empty-inner-map-kept", "chanmap-maps-inconsistent")]


def modes(tier):
    return [LeakMode(), HubMode("C13"), ChanMapForC13(), RelayMode("C13"), LagMode("C13"), RelayMainMode("C13", 2)]

# the hub's event loop as translated from the current source (Relay/Tie/Hub.lean)
from tiecommon import TIE_HUB, TIE_HUB_NOTE, TIE_HUB_ASSUMPTION
THEOREMS = THEOREMS + TIE_HUB
RULE = TIE_HUB_NOTE + RULE
ASSUMPTIONS = ASSUMPTIONS + [TIE_HUB_ASSUMPTION]
