"""C18 — the host's control interfaces answer every command and survive every input"""
import itertools, json
import vlib
from vlib import hx, unhx

RULE = ("cases = `start <Opts.API or empty>` followed by 4..30 operations: websocket commands as raw bytes "
        "(direct handleAdminMessage call `ws`, or through the real internalAPI goroutine `wsl`) and HTTP requests through the real "
        "gorilla/mux route table (`http`) or by calling one of the ten rule handlers directly with an arbitrary path variable (`hcall`). Command bytes come from a grammar: every verb/what/which combination incl. unknown ones, "
        "each member present / absent / null / wrongly typed / duplicated / with differently cased key, ids and names with quotes, "
        "backslashes, control, non-ASCII and non-UTF-8 bytes, rule objects with missing/extra/wrongly typed fields, token and file set, "
        "non-JSON (truncations, garbage, BOM, scalars, deep nesting); ~60% of commands are well-formed and reuse a small id pool so that "
        "deletes/lists/replacements hit existing rules. Non-trivial = the case contains an error answer and a rule change; "
        "distinct = distinct op sequence")
ASSUMPTIONS = [
    "encoding/json is not modelled: json.Unmarshal's result (command fields, nested rule decoded as rwc.Rule and agg.Rule, or the error text) is taken "
    "from the same library call made by the harness; json.Marshal of the string-only values the API passes (rwc.Rule, agg.Rule, map[string]string, "
    "map[string]rwc.Rule, map[string][]string, []string, string) returns no error and a valid JSON text (hypothesis `hM` of the theorems; "
    "checked per reply by json.Valid and Python's json on the implementation's output)",
    "gorilla/mux routing is not modelled: the handler a request reaches and its path variable are taken from the real router (RouteMatch)",
    "commands/requests are atomic steps processed one at a time (single API goroutine; hubs apply Add/Delete in send order over unbuffered channels); "
    "overlap of listings with hub writes from other goroutines is known finding K5 (stress sub-mode)",
    "ioutil.ReadAll of an HTTP body does not fail (in-memory bodies)",
    "Stream()'s start-up (envconfig, listener, signal handling) is replaced by the harness: hubs + internalAPI goroutine started the same way, "
    "apiRule added iff Opts.API != \"\"",
]

P = "Relay.Props.C18"
THEOREMS = [(f"VwApi.{n}", P) for n in
            ["api_total_valid", "api_loop_reply_valid", "invalid_command_noop", "handle_err_iff", "invalid_commands_skippable",
             "apirule_protected", "apirule_intact_without_add", "apirule_recreated_by_delete_all", "no_apirule_without_api_after_delete_all",
             "refused_delete_noop", "wellformed_ok", "handle_isErr", "handle_good", "built_valid",
             "http_total_valid", "http_error_noop", "http_can_delete_apirule", "ops_total",
             "add_without_rule_panics_without_nilcheck", "apirule_bypass_without_alias"]]

API = "ws://127.0.0.1:1/api"
DESTS = ["ws://127.0.0.1:1/x", "wss://127.0.0.1:9/out", "ws://[::1]:1/z", "", "not a url", "http://127.0.0.1:1/acc",
         "ws://user:pw@127.0.0.1:1/", "ws://127.0.0.1:1/\"q\""]
IDS = ["00", "01", "a", "apiRule", "deleteAll", "all", "", 'a"b', "a\\b", "x\ny", "\u0001", "é", "stream/x", "<&>", " ",
       "api", "ApiRule", " apiRule", "a/b", "日本", "\U0001F600", "\x7f", "a'b", "{\"k\":1}", "error", "deleted", "x-1"]
HOT_IDS = ["00", "01", "a", "apiRule", "deleteAll", "all", "", 'a"b', "stream/x"]
STREAMS = ["stream/x", "/stream/x", "video", "deleteAll", "/deleteAll", "", "all", "//x", "api", "stream/y", 's"q', "/"]
# near-reserved ids (validate-vs-normalise): blank / slash / case variants of the reserved and protected ids and of ordinary ids --
# all ordinary, distinct ids on the unchanged tree (only a stream name loses ONE leading "/", before agg's reserved-id guard)
NEAR_IDS = ["/deleteAll", " deleteAll", "deleteAll ", "\tdeleteAll", "deleteAll\n", "DeleteAll", "deleteall", "/apiRule", "apiRule ",
            "apirule", "APIRULE", " all", "all ", "All", "/all", " 00", "00 ", "/a", "A", "deleteAll" * 30]
IDS += NEAR_IDS
HOT_IDS += ["/deleteAll", " deleteAll", "/apiRule"]
STREAMS += [" deleteAll", "deleteAll ", "DeleteAll", "//deleteAll", " /deleteAll", " stream/x", "stream/x ", "Stream/x"]
FEEDS = ["video0", "audio0", "", "a\"b", "stream/x", "é"]
RAW_STRS = [b'"a\xffb"', b'"\xc3"', b'"a\nb"', b'"\\ud800"', b'"\\q"', b'"\\u00zz"', b"'single'", b'"\\u0000"', b'"\\/"', b'"unterminated']
WRONG = [b"null", b"5", b"-0.5e3", b"true", b"false", b"{}", b"[]", b'["add"]', b'{"a":1}', b"[[[]]]"]
VERBS = ["add", "delete", "list", "healthcheck", "", "ADD", "remove", "Healthcheck", "lis"]
WHATS = ["destination", "stream", "", "streams", "Destination", "destinations", "both"]
FILES = ["", "", "", "/nonexistent-verif-dir/out.ts", "/dev/null"]
NONJSON = [b"", b"Not even JSON", b"null", b"[]", b"{}", b"123", b'"str"', b"{", b"}", b'{"verb"', b'{"verb":}', b"\xef\xbb\xbf{}",
           b"\x00", b"\xff\xfe", b'{"verb":"list","what":"stream","which":"all"}x', b'{"verb":"list",}', b"{'verb':'list'}",
           b"[" * 300 + b"]" * 300, b"[" * 12000, b'{"verb":"healthcheck"} {"verb":"healthcheck"}', b"true", b"NaN", b' \n\t{"verb":"healthcheck"}\r\n ']
SAFE_PATH_IDS = ["00", "01", "a", "apiRule", "deleteAll", "all", "a/b", "stream/x", "x-1", "video", "stream/y", "error"]
METHODS = ["GET", "POST", "PUT", "DELETE", "UPDATE", "PATCH", "HEAD", "OPTIONS"]


def jlit(rng, s):
    """a JSON string literal for the python string s, in one of several spellings"""
    r = rng.random()
    if r < 0.45:
        return json.dumps(s, ensure_ascii=False).encode("utf-8", "surrogatepass")
    if r < 0.8:
        return json.dumps(s, ensure_ascii=True).encode()
    if r < 0.9 and all(ord(c) < 0x10000 for c in s):
        return ('"' + "".join("\\u%04x" % ord(c) for c in s) + '"').encode()
    return json.dumps(s, ensure_ascii=False).encode("utf-8", "surrogatepass")


def keyvar(rng, k):
    r = rng.random()
    if r < 0.82:
        return k
    if r < 0.88:
        return k.capitalize()
    if r < 0.94:
        return k.upper()
    if r < 0.97:
        return "".join(c.upper() if rng.random() < 0.5 else c for c in k)
    return rng.choice([k + "s", " " + k, k[:-1], "ſ" + k[1:] if k.startswith("s") else k + "_"])   # mostly not the key; but U+017F folds to s in Go's key matching


def obj(rng, members, shuffle=True):
    ms = list(members)
    if shuffle and rng.random() < 0.3:
        rng.shuffle(ms)
    sep = b"," if rng.random() < 0.9 else b" ,\n "
    return b"{" + sep.join(b'"' + k.encode() + b'":' + v for k, v in ms) + b"}"


def member_forms(rng, key, good, p_bad):
    """list of (key, valuebytes) for one member: [] = absent"""
    r = rng.random()
    if r >= p_bad:
        out = [(keyvar(rng, key), good)]
    else:
        q = rng.random()
        if q < 0.25:
            out = []
        elif q < 0.4:
            out = [(keyvar(rng, key), b"null")]
        elif q < 0.6:
            out = [(keyvar(rng, key), rng.choice(WRONG))]
        elif q < 0.75:
            out = [(keyvar(rng, key), rng.choice(RAW_STRS))]
        else:
            out = [(keyvar(rng, key), good)]
    if rng.random() < 0.06:      # duplicated member (last one wins in Go), possibly under another spelling
        out = out + [(keyvar(rng, key), rng.choice([good, b"null", jlit(rng, rng.choice(IDS)), rng.choice(WRONG)]))]
        if rng.random() < 0.5:
            out.reverse()
    return out


def dest_rule(rng, ids, p_bad):
    r = rng.random()
    if r < p_bad * 0.25:
        return rng.choice(WRONG + RAW_STRS + [b'"str"'])
    ms = []
    ms += member_forms(rng, "id", jlit(rng, rng.choice(ids)), p_bad * 0.5)
    ms += member_forms(rng, "stream", jlit(rng, rng.choice(STREAMS)), p_bad * 0.5)
    ms += member_forms(rng, "destination", jlit(rng, rng.choice(DESTS)), p_bad * 0.5)
    if rng.random() < 0.25:
        ms += member_forms(rng, "token", jlit(rng, rng.choice(["", "tok", "ey.J\"x"])), p_bad * 0.5)
    if rng.random() < 0.2:
        ms += member_forms(rng, "file", jlit(rng, rng.choice(FILES)), p_bad * 0.3)
    if rng.random() < 0.1:
        ms.append((rng.choice(["extra", "feeds", "Id ", "rule"]), rng.choice(WRONG + [b'"x"'])))
    return obj(rng, ms)


def feeds_val(rng, p_bad):
    r = rng.random()
    if r < p_bad * 0.5:
        return rng.choice([b"null", b"[]", b"[null]", b'["a",5]', b'"a"', b'{"x":1}', b'[["a"]]', b'["a",null,"b"]', b"5"])
    n = rng.choice([0, 1, 1, 2, 2, 3])
    return b"[" + b",".join(jlit(rng, rng.choice(FEEDS)) for _ in range(n)) + b"]"


def stream_rule(rng, p_bad):
    r = rng.random()
    if r < p_bad * 0.25:
        return rng.choice(WRONG + RAW_STRS + [b'"str"'])
    ms = []
    ms += member_forms(rng, "stream", jlit(rng, rng.choice(STREAMS)), p_bad * 0.5)
    ms += member_forms(rng, "feeds", feeds_val(rng, p_bad), p_bad * 0.4)
    if rng.random() < 0.1:
        ms.append((rng.choice(["extra", "id", "destination"]), rng.choice(WRONG + [b'"x"'])))
    return obj(rng, ms)


def gen_cmd(rng, ids):
    """bytes of one websocket message"""
    r = rng.random()
    if r < 0.08:
        return rng.choice(NONJSON)
    wellformed = r < 0.65
    p_bad = 0.0 if wellformed else 0.35
    if wellformed:
        verb = rng.choice(["add", "add", "add", "delete", "delete", "list", "list", "healthcheck"])
        what = rng.choice(["destination", "destination", "stream"])
    else:
        verb = rng.choice(VERBS[:4] * 3 + VERBS)
        what = rng.choice(WHATS[:2] * 4 + WHATS)
    pool = ids if rng.random() < 0.8 else IDS
    if what == "stream" and rng.random() < 0.7:
        pool = STREAMS + ["all", ""]
    which = rng.choice(pool + ["all", "all", "deleteAll", "apiRule", "apiRule"]) if verb in ("delete", "list") or rng.random() < 0.2 else None
    ms = []
    ms += member_forms(rng, "verb", jlit(rng, verb), p_bad)
    ms += member_forms(rng, "what", jlit(rng, what), p_bad)
    if which is not None:
        ms += member_forms(rng, "which", jlit(rng, which), p_bad)
    if verb == "add" or rng.random() < 0.1:
        if rng.random() < (0.95 if wellformed else 0.7):
            kind = what if rng.random() < 0.9 else rng.choice(["destination", "stream"])
            rv = stream_rule(rng, p_bad + 0.04) if kind == "stream" else dest_rule(rng, pool if pool is not STREAMS else ids, p_bad + 0.04)
            ms += member_forms(rng, "rule", rv, p_bad)
    if not wellformed and rng.random() < 0.1:
        ms.append((rng.choice(["extra", "Rule ", "verbs"]), rng.choice(WRONG)))
    b = obj(rng, ms)
    if not wellformed:
        q = rng.random()
        if q < 0.08 and len(b) > 2:
            b = b[:rng.randrange(1, len(b))]
        elif q < 0.12:
            b = b + rng.choice([b"x", b"}", b",", b"\x00", b" null"])
        elif q < 0.16:
            b = rng.choice([b" ", b"\n", b"\t\r\n", b"\xef\xbb\xbf", b"\x0b"]) + b + rng.choice([b" ", b"\n", b""])
        elif q < 0.2:
            b = b"[" + b + b"]"
    return b


def gen_http(rng, ids):
    r = rng.random()
    coll = rng.choice(["destinations", "streams"])
    body = b""
    if r < 0.3:   # add
        method = rng.choice(["POST", "POST", "PUT", "UPDATE"])
        path = "/api/" + coll
        q = rng.random()
        if q < 0.7:
            body = stream_rule(rng, 0.05) if coll == "streams" else dest_rule(rng, ids, 0.05)
        elif q < 0.85:
            body = stream_rule(rng, 0.5) if coll == "streams" else dest_rule(rng, ids, 0.5)
        else:
            body = rng.choice(NONJSON)
    elif r < 0.55:
        method = "GET"
        path = "/api/" + coll + "/" + rng.choice(["all", "all"] + SAFE_PATH_IDS)
    elif r < 0.8:
        method = "DELETE"
        path = "/api/" + coll + "/" + rng.choice(["all"] + SAFE_PATH_IDS)
    else:
        method = rng.choice(METHODS)
        path = rng.choice(["/api", "/api/", "/api/unknown", "/api/" + coll, "/api/" + coll + "/", "/api/" + coll + "/a b",
                           "/api/" + coll + '/a"b', "/api//" + coll, "", "/", "/api/" + coll + "/é", "/api/" + coll + "/all",
                           "/api/" + coll + "/all/", "/api/" + coll + "/a/../b", "/API/" + coll, "/api/" + coll + "/" + "x" * 300,
                           "/api/" + coll + "/" + rng.choice(SAFE_PATH_IDS)])
        if rng.random() < 0.4:
            body = rng.choice([stream_rule(rng, 0.2), dest_rule(rng, ids, 0.2)] + NONJSON)
    return f"http {method} {hx(path)} {hx(body)}"


HCALLS = ["handleDestinationShowAll", "handleDestinationShow", "handleDestinationAdd", "handleDestinationDelete",
          "handleDestinationDeleteAll", "handleStreamShowAll", "handleStreamShow", "handleStreamAdd", "handleStreamDelete",
          "handleStreamDeleteAll"]


def gen_hcall(rng, ids):
    """a rule handler called directly: path variables need not satisfy the router's pattern"""
    name = rng.choice(HCALLS + ["handleDestinationDeleteAll", "handleStreamDeleteAll", "handleDestinationDelete", "handleStreamShow"])
    var = rng.choice(ids + IDS + STREAMS)
    body = b""
    if name.endswith("Add"):
        q = rng.random()
        mk = (lambda p: stream_rule(rng, p)) if "Stream" in name else (lambda p: dest_rule(rng, ids, p))
        body = mk(0.05) if q < 0.7 else mk(0.5) if q < 0.85 else rng.choice(NONJSON)
    return f"hcall {name} {hx(var)} {hx(body)}"


def parse_listing(seg):
    """'D=a/b;c/d' -> dict key-hex -> entry"""
    _, _, body = seg.partition("=")
    d = {}
    for e in body.split(";"):
        if e:
            d[e.split("/", 1)[0]] = e
    return d


def s_(h):
    return unhx(h).decode("utf-8")


def feeds_value(t):
    if t == "~":
        return None
    if t == "=":
        return []
    return [s_(x) for x in t.split(",")]


def rule_dict(f):
    return {"id": s_(f[0]), "stream": s_(f[1]), "destination": s_(f[2]), "token": s_(f[3]), "file": s_(f[4])}


def jval_value(j):
    kind, _, rest = j.partition("/")
    if kind == "DR":
        return rule_dict(rest.split("/"))
    if kind == "SR":
        s, f = rest.split("/")
        return {"stream": s_(s), "feeds": feeds_value(f)}
    if kind == "DEL":
        return {"deleted": s_(rest)}
    if kind == "ERR":
        return {"error": s_(rest)}
    if kind == "DRS":
        out = {}
        for e in rest.split(";"):
            if e:
                f = e.split("/")
                out[s_(f[0])] = rule_dict(f[1:])
        return out
    if kind == "SRS":
        out = {}
        for e in rest.split(";"):
            if e:
                k, f = e.split("/")
                out[s_(k)] = feeds_value(f)
        return out
    if kind == "FEEDS":
        return feeds_value(rest)
    if kind == "STR":
        return s_(rest)
    raise ValueError(j)


def pyparse(b):
    """strict parse of reply bytes; returns (ok, value)"""
    try:
        return True, json.loads(b.decode("utf-8"))
    except Exception:
        return False, None


def term_matches(term, b):
    """does the reply term of the model describe these bytes? literals and wrappers byte-exact,
    json.Marshal output compared as a JSON value (encoding/json's spelling is not modelled)"""
    try:
        if term.startswith("lit:"):
            return b == unhx(term[4:])
        if term.startswith("text:"):
            return b == unhx(term[5:])
        if term.startswith("m:"):
            ok, v = pyparse(b)
            return ok and v == jval_value(term[2:]) and type(v) == type(jval_value(term[2:]))
        if term.startswith("wrap:"):
            _, pre, j, post = term.split(":")
            pre, post = unhx(pre), unhx(post)
            if not (b.startswith(pre) and b.endswith(post) and len(b) >= len(pre) + len(post)):
                return False
            ok, v = pyparse(b[len(pre):len(b) - len(post)])
            return ok and v == jval_value(j) and type(v) == type(jval_value(j))
    except Exception:
        return False
    return False


def split_out(o):
    """impl line -> (obs, [D seg, S seg] or None, dec or None)"""
    main, sep, dec = o.partition(" ;; ")
    parts = main.split(" | ")
    return parts[0], (parts[1:] if len(parts) == 3 else None), (dec if sep else None)


MODELLED = {"handleDestinationShowAll", "handleDestinationShow", "handleDestinationAdd", "handleDestinationDelete",
            "handleDestinationDeleteAll", "handleStreamShowAll", "handleStreamShow", "handleStreamAdd", "handleStreamDelete",
            "handleStreamDeleteAll", "handleAPI"}


class VwApiMode(vlib.Mode):
    name = "vwapi"
    chunk = 150          # a fresh harness process every 150 cases: lingering reconnect goroutines never pile up
    shrink_budget = 60

    def generate(self, rng, tier):
        n = 900 if tier == "quick" else 12000
        cases = []
        for i in range(n):
            api = rng.choice([API, API, API, API, API, 'ws://127.0.0.1:1/a"b\\', "not a url", "", "", ""])
            case = [f"start {hx(api)}"]
            ids = rng.sample(HOT_IDS, 4) + rng.sample(IDS, 2)
            L = rng.choice([4, 8, 15, 30])
            p_http = rng.choice([0.0, 0.15, 0.3, 0.6])
            for _ in range(L):
                r = rng.random()
                if r < p_http * 0.3:
                    case.append(gen_hcall(rng, ids))
                elif r < p_http:
                    case.append(gen_http(rng, ids))
                else:
                    case.append(("wsl " if rng.random() < 0.25 else "ws ") + hx(gen_cmd(rng, ids)))
            if rng.random() < 0.3:
                # the same rule id applied again with ONE member changed (token, file, stream or destination), through either interface:
                # the listing must show the latest rule whichever member it was
                import json as _json
                rid, st, de = rng.choice(ids[:4]), rng.choice(STREAMS), rng.choice(DESTS)
                r1 = {"id": rid, "stream": st, "destination": de}
                if rng.random() < 0.6: r1["token"] = rng.choice(["tok-1", "ey.first"])
                if rng.random() < 0.3: r1["file"] = rng.choice(FILES)
                r2 = dict(r1)
                which = rng.choice(["token", "token", "file", "stream", "destination"])
                r2[which] = {"token": rng.choice(["tok-2", "ey.second", ""]), "file": rng.choice(FILES + [""]), "stream": rng.choice(STREAMS),
                             "destination": rng.choice(DESTS)}[which]
                for rule in (r1, r2):
                    body = _json.dumps(rule).encode()
                    if rng.random() < 0.6:
                        case.append(f"http POST {hx('/api/destinations')} {hx(body)}")
                    else:
                        case.append("ws " + hx(b'{"verb":"add","what":"destination","rule":' + body + b'}'))
            # every case ends with the listings through all three interfaces
            case.append("ws " + hx(b'{"verb":"list","what":"destination","which":"all"}'))
            case.append("wsl " + hx(b'{"verb":"list","what":"stream","which":"all"}'))
            case.append(f"http GET {hx('/api/destinations/all')} -")
            cases.append(case)
        return cases

    def corpus(self):
        # the three repaired defects (F11) and the documented examples, always run
        w = lambda s: "ws " + hx(s)
        l = lambda s: "wsl " + hx(s)
        return [
            [f"start {hx(API)}", w('{"verb":"add","what":"stream"}'), w('{"verb":"add","what":"destination"}'),
             w('{"verb":"add","what":"stream","rule":null}'), l('{"verb":"add","what":"destination","rule":null}')],
            [f"start {hx(API)}", w('{"verb":"add","what":"destination","rule":{"id":"a\\"b","stream":"s","destination":"ws://127.0.0.1:1/x"}}'),
             w('{"verb":"delete","what":"destination","which":"a\\"b"}'), w('{"verb":"delete","what":"stream","which":"a\\"b"}'),
             w('{"verb":"delete","what":"stream","which":"x\\ny\\\\"}'), l('{"verb":"delete","what":"destination","which":"\\u0001"}')],
            [f"start {hx(API)}", w('{"verb":"add","what":"destination","rule":{"id":"00","stream":"s","destination":"ws://127.0.0.1:1/x"}}'),
             w('{"verb":"delete","what":"destination","which":"deleteAll"}'), w('{"verb":"list","what":"destination","which":"all"}'),
             w('{"verb":"delete","what":"destination","which":"apiRule"}'), l('{"verb":"delete","what":"destination","which":"all"}'),
             w('{"verb":"add","what":"destination","rule":{"id":"apiRule","stream":"s","destination":""}}'),
             w('{"verb":"add","what":"destination","rule":{"id":"deleteAll","stream":"s","destination":""}}')],
            ["start -", w('{"verb":"add","what":"destination","rule":{"id":"apiRule","stream":"s","destination":""}}'),
             w('{"verb":"delete","what":"destination","which":"apiRule"}'), w('{"verb":"delete","what":"destination","which":"all"}')],
        ]

    # ---------------------------------------------------------------- correspondence plumbing
    def to_model(self, case, impl_out):
        lines = []
        for l, o in itertools.zip_longest(case, impl_out):
            if l is None:
                break
            f = l.split(" ")
            if f[0] == "start":
                lines.append(l)
                continue
            dec = split_out(o)[2] if o is not None else None
            if dec is None or f[0] not in ("ws", "wsl", "http", "hcall"):
                lines.append("nop")
            else:
                lines.append(f"{'http' if f[0] == 'hcall' else f[0]} {dec}")
        return lines

    def project(self, case, impl_out):
        res = []
        for o in impl_out:
            obs, lst, dec = split_out(o)
            if lst is None:
                res.append(o)
                continue
            if dec is not None and obs[:3].isdigit():
                h = dec.split(" ")[0]
                if h == "none":
                    obs = "nomatch"
                elif h not in MODELLED:
                    obs = "unmodelled"
            res.append(" | ".join([obs] + lst))
        return res

    def from_model(self, case, impl_out, model_out):
        got = self.project(case, impl_out)
        exp = []
        for i, m in enumerate(model_out):
            mparts = m.split(" | ")
            mobs = mparts[0]
            iobs = got[i].split(" | ")[0] if i < len(got) else None
            e = "EXPECTED " + mobs
            if iobs is not None:
                mf, jf = mobs.split(" "), iobs.split(" ")
                try:
                    if mobs == iobs:
                        e = iobs
                    elif mf[0] in ("ok", "reply") and len(mf) == 2 and jf[0] == mf[0] and len(jf) == 3:
                        if term_matches(mf[1], unhx(jf[1])):
                            e = iobs
                    elif mf[0].isdigit() and len(mf) == 3 and len(jf) == 4 and jf[0] == mf[0] and jf[1] == mf[1]:
                        if (mf[2] == "-" and jf[2] == "-") or (mf[2] != "-" and term_matches(mf[2], unhx(jf[2]))):
                            e = iobs
                except Exception:
                    pass
            exp.append(" | ".join([e] + mparts[1:]))
        return exp

    # ---------------------------------------------------------------- property oracle (implementation only)
    def oracle(self, case, out):
        fails = []
        api = b""
        must_have = False
        prev = None
        apikey = hx("apiRule")
        for l, o in itertools.zip_longest(case, out):
            if l is None:
                break
            f = l.split(" ")
            if o is None or o.startswith("<<") or o == "dead":
                if o is not None and o.startswith("<<process died"):
                    fails.append(("crash", f"{self.pretty(l)} -> host process died: {o}"))
                break
            if o == "bad-op":
                continue       # a line the harness does not accept (e.g. before `start` in a shrunk case): not an observation
            obs, lst, dec = split_out(o)
            if obs.startswith("panic"):
                fails.append(("crash", f"{self.pretty(l)} -> {obs}")); break
            if obs.startswith("stuck") or lst is None:
                fails.append(("stuck", f"{self.pretty(l)} -> no answer within 30 s ({o[:60]})")); break
            cur = (lst[0], lst[1])
            D = parse_listing(lst[0])
            if hx("deleteAll") in D or hx("deleteAll") in parse_listing(lst[1]):
                fails.append(("reserved-id-listed", f"{self.pretty(l)}: a rule is stored / listed under the reserved id deleteAll "
                              f"(deleting it by that id deletes everything): {lst[0][:120]} {lst[1][:120]}")); break
            if f[0] == "start":
                api = unhx(f[1])
                must_have = api != b""
                if must_have and apikey not in D:
                    fails.append(("apirule-gone", "apiRule missing right after start-up"))
                prev = cur
                continue
            of = obs.split(" ")
            is_err = False
            if f[0] in ("ws", "wsl"):
                msg = unhx(f[1])
                if f[0] == "ws":
                    if of[0] == "err":
                        is_err = True
                    elif of[0] == "ok":
                        b = unhx(of[1])
                        if of[2] != "v=1" or not pyparse(b)[0]:
                            fails.append(("reply-not-json", f"{self.pretty(l)} -> reply {b!r} is not valid JSON"))
                    else:
                        fails.append(("bad-output", o[:80]))
                else:
                    if of[0] != "reply":
                        fails.append(("bad-output", o[:80])); break
                    b = unhx(of[1])
                    ok, v = pyparse(b)
                    if of[2] != "v=1" or not ok:
                        fails.append(("reply-not-json", f"{self.pretty(l)} -> reply {b!r} is not valid JSON"))
                    is_err = ok and isinstance(v, dict) and list(v.keys()) == ["error"] and isinstance(v["error"], str)
                if is_err and cur != prev:
                    fails.append(("error-changed-rules", f"{self.pretty(l)} answered with an error but the rules changed: {prev} -> {cur}"))
                # bytes that are not JSON at all must be refused
                try:
                    json.loads(msg.decode("utf-8", "replace"))
                    isjson = True
                except Exception:
                    isjson = False
                if not isjson and not is_err and not fails:
                    fails.append(("nonjson-accepted", f"{self.pretty(l)} is not JSON but was not answered with an error"))
                d = dec.split(" ") if dec else []
                # a command that itself carries no verb or no `what` is invalid whatever came before it: it must be answered with an error
                # and change nothing (fields of an earlier command must not stand in for the missing ones)
                if len(d) >= 3 and d[0] == "0" and (d[1] == "-" or (d[2] == "-" and d[1] != hx("healthcheck"))) and isjson and not fails:
                    if not is_err:
                        fails.append(("incomplete-command-executed", f"{self.pretty(l)} has no {'verb' if d[1] == '-' else 'what'} of its own but was not answered with an error"))
                    elif cur != prev:
                        fails.append(("error-changed-rules", f"{self.pretty(l)} answered with an error but the rules changed: {prev} -> {cur}"))
                if len(d) >= 4 and d[0] == "0" and d[1] == hx("delete") and d[2] == hx("destination"):
                    if d[3] in (hx("all"), hx("deleteAll")) and not is_err:
                        want = {apikey} if api != b"" else set()
                        if set(D.keys()) != want:
                            fails.append(("delete-all-incomplete" if want <= set(D.keys()) else "apirule-gone",
                                          f"{self.pretty(l)}: after delete-all the destination rules are {sorted(D)} (Opts.API={'set' if api else 'empty'})"))
                        must_have = api != b""
                    if d[3] == apikey and not is_err:
                        fails.append(("apirule-delete-accepted", f"{self.pretty(l)} was not refused"))
                if must_have and apikey not in D and not any(x[0] == "apirule-gone" for x in fails):
                    fails.append(("apirule-gone", f"{self.pretty(l)} removed the control connection's own rule apiRule"))
            elif f[0] in ("http", "hcall"):
                if not (of[0].isdigit() and 100 <= int(of[0]) <= 599 and len(of) == 4):
                    fails.append(("http-incomplete", f"{self.pretty(l)} -> {obs[:80]}")); break
                status = int(of[0])
                if of[1] == "J" and (of[3] != "v=1" or not pyparse(unhx(of[2]))[0]):
                    fails.append(("reply-not-json", f"{self.pretty(l)} -> application/json body {unhx(of[2])!r} is not valid JSON"))
                if status == 200 and dec and dec.split(" ")[0] in MODELLED - {"handleAPI"} and of[1] != "J":
                    fails.append(("http-incomplete", f"{self.pretty(l)} -> 200 without a JSON body"))
                if status != 200 and cur != prev:
                    fails.append(("error-changed-rules", f"{self.pretty(l)} answered {status} but the rules changed"))
                # a body that is not ONE JSON value (e.g. a rule followed by junk) must not be accepted by the add handlers
                if f[0] == "http" and len(f) >= 4 and f[1] in ("POST", "PUT") and status == 200 and f[3] != "-" and \
                        unhx(f[2]).decode("utf-8", "replace").rstrip("/") in ("/api/streams", "/api/destinations"):
                    try:
                        json.loads(unhx(f[3]).decode("utf-8", "replace"))
                    except Exception:
                        if not fails:
                            fails.append(("nonjson-accepted", f"{self.pretty(l)}: the body is not a JSON value but was answered 200" + (" and the rules changed" if cur != prev else "")))
                if f[1] == "DELETE" or (f[0] == "hcall" and "DestinationDelete" in f[1]):
                    must_have = must_have and apikey in D     # HTTP deletes are not protected (local interface)
                elif must_have and apikey not in D:
                    fails.append(("apirule-gone", f"{self.pretty(l)} removed apiRule"))
            # an accepted re-application of a rule id must be what is listed afterwards: token and file of the latest rule
            # (judged on the generator's own well-formed re-apply lines, recognisable by their json.dumps spelling)
            body = None
            if f[0] == "http" and len(f) >= 4 and f[1] == "POST" and unhx(f[2]) == b"/api/destinations" and f[3] != "-" and of[0] == "200":
                body = unhx(f[3])
            elif f[0] == "ws" and of[0] == "ok":
                m_ = unhx(f[1])
                if m_.startswith(b'{"verb":"add","what":"destination","rule":{"id": "') and not is_err:
                    body = m_[len(b'{"verb":"add","what":"destination","rule":'):-1]
            if body is not None and body.startswith(b'{"id": "') and not fails:
                try:
                    rule = json.loads(body.decode("utf-8"))
                except Exception:
                    rule = None
                if isinstance(rule, dict) and hx(rule["id"]) in D:
                    ent = D[hx(rule["id"])].split("/")
                    if len(ent) >= 6:
                        listed = rule_dict(ent[1:6])
                        for k in ("token", "file"):
                            if listed.get(k, "") != rule.get(k, ""):
                                fails.append(("listing-not-latest-rule", f"{self.pretty(l)} was accepted, but the rule listed under id {rule['id']!r} has {k}={listed.get(k)!r} "
                                              f"(the rule just applied says {rule.get(k, '')!r})"))
                                break
            prev = cur
            if fails:
                break
        return fails

    def nontrivial(self, case, out):
        errs = changes = 0
        prev = None
        for o in out:
            obs, lst, _ = split_out(o)
            if lst is None:
                continue
            if obs.startswith("err") or "7b226572726f72223a" in obs or obs[:3] in ("500", "404"):
                errs += 1
            if prev is not None and lst != prev:
                changes += 1
            prev = lst
        return errs > 0 and changes > 0

    def account(self, stats, case, out):
        super().account(stats, case, out)
        hk = stats.setdefault("handlers_reached", {})
        for o in out:
            _, _, dec = split_out(o)
            if dec and dec.split(" ")[0].startswith("handle"):
                k = dec.split(" ")[0]
                hk[k] = hk.get(k, 0) + 1

    def pretty(self, l):
        f = l.split(" ")

        def short(b):
            return repr(b) if len(b) <= 300 else repr(b[:120]) + f"...({len(b)} bytes)..." + repr(b[-40:])
        try:
            if f[0] in ("ws", "wsl"):
                return f"{f[0]} {short(unhx(f[1]))}"
            if f[0] == "http":
                return f"http {f[1]} {short(unhx(f[2]))} body={short(unhx(f[3]))}"
            if f[0] == "hcall":
                return f"direct call {f[1]} var={short(unhx(f[2]))} body={short(unhx(f[3]))}"
            if f[0] == "start":
                return f"start Opts.API={unhx(f[1])!r}"
        except Exception:
            pass
        return l

    def describe(self, case):
        return [self.pretty(l) for l in case]


class VwStressMode(vlib.Mode):
    """K5: rule maps are read by the HTTP/API goroutines while the hub goroutines write them"""
    name = "vwapi-stress"
    impl_mode = "vwapi"
    model_mode = "vwapi"
    compare = False
    shrinkable = False

    def generate(self, rng, tier):
        return [["stress 5000"]] if tier == "thorough" else []

    def nontrivial(self, case, out):
        return True

    def oracle(self, case, out):
        o = out[0] if out else "<<nothing>>"
        if o.startswith("stress done"):
            kv = dict(x.split("=") for x in o.split(" ")[2:])
            if kv.get("bad", "0") != "0":
                return [("stress-bad-response", f"{kv['bad']} of the concurrent requests were not answered 200 + valid JSON: {o}")]
            return []
        if o.startswith("stress crashed rule-map-race"):
            # two manifestations of the same unlocked read: the runtime's `fatal error: concurrent map iteration and map write`
            # (process exit, not recoverable) or encoding/json's map encoder panicking with index out of range
            return [("K5-rule-map-race", "concurrent POST /api/streams + GET /api/streams/all through the real handlers killed the host: " + o)]
        if o == "stress-unavailable":
            return []
        return [("stress-crash", "concurrent POST/GET run ended with: " + o)]

    def describe(self, case):
        return ["4 goroutines POST /api/streams + 4 goroutines GET /api/streams/all for 5 s (child process)"]


def modes(tier):
    # "… is re-created after a delete-all" means a rule that WORKS: the rwc histories of C16 that contain a delete-all (rules added after it
    # must own a live connection again), judged here on that alone
    import c16

    class RwcAfterDeleteAll(c16.RwcMode):
        KEEP = ("connection-missing", "crash", "stuck", "hub-stuck", "hub-crash")

        def generate(self, rng, tier):
            want = 10 if tier == "quick" else 150
            out = []
            for _ in range(want * 12):
                case = self.gen_case(rng, tier, rng.choice([6, 9, 12]))
                if any(l == "del " + hx(c16.RESERVED) for l in case):
                    out.append(case)
                if len(out) >= want:
                    break
            return out

        def oracle(self, case, out):
            return [x for x in c16.RwcMode.oracle(self, case, out) if x[0] in self.KEEP]

    return [VwApiMode(), VwStressMode(), RwcAfterDeleteAll()]

RULE = RULE + (" rwc mode (see C16), restricted to histories with a delete-all: every rule in force afterwards owns a live connection again.")
