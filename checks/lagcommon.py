"""Lagging-reader scenarios on the loopback relay (real sockets, real pumps): one reader stops reading while its own
topic and a neighbouring topic are flooded with self-checking records; it then catches up. What every connection
received is judged directly (no model): only records of its own topic's writers, per writer contiguous from 0, every
byte intact; a reader that did not get everything must have been disconnected; an evicted connection's socket is
released even if the peer never answers the close frame. (C03 isolation / C05 integrity-or-drop / C04 scopes / C13 release.)"""
import re
import vlib
from vlib import hx
from relaycommon import tok, sval, lval


SIG_PROPS = {"stream-not-intact": {"C05", "C03"}, "gap-or-replay-in-stream": {"C05"}, "delivered-to-wrong-topic": {"C03"},
             "nonreader-received": {"C04"}, "nonwriter-delivered": {"C04"}, "reader-missed-data-but-stays-connected": {"C05"},
             "socket-not-released": {"C13"}, "relay-crash-or-hang": {"C03", "C04", "C05", "C08", "C13"}, "bad-output": {"C03", "C04", "C05", "C13"}}
LAG_RULE = (" mode lag (oracle only, real sockets): a read-only reader stops reading while its own topic and a neighbouring topic (incl. the relay's "
            "`stats` topic) are flooded with self-checking records (1 KiB - 64 KiB, 275-1075 per writer, hub buffer 4/16/64/256), a read-only connection "
            "floods too, then the reader catches up while traffic continues; judged: only own-topic writers' records, contiguous from 0, every byte intact, "
            "incomplete => disconnected, and an evicted connection's socket is released within 3 s even if the peer never answers the close frame.")


class LagMode(vlib.Mode):
    name = "lag"
    impl_mode = "relay"
    compare = False
    shrinkable = False
    chunk = 4

    def __init__(self, focus):
        super().__init__()
        self.focus = focus

    def timeout(self, tier):
        return 900

    def generate(self, rng, tier):
        n = 10 if tier == "quick" else 120
        return [self.gen_case(rng) for _ in range(n)]

    def gen_case(self, rng):
        now = 1000000 + rng.randrange(5000)
        buf = rng.choice([4, 16, 64, 256])
        ta, tb = rng.choice([("t1", "t1x"), ("t1", "t2"), ("t1x", "t1"), ("stats", "t1"), ("t1", "stats"), ("T1", "t1"), ("t1", "T1"), ("Stats", "stats")])
        case = [f"config 0 {buf}", f"now {now}"]
        conns = []          # (topic, scopes)
        def join(topic, scopes):
            case.append(f"session {tok(now, topic=sval(topic), bid=sval('b1'), scopes=lval(scopes))} {hx(topic)}")
            case.append(f"ws {hx('/session/' + topic)} c{len(conns)}")
            conns.append((topic, scopes))
            return len(conns) - 1
        ra = join(ta, ["read"])                 # the reader that will lag
        r2 = join(ta, rng.choice([["read"], ["read", "write"]]))
        wa = join(ta, ["write"])
        rb = join(tb, ["read", "write"])
        wb = join(tb, ["write"])
        ro = join(tb, ["read"])                 # read-only: whatever it sends must reach nobody
        mute = rng.random() < 0.5
        if mute: case.append(f"muteclose n{ra}")
        case.append(f"stall n{ra}")
        size = rng.choice([1024, 16384, 65536, 65536])
        per = rng.choice([10, 25, 40])
        rounds = {1024: 40, 16384: 12, 65536: 8}[size]
        if rng.random() < 0.4: case.append("floodtypes alternate")     # text and binary frames alternate (what is delivered must not depend on it)
        for k in range(rounds):
            case.append(f"flood n{wa} {per} {size} 1")
            case.append(f"flood n{wb} {per} {size} 2")
            if k == 1: case.append(f"flood n{ro} 3 {size} 9")
        case.append("drain 300")
        case.append(f"unstall n{ra}")
        for k in range(3):
            case.append(f"flood n{wb} {per} {size} 2")
            case.append(f"flood n{wa} {per} {size} 1")
        case.append("drain 600")
        case.append("members")
        return case

    def _conns(self, case):
        conns = []
        for l in case:
            f = l.split(" ")
            if f[0] == "session":
                topic = vlib.unhx(f[2]).decode()
                m = re.search(r"scopes=l([0-9a-f,]*)", f[1])
                scopes = [vlib.unhx(x).decode() for x in m.group(1).split(",") if x] if m else []
                conns.append((topic, scopes))
        return conns

    def oracle(self, case, out):
        return [(s, d) for s, d in self._oracle(case, out) if self.focus is None or self.focus in SIG_PROPS.get(s, {self.focus})]

    def _oracle(self, case, out):
        fails = []
        conns = self._conns(case)
        sent = {}          # tag -> (topic, may_write, count)
        mute = {int(l.split(" ")[1][1:]) for l in case if l.startswith("muteclose ")}
        for l, o in zip(case, out):
            f = l.split(" ")
            if o.startswith("<<") or o in ("stuck", "dead") or o.startswith("panic"):
                return [("relay-crash-or-hang", f"{l} -> {o}")]
            if f[0] == "ws" and not o.startswith("joined"):
                return []      # set-up did not happen as planned (not this mode's business)
            if f[0] == "flood" and o.startswith("sent "):
                k = int(f[1][1:]); topic, scopes = conns[k]
                t = int(f[4]); old = sent.get(t, (topic, "write" in scopes, 0))
                sent[t] = (topic, "write" in scopes, old[2] + int(o.split(" ")[1]))
        next_seq = [dict() for _ in conns]
        state = ["open"] * len(conns)
        for l, o in zip(case, out):
            if not l.startswith("drain") or not o.startswith("drain"):
                continue
            for ent in o.split(" ")[1:]:
                m = re.match(r"n(\d+)=([a-z/]+):([0-9:,\-]*):bad(\d+)$", ent)
                if not m:
                    return [("bad-output", ent)]
                i, st, runs, bad = int(m.group(1)), m.group(2), m.group(3), int(m.group(4))
                state[i] = st
                topic, scopes = conns[i]
                if int(bad):
                    fails.append(("stream-not-intact", f"n{i} ({topic}, {scopes}) received {bad} byte(s) that are not part of any record a writer sent (buffer of {case[0].split(' ')[2]})"))
                for run in [r for r in runs.split(",") if r]:
                    t, rng_ = run.split(":"); a, b = rng_.split("-"); t, a, b = int(t), int(a), int(b)
                    src = sent.get(t)
                    if "read" not in scopes:
                        fails.append(("nonreader-received", f"n{i} (no read scope) received records {t}:{a}-{b}")); continue
                    if src is None or src[0] != topic:
                        fails.append(("delivered-to-wrong-topic", f"n{i} on topic {topic!r} received records {a}-{b} of writer tag {t}" + (f" sent on topic {src[0]!r}" if src else ""))); continue
                    if not src[1]:
                        fails.append(("nonwriter-delivered", f"records {a}-{b} sent by a connection without write scope (tag {t}) reached n{i}")); continue
                    exp = next_seq[i].get(t, 0)
                    if a != exp:
                        fails.append(("gap-or-replay-in-stream", f"n{i} on {topic!r}: after record {exp - 1} of writer {t} came record {a} (sent {src[2]})"))
                    next_seq[i][t] = b + 1
            if fails:
                return fails[:3]
        # completeness or disconnection, and release of the evicted connection's socket
        for i, (topic, scopes) in enumerate(conns):
            if "read" not in scopes: continue
            for t, (tt, can, count) in sent.items():
                if tt == topic and can and next_seq[i].get(t, 0) < count and state[i].startswith("open"):
                    fails.append(("reader-missed-data-but-stays-connected", f"n{i} on {topic!r} got {next_seq[i].get(t, 0)} of {count} records of writer {t} and is still connected"))
            if i in mute and state[i].startswith("closed"):
                fails.append(("socket-not-released", f"n{i} was sent a close frame by the relay but its socket is still open 3 s later (the peer does not answer close frames)"))
        return fails[:3]

    def nontrivial(self, case, out):
        return any(o.startswith("drain") and ("eof" in o or "closed" in o) for o in out) or any(o.startswith("drain") for o in out)

    def account(self, stats, case, out):
        super().account(stats, case, out)
        ev = stats.setdefault("lagging_reader_outcome", {})
        for o in out:
            if o.startswith("drain"):
                st = o.split(" ")[1].split("=")[1].split(":")[0]
                ev[st] = ev.get(st, 0) + 1

    def describe(self, case):
        return [l if not l.startswith("session") else "session <token> " + vlib.unhx(l.split(" ")[2]).decode() for l in case]


STUBBORN_RULE = (" mode stubborn (oracle only, real sockets): a write-capable connection that has stopped reading (so it never answers a close frame) "
                 "and a well-behaved connection share a booking; the booking is denied (or the tokens expire); the stubborn connection goes on sending. "
                 "Judged: nothing sent after the acknowledgement reaches the listener of another booking on the same topic, and neither connection is "
                 "still joined afterwards.")


class StubbornMode(vlib.Mode):
    """cancellation / expiry must not depend on the peer's cooperation"""
    name = "stubborn"
    impl_mode = "relay"
    compare = False
    shrinkable = False
    chunk = 4

    def __init__(self, focus):
        super().__init__()
        self.focus = focus

    def timeout(self, tier):
        return 900

    def generate(self, rng, tier):
        n = 4 if tier == "quick" else 40
        return [self.gen_case(rng) for _ in range(n)]

    def gen_case(self, rng):
        now = 1000000 + rng.randrange(5000)
        topic = rng.choice(["t1", "t2", "lab"])
        case = [f"config 0 {rng.choice([16, 64])}", f"now {now}"]
        k = [0]
        def join(bid, scopes):
            case.append(f"session {tok(now, topic=sval(topic), bid=sval(bid), scopes=lval(scopes))} {hx(topic)}")
            case.append(f"ws {hx('/session/' + topic)} c{k[0]}")
            k[0] += 1
            return k[0] - 1
        lis = join("bL", ["read"])
        stub = join("bS", rng.choice([["write"], ["read", "write"]]))
        pol = join("bS", ["read", "write"])
        if rng.random() < 0.5: case.append(f"muteclose n{stub}")
        case.append(f"stall n{stub}")
        size = rng.choice([64, 1024, 8192])
        case.append(f"flood n{stub} 5 {size} 1")
        case.append("drain 200")
        admin = tok(now, scopes=lval(["relay:admin"]), topic=sval("a"), prefix=sval("a"), bid=sval("a"))
        case.append(f"deny {admin} s{hx('bS')} s{hx(str(now + 600))}")
        case.append("drain 300")               # marks the point after which nothing of the denied booking may travel
        for _ in range(rng.choice([1, 3])):
            case.append(f"flood n{stub} 10 {size} 9")
            case.append("settle 150")
        case.append(f"flood n{pol} 3 {size} 8")
        case.append("drain 400")
        case.append("members")
        return case

    def oracle(self, case, out):
        fails = []
        after = False
        stub = pol = None
        idx = 0
        for l in case:
            if l.startswith("ws "):
                if idx == 1: stub = 1
                if idx == 2: pol = 2
                idx += 1
        for l, o in zip(case, out):
            f = l.split(" ")
            if o.startswith("<<") or o in ("stuck", "dead") or o.startswith("panic"):
                return [("relay-crash-or-hang", f"{l} -> {o}")]
            if f[0] == "ws" and not o.startswith("joined"):
                return []
            if f[0] == "deny":
                if not o.startswith("204"):
                    return []
                after = True
                continue
            if f[0] == "drain" and after and o.startswith("drain"):
                for ent in o.split(" ")[1:]:
                    m = re.match(r"n(\d+)=([a-z/]+):([0-9:,\-]*):bad(\d+)$", ent)
                    if not m:
                        continue
                    for run in [r for r in m.group(3).split(",") if r]:
                        t = int(run.split(":")[0])
                        if t in (8, 9):
                            fails.append(("denied-connection-still-relays", f"n{m.group(1)} received records {run} sent by a connection of the denied booking AFTER the deny was "
                                          f"acknowledged (the sender had stopped reading, so it never answers a close frame)"))
            if f[0] == "members" and after and o.startswith("members="):
                ms = o.split(" ")[0][len("members="):]
                joined = {e.split(":")[0] for e in ms.split(",") if e}
                for n, what in ((f"n{stub}", "the connection that does not read"), (f"n{pol}", "the well-behaved connection")):
                    if n in joined:
                        fails.append(("denied-connection-still-joined", f"{what} ({n}) of the denied booking is still joined after the deny"))
        return fails[:3]

    def nontrivial(self, case, out):
        return any(l.startswith("deny") and o.startswith("204") for l, o in zip(case, out))

    def describe(self, case):
        return [l if not (l.startswith("session") or l.startswith("deny")) else l.split(" ")[0] + " <token> …" for l in case]


STATUSLOAD_RULE = (" mode statusload (oracle only, real sockets): a write-only connection streams frames back to back on a topic nobody reads while GET /status "
                   "is polled as fast as it answers (1-2 s, thousands of polls); every answer must list every connection that is joined throughout.")


class StatusLoadMode(vlib.Mode):
    """the status report while traffic flows: nobody who is joined may be missing from any answer"""
    name = "statusload"
    impl_mode = "relay"
    compare = False
    shrinkable = False
    chunk = 2

    def timeout(self, tier):
        return 600

    def generate(self, rng, tier):
        cases = []
        for _ in range(3 if tier == "quick" else 30):
            now = 1000000 + rng.randrange(5000)
            case = ["config 0 64", f"now {now}"]
            k = 0
            for topic, scopes in (("cam", ["write"]), ("idle", ["read", "write"]), ("cam2", rng.choice([["write"], ["read", "write"]]))):
                case.append(f"session {tok(now, topic=sval(topic), bid=sval('b1'), scopes=lval(scopes))} {hx(topic)}")
                case.append(f"ws {hx('/session/' + topic)} c{k}")
                k += 1
            st = tok(now, scopes=lval(["relay:stats"]), topic=sval("a"), prefix=sval("a"), bid=sval("a"))
            case.append(f"pollstatus n0 {rng.choice([1000, 1500, 2000])} {st}")
            if rng.random() < 0.5: case.append(f"pollstatus n2 {rng.choice([800, 1200])} {st}")
            case.append("members")
            cases.append(case)
        return cases

    def oracle(self, case, out):
        fails = []
        for l, o in zip(case, out):
            if o.startswith("<<") or o in ("stuck", "dead") or o.startswith("panic"):
                return [("relay-crash-or-hang", f"{l.split(' ')[0]} -> {o}")]
            if l.startswith("ws ") and not o.startswith("joined"):
                return []
            if l.startswith("pollstatus ") and o.startswith("polls="):
                d = dict(x.split("=", 1) for x in o.split(" "))
                if int(d["polls"]) >= 5 and int(d.get("noanswer", 0)) == int(d["polls"]):
                    fails.append(("status-not-answered-under-traffic", f"none of {d['polls']} /status requests made while n{l.split(' ')[1][1:]} was streaming was answered"))
                if int(d["incomplete"]) > 0:
                    who = vlib.unhx(d["first"]).decode("utf-8", "replace") if d["first"] not in ("-", "no-answer") else d["first"]
                    fails.append(("joined-connection-missing-from-status", f"{d['incomplete']} of {d['polls']} /status answers taken while n{l.split(' ')[1][1:]} was "
                                  f"streaming ({d['sent']} frames) did not list a connection that was joined throughout (first missing: user agent {who!r})"))
        return fails[:2]

    def nontrivial(self, case, out):
        return any(o.startswith("polls=") and int(o.split(" ")[0].split("=")[1]) >= 50 for o in out)

    def account(self, stats, case, out):
        super().account(stats, case, out)
        t = stats.setdefault("totals", {"polls": 0, "frames": 0})
        for o in out:
            if o.startswith("polls="):
                d = dict(x.split("=", 1) for x in o.split(" "))
                t["polls"] += int(d["polls"]); t["frames"] += int(d["sent"])

    def describe(self, case):
        return [l if not (l.startswith("session") or l.startswith("pollstatus")) else " ".join(l.split(" ")[:3 if l.startswith("pollstatus") else 1]) + " <token> …" for l in case]
