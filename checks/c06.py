"""C06 — a connection lasts as long as its token allows and no longer"""
from relaymain import RelayMainMode, RELAYMAIN_RULE
import vlib
from relaycommon import RelayMode

RULE = ("mode expiry (real clock, real timers): batches of connections admitted at chosen offsets inside a second (50..950 ms) with tokens "
        "expiring 1-3 s later, behaving idle / busy (sending every 20 ms to a long-lived peer, also after E) / stalled (never reading) / "
        "ignoring the close; the instant at which the relay closes each one is measured relative to E and compared with the Lean "
        "model's instant for the MEASURED admission instant (E + sub-second offset of the admission; tolerance -5..+300 ms); traffic "
        "crossing to the peer later than E+1.3 s is a failure. Thorough adds a 70 s run: an idle client that keeps reading (so answers "
        "pings) must still be open beyond the ping period and be closed at E. mode relay: codes presented before nbf / after exp "
        "(virtual clock). One corpus case exercises the recorded overflow (K3). non-trivial = a batch with >= 4 connections; distinct = "
        "distinct script")
ASSUMPTIONS = ["wall-clock jitter, OS timer coalescing and kernel socket tear-down latency are not exhibited by the model (tolerance 300 ms)",
               "gorilla/websocket's ping/pong handling and read deadline behave as documented",
               "time.After fires no earlier than its duration"]
P = "Relay.Props.C06"
THEOREMS = [(f"Expiry.{n}", P) for n in ["closes_within_a_second", "overflow_closes_immediately", "expired_timer_fires_at_once",
                                         "early_or_late_code_admits_none", "cooperative_survives", "keepalive_constants",
                                         "cooperative_survives_current", "no_relay_after_close", "wrap64_id"]] + \
           [("Life.all_released", "Relay.Props.C13")]
RULE = RULE + RELAYMAIN_RULE



class ExpiryMode(vlib.Mode):
    name = "expiry"
    shrinkable = False
    chunk = 1

    def timeout(self, tier):
        return 900

    def corpus(self):
        return [["overflow"]]

    def generate(self, rng, tier):
        cases = []
        nb = 3 if tier == "quick" else 12
        for _ in range(nb):
            specs = []
            for _ in range(rng.choice([4, 6, 8])):
                specs.append(f"{rng.choice([1, 1, 2, 3])}:{rng.choice([50, 200, 500, 800, 950, rng.randrange(20, 980)])}:{rng.choice(['idle', 'idle', 'busy', 'busyrx', 'stall', 'ignoreclose'])}")
            # the boundary: a code minted a second before the expiry and presented INSIDE the second that begins at the expiry (exp - now == 0)
            specs.append(f"1:{rng.choice([100, 400, 700])}:late")
            specs.append(f"{rng.choice([1, 2])}:{rng.choice([150, 600])}:busyrx")    # a connection that keeps RECEIVING must expire on time too
            if len(cases) < (1 if tier == "quick" else 3):
                # a writer that sends once and then stays silent for longer than any of the relay's I/O waits except the pong wait
                specs.append(f"{rng.choice([12, 13])}:{rng.choice([100, 500, 900])}:sendquiet")
            cases.append(["batch " + " ".join(specs)])
        if tier == "thorough":
            cases.append(["idle 75 70"])
        return cases

    def _entries(self, out):
        if not out or not out[0].startswith("batch "): return []
        return [e.strip() for e in out[0][6:].split("|")]

    def to_model(self, case, impl_out):
        lines = []
        for e in self._entries(impl_out):
            if e.startswith("closed "):
                d = dict(p.split("=") for p in e.split(" ")[1:])
                lines.append(f"close {d['admit_ns']} {d['exp']}")
        return lines or ["close 0 0"]

    def project(self, case, out):
        if case[0].startswith("batch"):
            return [f"conn{i}: closes at the model's instant" for i, e in enumerate(self._entries(out)) if e.startswith("closed ")] or ["-"]
        return ["-"]

    def from_model(self, case, impl_out, model_out):
        if not case[0].startswith("batch"):
            return ["-"]
        res, k = [], 0
        for i, e in enumerate(self._entries(impl_out)):
            if not e.startswith("closed "): continue
            d = dict(p.split("=") for p in e.split(" ")[1:])
            pred_ms = int(model_out[k].split("=")[1]) / 1e6 if k < len(model_out) and model_out[k].startswith("rel_ns=") else None
            k += 1
            meas = int(d["rel_ms"])
            if pred_ms is not None and -5 <= meas - pred_ms <= 300:
                res.append(f"conn{i}: closes at the model's instant")
            else:
                res.append(f"conn{i}: relay closed it {meas} ms after E, the model says {pred_ms} ms")
        return res or ["-"]

    def oracle(self, case, out):
        fails = []
        o = out[0] if out else ""
        if o.startswith("<<") or o in ("stuck", "dead") or o.startswith("panic"):
            return [("relay-crash-or-hang", f"{case[0]} -> {o}")]
        if case[0] == "overflow":
            if o.startswith("overflow closed"):
                fails.append(("K3-duration-overflow-closes-at-once", f"token expiring 9223372037 s after admission: {o}"))
            return fails
        if case[0].startswith("idle"):
            if "closed-early" in o: fails.append(("connection-ended-early", o))
            elif "notclosed" in o: fails.append(("not-closed-after-expiry", o))
            elif "rel_ms=" in o and not (-5 <= int(o.split("rel_ms=")[1]) <= 1300): fails.append(("closed-outside-second-after-expiry", o))
            return fails
        for i, e in enumerate(self._entries(out)):
            spec = case[0].split(" ")[1 + i]
            if e.startswith("notclosed"):
                fails.append(("not-closed-after-expiry", f"connection {spec} still open 4 s after its expiry"))
            elif e.startswith("closed "):
                d = dict(p.split("=") for p in e.split(" ")[1:])
                rel = int(d["rel_ms"])
                if rel < -5: fails.append(("connection-ended-early", f"connection {spec} closed by the relay {-rel} ms BEFORE its expiry"))
                elif rel > 1300: fails.append(("closed-outside-second-after-expiry", f"connection {spec} closed {rel} ms after its expiry"))
                if int(d.get("after", 0)) > 0: fails.append(("relayed-after-expiry", f"connection {spec}: {d['after']} messages crossed to its peer later than E+1.3 s"))
        return fails

    def nontrivial(self, case, out):
        return len([e for e in self._entries(out) if e.startswith("closed")]) >= 4

    def account(self, stats, case, out):
        b = stats.setdefault("connections", {"closed": 0, "refused": 0, "notclosed": 0})
        for e in self._entries(out):
            k = e.split(" ")[0]
            if k in b: b[k] += 1
        beh = stats.setdefault("behaviours", {})
        if case[0].startswith("batch"):
            for sp in case[0].split(" ")[1:]:
                k = sp.split(":")[2]; beh[k] = beh.get(k, 0) + 1


def modes(tier):
    return [ExpiryMode(), RelayMode("C06"), RelayMainMode("C06", 3)]
