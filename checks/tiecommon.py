"""Translator tie: theorem lists shared by every property whose model takes the store packages' behaviour as given.
The Lean translation of the package (Relay/Extracted/Gen*.lean, regenerated from /repo on every run) is proved equal to /
a refinement of the hand-written model the property theorems are about (Relay/Tie/*.lean)."""

TIE_DENY = [(f"TieDeny.{n}", "Relay.Tie.Deny") for n in
            ["allow_tie", "deny_tie", "isDenied_tie", "setNow_tie", "prune_tie", "getDenyList_tie", "getAllowList_tie", "coverage"]]
TIE_TTLCODE = [(f"TieTtlCode.{n}", "Relay.Tie.TtlCode") for n in
               ["submit_tie", "exchange_tie", "exchange_unknown", "clean_tie", "deleteByBooking_tie", "count_tie", "good_after", "coverage"]]
# the assumption "each store method is one atomic step" is C12's lock-discipline obligation over the REGENERATED lock table:
# every property that makes the assumption audits it too
TIE_LOCKS = [(f"C12.{n}", "Relay.Props.C12") for n in ["all_wellLocked", "stores_race_free", "store_methods_single_section", "store_ops_linearizable", "no_blocking_under_lock"]]
TIE_DENY = TIE_DENY + TIE_LOCKS
TIE_TTLCODE = TIE_TTLCODE + TIE_LOCKS
TIE_CHANMAP = [(f"TieChanMap.{n}", "Relay.Tie.ChanMap") for n in
               ["R_init", "add_step", "child_step", "parent_step_partial", "DeleteChild_step", "DeleteAndCloseChild_step", "DeleteParent_step",
                "DeleteAndCloseParent_step_partial", "stepGen_sim", "run_sim", "history_tie", "history_closed_set", "closeAll_perm", "coverage"]]
TIE_CHANMAP = TIE_CHANMAP + TIE_LOCKS
TIE_ACCESS = [(f"TieAccess.{n}", "Relay.Tie.Access") for n in
              ["hasRequiredClaims_tie", "claimsCheck_tie", "claimsCheck_not_jwt", "claimsCheck_wrong_claims", "isRelayAdmin_tie", "hasStatsScope_tie",
               "admin_granted_iff", "stats_granted_iff", "coverage", "isRelayAdmin_err_isNone", "denyHandler_tie", "allowHandler_tie",
               "listDeniedHandler_tie", "listAllowedHandler_tie", "denyReq_status_as_translated",
               "hasRequiredClaims_exp_nonNil", "mintedToken_as_model", "sessionHandler_refusal", "sessionHandler_grant",
               "translated_deny_then_session_refused"]]
# the access API over whole histories of the translated handlers (Relay/Tie/AccessE2E.lean)
TIE_ACCESS = TIE_ACCESS + [(f"TieAccessE2E.{n}", "Relay.Tie.AccessE2E") for n in
                           ["api_step_tie", "api_run_tie", "translated_session_grant_iff", "translated_code_single_use", "translated_deny_acked_iff",
                            "translated_cancel_sticks_sequential", "translated_old_code_refused", "translated_deny_list_determined_by_admin",
                            "translated_only_admin_mutates_deny_list", "translated_deny_list_step"]]
# end to end: property theorems restated over histories of the translated code
TIE_DENY = TIE_DENY + [(f"TieDenyE2E.{n}", "Relay.Tie.Deny") for n in
                       ["genStep_tie", "genRun_tie", "translated_register_refines_cell", "translated_latest_deny_wins", "translated_lists_disjoint"]]
TIE_TTLCODE = TIE_TTLCODE + [(f"TieTtlCodeE2E.{n}", "Relay.Tie.TtlCode") for n in
                             ["genStep_tie", "genRun_tie", "translated_code_exchanged_at_most_once", "translated_outputs_are_the_models"]]
# the hub's event loop (Hub.run's three select cases, Hub.remove) as translated from internal/crossbar: exact characterisation of who is
# sent a message / dropped / closed, for every iteration order (w.ordP) and every choice of full queues (w.ready), the invariant over all
# event histories, and the refinement to the hand-written hub model (Relay/Model/Hub.lean) the hub property theorems are about
TIE_HUB = [(f"TieHub.{n}", "Relay.Tie.Hub") for n in
           ["register_filed", "register_wf", "register_dcs", "remove_filed", "remove_wf", "remove_closes", "remove_idempotent_close", "unregister_eq",
            "broadcast_out", "broadcast_only_same_topic_not_self", "broadcast_reaches_every_ready_target", "broadcast_at_most_once",
            "broadcast_count_le_one", "broadcast_filed", "broadcast_wf", "broadcast_closes_each_evicted_once", "broadcast_closes_exactly",
            "sentTo_slow_disjoint", "reachable_wf", "sim_empty", "sim_register", "sim_remove", "sim_unregister", "sim_broadcast", "coverage"]]
TIE_HUB = TIE_HUB + [(f"TieHubE2E.{n}", "Relay.Tie.HubE2E") for n in
                     ["e2e_inv", "e2e_no_send_on_closed", "e2e_no_double_close", "e2e_closed_iff_removed", "e2e_closed_exactly_once",
                      "e2e_closed_only_registered", "e2e_filed_registered", "e2e_queue_bounded", "e2e_isolation_no_echo", "e2e_send_at_time",
                      "e2e_channel_owner_unique", "e2e_no_duplicate_delivery", "e2e_sendLog_eq_outs", "register_files"]]
TIE_HUB = TIE_HUB + [(f"TieHubDcs.{n}", "Relay.Tie.HubDcs") for n in
                     ["e2e_dinv", "e2e_dcs_content", "e2e_dcs_matches_filed", "e2e_filed_recorded", "e2e_dcs_model", "e2e_parentByChild_content",
                      "e2e_parentByChild_matches", "e2e_parentByChild_none", "e2e_deny_closes_exactly_the_bookings_connections", "e2e_deny_reaches",
                      "e2e_deny_only_live", "e2e_idle_store_empty"]]
TIE_HUB = TIE_HUB + [(f"TieHubRefine.{n}", "Relay.Tie.HubRefine") for n in
                     ["refine_step", "refine_run", "refine_run_witness", "refine_sent", "translated_isolation_no_echo", "translated_queue_is_suffix_of_wanted",
                      "translated_queue_exact", "translated_names_unique", "translated_member_queue"]]
TIE_HUB_NOTE = ("HUB TRANSLATION: the three cases of Hub.run's select and Hub.remove (internal/crossbar) are translated to Lean on every run "
                "(Relay/Extracted/GenCrossbar.lean) and proved, for every map iteration order and every choice of which send queues are full, to send a "
                "message exactly once to exactly the other members filed under the sender's topic that have room, to drop exactly the ones that have not "
                "(closing each send channel once), and to refine the hand-written hub model step by step (Relay/Tie/Hub.lean: sim_register / "
                "sim_remove / sim_broadcast). END TO END (Relay/Tie/HubE2E.lean): the translated cases composed with the bounded send queues, over EVERY event "
                "history in which serveWs's discipline holds (each registered client is a new object with a new send channel): the hub never sends on a channel "
                "it has closed and never closes one twice (both would panic), a registered client is either still filed or its channel was closed exactly once, "
                "queues never exceed their capacity, every send ever made went to a member of the sender's topic other than the sender, no message is delivered "
                "twice by one broadcast. CANCEL BOOKKEEPING (Relay/Tie/HubDcs.lean): over every such history (clients named uniquely, each with a real `denied` channel, "
                "an unregister never concerns a look-alike of another client's name) the translated cancel-channel store inside the hub holds exactly the filed "
                "clients that have a booking id, each with its own `denied` channel; `DeleteAndCloseParent b` — what a deny runs — closes exactly the `denied` "
                "channels of the connections currently joined under booking b, each once; when everybody has left the store is empty again. WHOLE-HISTORY REFINEMENT "
                "(Relay/Tie/HubRefine.lean): every such history of the translated system in which frames come from joined writers is, event for event, a history of "
                "the hand-written hub model (refine_run, witness computed by absRun), so the model's theorems transfer: the send queue of every joined client is "
                "exactly the not-yet-written tail of the messages broadcast on its topic by others since it joined (translated_queue_exact). ")
TIE_NOTE = ("TRANSLATOR TIE: internal/deny, internal/ttlcode, internal/chanmap, the scope / required-claims decisions, the session handler and the four admin handlers of internal/access, and internal/permission are translated to Lean on every run and proved, for all states, arguments and map "
            "iteration orders, to be the store models this property's model builds on (Relay/Tie/*.lean). WHOLE HISTORIES of API calls (Relay/Tie/AccessE2E.lean): any sequence of "
            "session / deny / allow / list requests, clock moves, prunes, sweeps and code exchanges run with the handlers and store methods as translated today corresponds, "
            "step for step, to the model (api_run_tie); hence, of the translated code: a session is granted iff the model's guard cascade passes, minting exactly one new code "
            "for exactly the model's token (C01); every code string is exchanged successfully at most once (C02); after an acknowledged deny of b, and until an admin allow / "
            "a clock beyond its expiry, every session for b is refused, b stays denied through prunes, no code for b exists, and codes issued for b before the deny are "
            "refused for ever (C07, sequential); the deny list is a function of the admin-granted deny/allow events alone (C09). ")
TIE_ASSUMPTION = "translator vocabulary (Relay/Base/GoLite.lean): int64 as unbounded Int, pointer receiver as threaded value, mutex calls are not data (lock discipline: C12)"
TIE_HUB_ASSUMPTION = ("hub translation vocabulary: a *Client is its field values plus an identity (addr__); whether a non-blocking send goes through is the "
                      "environment's choice (w.ready), tied to the model queue's hasRoom by hypothesis `hag` of sim_broadcast; the select in Hub.run takes one "
                      "case at a time (Go semantics of a single goroutine); h.dcs is non-nil (set by SetDenyChannelStore before run starts)")

# the plain (lossy) hub of the host tools, internal/hub: Run / RunWithStats translated on every run (Relay/Extracted/GenHub.lean)
TIE_PLAINHUB = [(f"TiePlainHub.{n}", "Relay.Tie.PlainHub") for n in
                ["stats_variant_same_data", "register_filed", "register_wf", "unregister_filed", "unregister_wf", "unregister_idempotent", "broadcast_out",
                 "broadcast_only_same_topic_not_self", "broadcast_reaches_every_ready_target", "broadcast_at_most_once", "broadcast_drops_exactly_the_not_ready",
                 "broadcast_no_eviction", "reachable_wf", "e2e_inv", "e2e_queue_bounded", "e2e_isolation_no_echo", "e2e_in_order_no_duplication_chan",
                 "e2e_in_order_no_duplication", "e2e_lossless_when_ready", "e2e_lossless_big_caps", "coverage"]]
TIE_PLAINHUB_NOTE = ("PLAIN HUB TRANSLATION: the cases of internal/hub's Run and RunWithStats (the fan-out under the host's feeds, streams and control topic) are translated to "
                     "Lean on every run (statistics statements skipped as not-data; proved: the two variants are the same function) and proved, for every iteration order and "
                     "every choice of ready subscribers, to send a message at most once to exactly the other subscribers of the sender's topic that are ready, to evict nobody and "
                     "close nothing; over every history with bounded queues: what a subscriber is sent is a SUBLIST of the messages broadcast (lossy, but never reordered or "
                     "duplicated), and exactly the wanted messages when queues have room (Relay/Tie/PlainHub.lean). ")
