"""C01 — only holders of a currently valid token for the topic get onto the relay"""
import c02
from tiecommon import TIE_DENY, TIE_TTLCODE, TIE_ACCESS, TIE_NOTE, TIE_ASSUMPTION
from relaycommon import RelayMode

RULE = ("relay mode: the real access API + crossbar on loopback (fresh instance per case, virtual clock). Cases mix session requests "
        "whose bearer is valid or carries 1-2 defects out of 36 (alg none/RS256/unknown, HS384/HS512, bad secret, tampered/empty "
        "signature, each registered/private claim absent / ill-typed / boundary-valued (exp=now, now+-1, fractional), audience "
        "string/array/empty/look-alike, topic mismatch, booking id empty/denied, raw garbage headers), request paths, websocket "
        "attempts (no code, random code, issued code, used code, expired code, code for another topic, 10 path/prefix variants), "
        "traffic with self-identifying records, deny/allow, clock moves, both booking-id configurations. non-trivial = at least one "
        "accepted session and one refusal; distinct = distinct op sequence")
ASSUMPTIONS = ["HMAC verification, base64 and JSON decoding of the JWT (golang-jwt) are abstracted as wellFormed/sigOK of the bearer record",
               "go-openapi routing/auth dispatch/parameter binding behave as observed (status 401 without header, 500 for a token that does not validate)",
               "uuid codes are unguessable; TLS/proxies in front of the relay are out of scope"]
P = "Relay.Props.C01"
THEOREMS = [(f"Access.{n}", P) for n in ["session_ok_iff", "session_refused_no_effect", "session_code_bound", "ws_join_iff",
                                         "ws_refused_no_join", "client_bound_to_token", "no_code_no_join", "joined_only_via_valid_session", "valid_iff", "ws_refused_info"]] + \
           [("Relay.member_provenance", "Relay.Props.C01Prov"), ("Relay.code_provenance", "Relay.Props.C01Prov"), ("Relay.prov_run", "Relay.Props.C01Prov"),
            ("Hub.unjoined_never_relays", "Relay.Props.C03"), ("Relay.status_lists_exactly_members", "Relay.Props.C14Members")]
THEOREMS = THEOREMS + TIE_DENY + TIE_TTLCODE + TIE_ACCESS
RULE = TIE_NOTE + RULE
ASSUMPTIONS = ASSUMPTIONS + [TIE_ASSUMPTION]



def modes(tier):
    # the code store's histories (incl. simultaneous exchanges of one code) run here too: "one-time code" is the store's business
    return [RelayMode("C01"), c02.TtlMode()]
