import Relay.Drv.Deny

def modes : List (String × IO Unit) := [
  ("deny", DrvDeny.main)
]

def main (args : List String) : IO UInt32 := do
  match args with
  | [m] =>
    match modes.lookup m with
    | some act => act; return 0
    | none => IO.eprintln s!"unknown mode {m}"; return 2
  | _ => IO.eprintln "usage: relaydrv <mode>"; return 2
