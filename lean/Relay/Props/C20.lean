import Relay.Model.PlayFile
import Relay.Model.Filter
import Relay.Lemmas.PlayFile

/-!
# C20 — play files parse as documented; the log filter passes exactly what the rules allow

All theorems are for every line (every byte string: any prefix, blank placement, duration,
pattern, count), every answer of `regexp.Compile` / `MatchString` (parameters `compiles`, `mt`)
and every sequence of filter commands interleaved with received lines.

Parser (`namespace PlayFile`)
* `parse_total_exclusive`   exactly one of comment / wait / send / filter / error; the four
                            command shapes of a line are mutually exclusive
* `parse_kind_by_shape`     which outcome (and which errors) each shape can give
* `comment_never_sent`      comment ⟺ first non-blank character is `#`;  `comment_exact` (echo, text)
* `plain_verbatim`          a line with none of the shapes is sent verbatim
* `delayed_send_exact`      `[ARG] BODY`: delay = ParseDuration ARG (empty = 0), message = BODY to end of line
* `delay_without_unit_rejected`  digits/dots-only ARG (≠ `0`) is the delay-format error (defect F13, fixed)
* `conditional_send_exact`  `<'PAT',COUNT,TIMEOUT JUNK> BODY`: exact pattern, count, timeout, message; error order
* `filter_command_exact`    `|VERB> BODY`
* `parse_uses_only_wanted`  the parser asks `regexp.Compile` about at most one string (`wanted`)
* `print_parse_roundtrip`   `parseLine (render c) = c` for every `WellFormed` command
* `parse_error_iff_malformed`, `check_iff_malformed`   error ⟺ ¬ `WellFormedLine` (explicit grammar)
* `durLoop_fuel`            the model's duration loop never runs out of fuel

Filter (`namespace Filter`)
* `filter_keys_exact`       lists = patterns commanded since the last reset (duplicates collapse)
* `filter_pass_iff`         passed ⟺ no filter set ∨ (no deny pattern matches ∧ some accept pattern matches)
* `filter_log_exact`        the same for every history of commands interleaved with received lines
-/

namespace Filter
open PlayFile

/-! ## the log filter -/

/-- `accept p` was commanded and no reset came after it -/
def AcceptInEffect (cs : List Cmd) (p : Pat) : Prop :=
  ∃ pre post, cs = pre ++ Cmd.accept p :: post ∧ Cmd.reset ∉ post

def DenyInEffect (cs : List Cmd) (p : Pat) : Prop :=
  ∃ pre post, cs = pre ++ Cmd.deny p :: post ∧ Cmd.reset ∉ post

/-- "no filter is set" -/
def NoFilterSet (cs : List Cmd) : Prop := ∀ p, ¬ AcceptInEffect cs p ∧ ¬ DenyInEffect cs p

/-- the rule of the property statement -/
def Rule (mt : Pat → Line → Bool) (cs : List Cmd) (line : Line) : Prop :=
  NoFilterSet cs ∨
    ((∀ p, DenyInEffect cs p → mt p line = false) ∧ ∃ p, AcceptInEffect cs p ∧ mt p line = true)

def runCmds (cs : List Cmd) (f : F := {}) : F := cs.foldl apply f

theorem mem_addKey (p q : Pat) (l : List Pat) : p ∈ addKey q l ↔ p = q ∨ p ∈ l := by
  unfold addKey
  by_cases h : q ∈ l
  · simp only [h, if_true]
    constructor
    · exact Or.inr
    · rintro (rfl | h') <;> assumption
  · simp [h, or_comm]

theorem acceptInEffect_cons (c : Cmd) (cs : List Cmd) (p : Pat) :
    AcceptInEffect (c :: cs) p ↔ (c = .accept p ∧ Cmd.reset ∉ cs) ∨ AcceptInEffect cs p := by
  constructor
  · rintro ⟨pre, post, h, hr⟩
    cases pre with
    | nil =>
      simp only [List.nil_append, List.cons.injEq] at h
      exact Or.inl ⟨h.1, h.2 ▸ hr⟩
    | cons a pre =>
      simp only [List.cons_append, List.cons.injEq] at h
      exact Or.inr ⟨pre, post, h.2, hr⟩
  · rintro (⟨rfl, hr⟩ | ⟨pre, post, h, hr⟩)
    · exact ⟨[], cs, rfl, hr⟩
    · exact ⟨c :: pre, post, by simp [h], hr⟩

theorem denyInEffect_cons (c : Cmd) (cs : List Cmd) (p : Pat) :
    DenyInEffect (c :: cs) p ↔ (c = .deny p ∧ Cmd.reset ∉ cs) ∨ DenyInEffect cs p := by
  constructor
  · rintro ⟨pre, post, h, hr⟩
    cases pre with
    | nil =>
      simp only [List.nil_append, List.cons.injEq] at h
      exact Or.inl ⟨h.1, h.2 ▸ hr⟩
    | cons a pre =>
      simp only [List.cons_append, List.cons.injEq] at h
      exact Or.inr ⟨pre, post, h.2, hr⟩
  · rintro (⟨rfl, hr⟩ | ⟨pre, post, h, hr⟩)
    · exact ⟨[], cs, rfl, hr⟩
    · exact ⟨c :: pre, post, by simp [h], hr⟩

/-- generalised over the start state -/
theorem keys_exact_from (cs : List Cmd) (f : F) (p : Pat) :
    (p ∈ (runCmds cs f).accept ↔ AcceptInEffect cs p ∨ (p ∈ f.accept ∧ Cmd.reset ∉ cs)) ∧
    (p ∈ (runCmds cs f).deny ↔ DenyInEffect cs p ∨ (p ∈ f.deny ∧ Cmd.reset ∉ cs)) := by
  induction cs generalizing f with
  | nil =>
    simp only [runCmds, List.foldl_nil, List.not_mem_nil, not_false_eq_true, and_true]
    refine ⟨⟨Or.inr, ?_⟩, ⟨Or.inr, ?_⟩⟩
    · rintro (⟨pre, post, h, _⟩ | h)
      · cases pre <;> simp at h
      · exact h
    · rintro (⟨pre, post, h, _⟩ | h)
      · cases pre <;> simp at h
      · exact h
  | cons c cs ih =>
    have ih := ih (apply f c)
    simp only [runCmds, List.foldl_cons] at ih ⊢
    rw [ih.1, ih.2, acceptInEffect_cons, denyInEffect_cons]
    cases c with
    | accept q =>
      simp only [apply, mem_addKey, Cmd.accept.injEq, List.mem_cons, reduceCtorEq, false_or, false_and]
      constructor
      · constructor
        · rintro (h | ⟨rfl | h, hr⟩)
          · exact Or.inl (Or.inr h)
          · exact Or.inl (Or.inl ⟨rfl, hr⟩)
          · exact Or.inr ⟨h, hr⟩
        · rintro ((⟨rfl, hr⟩ | h) | ⟨h, hr⟩)
          · exact Or.inr ⟨Or.inl rfl, hr⟩
          · exact Or.inl h
          · exact Or.inr ⟨Or.inr h, hr⟩
      · trivial
    | deny q =>
      simp only [apply, mem_addKey, Cmd.deny.injEq, List.mem_cons, reduceCtorEq, false_or, false_and]
      constructor
      · trivial
      · constructor
        · rintro (h | ⟨rfl | h, hr⟩)
          · exact Or.inl (Or.inr h)
          · exact Or.inl (Or.inl ⟨rfl, hr⟩)
          · exact Or.inr ⟨h, hr⟩
        · rintro ((⟨rfl, hr⟩ | h) | ⟨h, hr⟩)
          · exact Or.inr ⟨Or.inl rfl, hr⟩
          · exact Or.inl h
          · exact Or.inr ⟨Or.inr h, hr⟩
    | reset =>
      simp [apply]
    | noop =>
      simp [apply]

/-- **C20 filter (keys)**: after any command sequence the accept (deny) list holds exactly the
    patterns commanded since the last reset; duplicates collapse, reset empties both. -/
theorem filter_keys_exact (cs : List Cmd) (p : Pat) :
    (p ∈ (runCmds cs).accept ↔ AcceptInEffect cs p) ∧ (p ∈ (runCmds cs).deny ↔ DenyInEffect cs p) := by
  have h := keys_exact_from cs {} p
  simpa using h

theorem anyMatch_iff (mt : Pat → Line → Bool) (line : Line) (ps : List Pat) :
    anyMatch mt line ps = true ↔ ∃ p, p ∈ ps ∧ mt p line = true := by
  simp [anyMatch]

/-- **C20 filter (rule)**: for every sequence of accept / deny / reset (and no-op) commands and
    every line: the line is passed ⟺ no filter is set ∨ (no deny pattern in effect matches it ∧
    some accept pattern in effect matches it). -/
theorem filter_pass_iff (mt : Pat → Line → Bool) (cs : List Cmd) (line : Line) :
    pass mt (runCmds cs) line = true ↔ Rule mt cs line := by
  have hk := filter_keys_exact cs
  unfold Rule NoFilterSet pass
  by_cases hall : allPass (runCmds cs) = true
  · simp only [hall, if_true, true_iff]
    left
    intro p
    simp only [allPass, Bool.and_eq_true, List.isEmpty_iff] at hall
    rw [← (hk p).1, ← (hk p).2, hall.1, hall.2]
    simp
  · simp only [hall, Bool.false_eq_true, if_false]
    have hne : ¬ ∀ p, ¬ AcceptInEffect cs p ∧ ¬ DenyInEffect cs p := by
      intro hno
      apply hall
      simp only [allPass, Bool.and_eq_true, List.isEmpty_iff]
      constructor
      · apply List.eq_nil_iff_forall_not_mem.mpr
        intro p hp; exact (hno p).1 ((hk p).1.mp hp)
      · apply List.eq_nil_iff_forall_not_mem.mpr
        intro p hp; exact (hno p).2 ((hk p).2.mp hp)
    by_cases hd : anyMatch mt line (runCmds cs).deny = true
    · simp only [hd, if_true, Bool.false_eq_true, false_iff]
      rintro (h | ⟨h, _⟩)
      · exact hne h
      · obtain ⟨p, hp, hm⟩ := (anyMatch_iff mt line _).mp hd
        have := h p ((hk p).2.mp hp)
        rw [this] at hm; cases hm
    · simp only [hd, Bool.false_eq_true, if_false]
      have hd' : ∀ p, DenyInEffect cs p → mt p line = false := by
        intro p hp
        cases hm : mt p line with
        | false => rfl
        | true => exact absurd ((anyMatch_iff mt line _).mpr ⟨p, (hk p).2.mpr hp, hm⟩) hd
      by_cases ha : anyMatch mt line (runCmds cs).accept = true
      · simp only [ha, if_true, true_iff]
        right
        obtain ⟨p, hp, hm⟩ := (anyMatch_iff mt line _).mp ha
        exact ⟨hd', p, (hk p).1.mp hp, hm⟩
      · simp only [ha, Bool.false_eq_true, if_false, false_iff]
        rintro (h | ⟨_, p, hp, hm⟩)
        · exact hne h
        · exact ha ((anyMatch_iff mt line _).mpr ⟨p, (hk p).1.mpr hp, hm⟩)

/-- the commands among the events -/
def cmdsOf : List Ev → List Cmd
  | [] => []
  | .cmd c :: r => c :: cmdsOf r
  | .recv _ :: r => cmdsOf r

theorem run_f (mt : Pat → Line → Bool) (evs : List Ev) (s : St) :
    (run mt evs s).f = runCmds (cmdsOf evs) s.f := by
  induction evs generalizing s with
  | nil => rfl
  | cons e evs ih =>
    cases e with
    | cmd c => simp only [run, List.foldl_cons, cmdsOf, runCmds] at ih ⊢; rw [ih]; rfl
    | recv l =>
      simp only [run, List.foldl_cons, cmdsOf, runCmds] at ih ⊢
      rw [ih]
      simp only [step]
      split <;> rfl

/-- **C20 filter (histories)**: for every history of commands interleaved with received lines,
    the next received line is appended to the log exactly when the rule — evaluated on the
    commands that preceded it — holds; otherwise the log is unchanged.  (Lines never change
    the filter; nothing else is ever written.) -/
theorem filter_log_exact (mt : Pat → Line → Bool) (pre : List Ev) (l : Line) :
    (Rule mt (cmdsOf pre) l → (run mt (pre ++ [.recv l])).log = (run mt pre).log ++ [l]) ∧
    (¬ Rule mt (cmdsOf pre) l → (run mt (pre ++ [.recv l])).log = (run mt pre).log) := by
  have hf := run_f mt pre {}
  have hp := filter_pass_iff mt (cmdsOf pre) l
  simp only [run, List.foldl_append, List.foldl_cons, List.foldl_nil] at hf ⊢
  simp only [step, hf]
  constructor
  · intro h
    rw [if_pos (hp.mpr h)]
  · intro h
    have : ¬ pass mt (runCmds (cmdsOf pre) ({} : St).f) l = true := fun hpass => h (hp.mp hpass)
    rw [if_neg this]

/-- non-vacuity: duplicates, a pattern on both lists, reset, and lines passing / dropped -/
example :
    let mt : Pat → Line → Bool := fun p l => p.isPrefixOf l
    let a := ['a']; let b := ['a', 'b']
    (run mt [.recv b, .cmd (.accept a), .cmd (.accept a), .recv b, .recv ['c'], .cmd (.deny b), .recv b,
             .recv a, .cmd .reset, .recv ['c']]).log = [b, b, a, ['c']] := by
  decide

end Filter

namespace PlayFile

/-! ## the parser -/

/-! ### the four command shapes of a line (declarative: existential decompositions) -/

/-- first non-blank character is `#` -/
def CommentLine (l : Str) : Prop := ∃ ws r, All isWs ws ∧ l = ws ++ '#' :: r

/-- blanks `[` blanks `[a-zA-Z0-9.]*` blanks `]` anything -/
def DelayLine (l : Str) : Prop :=
  ∃ ws1 ws2 arg ws3 rest, All isWs ws1 ∧ All isWs ws2 ∧ All isDelayCh arg ∧ All isWs ws3 ∧
    l = ws1 ++ '[' :: (ws2 ++ (arg ++ (ws3 ++ ']' :: rest)))

/-- blanks `<` text-without-newline `>` anything -/
def CondLine (l : Str) : Prop :=
  ∃ ws1 inner rest, All isWs ws1 ∧ All notNL inner ∧ l = ws1 ++ '<' :: (inner ++ '>' :: rest)

/-- blanks `|` blanks `[-+a-zA-Z]+` blanks `>` anything -/
def FilterLine (l : Str) : Prop :=
  ∃ ws1 ws2 verb ws3 rest, All isWs ws1 ∧ All isWs ws2 ∧ All isVerbCh verb ∧ verb ≠ [] ∧ All isWs ws3 ∧
    l = ws1 ++ '|' :: (ws2 ++ (verb ++ (ws3 ++ '>' :: rest)))

inductive Kind where
  | comment | wait | send | filter | error
deriving Repr, DecidableEq

def Parsed.kind : Parsed → Kind
  | .comment _ _ => .comment
  | .wait _ => .wait
  | .send _ _ _ => .send
  | .filter _ _ => .filter
  | .error _ => .error

/-! ### scanners ⟺ shapes -/

theorem scanComment_iff (l : Str) : scanComment l ≠ none ↔ CommentLine l := by
  constructor
  · intro h
    obtain ⟨x, hx⟩ := Option.ne_none_iff_exists'.mp h
    exact scanComment_some hx
  · rintro ⟨ws, r, hws, rfl⟩
    obtain ⟨pm, msg, h⟩ := scanComment_any ws r hws
    simp [h]

theorem scanDelay_iff (l : Str) : scanDelay l ≠ none ↔ DelayLine l := by
  constructor
  · intro h
    obtain ⟨x, hx⟩ := Option.ne_none_iff_exists'.mp h
    obtain ⟨ws1, ws2, ws3, rest, h1, h2, ha, h3, e⟩ := scanDelay_some hx
    exact ⟨ws1, ws2, x.1, ws3, rest, h1, h2, ha, h3, e⟩
  · rintro ⟨ws1, ws2, arg, ws3, rest, h1, h2, ha, h3, rfl⟩
    simp [scanDelay_shape ws1 ws2 arg ws3 rest h1 h2 ha h3]

theorem scanCond_iff (l : Str) : scanCond l ≠ none ↔ CondLine l := by
  constructor
  · intro h
    obtain ⟨x, hx⟩ := Option.ne_none_iff_exists'.mp h
    obtain ⟨ws1, after, rest, h1, hi, _, _, _, e, _⟩ := scanCond_some hx
    exact ⟨ws1, x.1, after ++ rest, h1, hi, e⟩
  · rintro ⟨ws1, inner, rest, h1, hi, rfl⟩
    unfold scanCond
    rw [expect_shape ws1 _ h1 (by decide)]
    simp only [Option.bind_some]
    have hmem : '>' ∈ (inner ++ '>' :: rest).takeWhile notNL := by
      rw [List.takeWhile_append_of_pos hi, List.takeWhile_cons_of_pos (by decide)]
      simp
    cases hs : splitLast '>' ((inner ++ '>' :: rest).takeWhile notNL) with
    | none => exact absurd hs (splitLast_ne_none _ hmem)
    | some ia => simp

theorem scanFilter_iff (l : Str) : scanFilter l ≠ none ↔ FilterLine l := by
  constructor
  · intro h
    obtain ⟨x, hx⟩ := Option.ne_none_iff_exists'.mp h
    obtain ⟨ws1, ws2, ws3, rest, h1, h2, hv, hne, h3, e⟩ := scanFilter_some hx
    exact ⟨ws1, ws2, x.1, ws3, rest, h1, h2, hv, hne, h3, e⟩
  · rintro ⟨ws1, ws2, verb, ws3, rest, h1, h2, hv, hne, h3, rfl⟩
    simp [scanFilter_shape ws1 ws2 verb ws3 rest h1 h2 hv hne h3]

/-- a line whose first non-blank character is `x` is matched by none of the expressions that
    need a different first character -/
theorem scan_other_head (ws r : Str) (x : Char) (hws : All isWs ws) (hx : isWs x = false) :
    (x ≠ '#' → scanComment (ws ++ x :: r) = none) ∧ (x ≠ '[' → scanDelay (ws ++ x :: r) = none) ∧
    (x ≠ '<' → scanCond (ws ++ x :: r) = none) ∧ (x ≠ '|' → scanFilter (ws ++ x :: r) = none) := by
  refine ⟨?_, ?_, ?_, ?_⟩ <;> intro hne
  · simp [scanComment, expect_other ws r hws hx hne]
  · simp [scanDelay, expect_other ws r hws hx hne]
  · simp [scanCond, expect_other ws r hws hx hne]
  · simp [scanFilter, expect_other ws r hws hx hne]

theorem commentLine_scans {l : Str} (h : CommentLine l) :
    scanDelay l = none ∧ scanCond l = none ∧ scanFilter l = none := by
  obtain ⟨ws, r, hws, rfl⟩ := h
  have := scan_other_head ws r '#' hws (by decide)
  exact ⟨this.2.1 (by decide), this.2.2.1 (by decide), this.2.2.2 (by decide)⟩

theorem delayLine_scans {l : Str} (h : DelayLine l) :
    scanComment l = none ∧ scanCond l = none ∧ scanFilter l = none := by
  obtain ⟨ws, ws2, arg, ws3, rest, hws, _, _, _, rfl⟩ := h
  have := scan_other_head ws (ws2 ++ (arg ++ (ws3 ++ ']' :: rest))) '[' hws (by decide)
  exact ⟨this.1 (by decide), this.2.2.1 (by decide), this.2.2.2 (by decide)⟩

theorem condLine_scans {l : Str} (h : CondLine l) :
    scanComment l = none ∧ scanDelay l = none ∧ scanFilter l = none := by
  obtain ⟨ws, inner, rest, hws, _, rfl⟩ := h
  have := scan_other_head ws (inner ++ '>' :: rest) '<' hws (by decide)
  exact ⟨this.1 (by decide), this.2.1 (by decide), this.2.2.2 (by decide)⟩

theorem filterLine_scans {l : Str} (h : FilterLine l) :
    scanComment l = none ∧ scanDelay l = none ∧ scanCond l = none := by
  obtain ⟨ws, ws2, verb, ws3, rest, hws, _, _, _, _, rfl⟩ := h
  have := scan_other_head ws (ws2 ++ (verb ++ (ws3 ++ '>' :: rest))) '|' hws (by decide)
  exact ⟨this.1 (by decide), this.2.1 (by decide), this.2.2.1 (by decide)⟩

/-! ### `parseLine` through the cascade -/

theorem parseLine_comment {c : Str → Bool} {l : Str} {x : Str × Str} (h : scanComment l = some x) :
    parseLine c l = .comment (x.1 == ['+']) x.2 := by
  simp [parseLine, h]

theorem parseLine_delay {c : Str → Bool} {l : Str} {x : Str × Str} (h0 : scanComment l = none)
    (h : scanDelay l = some x) : parseLine c l = parseDelay x.1 x.2 := by
  simp [parseLine, h0, h]

theorem parseLine_cond {c : Str → Bool} {l : Str} {x : Str × Str} (h0 : scanComment l = none)
    (h1 : scanDelay l = none) (h : scanCond l = some x) : parseLine c l = parseCond c x.1 x.2 := by
  simp [parseLine, h0, h1, h]

theorem parseLine_filter {c : Str → Bool} {l : Str} {x : Str × Str} (h0 : scanComment l = none)
    (h1 : scanDelay l = none) (h2 : scanCond l = none) (h : scanFilter l = some x) :
    parseLine c l = parseFilter c x.1 x.2 := by
  simp [parseLine, h0, h1, h2, h]

theorem parseLine_plain {c : Str → Bool} {l : Str} (h0 : scanComment l = none)
    (h1 : scanDelay l = none) (h2 : scanCond l = none) (h3 : scanFilter l = none) :
    parseLine c l = .send l 0 none := by
  simp [parseLine, h0, h1, h2, h3]

theorem parseDelay_kind (arg msg : Str) :
    (parseDelay arg msg).kind = .wait ∨ (parseDelay arg msg).kind = .send ∨
      parseDelay arg msg = .error .delayFormat := by
  unfold parseDelay
  split
  · exact Or.inr (Or.inr rfl)
  · split
    · exact Or.inr (Or.inl rfl)
    · exact Or.inl rfl

theorem parseCond_kind (c : Str → Bool) (inner msg : Str) :
    (parseCond c inner msg).kind = .send ∨
      (∃ k, parseCond c inner msg = .error k ∧
        (k = .condArgs ∨ k = .condRegexp ∨ k = .condCount ∨ k = .condTimeout)) := by
  unfold parseCond
  split
  · exact Or.inr ⟨_, rfl, Or.inl rfl⟩
  · split
    · exact Or.inr ⟨_, rfl, Or.inr (Or.inl rfl)⟩
    · split
      · exact Or.inr ⟨_, rfl, Or.inr (Or.inr (Or.inl rfl))⟩
      · split
        · exact Or.inr ⟨_, rfl, Or.inr (Or.inr (Or.inr rfl))⟩
        · exact Or.inl rfl

theorem parseFilter_kind (c : Str → Bool) (verb arg : Str) :
    (parseFilter c verb arg).kind = .filter ∨
      (∃ k, parseFilter c verb arg = .error k ∧ (k = .filterVerb ∨ k = .filterRegexp)) := by
  unfold parseFilter
  split
  · exact Or.inr ⟨_, rfl, Or.inl rfl⟩
  · exact Or.inl rfl
  · split
    · exact Or.inl rfl
    · exact Or.inr ⟨_, rfl, Or.inr rfl⟩

/-! ### the property theorems -/

/-- **C20 (total, exclusive)**: for every line (every byte string) and whatever `regexp.Compile`
    answers, `ParseLine` yields exactly one of comment / wait / send / filter command / reported
    error (there is no sixth outcome and no failure), and at most one of the four command
    shapes applies to a line, so the order of the cascade never matters. -/
theorem parse_total_exclusive (compiles : Str → Bool) (l : Str) :
    (∃ k : Kind, (parseLine compiles l).kind = k ∧ ∀ k', (parseLine compiles l).kind = k' → k' = k) ∧
    ¬ (CommentLine l ∧ DelayLine l) ∧ ¬ (CommentLine l ∧ CondLine l) ∧ ¬ (CommentLine l ∧ FilterLine l) ∧
    ¬ (DelayLine l ∧ CondLine l) ∧ ¬ (DelayLine l ∧ FilterLine l) ∧ ¬ (CondLine l ∧ FilterLine l) := by
  refine ⟨⟨_, rfl, fun _ h => h.symm⟩, ?_, ?_, ?_, ?_, ?_, ?_⟩
  · rintro ⟨h1, h2⟩; exact (scanDelay_iff l).mpr h2 (commentLine_scans h1).1
  · rintro ⟨h1, h2⟩; exact (scanCond_iff l).mpr h2 (commentLine_scans h1).2.1
  · rintro ⟨h1, h2⟩; exact (scanFilter_iff l).mpr h2 (commentLine_scans h1).2.2
  · rintro ⟨h1, h2⟩; exact (scanCond_iff l).mpr h2 (delayLine_scans h1).2.1
  · rintro ⟨h1, h2⟩; exact (scanFilter_iff l).mpr h2 (delayLine_scans h1).2.2
  · rintro ⟨h1, h2⟩; exact (scanFilter_iff l).mpr h2 (condLine_scans h1).2.2

/-- **C20 (kind by shape)**: which outcome a line gets is decided by its shape alone:
    comment lines are comments; delay lines are a wait, a send, or the delay-format error;
    condition lines are a send or one of the four condition errors; filter lines are a filter
    command or one of the two filter errors; every other line is a plain send. -/
theorem parse_kind_by_shape (compiles : Str → Bool) (l : Str) :
    (CommentLine l → (parseLine compiles l).kind = .comment) ∧
    (DelayLine l → (parseLine compiles l).kind = .wait ∨ (parseLine compiles l).kind = .send ∨
        parseLine compiles l = .error .delayFormat) ∧
    (CondLine l → (parseLine compiles l).kind = .send ∨
        ∃ k, parseLine compiles l = .error k ∧
          (k = .condArgs ∨ k = .condRegexp ∨ k = .condCount ∨ k = .condTimeout)) ∧
    (FilterLine l → (parseLine compiles l).kind = .filter ∨
        ∃ k, parseLine compiles l = .error k ∧ (k = .filterVerb ∨ k = .filterRegexp)) ∧
    (¬ CommentLine l → ¬ DelayLine l → ¬ CondLine l → ¬ FilterLine l →
        parseLine compiles l = .send l 0 none) := by
  refine ⟨?_, ?_, ?_, ?_, ?_⟩
  · intro h
    obtain ⟨x, hx⟩ := Option.ne_none_iff_exists'.mp ((scanComment_iff l).mpr h)
    rw [parseLine_comment hx]; rfl
  · intro h
    obtain ⟨x, hx⟩ := Option.ne_none_iff_exists'.mp ((scanDelay_iff l).mpr h)
    rw [parseLine_delay (delayLine_scans h).1 hx]
    exact parseDelay_kind _ _
  · intro h
    obtain ⟨x, hx⟩ := Option.ne_none_iff_exists'.mp ((scanCond_iff l).mpr h)
    rw [parseLine_cond (condLine_scans h).1 (condLine_scans h).2.1 hx]
    exact parseCond_kind _ _ _
  · intro h
    obtain ⟨x, hx⟩ := Option.ne_none_iff_exists'.mp ((scanFilter_iff l).mpr h)
    rw [parseLine_filter (filterLine_scans h).1 (filterLine_scans h).2.1 (filterLine_scans h).2.2 hx]
    exact parseFilter_kind _ _ _
  · intro h0 h1 h2 h3
    have n0 : scanComment l = none := by
      cases hs : scanComment l with
      | none => rfl
      | some x => exact absurd ((scanComment_iff l).mp (by simp [hs])) h0
    have n1 : scanDelay l = none := by
      cases hs : scanDelay l with
      | none => rfl
      | some x => exact absurd ((scanDelay_iff l).mp (by simp [hs])) h1
    have n2 : scanCond l = none := by
      cases hs : scanCond l with
      | none => rfl
      | some x => exact absurd ((scanCond_iff l).mp (by simp [hs])) h2
    have n3 : scanFilter l = none := by
      cases hs : scanFilter l with
      | none => rfl
      | some x => exact absurd ((scanFilter_iff l).mp (by simp [hs])) h3
    exact parseLine_plain n0 n1 n2 n3

/-- **C20 (comments)**: a line is parsed to a comment — and therefore never sent — exactly
    when its first non-blank character is `#`; nothing about the rest of the line or about
    `regexp.Compile` matters. -/
theorem comment_never_sent (compiles : Str → Bool) (l : Str) :
    CommentLine l ↔ ∃ echo msg, parseLine compiles l = .comment echo msg := by
  constructor
  · intro h
    obtain ⟨x, hx⟩ := Option.ne_none_iff_exists'.mp ((scanComment_iff l).mpr h)
    exact ⟨_, _, parseLine_comment hx⟩
  · rintro ⟨echo, msg, h⟩
    cases hs : scanComment l with
    | some x => exact (scanComment_iff l).mp (by simp [hs])
    | none =>
      exfalso
      -- without a comment match the cascade can only produce the other kinds
      have hk : (parseLine compiles l).kind = .comment := by rw [h]; rfl
      cases hd : scanDelay l with
      | some x =>
        rw [parseLine_delay hs hd] at hk
        rcases parseDelay_kind x.1 x.2 with h' | h' | h' <;> rw [h'] at hk <;> cases hk
      | none =>
        cases hc : scanCond l with
        | some x =>
          rw [parseLine_cond hs hd hc] at hk
          rcases parseCond_kind compiles x.1 x.2 with h' | ⟨k, h', _⟩ <;> rw [h'] at hk <;> cases hk
        | none =>
          cases hf : scanFilter l with
          | some x =>
            rw [parseLine_filter hs hd hc hf] at hk
            rcases parseFilter_kind compiles x.1 x.2 with h' | ⟨k, h', _⟩ <;> rw [h'] at hk <;> cases hk
          | none =>
            rw [parseLine_plain hs hd hc hf] at hk
            cases hk

/-- the echo flag and the text of a comment: any number of `#`, then a run of `+`/`-` which
    is an echo request only if it is exactly `+`, blanks, then the text up to the end of line -/
theorem comment_exact (compiles : Str → Bool) (ws hs pm ws2 body : Str) (h1 : All isWs ws)
    (h2 : All isHash hs) (h3 : All isPM pm) (h4 : All isWs ws2)
    (n2 : NoHead isHash (pm ++ (ws2 ++ body))) (n3 : NoHead isPM (ws2 ++ body)) (n4 : NoHead isWs body) :
    parseLine compiles (ws ++ '#' :: (hs ++ (pm ++ (ws2 ++ body)))) = .comment (pm == ['+']) (dotStar body) := by
  rw [parseLine_comment (scanComment_shape ws hs pm ws2 body h1 h2 h3 h4 n2 n3 n4)]

/-- **C20 (plain lines)**: a line that has none of the four command shapes is sent verbatim,
    at once and unconditionally — every byte of it, blanks included. -/
theorem plain_verbatim (compiles : Str → Bool) (l : Str) (h0 : ¬ CommentLine l) (h1 : ¬ DelayLine l)
    (h2 : ¬ CondLine l) (h3 : ¬ FilterLine l) : parseLine compiles l = .send l 0 none :=
  (parse_kind_by_shape compiles l).2.2.2.2 h0 h1 h2 h3

theorem dotStar_of_all {s : Str} (h : All notNL s) : dotStar s = s := by
  unfold dotStar
  have := tw_split (b := []) h (nohead_nil _)
  simpa using this

/-- **C20 (delayed send / wait)**: for a line `blanks [ blanks ARG blanks ] blanks BODY`
    (`ARG` over `[a-zA-Z0-9.]`, `BODY` not starting with a blank): an empty `ARG` is the zero
    delay, any other `ARG` is the delay `time.ParseDuration` gives or else the line is the
    delay-format error; the message is exactly `BODY` up to the end of the line (leading
    blanks dropped, nothing else touched); an empty message makes it a wait. -/
theorem delayed_send_exact (compiles : Str → Bool) (ws1 ws2 arg ws3 ws4 body : Str)
    (h1 : All isWs ws1) (h2 : All isWs ws2) (ha : All isDelayCh arg) (h3 : All isWs ws3)
    (h4 : All isWs ws4) (hb : NoHead isWs body) :
    parseLine compiles (ws1 ++ '[' :: (ws2 ++ (arg ++ (ws3 ++ ']' :: (ws4 ++ body))))) =
      match (if arg = [] then some 0 else parseDuration arg) with
      | none => .error .delayFormat
      | some t => if dotStar body = [] then .wait t else .send (dotStar body) t none := by
  have hd : DelayLine (ws1 ++ '[' :: (ws2 ++ (arg ++ (ws3 ++ ']' :: (ws4 ++ body))))) :=
    ⟨ws1, ws2, arg, ws3, ws4 ++ body, h1, h2, ha, h3, rfl⟩
  rw [parseLine_delay (delayLine_scans hd).1 (scanDelay_shape ws1 ws2 arg ws3 (ws4 ++ body) h1 h2 ha h3)]
  simp only [dw_split h4 hb, parseDelay]
  cases arg with
  | nil =>
    simp only [List.length_nil, Nat.lt_irrefl, if_false, if_true]
    cases hm : dotStar body with
    | nil => simp
    | cons a as => simp
  | cons a as =>
    simp only [List.length_cons, Nat.zero_lt_succ, if_true, reduceCtorEq, if_false]
    cases parseDuration (a :: as) with
    | none => rfl
    | some t =>
      cases hm : dotStar body with
      | nil => simp
      | cons a as => simp

/-- the everyday case: one line without newline, a valid duration, a non-empty message -/
theorem delayed_send_exact_line (compiles : Str → Bool) (ws1 ws2 arg ws3 ws4 body : Str) (t : Int)
    (h1 : All isWs ws1) (h2 : All isWs ws2) (ha : All isDelayCh arg) (h3 : All isWs ws3)
    (h4 : All isWs ws4) (hb : NoHead isWs body) (hnl : All notNL body) (hne : body ≠ [])
    (hne' : arg ≠ []) (ht : parseDuration arg = some t) :
    parseLine compiles (ws1 ++ '[' :: (ws2 ++ (arg ++ (ws3 ++ ']' :: (ws4 ++ body))))) = .send body t none := by
  rw [delayed_send_exact compiles ws1 ws2 arg ws3 ws4 body h1 h2 ha h3 h4 hb, dotStar_of_all hnl]
  simp [hne, hne', ht]

/-- **C20 (conditional send)**: for a line
    `blanks < blanks 'PAT' blanks , blanks COUNT blanks , blanks TIMEOUT JUNK > blanks BODY`
    (no newline inside `<…>`, no further `>` on the line after it): the pattern is exactly the
    text between the quotes, the count exactly `strconv.Atoi COUNT`, the timeout exactly
    `time.ParseDuration TIMEOUT`, the message exactly `BODY` up to the end of line, delay 0;
    a pattern that does not compile, a bad count and a bad timeout are three distinct errors,
    in that order. `JUNK` (anything not continuing the timeout) is ignored. -/
theorem conditional_send_exact (compiles : Str → Bool)
    (ws0 ws1 pat ws2 ws3 cnt ws4 ws5 tmo junk ws6 body : Str)
    (h0 : All isWs ws0) (h1 : All isWs ws1) (hp : All notQuote pat) (h2 : All isWs ws2)
    (h3 : All isWs ws3) (hc : All isDigit cnt) (h4 : All isWs ws4) (h5 : All isWs ws5)
    (ht : All isTimeoutCh tmo) (n5 : NoHead isWs (tmo ++ junk)) (nj : NoHead isTimeoutCh junk)
    (h6 : All isWs ws6) (hb : NoHead isWs body)
    (hnl : All notNL (ws1 ++ '\'' :: (pat ++ '\'' :: (ws2 ++ ',' :: (ws3 ++ (cnt ++ (ws4 ++ ',' :: (ws5 ++ (tmo ++ junk)))))))))
    (hgt : '>' ∉ dotStar (ws6 ++ body)) :
    parseLine compiles
      (ws0 ++ '<' :: ((ws1 ++ '\'' :: (pat ++ '\'' :: (ws2 ++ ',' :: (ws3 ++ (cnt ++ (ws4 ++ ',' :: (ws5 ++ (tmo ++ junk))))))))
        ++ '>' :: (ws6 ++ body))) =
      if compiles pat = false then .error .condRegexp
      else match atoi cnt with
        | none => .error .condCount
        | some n =>
          match parseDuration tmo with
          | none => .error .condTimeout
          | some d => .send (dotStar body) 0 (some { pattern := pat, count := n, timeout := d }) := by
  have hsplit : ws6 ++ body = (ws6 ++ body).takeWhile notNL ++ (ws6 ++ body).dropWhile notNL :=
    List.takeWhile_append_dropWhile.symm
  have hshape := scanCond_shape ws0 _ ((ws6 ++ body).takeWhile notNL) ((ws6 ++ body).dropWhile notNL)
    h0 hnl (all_takeWhile _ _) hgt (nohead_dropWhile _ _)
  rw [← hsplit] at hshape
  have hcl : CondLine (ws0 ++ '<' :: ((ws1 ++ '\'' :: (pat ++ '\'' :: (ws2 ++ ',' :: (ws3 ++ (cnt ++ (ws4 ++ ',' :: (ws5 ++ (tmo ++ junk))))))))
        ++ '>' :: (ws6 ++ body))) := ⟨ws0, _, _, h0, hnl, rfl⟩
  rw [parseLine_cond (condLine_scans hcl).1 (condLine_scans hcl).2.1 hshape]
  simp only [dw_split h6 hb, parseCond,
    scanCondArgs_shape ws1 pat ws2 ws3 cnt ws4 ws5 tmo junk h1 hp h2 h3 hc h4 h5 ht n5 nj]
  cases compiles pat
  · simp
  · simp only [Bool.not_true, Bool.false_eq_true, if_false, reduceCtorEq]
    cases atoi cnt with
    | none => rfl
    | some n => cases parseDuration tmo <;> rfl

/-- **C20 (filter command)**: for a line `blanks | blanks VERB blanks > blanks BODY` the verb
    is read case-insensitively (`+ a accept`, `- d deny`, `r reset`, anything else is the
    filter-verb error); reset ignores the rest; accept / deny carry exactly `BODY` up to the
    end of the line as pattern text, or the filter-regexp error if it does not compile. -/
theorem filter_command_exact (compiles : Str → Bool) (ws1 ws2 verb ws3 ws4 body : Str)
    (h1 : All isWs ws1) (h2 : All isWs ws2) (hv : All isVerbCh verb) (hne : verb ≠ [])
    (h3 : All isWs ws3) (h4 : All isWs ws4) (hb : NoHead isWs body) :
    parseLine compiles (ws1 ++ '|' :: (ws2 ++ (verb ++ (ws3 ++ '>' :: (ws4 ++ body))))) =
      match verbOf verb with
      | none => .error .filterVerb
      | some .reset => .filter .reset none
      | some v => if compiles (dotStar body) then .filter v (some (dotStar body)) else .error .filterRegexp := by
  have hf : FilterLine (ws1 ++ '|' :: (ws2 ++ (verb ++ (ws3 ++ '>' :: (ws4 ++ body))))) :=
    ⟨ws1, ws2, verb, ws3, ws4 ++ body, h1, h2, hv, hne, h3, rfl⟩
  rw [parseLine_filter (filterLine_scans hf).1 (filterLine_scans hf).2.1 (filterLine_scans hf).2.2
    (scanFilter_shape ws1 ws2 verb ws3 (ws4 ++ body) h1 h2 hv hne h3)]
  simp only [dw_split h4 hb, parseFilter]
  cases verbOf verb with
  | none => rfl
  | some v => cases v <;> rfl

/-- **C20 (two-phase protocol is sound)**: `ParseLine` consults `regexp.Compile` about at most
    one string, `wanted line`; two oracles that agree on it give the same result. -/
theorem parse_uses_only_wanted (c1 c2 : Str → Bool) (l : Str)
    (h : ∀ p, wanted l = some p → c1 p = c2 p) : parseLine c1 l = parseLine c2 l := by
  unfold parseLine
  unfold wanted at h
  cases h0 : scanComment l with
  | some x => rfl
  | none =>
    simp only [h0] at h ⊢
    cases h1 : scanDelay l with
    | some x => rfl
    | none =>
      simp only [h1] at h ⊢
      cases h2 : scanCond l with
      | some x =>
        simp only [h2] at h ⊢
        unfold parseCond
        cases h3 : scanCondArgs x.1 with
        | none => rfl
        | some y =>
          obtain ⟨pat, cnt, tmo⟩ := y
          simp only [h3, Option.map_some] at h ⊢
          rw [h pat rfl]
      | none =>
        simp only [h2] at h ⊢
        cases h3 : scanFilter l with
        | none => rfl
        | some x =>
          simp only [h3] at h ⊢
          unfold parseFilter
          cases hv : verbOf x.1 with
          | none => rfl
          | some v =>
            cases v with
            | reset => rfl
            | accept => simp only [hv] at h ⊢; rw [h x.2 rfl]
            | deny => simp only [hv] at h ⊢; rw [h x.2 rfl]

/-! ### print / parse round trip -/

/-- concrete round trips: messages starting with `[ < | #`, a pattern containing `>` -/
def print_parse_roundtrip_example : Bool :=
  let c : Str → Bool := fun _ => true
  [Parsed.send "[1s] x".toList 0 none, .send "# x".toList 5 none, .send "<'a',1,1s> y".toList 0 none,
   .send "|+> z".toList 1500000000 none, .send " plain \n text ".toList 0 none,
   .send "{\"stop\":\"motor\"}".toList 0 (some ⟨"a>b, \\\"x\\\"".toList, 5, 10000000000⟩),
   .comment true "+ echoed".toList, .comment false [], .wait 9223372036854775807,
   .filter .deny (some "\"hb\"".toList), .filter .reset none].all
    (fun p => decide (parseLine c (render p) = p))


def maxInt64 : Int := 9223372036854775807

/-- text that survives `\s*(.*)` unchanged: no newline, does not begin with a blank -/
def okText (m : Str) : Bool :=
  m.all notNL && (match m with | c :: _ => !isWs c | [] => true)

def inRange (d : Int) : Bool := decide (0 ≤ d) && decide (d ≤ maxInt64)

/-- the commands `render` can spell (explicit, decidable):
    * comment: text without newline, not starting with a blank (it may be empty, and may start with `+ - #`);
    * wait: delay within `0 … 2^63-1` ns;
    * plain send: either delay 0 and the text has none of the command shapes (then *any* bytes,
      blanks and newlines included), or delay in range and a non-empty text without newline not
      starting with a blank — this covers texts starting with `[`, `<`, `|`, `#`;
    * conditional send: delay 0 (the format has no place for one), text as above but possibly
      empty and without `>` (the condition ends at the LAST `>` of the line), pattern without
      `'` and newline that compiles, count and timeout within `0 … 2^63-1`;
    * filter reset without pattern; accept / deny with a pattern text as above that compiles. -/
def wf (compiles : Str → Bool) : Parsed → Bool
  | .comment _ msg => okText msg
  | .wait d => inRange d
  | .send msg d none => (decide (d = 0) && isPlain msg) || (inRange d && okText msg && !msg.isEmpty)
  | .send msg d (some c) =>
      decide (d = 0) && okText msg && !msg.contains '>' && c.pattern.all notQuote && c.pattern.all notNL
        && compiles c.pattern && inRange c.count && inRange c.timeout
  | .filter .reset p => p.isNone
  | .filter _ p => match p with | some q => okText q && compiles q | none => false
  | .error _ => false

def WellFormed (compiles : Str → Bool) (p : Parsed) : Prop := wf compiles p = true

instance (compiles : Str → Bool) (p : Parsed) : Decidable (WellFormed compiles p) := by
  unfold WellFormed; infer_instance

theorem okText_spec {m : Str} (h : okText m = true) : All notNL m ∧ NoHead isWs m := by
  simp only [okText, Bool.and_eq_true, List.all_eq_true] at h
  refine ⟨h.1, ?_⟩
  intro c r e
  subst e
  simpa using h.2

theorem all_cons {p : Char → Bool} {c : Char} {r : Str} (hc : p c = true) (hr : All p r) : All p (c :: r) := by
  intro x hx
  rcases List.mem_cons.mp hx with rfl | hx
  · exact hc
  · exact hr x hx

theorem all_mono {p q : Char → Bool} {s : Str} (hpq : ∀ c, p c = true → q c = true) (h : All p s) : All q s :=
  fun c hc => hpq c (h c hc)

theorem digit_delayCh : ∀ c, isDigit c = true → isDelayCh c = true := by
  intro c h; simp [isDelayCh, h]
theorem digit_timeoutCh : ∀ c, isDigit c = true → isTimeoutCh c = true := by
  intro c h; simp [isTimeoutCh, h]
theorem digit_notNL : ∀ c, isDigit c = true → notNL c = true := by
  intro c h
  cases hn : notNL c with
  | true => rfl
  | false =>
    have : c = '\n' := by simpa [notNL] using hn
    subst this; exact absurd h (by decide)
theorem ws_of_space : All isWs [' '] := all_cons (by decide) (all_nil _)

theorem renderDur_delayCh (d : Int) : All isDelayCh (renderDur d) :=
  all_append (all_mono digit_delayCh (natDigits_all _)) (all_cons (by decide) (all_cons (by decide) (all_nil _)))
theorem renderDur_timeoutCh (d : Int) : All isTimeoutCh (renderDur d) :=
  all_append (all_mono digit_timeoutCh (natDigits_all _)) (all_cons (by decide) (all_cons (by decide) (all_nil _)))
theorem renderDur_notNL (d : Int) : All notNL (renderDur d) :=
  all_append (all_mono digit_notNL (natDigits_all _)) (all_cons (by decide) (all_cons (by decide) (all_nil _)))
theorem renderDur_ne_nil (d : Int) : renderDur d ≠ [] := by
  simp [renderDur, natDigits_ne_nil]

theorem inRange_spec {d : Int} (h : inRange d = true) :
    d.toNat ≤ two63 - 1 ∧ (d.toNat : Int) = d := by
  simp only [inRange, maxInt64, Bool.and_eq_true, decide_eq_true_eq] at h
  obtain ⟨h0, h1⟩ := h
  have h1 := of_decide_eq_true h1
  have e : (d.toNat : Int) = d := Int.toNat_of_nonneg h0
  refine ⟨?_, e⟩
  simp only [two63]
  omega

theorem parseDuration_renderDur {d : Int} (h : inRange d = true) : parseDuration (renderDur d) = some d := by
  obtain ⟨h1, h2⟩ := inRange_spec h
  unfold renderDur
  rw [parseDuration_ns _ h1, h2]

theorem mem_of_mem_dotStar {c : Char} {s : Str} (h : c ∈ dotStar s) : c ∈ s := by
  have := List.takeWhile_append_dropWhile (p := notNL) (l := s)
  rw [← this]
  exact List.mem_append_left _ h

/-- **C20 (round trip)**: every well-formed command survives printing and parsing unchanged:
    `parseLine (render c) = c` — including messages that themselves start with `[`, `<`, `|`
    or `#`, empty comments, the extreme delays, patterns containing `>` or `,`.  -/
theorem print_parse_roundtrip (compiles : Str → Bool) (p : Parsed) (h : WellFormed compiles p) :
    parseLine compiles (render p) = p := by
  unfold WellFormed at h
  cases p with
  | error k => simp [wf] at h
  | comment echo msg =>
    simp only [wf] at h
    obtain ⟨hnl, hws⟩ := okText_spec h
    have := comment_exact compiles [] [] [if echo then '+' else '-'] [' '] msg (all_nil _) (all_nil _)
      (all_cons (by cases echo <;> decide) (all_nil _)) ws_of_space
      (nohead_cons _ (by cases echo <;> decide)) (nohead_cons _ (by decide)) hws
    rw [dotStar_of_all hnl] at this
    simp only [render]
    have e : ([if echo then '+' else '-'] == ['+']) = echo := by cases echo <;> decide
    rw [e] at this
    exact this
  | wait d =>
    simp only [wf] at h
    have := delayed_send_exact compiles [] [] (renderDur d) [] [] [] (all_nil _) (all_nil _)
      (renderDur_delayCh d) (all_nil _) (all_nil _) (nohead_nil _)
    simp only [renderDur_ne_nil, if_false, parseDuration_renderDur h, List.nil_append] at this
    simp only [render]
    exact this
  | filter v pat =>
    cases v with
    | reset =>
      simp only [wf, Option.isNone_iff_eq_none] at h
      subst h
      have := filter_command_exact compiles [] [] ['r'] [] [] [] (all_nil _) (all_nil _)
        (all_cons (by decide) (all_nil _)) (by simp) (all_nil _) (all_nil _) (nohead_nil _)
      rw [show verbOf ['r'] = some Verb.reset by decide] at this
      exact this
    | accept =>
      cases pat with
      | none => simp [wf] at h
      | some q =>
        simp only [wf, Bool.and_eq_true] at h
        obtain ⟨hnl, hws⟩ := okText_spec h.1
        have := filter_command_exact compiles [] [] ['+'] [] [' '] q (all_nil _) (all_nil _)
          (all_cons (by decide) (all_nil _)) (by simp) (all_nil _) ws_of_space hws
        rw [dotStar_of_all hnl, show verbOf ['+'] = some Verb.accept by decide] at this
        simp only [h.2, if_true] at this
        simp only [render, Option.getD_some]
        exact this
    | deny =>
      cases pat with
      | none => simp [wf] at h
      | some q =>
        simp only [wf, Bool.and_eq_true] at h
        obtain ⟨hnl, hws⟩ := okText_spec h.1
        have := filter_command_exact compiles [] [] ['-'] [] [' '] q (all_nil _) (all_nil _)
          (all_cons (by decide) (all_nil _)) (by simp) (all_nil _) ws_of_space hws
        rw [dotStar_of_all hnl, show verbOf ['-'] = some Verb.deny by decide] at this
        simp only [h.2, if_true] at this
        simp only [render, Option.getD_some]
        exact this
  | send msg d cond =>
    cases cond with
    | none =>
      simp only [wf, Bool.or_eq_true, Bool.and_eq_true, decide_eq_true_eq] at h
      simp only [render]
      by_cases hp : d = 0 ∧ isPlain msg = true
      · rw [if_pos hp]
        obtain ⟨hd, hpl⟩ := hp
        simp only [isPlain, Bool.and_eq_true, Option.isNone_iff_eq_none] at hpl
        rw [parseLine_plain hpl.1.1.1 hpl.1.1.2 hpl.1.2 hpl.2, hd]
      · rw [if_neg hp]
        rcases h with h | h
        · exact absurd h hp
        · obtain ⟨⟨hr, ht⟩, hne⟩ := h
          obtain ⟨hnl, hws⟩ := okText_spec ht
          have hne' : msg ≠ [] := by
            intro e; subst e; simp at hne
          by_cases hd : d = 0
          · subst hd
            have := delayed_send_exact compiles [] [] [] [] [' '] msg (all_nil _) (all_nil _)
              (all_nil _) (all_nil _) ws_of_space hws
            rw [dotStar_of_all hnl] at this
            simp only [if_true, hne', if_false] at this ⊢
            exact this
          · have := delayed_send_exact compiles [] [] (renderDur d) [] [' '] msg (all_nil _) (all_nil _)
              (renderDur_delayCh d) (all_nil _) ws_of_space hws
            rw [dotStar_of_all hnl] at this
            simp only [renderDur_ne_nil, if_false, parseDuration_renderDur hr, hne', hd] at this ⊢
            exact this
    | some c =>
      obtain ⟨pat, cnt, tmo⟩ := c
      simp only [wf, Bool.and_eq_true, decide_eq_true_eq, Bool.not_eq_true', List.all_eq_true] at h
      obtain ⟨⟨⟨⟨⟨⟨⟨hd, ht⟩, hgt⟩, hq⟩, hpn⟩, hcomp⟩, hcnt⟩, htmo⟩ := h
      obtain ⟨hnl, hws⟩ := okText_spec ht
      obtain ⟨hc1, hc2⟩ := inRange_spec hcnt
      have hgt' : '>' ∉ dotStar ([' '] ++ msg) := by
        intro hm
        have := mem_of_mem_dotStar hm
        simp only [List.cons_append, List.nil_append, List.mem_cons] at this
        rcases this with e | e
        · exact absurd e (by decide)
        · have : msg.contains '>' = true := by simpa using e
          rw [this] at hgt; cases hgt
      have hn5 : NoHead isWs (renderDur tmo ++ []) := by
        rw [List.append_nil]
        unfold renderDur
        cases hds : natDigits tmo.toNat with
        | nil => exact absurd hds (natDigits_ne_nil _)
        | cons a r =>
          have : isDigit a = true := by
            have := natDigits_all tmo.toNat a; rw [hds] at this; exact this List.mem_cons_self
          exact nohead_cons _ (disj_symm ws_not_digit a this)
      have hinner : All notNL ([] ++ '\'' :: (pat ++ '\'' :: ([] ++ ',' :: ([] ++ (natDigits cnt.toNat ++
          ([] ++ ',' :: ([] ++ (renderDur tmo ++ [])))))))) := by
        simp only [List.nil_append, List.append_nil]
        exact all_cons (by decide) (all_append hpn (all_cons (by decide) (all_cons (by decide)
          (all_append (all_mono digit_notNL (natDigits_all _)) (all_cons (by decide) (renderDur_notNL tmo))))))
      have := conditional_send_exact compiles [] [] pat [] [] (natDigits cnt.toNat) [] [] (renderDur tmo) []
        [' '] msg (all_nil _) (all_nil _) hq (all_nil _) (all_nil _) (natDigits_all _) (all_nil _) (all_nil _)
        (renderDur_timeoutCh tmo) hn5 (nohead_nil _) ws_of_space hws hinner hgt'
      rw [dotStar_of_all hnl, atoi_natDigits _ hc1, parseDuration_renderDur htmo, hc2] at this
      simp only [hcomp, Bool.true_eq_false, if_false] at this
      simp only [List.nil_append, List.append_nil, List.cons_append, List.append_assoc] at this
      simp only [render]
      rw [hd]
      exact this

/-! ### a delay needs a unit (the F13 defect, as a theorem about today's code) -/

theorem all_dropWhile {p q : Char → Bool} {s : Str} (h : All p s) : All p (s.dropWhile q) := by
  intro c hc
  apply h
  have := List.takeWhile_append_dropWhile (p := q) (l := s)
  rw [← this]
  exact List.mem_append_right _ hc

theorem fracPart_rest_all {s1 : Str} (h : All isNumCh s1) : All isNumCh (fracPart s1).2.2.2 := by
  unfold fracPart
  split
  · rename_i r
    simp only [leadingFraction_rest]
    exact all_dropWhile (fun c hc => h c (List.mem_cons_of_mem _ hc))
  · exact h

theorem durTerm_numOnly {s : Str} (h : All isNumCh s) : durTerm s = none := by
  unfold durTerm
  split
  · rfl
  · rename_i c r
    split
    · rfl
    · split
      · rfl
      · rename_i v s1 hli
        have hs1 : All isNumCh s1 := by rw [leadingInt_rest hli]; exact all_dropWhile h
        have hs2 := fracPart_rest_all hs1
        simp only
        split
        · rfl
        · have hu : (fracPart s1).2.2.2.takeWhile isUnitCh = [] := by
            cases hs : (fracPart s1).2.2.2 with
            | nil => rfl
            | cons a t =>
              rw [hs] at hs2
              exact List.takeWhile_cons_of_neg (by simp [isUnitCh, hs2 a List.mem_cons_self])
          rw [if_pos hu]

/-- a string of digits and dots only (other than the lone `0`) is not a duration -/
theorem parseDuration_numOnly {s : Str} (h : All isNumCh s) (h0 : s ≠ ['0']) : parseDuration s = none := by
  cases s with
  | nil => rfl
  | cons c r =>
    have hc := h c List.mem_cons_self
    have hs : splitSign (c :: r) = (false, c :: r) := by
      unfold splitSign
      split
      · rename_i heq; cases heq; exact absurd hc (by decide)
      · rename_i heq; cases heq; exact absurd hc (by decide)
      · rfl
    simp only [parseDuration, hs, h0, if_false, reduceCtorEq, List.length_cons, durLoop, durTerm_numOnly h]

/-- **C20 (a delay needs a unit)**: `[5] foo`, `[ 1.5 ]`, `[7]` … — a delay argument made of
    digits and dots only (except the lone `0`) is reported as an error, whatever its length.
    (Before commit e9dd7a6 one-character arguments were skipped unparsed.) -/
theorem delay_without_unit_rejected (compiles : Str → Bool) (ws1 ws2 arg ws3 rest : Str)
    (h1 : All isWs ws1) (h2 : All isWs ws2) (ha : All isNumCh arg) (h3 : All isWs ws3)
    (hne : arg ≠ []) (h0 : arg ≠ ['0']) :
    parseLine compiles (ws1 ++ '[' :: (ws2 ++ (arg ++ (ws3 ++ ']' :: rest)))) = .error .delayFormat := by
  have had : All isDelayCh arg := by
    intro c hc
    have := ha c hc
    simp only [isNumCh, Bool.or_eq_true] at this
    simp only [isDelayCh, Bool.or_eq_true]
    rcases this with h | h
    · exact Or.inr h
    · exact Or.inl (Or.inr h)
  have hd : DelayLine (ws1 ++ '[' :: (ws2 ++ (arg ++ (ws3 ++ ']' :: rest)))) :=
    ⟨ws1, ws2, arg, ws3, rest, h1, h2, had, h3, rfl⟩
  rw [parseLine_delay (delayLine_scans hd).1 (scanDelay_shape ws1 ws2 arg ws3 rest h1 h2 had h3)]
  have hl : arg.length > 0 := List.length_pos_iff.mpr hne
  simp only [parseDelay, hl, if_true, parseDuration_numOnly ha h0]

/-- the fuel of the duration loop never runs out: any fuel ≥ the input length gives the same
    answer, so the model's "out of fuel" branch is unreachable from `parseDuration` -/
theorem durLoop_fuel (n m : Nat) (s : Str) (d : Nat) (hn : s.length ≤ n) (hm : s.length ≤ m) :
    durLoop n s d = durLoop m s d := durLoop_fuel_aux n m s d hn hm

/-! ### `Check` reports an error precisely when some line is malformed -/

/-- README "DURATIONS", as the code reads them: what `time.ParseDuration` accepts
    (differences to the README prose are listed in the check's report) -/
def ValidDuration (s : Str) : Prop := ∃ d, parseDuration s = some d

/-- COUNT: a non-empty string of decimal digits whose value fits a 64-bit `int` -/
def ValidCount (s : Str) : Prop := s ≠ [] ∧ Nat.ofDigitChars 10 s 0 ≤ 9223372036854775807

def AcceptWord (v : Str) : Prop :=
  v.map toLowerCh = ['+'] ∨ v.map toLowerCh = ['a'] ∨ v.map toLowerCh = ['a', 'c', 'c', 'e', 'p', 't']
def DenyWord (v : Str) : Prop :=
  v.map toLowerCh = ['-'] ∨ v.map toLowerCh = ['d'] ∨ v.map toLowerCh = ['d', 'e', 'n', 'y']
def ResetWord (v : Str) : Prop :=
  v.map toLowerCh = ['r'] ∨ v.map toLowerCh = ['r', 'e', 's', 'e', 't']

/-- The documented grammar of one play-file line (README "COMMANDS" … "SEND/CONDITION", with
    the command prefixes as `regex.go` fixes them).  A line is well-formed iff it is
    * a comment: first non-blank character `#`; or
    * a delay line `[ARG]…` whose `ARG` is empty or a valid duration; or
    * a condition line `<'PAT',COUNT,TIMEOUT JUNK>…` (no newline inside, the `>` is the last one
      on the line) whose pattern compiles, whose count is a valid count and whose timeout is a
      valid duration; or
    * a filter line `|VERB>BODY` whose verb is a reset word, or an accept/deny word with a
      `BODY` (up to the end of line) that compiles; or
    * none of the four shapes (a plain message). -/
def WellFormedLine (compiles : Str → Bool) (l : Str) : Prop :=
  CommentLine l ∨
  (∃ ws1 ws2 arg ws3 rest, All isWs ws1 ∧ All isWs ws2 ∧ All isDelayCh arg ∧ All isWs ws3 ∧
      l = ws1 ++ '[' :: (ws2 ++ (arg ++ (ws3 ++ ']' :: rest))) ∧ (arg = [] ∨ ValidDuration arg)) ∨
  (∃ ws0 ws1 pat ws2 ws3 cnt ws4 ws5 tmo junk rest,
      All isWs ws0 ∧ All isWs ws1 ∧ All notQuote pat ∧ All isWs ws2 ∧ All isWs ws3 ∧ All isDigit cnt ∧
      All isWs ws4 ∧ All isWs ws5 ∧ All isTimeoutCh tmo ∧ NoHead isWs (tmo ++ junk) ∧ NoHead isTimeoutCh junk ∧
      All notNL (ws1 ++ '\'' :: (pat ++ '\'' :: (ws2 ++ ',' :: (ws3 ++ (cnt ++ (ws4 ++ ',' :: (ws5 ++ (tmo ++ junk)))))))) ∧
      '>' ∉ dotStar rest ∧
      l = ws0 ++ '<' :: ((ws1 ++ '\'' :: (pat ++ '\'' :: (ws2 ++ ',' :: (ws3 ++ (cnt ++ (ws4 ++ ',' :: (ws5 ++ (tmo ++ junk))))))))
            ++ '>' :: rest) ∧
      compiles pat = true ∧ ValidCount cnt ∧ ValidDuration tmo) ∨
  (∃ ws1 ws2 verb ws3 ws4 body, All isWs ws1 ∧ All isWs ws2 ∧ All isVerbCh verb ∧ verb ≠ [] ∧ All isWs ws3 ∧
      All isWs ws4 ∧ NoHead isWs body ∧
      l = ws1 ++ '|' :: (ws2 ++ (verb ++ (ws3 ++ '>' :: (ws4 ++ body)))) ∧
      (ResetWord verb ∨ ((AcceptWord verb ∨ DenyWord verb) ∧ compiles (dotStar body) = true))) ∨
  (¬ CommentLine l ∧ ¬ DelayLine l ∧ ¬ CondLine l ∧ ¬ FilterLine l)

theorem verbOf_cases (v : Str) :
    (verbOf v = some .deny ∧ DenyWord v) ∨ (verbOf v = some .accept ∧ AcceptWord v) ∨
    (verbOf v = some .reset ∧ ResetWord v) ∨
    (verbOf v = none ∧ ¬ DenyWord v ∧ ¬ AcceptWord v ∧ ¬ ResetWord v) := by
  unfold verbOf DenyWord AcceptWord ResetWord
  simp only
  by_cases hd : List.map toLowerCh v = ['-'] ∨ List.map toLowerCh v = ['d'] ∨ List.map toLowerCh v = ['d', 'e', 'n', 'y']
  · rw [if_pos hd]; exact Or.inl ⟨rfl, hd⟩
  · rw [if_neg hd]
    by_cases ha : List.map toLowerCh v = ['+'] ∨ List.map toLowerCh v = ['a'] ∨
        List.map toLowerCh v = ['a', 'c', 'c', 'e', 'p', 't']
    · rw [if_pos ha]; exact Or.inr (Or.inl ⟨rfl, ha⟩)
    · rw [if_neg ha]
      by_cases hr : List.map toLowerCh v = ['r'] ∨ List.map toLowerCh v = ['r', 'e', 's', 'e', 't']
      · rw [if_pos hr]; exact Or.inr (Or.inr (Or.inl ⟨rfl, hr⟩))
      · rw [if_neg hr]; exact Or.inr (Or.inr (Or.inr ⟨rfl, hd, ha, hr⟩))

theorem reset_excl {v : Str} (hr : ResetWord v) : ¬ DenyWord v ∧ ¬ AcceptWord v := by
  unfold ResetWord at hr
  unfold DenyWord AcceptWord
  constructor
  · rintro (h | h | h) <;> rcases hr with hr | hr <;> rw [h] at hr <;> simp at hr
  · rintro (h | h | h) <;> rcases hr with hr | hr <;> rw [h] at hr <;> simp at hr

theorem not_error_of_wellFormed (compiles : Str → Bool) (l : Str) (h : WellFormedLine compiles l) :
    isError (parseLine compiles l) = false := by
  rcases h with h | h | h | h | h
  · obtain ⟨e, m, hp⟩ := (comment_never_sent compiles l).mp h
    rw [hp]; rfl
  · obtain ⟨ws1, ws2, arg, ws3, rest, h1, h2, ha, h3, rfl, hv⟩ := h
    have hd : DelayLine (ws1 ++ '[' :: (ws2 ++ (arg ++ (ws3 ++ ']' :: rest)))) :=
      ⟨ws1, ws2, arg, ws3, rest, h1, h2, ha, h3, rfl⟩
    rw [parseLine_delay (delayLine_scans hd).1 (scanDelay_shape ws1 ws2 arg ws3 rest h1 h2 ha h3)]
    simp only [parseDelay]
    rcases hv with rfl | ⟨d, hd⟩
    · simp only [List.length_nil, Nat.lt_irrefl, if_false]
      split <;> rfl
    · cases arg with
      | nil => simp only [List.length_nil, Nat.lt_irrefl, if_false]; split <;> rfl
      | cons a as =>
        simp only [List.length_cons, Nat.zero_lt_succ, if_true, hd]
        split <;> rfl
  · obtain ⟨ws0, ws1, pat, ws2, ws3, cnt, ws4, ws5, tmo, junk, rest, h0, h1, hp, h2, h3, hc, h4, h5, ht, n5, nj,
      hnl, hgt, rfl, hcomp, hcnt, ⟨d, hd⟩⟩ := h
    have hsplit : rest = rest.takeWhile notNL ++ rest.dropWhile notNL :=
      List.takeWhile_append_dropWhile.symm
    have hshape := scanCond_shape ws0 _ (rest.takeWhile notNL) (rest.dropWhile notNL)
      h0 hnl (all_takeWhile _ _) hgt (nohead_dropWhile _ _)
    rw [← hsplit] at hshape
    have hcl : CondLine (ws0 ++ '<' :: ((ws1 ++ '\'' :: (pat ++ '\'' :: (ws2 ++ ',' :: (ws3 ++ (cnt ++ (ws4 ++ ',' :: (ws5 ++ (tmo ++ junk))))))))
        ++ '>' :: rest)) := ⟨ws0, _, _, h0, hnl, rfl⟩
    rw [parseLine_cond (condLine_scans hcl).1 (condLine_scans hcl).2.1 hshape]
    obtain ⟨n, hn⟩ := (atoi_digits_iff hc).mpr hcnt
    simp only [parseCond, scanCondArgs_shape ws1 pat ws2 ws3 cnt ws4 ws5 tmo junk h1 hp h2 h3 hc h4 h5 ht n5 nj,
      hcomp, hn, hd, Bool.not_true, Bool.false_eq_true, if_false]
    rfl
  · obtain ⟨ws1, ws2, verb, ws3, ws4, body, h1, h2, hv, hne, h3, h4, hb, rfl, hverb⟩ := h
    rw [filter_command_exact compiles ws1 ws2 verb ws3 ws4 body h1 h2 hv hne h3 h4 hb]
    rcases hverb with hr | ⟨hw, hcomp⟩
    · rcases verbOf_cases verb with ⟨_, hd⟩ | ⟨_, ha⟩ | ⟨e, _⟩ | ⟨_, _, _, nr⟩
      · exact absurd hd (reset_excl hr).1
      · exact absurd ha (reset_excl hr).2
      · rw [e]; rfl
      · exact absurd hr nr
    · rcases verbOf_cases verb with ⟨e, _⟩ | ⟨e, _⟩ | ⟨e, _⟩ | ⟨_, nd, na, _⟩
      · rw [e]; simp only [hcomp, if_true]; rfl
      · rw [e]; simp only [hcomp, if_true]; rfl
      · rw [e]; rfl
      · rcases hw with ha | hd
        · exact absurd ha na
        · exact absurd hd nd
  · rw [plain_verbatim compiles l h.1 h.2.1 h.2.2.1 h.2.2.2]; rfl

theorem wellFormed_of_not_error (compiles : Str → Bool) (l : Str)
    (h : isError (parseLine compiles l) = false) : WellFormedLine compiles l := by
  cases h0 : scanComment l with
  | some x => exact Or.inl ((scanComment_iff l).mp (by simp [h0]))
  | none =>
    cases h1 : scanDelay l with
    | some x =>
      right; left
      rw [parseLine_delay h0 h1] at h
      obtain ⟨ws1, ws2, ws3, rest, a1, a2, aa, a3, e⟩ := scanDelay_some h1
      refine ⟨ws1, ws2, x.1, ws3, rest, a1, a2, aa, a3, e, ?_⟩
      cases hx : x.1 with
      | nil => exact Or.inl rfl
      | cons a as =>
        right
        simp only [parseDelay, hx, List.length_cons, Nat.zero_lt_succ, if_true] at h
        cases hp : parseDuration (a :: as) with
        | none => rw [hp] at h; cases h
        | some d => exact ⟨d, hp⟩
    | none =>
      cases h2 : scanCond l with
      | some x =>
        right; right; left
        rw [parseLine_cond h0 h1 h2] at h
        obtain ⟨ws0, after, rest', a0, ai, aa, agt, ar, e, _⟩ := scanCond_some h2
        simp only [parseCond] at h
        cases h3 : scanCondArgs x.1 with
        | none => rw [h3] at h; cases h
        | some y =>
          obtain ⟨ws1, ws2, ws3, ws4, ws5, junk, b1, bp, b2, b3, bc, b4, b5, bt, n5, nj, e'⟩ := scanCondArgs_some h3
          obtain ⟨pat, cnt, tmo⟩ := y
          simp only at bp bc bt n5 e'
          simp only [h3] at h
          cases hcomp : compiles pat with
          | false => simp [hcomp] at h; cases h
          | true =>
            simp only [hcomp, Bool.not_true, Bool.false_eq_true, if_false] at h
            cases hn : atoi cnt with
            | none => rw [hn] at h; cases h
            | some n =>
              rw [hn] at h
              simp only at h
              cases hd : parseDuration tmo with
              | none => rw [hd] at h; cases h
              | some d =>
                refine ⟨ws0, ws1, pat, ws2, ws3, cnt, ws4, ws5, tmo, junk, after ++ rest', a0, b1, bp, b2, b3, bc,
                  b4, b5, bt, n5, nj, ?_, ?_, ?_, hcomp, (atoi_digits_iff bc).mp ⟨n, hn⟩, ⟨d, hd⟩⟩
                · rw [← e']; exact ai
                · unfold dotStar; rw [tw_split aa ar]; exact agt
                · rw [← e']; exact e
      | none =>
        cases h3 : scanFilter l with
        | some x =>
          right; right; right; left
          rw [parseLine_filter h0 h1 h2 h3] at h
          obtain ⟨ws1, ws2, ws3, rest, a1, a2, av, ane, a3, e⟩ := scanFilter_some h3
          have hshape := scanFilter_shape ws1 ws2 x.1 ws3 rest a1 a2 av ane a3
          rw [← e, h3] at hshape
          have hx2 : x.2 = dotStar (rest.dropWhile isWs) := by
            have := congrArg (fun o => o.map Prod.snd) hshape
            simpa using this
          refine ⟨ws1, ws2, x.1, ws3, rest.takeWhile isWs, rest.dropWhile isWs, a1, a2, av, ane, a3,
            all_takeWhile _ _, nohead_dropWhile _ _, ?_, ?_⟩
          · rw [List.takeWhile_append_dropWhile]; exact e
          · simp only [parseFilter] at h
            rcases verbOf_cases x.1 with ⟨ev, hw⟩ | ⟨ev, hw⟩ | ⟨ev, hw⟩ | ⟨ev, _⟩
            · rw [ev] at h
              simp only at h
              right
              refine ⟨Or.inr hw, ?_⟩
              rw [← hx2]
              cases hc : compiles x.2 with
              | true => rfl
              | false => simp [hc, isError] at h
            · rw [ev] at h
              simp only at h
              right
              refine ⟨Or.inl hw, ?_⟩
              rw [← hx2]
              cases hc : compiles x.2 with
              | true => rfl
              | false => simp [hc, isError] at h
            · exact Or.inl hw
            · rw [ev] at h; cases h
        | none =>
          right; right; right; right
          refine ⟨?_, ?_, ?_, ?_⟩
          · intro hc; exact (scanComment_iff l).mpr hc h0
          · intro hc; exact (scanDelay_iff l).mpr hc h1
          · intro hc; exact (scanCond_iff l).mpr hc h2
          · intro hc; exact (scanFilter_iff l).mpr hc h3

/-- a line is reported as an error exactly when it is not well-formed -/
theorem parse_error_iff_malformed (compiles : Str → Bool) (l : Str) :
    isError (parseLine compiles l) = true ↔ ¬ WellFormedLine compiles l := by
  constructor
  · intro h hw
    rw [not_error_of_wellFormed compiles l hw] at h
    cases h
  · intro h
    cases he : isError (parseLine compiles l) with
    | true => rfl
    | false => exact absurd (wellFormed_of_not_error compiles l he) h

/-- well-formedness is decidable (by running the parser) -/
instance (compiles : Str → Bool) (l : Str) : Decidable (WellFormedLine compiles l) :=
  decidable_of_iff (isError (parseLine compiles l) = false)
    ⟨wellFormed_of_not_error compiles l, not_error_of_wellFormed compiles l⟩

theorem check_err_iff (ps : List Parsed) : (check ps).2 = true ↔ ∃ p ∈ ps, isError p = true := by
  induction ps with
  | nil => simp [check]
  | cons p ps ih =>
    cases p with
    | error k => simp [check, isError]
    | comment _ _ => simpa [check, isError] using ih
    | wait _ => simpa [check, isError] using ih
    | send _ _ _ => simpa [check, isError] using ih
    | filter _ _ => simpa [check, isError] using ih

/-- **C20 (Check)**: for every file (list of lines) `Check` returns an error precisely when
    some line is malformed with respect to `WellFormedLine`; and it lists one entry per
    malformed line. -/
theorem check_iff_malformed (compiles : Str → Bool) (lines : List Str) :
    (checkLines compiles lines).2 = true ↔ ∃ l ∈ lines, ¬ WellFormedLine compiles l := by
  unfold checkLines
  rw [check_err_iff]
  constructor
  · rintro ⟨p, hp, he⟩
    obtain ⟨l, hl, rfl⟩ := List.mem_map.mp hp
    exact ⟨l, hl, (parse_error_iff_malformed compiles l).mp he⟩
  · rintro ⟨l, hl, hw⟩
    exact ⟨_, List.mem_map.mpr ⟨l, hl, rfl⟩, (parse_error_iff_malformed compiles l).mpr hw⟩

/-! ### non-vacuity -/

example : parseLine (fun _ => true) "  [ 1.5s ]  {\"some\":\"msg\"}".toList
    = .send "{\"some\":\"msg\"}".toList 1500000000 none := by decide
example : parseLine (fun _ => true) "[5] foo".toList = .error .delayFormat := by decide
example : parseLine (fun _ => true) "[] # sent".toList = .send "# sent".toList 0 none := by decide
example : parseLine (fun _ => true) " #+ echoed".toList = .comment true "echoed".toList := by decide
example : print_parse_roundtrip_example = true := by decide
/-- a small file: one malformed line (`[5] foo`) among well-formed ones makes `Check` fail, with one entry -/
example : checkLines (fun _ => true) ["# ok".toList, "[5] foo".toList, "[5s] foo".toList, "|r>".toList]
    = ([.delayFormat], true) := by decide
example : ¬ WellFormedLine (fun _ => true) "[5] foo".toList := by decide
example : WellFormedLine (fun _ => true) "<'x',5,10s junk> go".toList := by decide
example : parseLine (fun _ => true) "<'a>b',5,10s> x>y".toList
    = .send "y".toList 0 (some ⟨"a>b',5,10s> x".toList.take 3, 5, 10000000000⟩) := by decide

end PlayFile
