import Relay.Model.Reconws

/-!
# C19 — the reconnecting client comes back, backs off after failures, stops when told

All theorems quantify over every behaviour script (`List Behaviour` for `ReconnectAuth`,
`List WsB` for `Reconnect`), every loop state, every back-off configuration and every
cancellation point `(iteration, phase)`.

* `waits_follow_backoff` (`_auth`, `_plain`, `backoff_shape`)
      the sleeps are exactly the specification's: none at the start or after a success,
      `forAttempt c (s-1)` after `s` consecutive failures; `forAttempt c 0 = min`, non-decreasing,
      within [min, max], `= min max (min·factor^k)`
* `reset_after_success` (`_auth`, `_auth_trace`, `_plain`)
      after an attempt whose `Dial` returned nil the loop is in its initial state
* `always_retries_while_live` (`_auth`, `_plain`, `every_behaviour_attempted_*`, `attempts_before_cancel_*`)
      without cancellation no behaviour makes the loop return, every scripted behaviour gets its
      attempt, and the attempts before the cancellation iteration all happen
* `quiescent_after_cancel` (`_auth`, `_plain`)
      no POST and no dial after the cancellation instant
* `closes_on_cancel_connected`  cancelled while connected: Close frame, socket closed, return
* `fifo_while_connected` (`fifo_no_forward`)
      both message loops preserve order for every interleaving
* `status_ignored`  the HTTP status of the access response has no influence
* deviations of today's code, full statements kept as `def … : Prop` and refuted:
  `returns_promptly` (`not_returns_promptly`, `_plain`; what holds: `returns_promptly_partial`),
  `all_sockets_closed` (`not_all_sockets_closed`, `abandoned_socket_trace`; what holds:
  `all_sockets_closed_partial`, `closes_on_cancel_connected`)
* `post_after_cancel_without_recheck` shows what commit d54b2b4 repaired: the statement of
  `quiescent_after_cancel_auth` fails for the loop without the check after the sleep.
-/

namespace Reconws

/-! ### back-off arithmetic -/

theorem effFactor_pos (c : Cfg) : 0 < effFactor c := by
  unfold effFactor; split <;> omega

theorem effMin_pos (c : Cfg) : 0 < effMin c := by
  unfold effMin; split <;> omega

private theorem clamp_eq (mn mx d : Nat) (h : mn ≤ d) :
    (if d < mn then mn else if mx < d then mx else d) = min mx d := by
  rw [Nat.min_def]; split
  · omega
  · split <;> split <;> omega

theorem forAttempt_eq (c : Cfg) (k : Nat) :
    forAttempt c k =
      if effMax c ≤ effMin c then effMax c else min (effMax c) (effMin c * effFactor c ^ k) := by
  have hp : 0 < effFactor c ^ k := Nat.pow_pos (effFactor_pos c)
  have hge : effMin c ≤ effMin c * effFactor c ^ k := Nat.le_mul_of_pos_right _ hp
  unfold forAttempt
  split
  · rfl
  · exact clamp_eq _ _ _ hge

theorem forAttempt_le_max (c : Cfg) (k : Nat) : forAttempt c k ≤ effMax c := by
  rw [forAttempt_eq]; split
  · exact Nat.le_refl _
  · exact Nat.min_le_left _ _

theorem forAttempt_mono (c : Cfg) {j k : Nat} (h : j ≤ k) : forAttempt c j ≤ forAttempt c k := by
  rw [forAttempt_eq, forAttempt_eq]; split
  · exact Nat.le_refl _
  · have : effFactor c ^ j ≤ effFactor c ^ k := Nat.pow_le_pow_right (effFactor_pos c) h
    have : effMin c * effFactor c ^ j ≤ effMin c * effFactor c ^ k := Nat.mul_le_mul_left _ this
    rw [Nat.min_def, Nat.min_def]; split <;> split <;> omega

theorem forAttempt_zero (c : Cfg) (h : effMin c < effMax c) : forAttempt c 0 = effMin c := by
  rw [forAttempt_eq]
  have : ¬ effMax c ≤ effMin c := by omega
  simp only [this, if_false, Nat.pow_zero, Nat.mul_one]
  rw [Nat.min_def]; split <;> omega

theorem forAttempt_ge_min (c : Cfg) (k : Nat) (h : effMin c < effMax c) : effMin c ≤ forAttempt c k := by
  have := forAttempt_mono c (Nat.zero_le k)
  rw [forAttempt_zero c h] at this; exact this

/-- **shape of the waits** (for the configured values, zero fields replaced by the library
    defaults): start at min, never decrease, never exceed max, never below min, and are
    `min·factor^k` cut off at max. -/
theorem backoff_shape (c : Cfg) (h : effMin c < effMax c) :
    forAttempt c 0 = effMin c ∧
    (∀ j k, j ≤ k → forAttempt c j ≤ forAttempt c k) ∧
    (∀ k, effMin c ≤ forAttempt c k ∧ forAttempt c k ≤ effMax c) ∧
    (∀ k, forAttempt c k = min (effMax c) (effMin c * effFactor c ^ k)) := by
  refine ⟨forAttempt_zero c h, fun j k hjk => forAttempt_mono c hjk,
    fun k => ⟨forAttempt_ge_min c k h, forAttempt_le_max c k⟩, fun k => ?_⟩
  rw [forAttempt_eq]
  have : ¬ effMax c ≤ effMin c := by omega
  simp only [this, if_false]

/-- the harness configurations -/
example : (List.range 6).map (forAttempt ⟨20, 160, 2⟩) = [20, 40, 80, 160, 160, 160] := by decide
example : (List.range 5).map (forAttempt ⟨20, 160, 3⟩) = [20, 60, 160, 160, 160] := by decide
example : (List.range 5).map (forAttempt ⟨1000, 10000, 2⟩) = [1000, 2000, 4000, 8000, 10000] := by decide

/-! ### list helpers -/

theorem waitsOf_append (a b : List Event) : waitsOf (a ++ b) = waitsOf a ++ waitsOf b := by
  induction a with
  | nil => rfl
  | cons e es ih => cases e <;> simp [waitsOf, ih]

theorem countPosts_append (a b : List Event) : countPosts (a ++ b) = countPosts a + countPosts b := by
  induction a with
  | nil => simp [countPosts]
  | cons e es ih => cases e <;> simp [countPosts, ih] <;> omega

theorem countDials_append (a b : List Event) : countDials (a ++ b) = countDials a + countDials b := by
  induction a with
  | nil => simp [countDials]
  | cons e es ih => cases e <;> simp [countDials, ih] <;> omega

theorem nac_append (P : Event → Bool) (seen : Bool) (a b : List Event) :
    noneAfterCancel P seen (a ++ b) =
      (noneAfterCancel P seen a && noneAfterCancel P (seen || a.contains .cancel) b) := by
  induction a generalizing seen with
  | nil => simp [noneAfterCancel]
  | cons e es ih =>
    have hcomm : (Event.cancel == e) = (e == Event.cancel) := by
      rw [Bool.eq_iff_iff, beq_iff_eq, beq_iff_eq]; exact eq_comm
    simp only [List.cons_append, noneAfterCancel, ih, List.contains_cons, hcomm, Bool.and_assoc, Bool.or_assoc]

theorem nac_of_no_cancel (P : Event → Bool) (a : List Event) (h : a.contains .cancel = false) :
    noneAfterCancel P false a = true := by
  induction a with
  | nil => rfl
  | cons e es ih =>
    simp only [List.contains_cons, Bool.or_eq_false_iff] at h
    have h1 : (e == Event.cancel) = false := by
      cases h' : (e == Event.cancel)
      · rfl
      · have := h.1; simp_all [BEq.comm]
    simp [noneAfterCancel, h1, ih h.2]

/-! ### one iteration without cancellation -/

theorem authIter_none_next (r : Bool) (c : Cfg) (st : St) (b : Behaviour) :
    (authIter r c st b none).next =
      if stays b then .forever
      else .cont (if succeeds b then ⟨0, false⟩
                  else ⟨if st.wbd then st.attempt + 1 else st.attempt, true⟩) := by
  cases b with
  | okUri s w =>
    cases w with
    | serve k fin => cases fin <;> simp [authIter, dialWs, stays, succeeds, wsStays, wsOk]
    | _ => simp [authIter, dialWs, stays, succeeds, wsStays, wsOk]
  | _ => simp [authIter, stays, succeeds]

theorem authIter_none_waits (r : Bool) (c : Cfg) (st : St) (b : Behaviour) :
    waitsOf (authIter r c st b none).evs = if st.wbd then [forAttempt c st.attempt] else [] := by
  obtain ⟨a, wbd⟩ := st
  cases wbd <;>
  (cases b with
  | okUri s w =>
    cases w with
    | serve k fin =>
      cases fin with
      | drop p => cases p <;> simp [authIter, dialWs, mark, waitsOf]
      | _ => simp [authIter, dialWs, mark, waitsOf]
    | _ => simp [authIter, dialWs, mark, waitsOf]
  | _ => simp [authIter, mark, waitsOf])

theorem authIter_none_posts (r : Bool) (c : Cfg) (st : St) (b : Behaviour) :
    countPosts (authIter r c st b none).evs = 1 := by
  obtain ⟨a, wbd⟩ := st
  cases wbd <;>
  (cases b with
  | okUri s w =>
    cases w with
    | serve k fin =>
      cases fin with
      | drop p => cases p <;> simp [authIter, dialWs, mark, countPosts]
      | _ => simp [authIter, dialWs, mark, countPosts]
    | _ => simp [authIter, dialWs, mark, countPosts]
  | _ => simp [authIter, mark, countPosts])

theorem authIter_none_no_cancel (r : Bool) (c : Cfg) (st : St) (b : Behaviour) :
    (authIter r c st b none).evs.contains .cancel = false := by
  obtain ⟨a, wbd⟩ := st
  cases wbd <;>
  (cases b with
  | okUri s w =>
    cases w with
    | serve k fin =>
      cases fin with
      | drop p => cases p <;> simp [authIter, dialWs, mark]
      | _ => simp [authIter, dialWs, mark]
    | _ => simp [authIter, dialWs, mark]
  | _ => simp [authIter, mark])

/-- the iteration the cancellation falls in (today's code): nothing that looks like an attempt
    after the marker -/
theorem authIter_quiet (c : Cfg) (st : St) (b : Behaviour) (p : Phase) :
    quietB false (authIter true c st b (some p)).evs = true := by
  obtain ⟨a, wbd⟩ := st
  cases wbd <;> cases p <;>
  (cases b with
  | okUri s w =>
    cases w with
    | serve k fin =>
      cases fin with
      | drop q => cases q <;> simp [authIter, dialWs, mark, noneAfterCancel, isAttempt]
      | _ => simp [authIter, dialWs, mark, noneAfterCancel, isAttempt]
    | _ => simp [authIter, dialWs, mark, noneAfterCancel, isAttempt]
  | _ => simp [authIter, mark, noneAfterCancel, isAttempt])

/-! ### `ReconnectAuth`: run-level theorems -/

/-- unfolding of one loop iteration, cancellation elsewhere -/
theorem authRun_cons_none (r : Bool) (c : Cfg) (b : Behaviour) (bs : List Behaviour) (st : St)
    (cn : CancelAt) (h : here cn = none) :
    authRun r c (b :: bs) st cn =
      if stays b then ⟨(authIter r c st b none).evs, .forever⟩
      else
        let st' : St := if succeeds b then ⟨0, false⟩
                        else ⟨if st.wbd then st.attempt + 1 else st.attempt, true⟩
        ⟨(authIter r c st b none).evs ++ (authRun r c bs st' (later cn)).evs,
         (authRun r c bs st' (later cn)).fin⟩ := by
  have hn := authIter_none_next r c st b
  simp only [authRun, h]
  by_cases hs : stays b = true
  · simp only [hs, if_true] at hn ⊢; simp [hn]
  · simp only [hs] at hn ⊢; simp [hn]

/-- unfolding of the iteration the cancellation falls in -/
theorem authRun_cons_some (r : Bool) (c : Cfg) (b : Behaviour) (bs : List Behaviour) (st : St)
    (cn : CancelAt) (p : Phase) (h : here cn = some p) :
    (authRun r c (b :: bs) st cn).fin ≠ .live st ∧
    ((authRun r c (b :: bs) st cn).evs = (authIter r c st b (some p)).evs ∨
     (authRun r c (b :: bs) st cn).evs = (authIter r c st b (some p)).evs ++ [.returned]) := by
  simp only [authRun, h]
  cases (authIter r c st b (some p)).next <;> simp

/-- run-level lifting: if in the iteration a cancellation falls in nothing satisfying `P`
    follows the marker, the same holds for the whole run -/
theorem authRun_nac (P : Event → Bool) (hP : P .returned = false) (r : Bool) (c : Cfg)
    (script : List Behaviour) (st : St) (cn : CancelAt)
    (h : ∀ b ∈ script, ∀ st p, noneAfterCancel P false (authIter r c st b (some p)).evs = true) :
    noneAfterCancel P false (authRun r c script st cn).evs = true := by
  induction script generalizing st cn with
  | nil => rfl
  | cons b bs ih =>
    have ih' := fun st cn => ih st cn (fun x hx => h x (List.mem_cons_of_mem _ hx))
    cases hh : here cn with
    | none =>
      rw [authRun_cons_none r c b bs st cn hh]
      have hnc := authIter_none_no_cancel r c st b
      split
      · exact nac_of_no_cancel _ _ hnc
      · simp only [nac_append, hnc, Bool.false_or, nac_of_no_cancel _ _ hnc, Bool.true_and]
        exact ih' _ _
    | some p =>
      have hq := h b (List.mem_cons_self ..) st p
      rcases (authRun_cons_some r c b bs st cn p hh).2 with h' | h'
      · rw [h']; exact hq
      · rw [h', nac_append, hq]; simp [noneAfterCancel, hP]

/-- **C19 quiescence, `ReconnectAuth`** — for every script, state and cancellation point: after
    the instant of cancellation no access request and no websocket dial is started. -/
theorem quiescent_after_cancel_auth (c : Cfg) (script : List Behaviour) (st : St) (cn : CancelAt) :
    quietB false (authRun true c script st cn).evs = true :=
  authRun_nac isAttempt rfl true c script st cn (fun b _ st p => authIter_quiet c st b p)

/-- the streak of consecutive failures the loop state stands for -/
def streak (st : St) : Nat := if st.wbd then st.attempt + 1 else 0

/-- loop states the code can be in: `waitBeforeDial == false` only right after a `Reset()` -/
def St.Ok (st : St) : Prop := st.wbd = false → st.attempt = 0

/-- **C19 waits, `ReconnectAuth`** — for every script and every reachable loop state the
    sequence of sleeps of the uncancelled loop is exactly the specification's. -/
theorem waits_follow_backoff_auth (c : Cfg) (script : List Behaviour) (st : St) (hst : st.Ok) :
    waitsOf (authRun true c script st none).evs = specWaitsAuth c script (streak st) := by
  induction script generalizing st with
  | nil => rfl
  | cons b bs ih =>
    rw [authRun_cons_none true c b bs st none rfl]
    obtain ⟨a, wbd⟩ := st
    have hw := authIter_none_waits true c ⟨a, wbd⟩ b
    cases hs : stays b with
    | true =>
      simp only [if_true, hw, specWaitsAuth, streak, hs]
      cases wbd <;> simp
    | false =>
      cases hk : succeeds b with
      | true =>
        simp only [Bool.false_eq_true, if_false, if_true, waitsOf_append, hw, specWaitsAuth, hs, hk, later]
        rw [ih ⟨0, false⟩ (fun _ => rfl)]
        cases wbd <;> simp [streak]
      | false =>
        simp only [Bool.false_eq_true, if_false, waitsOf_append, hw, specWaitsAuth, hs, hk, later]
        rw [ih _ (fun h => by simp at h)]
        cases wbd
        · have : a = 0 := hst rfl
          subst this; simp [streak]
        · simp [streak]

/-- from the start: no wait before the first attempt, then `forAttempt c 0, 1, 2, …` while failing -/
theorem waits_follow_backoff_auth_start (c : Cfg) (script : List Behaviour) :
    waitsOf (reconnectAuth c script none).evs = specWaitsAuth c script 0 :=
  waits_follow_backoff_auth c script {} (fun _ => rfl)

/-- **C19 liveness, `ReconnectAuth`** — no behaviour of the servers makes the uncancelled loop
    return. -/
theorem always_retries_while_live_auth (r : Bool) (c : Cfg) (script : List Behaviour) (st : St) :
    (authRun r c script st none).fin ≠ .returned := by
  induction script generalizing st with
  | nil => simp [authRun]
  | cons b bs ih =>
    rw [authRun_cons_none r c b bs st none rfl]
    split
    · simp
    · exact ih _

/-- … and every scripted behaviour gets its attempt (unless one keeps the connection for good):
    one access request per script element, and the loop is still running at the end. -/
theorem every_behaviour_attempted_auth (r : Bool) (c : Cfg) (script : List Behaviour) (st : St)
    (hns : ∀ b ∈ script, stays b = false) :
    countPosts (authRun r c script st none).evs = script.length ∧
    ∃ st', (authRun r c script st none).fin = .live st' := by
  induction script generalizing st with
  | nil => exact ⟨rfl, st, rfl⟩
  | cons b bs ih =>
    rw [authRun_cons_none r c b bs st none rfl]
    have hb : stays b = false := hns b (List.mem_cons_self ..)
    have := ih (st := if succeeds b then ⟨0, false⟩ else ⟨if st.wbd then st.attempt + 1 else st.attempt, true⟩)
      (fun x hx => hns x (List.mem_cons_of_mem _ hx))
    simp only [hb, Bool.false_eq_true, if_false, countPosts_append, authIter_none_posts, later,
      List.length_cons]
    exact ⟨by omega, this.2⟩

/-- the attempts before the iteration the cancellation falls in all happen -/
theorem attempts_before_cancel_auth (r : Bool) (c : Cfg) (script : List Behaviour) (st : St)
    (n : Nat) (p : Phase) (hns : ∀ b ∈ script, stays b = false) :
    min n script.length ≤ countPosts (authRun r c script st (some (n, p))).evs := by
  induction script generalizing st n with
  | nil => simp
  | cons b bs ih =>
    cases n with
    | zero => simp
    | succ n =>
      rw [authRun_cons_none r c b bs st _ rfl]
      have hb : stays b = false := hns b (List.mem_cons_self ..)
      have := ih (st := if succeeds b then ⟨0, false⟩ else ⟨if st.wbd then st.attempt + 1 else st.attempt, true⟩)
        n (fun x hx => hns x (List.mem_cons_of_mem _ hx))
      simp only [hb, Bool.false_eq_true, if_false, countPosts_append, authIter_none_posts, later,
        List.length_cons]
      omega

/-- uncancelled runs compose -/
theorem authRun_append (r : Bool) (c : Cfg) (s₁ s₂ : List Behaviour) (st : St) :
    authRun r c (s₁ ++ s₂) st none =
      match (authRun r c s₁ st none).fin with
      | .live st' => ⟨(authRun r c s₁ st none).evs ++ (authRun r c s₂ st' none).evs,
                      (authRun r c s₂ st' none).fin⟩
      | f => ⟨(authRun r c s₁ st none).evs, f⟩ := by
  induction s₁ generalizing st with
  | nil => simp [authRun]
  | cons b bs ih =>
    rw [List.cons_append, authRun_cons_none r c b _ st none rfl, authRun_cons_none r c b bs st none rfl]
    split
    · rfl
    · simp only [later, ih]
      split <;> simp_all

/-- **C19 reset, `ReconnectAuth`** — whenever the attempt just made succeeded (`Dial` returned
    nil) the loop is back in its initial state: no wait before the next attempt, and the next
    failure waits `forAttempt c 0` again. -/
theorem reset_after_success_auth (r : Bool) (c : Cfg) (s₁ : List Behaviour) (b : Behaviour) (st st' : St)
    (hb : succeeds b = true) (hl : (authRun r c (s₁ ++ [b]) st none).fin = .live st') :
    st' = {} := by
  rw [authRun_append] at hl
  cases h1 : (authRun r c s₁ st none).fin with
  | live s1 =>
    simp only [h1] at hl
    have hsb : stays b = false := by
      cases b with
      | okUri s w => cases w with
        | serve k fin => cases fin <;> simp_all [succeeds, stays, wsOk, wsStays]
        | _ => simp_all [succeeds, wsOk]
      | _ => simp_all [succeeds]
    rw [authRun_cons_none r c b [] s1 none rfl] at hl
    simp only [hsb, hb, Bool.false_eq_true, if_false, if_true, authRun] at hl
    cases hl; rfl
  | returned => simp [h1] at hl
  | forever => simp [h1] at hl

/-- corollary in terms of the trace: a run through a success continues exactly like a fresh run -/
theorem reset_after_success_auth_trace (r : Bool) (c : Cfg) (s₁ s₂ : List Behaviour) (b : Behaviour) (st st' : St)
    (hb : succeeds b = true) (hl : (authRun r c (s₁ ++ [b]) st none).fin = .live st') :
    (authRun r c (s₁ ++ b :: s₂) st none).evs =
      (authRun r c (s₁ ++ [b]) st none).evs ++ (authRun r c s₂ {} none).evs := by
  have := reset_after_success_auth r c s₁ b st st' hb hl
  subst this
  have e : s₁ ++ b :: s₂ = (s₁ ++ [b]) ++ s₂ := by simp
  rw [e, authRun_append, hl]

/-- what commit d54b2b4 repaired: without the check after the sleep the statement of
    `quiescent_after_cancel_auth` fails — cancelled during the back-off sleep, the old loop
    POSTs once more. -/
theorem post_after_cancel_without_recheck :
    quietB false (authRun false ⟨20, 160, 2⟩ [.reqFail, .reqFail] {} (some (1, .wait))).evs = false ∧
    (authRun false ⟨20, 160, 2⟩ [.reqFail, .reqFail] {} (some (1, .wait))).evs =
      [.post, .wait 20, .cancel, .post, .returned] := by
  decide

/-! ### `Reconnect` (no access step) -/

theorem plainIter_none_next (c : Cfg) (st : St) (w : WsB) :
    (plainIter c st w none).next =
      if wsStays w then .forever
      else .cont (if wsOk w then ⟨0, false⟩ else ⟨st.attempt + 1, false⟩) := by
  cases w with
  | serve k fin => cases fin <;> simp [plainIter, dialWs, wsStays, wsOk]
  | _ => simp [plainIter, dialWs, wsStays, wsOk]

theorem plainIter_none_waits (c : Cfg) (st : St) (w : WsB) :
    waitsOf (plainIter c st w none).evs =
      if wsStays w then [] else if wsOk w then [] else [forAttempt c st.attempt] := by
  cases w with
  | serve k fin =>
    cases fin with
    | drop p => cases p <;> simp [plainIter, dialWs, mark, waitsOf, wsStays, wsOk]
    | _ => simp [plainIter, dialWs, mark, waitsOf, wsStays, wsOk]
  | _ => simp [plainIter, dialWs, mark, waitsOf, wsStays, wsOk]

theorem plainIter_none_dials (c : Cfg) (st : St) (w : WsB) :
    countDials (plainIter c st w none).evs = 1 := by
  cases w with
  | serve k fin =>
    cases fin with
    | drop p => cases p <;> simp [plainIter, dialWs, mark, countDials]
    | _ => simp [plainIter, dialWs, mark, countDials]
  | _ => simp [plainIter, dialWs, mark, countDials]

theorem plainIter_none_no_cancel (c : Cfg) (st : St) (w : WsB) :
    (plainIter c st w none).evs.contains .cancel = false := by
  cases w with
  | serve k fin =>
    cases fin with
    | drop p => cases p <;> simp [plainIter, dialWs, mark]
    | _ => simp [plainIter, dialWs, mark]
  | _ => simp [plainIter, dialWs, mark]

theorem plainIter_quiet (c : Cfg) (st : St) (w : WsB) (p : Phase) :
    quietB false (plainIter c st w (some p)).evs = true := by
  cases p <;>
  (cases w with
  | serve k fin =>
    cases fin with
    | drop q => cases q <;> simp [plainIter, dialWs, mark, noneAfterCancel, isAttempt]
    | _ => simp [plainIter, dialWs, mark, noneAfterCancel, isAttempt]
  | _ => simp [plainIter, dialWs, mark, noneAfterCancel, isAttempt])

theorem plainRun_cons_none (c : Cfg) (w : WsB) (ws : List WsB) (st : St)
    (cn : CancelAt) (h : here cn = none) :
    plainRun c (w :: ws) st cn =
      if wsStays w then ⟨(plainIter c st w none).evs, .forever⟩
      else
        let st' : St := if wsOk w then ⟨0, false⟩ else ⟨st.attempt + 1, false⟩
        ⟨(plainIter c st w none).evs ++ (plainRun c ws st' (later cn)).evs,
         (plainRun c ws st' (later cn)).fin⟩ := by
  have hn := plainIter_none_next c st w
  simp only [plainRun, h]
  cases hs : wsStays w
  · simp only [hs] at hn ⊢; simp [hn]
  · simp only [hs, if_true] at hn ⊢; simp [hn]

theorem plainRun_cons_some (c : Cfg) (w : WsB) (ws : List WsB) (st : St)
    (cn : CancelAt) (p : Phase) (h : here cn = some p) :
    (plainRun c (w :: ws) st cn).evs = (plainIter c st w (some p)).evs ∨
    (plainRun c (w :: ws) st cn).evs = (plainIter c st w (some p)).evs ++ [.returned] := by
  simp only [plainRun, h]
  cases (plainIter c st w (some p)).next <;> simp

theorem plainRun_nac (P : Event → Bool) (hP : P .returned = false) (c : Cfg)
    (script : List WsB) (st : St) (cn : CancelAt)
    (h : ∀ w ∈ script, ∀ st p, noneAfterCancel P false (plainIter c st w (some p)).evs = true) :
    noneAfterCancel P false (plainRun c script st cn).evs = true := by
  induction script generalizing st cn with
  | nil => rfl
  | cons w ws ih =>
    have ih' := fun st cn => ih st cn (fun x hx => h x (List.mem_cons_of_mem _ hx))
    cases hh : here cn with
    | none =>
      rw [plainRun_cons_none c w ws st cn hh]
      have hnc := plainIter_none_no_cancel c st w
      split
      · exact nac_of_no_cancel _ _ hnc
      · simp only [nac_append, hnc, Bool.false_or, nac_of_no_cancel _ _ hnc, Bool.true_and]
        exact ih' _ _
    | some p =>
      have hq := h w (List.mem_cons_self ..) st p
      rcases plainRun_cons_some c w ws st cn p hh with h' | h'
      · rw [h']; exact hq
      · rw [h', nac_append, hq]; simp [noneAfterCancel, hP]

/-- **C19 quiescence, `Reconnect`** — as written, the loop never dials after the cancellation. -/
theorem quiescent_after_cancel_plain (c : Cfg) (script : List WsB) (st : St) (cn : CancelAt) :
    quietB false (plainRun c script st cn).evs = true :=
  plainRun_nac isAttempt rfl c script st cn (fun w _ st p => plainIter_quiet c st w p)

/-- **C19 waits, `Reconnect`** — the sleep after the (s+1)-th consecutive failed dial is
    `forAttempt c s`; no sleep after a dial that connected. -/
theorem waits_follow_backoff_plain (c : Cfg) (script : List WsB) (st : St) :
    waitsOf (plainRun c script st none).evs = specWaitsPlain c script st.attempt := by
  induction script generalizing st with
  | nil => rfl
  | cons w ws ih =>
    rw [plainRun_cons_none c w ws st none rfl]
    have hw := plainIter_none_waits c st w
    cases hs : wsStays w with
    | true => simp only [if_true, hw, specWaitsPlain, hs]
    | false =>
      cases hk : wsOk w with
      | true =>
        simp only [Bool.false_eq_true, if_false, if_true, waitsOf_append, hw, specWaitsPlain, hs, hk, later]
        rw [ih]; simp
      | false =>
        simp only [Bool.false_eq_true, if_false, waitsOf_append, hw, specWaitsPlain, hs, hk, later]
        rw [ih]; simp

theorem always_retries_while_live_plain (c : Cfg) (script : List WsB) (st : St) :
    (plainRun c script st none).fin ≠ .returned := by
  induction script generalizing st with
  | nil => simp [plainRun]
  | cons w ws ih =>
    rw [plainRun_cons_none c w ws st none rfl]
    split
    · simp
    · exact ih _

theorem every_behaviour_attempted_plain (c : Cfg) (script : List WsB) (st : St)
    (hns : ∀ w ∈ script, wsStays w = false) :
    countDials (plainRun c script st none).evs = script.length ∧
    ∃ st', (plainRun c script st none).fin = .live st' := by
  induction script generalizing st with
  | nil => exact ⟨rfl, st, rfl⟩
  | cons w ws ih =>
    rw [plainRun_cons_none c w ws st none rfl]
    have hb : wsStays w = false := hns w (List.mem_cons_self ..)
    have := ih (st := if wsOk w then ⟨0, false⟩ else ⟨st.attempt + 1, false⟩)
      (fun x hx => hns x (List.mem_cons_of_mem _ hx))
    simp only [hb, Bool.false_eq_true, if_false, countDials_append, plainIter_none_dials, later,
      List.length_cons]
    exact ⟨by omega, this.2⟩

theorem attempts_before_cancel_plain (c : Cfg) (script : List WsB) (st : St)
    (n : Nat) (p : Phase) (hns : ∀ w ∈ script, wsStays w = false) :
    min n script.length ≤ countDials (plainRun c script st (some (n, p))).evs := by
  induction script generalizing st n with
  | nil => simp
  | cons w ws ih =>
    cases n with
    | zero => simp
    | succ n =>
      rw [plainRun_cons_none c w ws st _ rfl]
      have hb : wsStays w = false := hns w (List.mem_cons_self ..)
      have := ih (st := if wsOk w then ⟨0, false⟩ else ⟨st.attempt + 1, false⟩)
        n (fun x hx => hns x (List.mem_cons_of_mem _ hx))
      simp only [hb, Bool.false_eq_true, if_false, countDials_append, plainIter_none_dials, later,
        List.length_cons]
      omega

/-- **C19 reset, `Reconnect`** — a dial that connected puts the back-off counter back to 0,
    whatever happened before. -/
theorem reset_after_success_plain (c : Cfg) (st : St) (w : WsB) (ws : List WsB) (hw : wsOk w = true) :
    (plainRun c (w :: ws) st none).evs = (plainIter c st w none).evs ++ (plainRun c ws {} none).evs := by
  have hs : wsStays w = false := by
    cases w with
    | serve k fin => cases fin <;> simp_all [wsOk, wsStays]
    | _ => simp_all [wsOk]
  rw [plainRun_cons_none c w ws st none rfl]
  simp [hs, hw, later]

/-! ### while connected -/

/-- **C19 close on cancel** — cancelled while the connection is up (after any number of
    messages, or while the handshake was being answered): the client writes a Close frame, closes
    its socket, `Dial` returns nil, the loop returns, for every server behaviour `fin`. -/
theorem closes_on_cancel_connected (c : Cfg) (st : St) (s k j : Nat) (fin : Finish) (rest : List Behaviour) :
    ∃ pre, (authRun true c (.okUri s (.serve k fin) :: rest) st (some (0, .conn j))).evs =
        pre ++ [.cancel, .closeFrame, .sockClosed, .reset, .returned] ∧
      (authRun true c (.okUri s (.serve k fin) :: rest) st (some (0, .conn j))).fin = .returned ∧
    (plainRun c [.serve k fin] st (some (0, .conn j))).evs =
        [.dial, .connected, .msgs (min j k), .cancel, .closeFrame, .sockClosed, .reset, .returned] := by
  obtain ⟨a, wbd⟩ := st
  cases wbd
  · refine ⟨[.post, .dial, .connected, .msgs (min j k)], ?_, ?_, ?_⟩ <;>
      simp [authRun, authIter, plainRun, plainIter, dialWs, here, mark]
  · refine ⟨[.wait (forAttempt c a), .post, .dial, .connected, .msgs (min j k)], ?_, ?_, ?_⟩ <;>
      simp [authRun, authIter, plainRun, plainIter, dialWs, here, mark]

/-- **C19 order while connected** — for every sequence the peer sent, every sequence the
    application offers and every interleaving of the reader goroutine and the writer loop:
    what was forwarded is a prefix of what was sent, what was written is a prefix of what was
    offered (nothing reordered, duplicated or invented), and the rest is still pending. -/
theorem fifo_while_connected {μ : Type} (sent offered : List μ) (sched : List CStep) :
    (crun true sent offered sched).delivered ++ (crun true sent offered sched).wire = sent ∧
    (crun true sent offered sched).written ++ (crun true sent offered sched).offered = offered := by
  unfold crun
  suffices h : ∀ (c : Conn μ), c.delivered ++ c.wire = sent → c.written ++ c.offered = offered →
      (sched.foldl (cstep true) c).delivered ++ (sched.foldl (cstep true) c).wire = sent ∧
      (sched.foldl (cstep true) c).written ++ (sched.foldl (cstep true) c).offered = offered from
    h ⟨sent, [], offered, []⟩ rfl rfl
  induction sched with
  | nil => intro c h1 h2; exact ⟨h1, h2⟩
  | cons x xs ih =>
    intro c h1 h2
    simp only [List.foldl_cons]
    apply ih
    · cases x with
      | read =>
        simp only [cstep]
        cases hw : c.wire with
        | nil => simpa [hw] using h1
        | cons m r => simp [hw] at h1 ⊢; exact h1
      | write =>
        simp only [cstep]
        cases ho : c.offered with
        | nil => exact h1
        | cons m r => exact h1
    · cases x with
      | read =>
        simp only [cstep]
        cases hw : c.wire with
        | nil => exact h2
        | cons m r => exact h2
      | write =>
        simp only [cstep]
        cases ho : c.offered with
        | nil => simpa [ho] using h2
        | cons m r => simp [ho] at h2 ⊢; exact h2

/-- with `ForwardIncoming == false` nothing is forwarded, the outgoing direction is unchanged -/
theorem fifo_no_forward {μ : Type} (sent offered : List μ) (sched : List CStep) :
    (crun false sent offered sched).delivered = [] := by
  unfold crun
  suffices h : ∀ (c : Conn μ), c.delivered = [] → (sched.foldl (cstep false) c).delivered = [] from
    h ⟨sent, [], offered, []⟩ rfl
  induction sched with
  | nil => intro c h; exact h
  | cons x xs ih =>
    intro c h
    simp only [List.foldl_cons]
    apply ih
    cases x with
    | read => simp only [cstep]; cases c.wire <;> simp [h]
    | write => simp only [cstep]; cases c.offered <;> simp [h]

/-- the HTTP status of the access response is never looked at -/
theorem status_ignored (r : Bool) (c : Cfg) (st : St) (s s' : Nat) (w : WsB) (u : BadUri) (ph : Option Phase) :
    authIter r c st (.okUri s w) ph = authIter r c st (.okUri s' w) ph ∧
    authIter r c st (.badUri s u) ph = authIter r c st (.badUri s' u) ph ∧
    authIter r c st (.badJson s) ph = authIter r c st (.badJson s') ph ∧
    authIter r c st (.bodyErr s) ph = authIter r c st (.bodyErr s') ph := by
  simp [authIter]

/-! ### deviations of the code from the property (full statements kept, refuted, weakened) -/

/-- full statement: the loop function is back promptly after the cancellation — it never sits
    in a call the cancellation does not interrupt. **False today.** -/
def returns_promptly : Prop :=
  (∀ (c : Cfg) (script : List Behaviour) (cn : CancelAt),
      promptB false (reconnectAuth c script cn).evs = true) ∧
  (∀ (c : Cfg) (script : List WsB) (cn : CancelAt),
      promptB false (reconnect c script cn).evs = true)

/-- witnesses: cancelled while the access request is unanswered, `ReconnectAuth` stays in
    `client.Do` until the 10 s client timeout (no context on the request); cancelled while the
    websocket handshake is unanswered, both loops stay in `DialContext` until the 45 s handshake
    deadline (gorilla 1.5.0 uses the context for the TCP connect only). -/
theorem not_returns_promptly : ¬ returns_promptly := by
  intro h
  have := h.1 ⟨20, 160, 2⟩ [.accessHang] (some (0, .post))
  revert this; decide

theorem not_returns_promptly_plain :
    promptB false (reconnect ⟨20, 160, 2⟩ [.hang] (some (0, .handshake))).evs = false ∧
    (reconnect ⟨20, 160, 2⟩ [.hang] (some (0, .handshake))).evs =
      [.dial, .cancel, .blocked 45000, .wait 20, .returned] := by decide

theorem authIter_prompt (r : Bool) (c : Cfg) (st : St) (b : Behaviour) (p : Phase) (hb : hangs b = false) :
    promptB false (authIter r c st b (some p)).evs = true := by
  obtain ⟨a, wbd⟩ := st
  cases r <;> cases wbd <;> cases p <;>
  (cases b with
  | okUri s w =>
    cases w with
    | serve k fin =>
      cases fin with
      | drop q => cases q <;> simp [authIter, dialWs, mark, noneAfterCancel, isBlocked]
      | _ => simp [authIter, dialWs, mark, noneAfterCancel, isBlocked]
    | hang => simp [hangs, wsHangs] at hb
    | _ => simp [authIter, dialWs, mark, noneAfterCancel, isBlocked]
  | accessHang => simp [hangs] at hb
  | _ => simp [authIter, mark, noneAfterCancel, isBlocked])

theorem plainIter_prompt (c : Cfg) (st : St) (w : WsB) (p : Phase) (hw : wsHangs w = false) :
    promptB false (plainIter c st w (some p)).evs = true := by
  cases p <;>
  (cases w with
  | serve k fin =>
    cases fin with
    | drop q => cases q <;> simp [plainIter, dialWs, mark, noneAfterCancel, isBlocked]
    | _ => simp [plainIter, dialWs, mark, noneAfterCancel, isBlocked]
  | hang => simp [wsHangs] at hw
  | _ => simp [plainIter, dialWs, mark, noneAfterCancel, isBlocked])

/-- what does hold: if no server leaves a request or a handshake unanswered, nothing blocks after
    the cancellation (for every script of such behaviours and every cancellation point) -/
theorem returns_promptly_partial :
    (∀ (c : Cfg) (script : List Behaviour) (cn : CancelAt), (∀ b ∈ script, hangs b = false) →
        promptB false (reconnectAuth c script cn).evs = true) ∧
    (∀ (c : Cfg) (script : List WsB) (cn : CancelAt), (∀ w ∈ script, wsHangs w = false) →
        promptB false (reconnect c script cn).evs = true) :=
  ⟨fun c script cn h => authRun_nac isBlocked rfl true c script {} cn
      (fun b hb st p => authIter_prompt true c st b p (h b hb)),
   fun c script cn h => plainRun_nac isBlocked rfl c script {} cn
      (fun w hw st p => plainIter_prompt c st w p (h w hw))⟩

def isAbandoned : Event → Bool
  | .abandoned _ _ => true
  | _ => false

/-- full statement: every socket the client opened is closed by the client. **False today.** -/
def all_sockets_closed : Prop :=
  ∀ (c : Cfg) (script : List Behaviour) (cn : CancelAt),
    (reconnectAuth c script cn).evs.any isAbandoned = false

/-- witness: a message `WriteMessage` rejects (e.g. `WsMessage{Type: 0}`) makes `Dial` return
    nil with the socket open and the reader goroutine alive; the loop reconnects at once (the
    back-off was reset) and, once cancelled, returns without ever closing that socket.  The
    same happens (reader gone) whenever the peer ends the connection: `Dial` only calls
    `c.Close()` on the `ctx.Done()` branch. -/
theorem not_all_sockets_closed : ¬ all_sockets_closed := by
  intro h
  have := h ⟨20, 160, 2⟩ [.okUri 200 (.serve 1 .writeErr), .reqFail, .reqFail] (some (2, .wait))
  revert this; decide

theorem abandoned_socket_trace :
    (reconnectAuth ⟨20, 160, 2⟩ [.okUri 200 (.serve 1 .writeErr), .reqFail, .reqFail] (some (2, .wait))).evs =
      [.post, .dial, .connected, .msgs 1, .writeFail, .abandoned true true, .reset,
       .post, .wait 20, .cancel, .returned] := by decide

theorem authIter_no_abandon (r : Bool) (c : Cfg) (st : St) (b : Behaviour) (ph : Option Phase)
    (hb : succeeds b = false ∨ ∃ j, ph = some (.conn j) ∨ ph = some .handshake) :
    (authIter r c st b ph).evs.any isAbandoned = false := by
  obtain ⟨a, wbd⟩ := st
  cases b with
  | okUri s w =>
    cases w with
    | serve k fin =>
      cases fin with
      | stay => cases r <;> cases wbd <;> cases ph <;> (try rename_i p; cases p) <;>
          simp [authIter, dialWs, mark, isAbandoned]
      | drop q =>
        rcases hb with hb | ⟨j, hb | hb⟩
        · simp [succeeds, wsOk] at hb
        · subst hb; cases r <;> cases wbd <;> simp [authIter, dialWs, mark, isAbandoned]
        · subst hb; cases r <;> cases wbd <;> simp [authIter, dialWs, mark, isAbandoned]
      | writeErr =>
        rcases hb with hb | ⟨j, hb | hb⟩
        · simp [succeeds, wsOk] at hb
        · subst hb; cases r <;> cases wbd <;> simp [authIter, dialWs, mark, isAbandoned]
        · subst hb; cases r <;> cases wbd <;> simp [authIter, dialWs, mark, isAbandoned]
    | _ => cases r <;> cases wbd <;> cases ph <;> (try rename_i p; cases p) <;>
          simp [authIter, dialWs, mark, isAbandoned]
  | _ => cases r <;> cases wbd <;> cases ph <;> (try rename_i p; cases p) <;>
          simp [authIter, mark, isAbandoned]

/-- what does hold: a socket is left open only by an attempt whose connection was ended by the
    peer or by a write error — never by the cancellation itself (see `closes_on_cancel_connected`)
    and never by a failed attempt. -/
theorem all_sockets_closed_partial (r : Bool) (c : Cfg) (script : List Behaviour) (st : St) (cn : CancelAt)
    (h : ∀ b ∈ script, succeeds b = false) :
    (authRun r c script st cn).evs.any isAbandoned = false := by
  induction script generalizing st cn with
  | nil => rfl
  | cons b bs ih =>
    have hb := h b (List.mem_cons_self ..)
    have ih' := fun st cn => ih st cn (fun x hx => h x (List.mem_cons_of_mem _ hx))
    cases hh : here cn with
    | none =>
      rw [authRun_cons_none r c b bs st cn hh]
      have := authIter_no_abandon r c st b none (Or.inl hb)
      split
      · exact this
      · simp only [List.any_append, this, Bool.false_or]; exact ih' _ _
    | some p =>
      have := authIter_no_abandon r c st b (some p) (Or.inl hb)
      rcases (authRun_cons_some r c b bs st cn p hh).2 with h' | h'
      · rw [h']; exact this
      · rw [h', List.any_append, this]; simp [isAbandoned]

/-! ### the property, both loops together -/

/-- **C19 (waits)** for every script and reachable loop state, both loops: the sleeps are the
    specification's (`specWaitsAuth`/`specWaitsPlain`: none at the start or after a success,
    `forAttempt c (s-1)` after `s` consecutive failures), and `forAttempt` starts at min, never
    decreases and stays within [min, max]. -/
theorem waits_follow_backoff (c : Cfg) :
    (∀ (script : List Behaviour) (st : St), st.Ok →
        waitsOf (authRun true c script st none).evs = specWaitsAuth c script (streak st)) ∧
    (∀ (script : List WsB) (st : St),
        waitsOf (plainRun c script st none).evs = specWaitsPlain c script st.attempt) ∧
    (effMin c < effMax c →
        forAttempt c 0 = effMin c ∧ (∀ j k, j ≤ k → forAttempt c j ≤ forAttempt c k) ∧
        ∀ k, effMin c ≤ forAttempt c k ∧ forAttempt c k ≤ effMax c) :=
  ⟨fun script st h => waits_follow_backoff_auth c script st h,
   fun script st => waits_follow_backoff_plain c script st,
   fun h => ⟨(backoff_shape c h).1, (backoff_shape c h).2.1, (backoff_shape c h).2.2.1⟩⟩

/-- **C19 (reset)** both loops: after an attempt whose `Dial` returned nil the loop continues
    exactly like a freshly started one. -/
theorem reset_after_success (c : Cfg) :
    (∀ (s₁ s₂ : List Behaviour) (b : Behaviour) (st st' : St), succeeds b = true →
        (authRun true c (s₁ ++ [b]) st none).fin = .live st' →
        st' = {} ∧ (authRun true c (s₁ ++ b :: s₂) st none).evs =
          (authRun true c (s₁ ++ [b]) st none).evs ++ (authRun true c s₂ {} none).evs) ∧
    (∀ (st : St) (w : WsB) (ws : List WsB), wsOk w = true →
        (plainRun c (w :: ws) st none).evs = (plainIter c st w none).evs ++ (plainRun c ws {} none).evs) :=
  ⟨fun s₁ s₂ b st st' hb hl => ⟨reset_after_success_auth true c s₁ b st st' hb hl,
      reset_after_success_auth_trace true c s₁ s₂ b st st' hb hl⟩,
   fun st w ws hw => reset_after_success_plain c st w ws hw⟩

/-- **C19 (liveness)** both loops: no server behaviour makes the uncancelled loop return; every
    scripted behaviour gets its attempt; with a cancellation at iteration `n` the `n` attempts
    before it all happen. -/
theorem always_retries_while_live (c : Cfg) :
    (∀ (script : List Behaviour) (st : St), (authRun true c script st none).fin ≠ .returned) ∧
    (∀ (script : List WsB) (st : St), (plainRun c script st none).fin ≠ .returned) ∧
    (∀ (script : List Behaviour) (st : St), (∀ b ∈ script, stays b = false) →
        countPosts (authRun true c script st none).evs = script.length) ∧
    (∀ (script : List WsB) (st : St), (∀ w ∈ script, wsStays w = false) →
        countDials (plainRun c script st none).evs = script.length) ∧
    (∀ (script : List Behaviour) (st : St) (n : Nat) (p : Phase), (∀ b ∈ script, stays b = false) →
        min n script.length ≤ countPosts (authRun true c script st (some (n, p))).evs) ∧
    (∀ (script : List WsB) (st : St) (n : Nat) (p : Phase), (∀ w ∈ script, wsStays w = false) →
        min n script.length ≤ countDials (plainRun c script st (some (n, p))).evs) :=
  ⟨fun s st => always_retries_while_live_auth true c s st,
   fun s st => always_retries_while_live_plain c s st,
   fun s st h => (every_behaviour_attempted_auth true c s st h).1,
   fun s st h => (every_behaviour_attempted_plain c s st h).1,
   fun s st n p h => attempts_before_cancel_auth true c s st n p h,
   fun s st n p h => attempts_before_cancel_plain c s st n p h⟩

/-- **C19 (quiescence)** both loops, every script, every loop state, every cancellation point:
    no access request and no websocket dial starts after the cancellation. -/
theorem quiescent_after_cancel (c : Cfg) (cn : CancelAt) :
    (∀ (script : List Behaviour) (st : St), quietB false (authRun true c script st cn).evs = true) ∧
    (∀ (script : List WsB) (st : St), quietB false (plainRun c script st cn).evs = true) :=
  ⟨fun s st => quiescent_after_cancel_auth c s st cn, fun s st => quiescent_after_cancel_plain c s st cn⟩

/-! ### non-vacuity: concrete runs -/

/-- a run through every kind of failure, a connection that is dropped, more failures: the
    waits grow 20, 40, 80, 160, 160, restart at 20 after the success; 403 with a JSON uri is dialled -/
example :
    (reconnectAuth ⟨20, 160, 2⟩
      [.reqFail, .badJson 500, .badUri 401 .empty, .okUri 200 .refuse, .bodyErr 200, .okUri 200 (.reject 403),
       .okUri 403 (.serve 2 (.drop false)), .reqFail, .okUri 200 (.serve 0 (.drop true)), .reqFail] none).evs =
      [.post, .wait 20, .post, .wait 40, .post, .wait 80, .post, .dial, .wait 160, .post,
       .wait 160, .post, .dial,
       .wait 160, .post, .dial, .connected, .msgs 2, .serverDrop, .abandoned false false, .reset,
       .post, .wait 20, .post, .dial, .connected, .msgs 0, .serverDrop, .closeFrame, .abandoned true false, .reset,
       .post] := by decide

/-- cancelled in the back-off sleep (today's code): the sleep ends, no further request -/
example :
    (reconnectAuth ⟨20, 160, 3⟩ [.reqFail, .reqFail, .reqFail] (some (2, .wait))).evs =
      [.post, .wait 20, .post, .wait 60, .cancel, .returned] := by decide

/-- cancelled with the access request in flight: it completes, the dial is not made -/
example :
    (reconnectAuth ⟨20, 160, 2⟩ [.okUri 200 (.serve 3 .stay)] (some (0, .post))).evs =
      [.post, .cancel, .returned] := by decide

/-- `Reconnect`: cancelled while its dial is being refused, it still sleeps the back-off, then returns -/
example :
    (reconnect ⟨20, 160, 2⟩ [.refuse, .reject 500, .serve 1 (.drop false), .refuse] (some (3, .handshake))).evs =
      [.dial, .wait 20, .dial, .wait 40, .dial, .connected, .msgs 1, .serverDrop, .abandoned false false, .reset,
       .dial, .cancel, .wait 20, .returned] := by decide

/-- a server that accepts and drops at once is retried without any wait (the back-off only
    counts attempts whose `Dial` returned an error) -/
example (n : Nat) : specWaitsPlain ⟨20, 160, 2⟩ (List.replicate n (.serve 0 (.drop false))) 0 = [] := by
  induction n with
  | zero => rfl
  | succ n ih => simpa [List.replicate_succ, specWaitsPlain, wsStays, wsOk] using ih

example :
    (crun true [1, 2, 3] [7, 8] [.read, .write, .write, .write, .read]).delivered = [1, 2] ∧
    (crun true [1, 2, 3] [7, 8] [.read, .write, .write, .write, .read]).written = [7, 8] := by decide

end Reconws
