import Relay.Model.Rwc
import Relay.Lemmas.RwcKV

/-!
# C16 — each destination rule owns one outgoing connection, replaced/removed on command

All theorems quantify over every operation history (`∀ ops : List Op`): rule add / replace /
delete / delete-all, broadcasts, messages coming in from destinations, and destinations going
down, coming up and dropping connections, over arbitrary ids, streams, destinations and any
(static) aggregation configuration.

* `one_live_per_id`          one client per id; a generation belongs to one id; every generation
                             ever created is either that registered client or cancelled
* `live_is_latest_rule`      the live generation of id i is the one created by the most recent add
                             of i that no delete/deleteAll followed (explicit history form)
* `hub_refines_cell`         the same as a refinement to a one-cell-per-id specification
* `live_matches_rule`        the live client's destination and stream are those of the listed rule
* `nothing_after_supersede`  after replace/delete/deleteAll of i the old generation is in the
                             delivered-to set of no later broadcast / incoming message, and is never live again
* `others_keep_flowing`      frame: an op on id i leaves rule, client, liveness and deliveries of j ≠ i alone
* `listing_exact`            rule listing = added − deleted, per id; no duplicates
* `reserved_id_unreachable`  "deleteAll" is never a key of rules / clients
* `id_taken_verbatim`        every id string ≠ "deleteAll" (blank/slash/case variants of it too) is stored under
                             exactly itself, all other ids untouched; `delete_taken_verbatim` likewise for delete
* `no_orphans`               the ghost observation printed by the driver is always empty
* `cancelled_never_dials`    a generation whose context was cancelled opens no connection because of any later operation
                             (its destination coming up / dropping, time passing, ...); `superseded_never_connects` is the
                             history form; `accepts_count_dials` ties the per-destination accept counter to `dials`;
                             `idle_is_silent`: time passing changes nothing
-/

namespace Rwc
open KV

/-- representation invariant of the hub -/
structure Inv (s : St) : Prop where
  ndr : NoDupKeys s.rules
  ndc : NoDupKeys s.clients
  agree : ∀ id, lookup s.rules id = (lookup s.clients id).map (fun c => (⟨c.stream, c.dest⟩ : Rule))
  fresh : ∀ id c, lookup s.clients id = some c → c.gen < s.nextGen
  cancLt : ∀ g, g ∈ s.cancelled → g < s.nextGen
  liveNC : ∀ id c, lookup s.clients id = some c → c.gen ∉ s.cancelled
  inj : ∀ i j ci cj, lookup s.clients i = some ci → lookup s.clients j = some cj →
          ci.gen = cj.gen → i = j
  complete : ∀ g, g < s.nextGen → g ∈ s.cancelled ∨ ∃ id c, lookup s.clients id = some c ∧ c.gen = g
  resv : lookup s.clients reserved = none

theorem inv_init (cfg : KV (List String)) (downs : List Dest) (acc : KV Nat) :
    Inv { cfg := cfg, downs := downs, accepts := acc } :=
  ⟨trivial, trivial, fun _ => rfl, fun _ _ h => by simp at h, fun _ h => by simp at h,
   fun _ _ h => by simp at h, fun _ _ _ _ h => by simp at h, fun _ h => by simp at h, rfl⟩

/-- the invariant only looks at rules, clients, nextGen, cancelled -/
theorem inv_of_core_eq {s s' : St} (h : Inv s) (h1 : s'.rules = s.rules) (h2 : s'.clients = s.clients)
    (h3 : s'.nextGen = s.nextGen) (h4 : s'.cancelled = s.cancelled) : Inv s' := by
  obtain ⟨a, b, c, d, e, f, g, i, j⟩ := h
  constructor
  · rw [h1]; exact a
  · rw [h2]; exact b
  · rw [h1, h2]; exact c
  · rw [h2, h3]; exact d
  · rw [h3, h4]; exact e
  · rw [h2, h4]; exact f
  · rw [h2]; exact g
  · rw [h2, h3, h4]; exact i
  · rw [h2]; exact j

/-- the cancelled log after superseding the client of `id` -/
def cancelOld (s : St) (id : String) : List Gen :=
  match lookup s.clients id with
  | some c => c.gen :: s.cancelled
  | none => s.cancelled

theorem mem_cancelOld (s : St) (id : String) (g : Gen) :
    g ∈ cancelOld s id ↔ g ∈ s.cancelled ∨ ∃ c, lookup s.clients id = some c ∧ c.gen = g := by
  unfold cancelOld
  cases h : lookup s.clients id with
  | none => simp
  | some c =>
    simp only [List.mem_cons, Option.some.injEq, exists_eq_left']
    constructor
    · rintro (e | e)
      · exact Or.inr e.symm
      · exact Or.inl e
    · rintro (e | e)
      · exact Or.inr e
      · exact Or.inl e.symm

theorem step_add (s : St) (id : String) (st : Stream) (d : Dest) (h : id ≠ reserved) :
    step s (.add id st d) =
      { s with cancelled := cancelOld s id, rules := insert s.rules id ⟨st, d⟩,
               clients := insert s.clients id ⟨s.nextGen, d, st⟩, nextGen := s.nextGen + 1,
               accepts := if isUp s d then bump s.accepts d 1 else s.accepts } := by
  simp only [step, h, if_false, cancelOld]
  rfl

theorem step_add_reserved (s : St) (st : Stream) (d : Dest) : step s (.add reserved st d) = s := by
  simp [step]

theorem step_delete (s : St) (id : String) (h : id ≠ reserved) :
    step s (.delete id) =
      { s with cancelled := cancelOld s id, clients := erase s.clients id, rules := erase s.rules id } := by
  simp only [step, h, if_false, cancelOld]
  rfl

theorem step_deleteAll (s : St) :
    step s (.delete reserved) =
      { s with cancelled := gens s.clients ++ s.cancelled, rules := [], clients := [] } := by
  simp [step]

theorem mem_gens (m : KV Cl) (nd : NoDupKeys m) (g : Gen) :
    g ∈ gens m ↔ ∃ id c, lookup m id = some c ∧ c.gen = g := by
  unfold gens
  rw [List.mem_map]
  constructor
  · rintro ⟨⟨id, c⟩, hm, e⟩
    exact ⟨id, c, lookup_of_mem m id c nd hm, e⟩
  · rintro ⟨id, c, hl, e⟩
    exact ⟨(id, c), mem_of_lookup m id c hl, e⟩

theorem add_inv (s : St) (id : String) (st : Stream) (d : Dest) (hid : id ≠ reserved) (h : Inv s) :
    Inv (step s (.add id st d)) := by
  rw [step_add s id st d hid]
  obtain ⟨ndr, ndc, agree, fresh, cancLt, liveNC, inj, complete, resv⟩ := h
  constructor
  · exact nodup_insert _ _ _ ndr
  · exact nodup_insert _ _ _ ndc
  · intro k
    by_cases hk : id = k
    · subst hk; simp
    · simp only [lookup_insert_ne _ _ hk]; exact agree k
  · intro k c hc
    by_cases hk : id = k
    · subst hk
      simp only [lookup_insert_self, Option.some.injEq] at hc
      subst hc; exact Nat.lt_succ_self _
    · simp only [lookup_insert_ne _ _ hk] at hc
      exact Nat.lt_succ_of_lt (fresh k c hc)
  · intro g hg
    rcases (mem_cancelOld s id g).mp hg with e | ⟨c, hc, e⟩
    · exact Nat.lt_succ_of_lt (cancLt g e)
    · subst e; exact Nat.lt_succ_of_lt (fresh id c hc)
  · intro k c hc hg
    by_cases hk : id = k
    · subst hk
      simp only [lookup_insert_self, Option.some.injEq] at hc
      subst hc
      rcases (mem_cancelOld s id _).mp hg with e | ⟨c, hc, e⟩
      · exact absurd (cancLt _ e) (Nat.lt_irrefl _)
      · have := fresh id c hc
        have e' : c.gen = s.nextGen := e
        exact Nat.ne_of_lt this e'
    · simp only [lookup_insert_ne _ _ hk] at hc
      rcases (mem_cancelOld s id _).mp hg with e | ⟨c', hc', e⟩
      · exact liveNC k c hc e
      · exact hk (inj id k c' c hc' hc e)
  · intro i j ci cj hi hj e
    by_cases h1 : id = i <;> by_cases h2 : id = j
    · exact h1.symm.trans h2
    · subst h1
      simp only [lookup_insert_self, Option.some.injEq] at hi
      simp only [lookup_insert_ne _ _ h2] at hj
      subst hi
      have := fresh j cj hj
      have e' : s.nextGen = cj.gen := e
      exact absurd e'.symm (Nat.ne_of_lt this)
    · subst h2
      simp only [lookup_insert_self, Option.some.injEq] at hj
      simp only [lookup_insert_ne _ _ h1] at hi
      subst hj
      have := fresh i ci hi
      have e' : ci.gen = s.nextGen := e
      exact absurd e' (Nat.ne_of_lt this)
    · simp only [lookup_insert_ne _ _ h1] at hi
      simp only [lookup_insert_ne _ _ h2] at hj
      exact inj i j ci cj hi hj e
  · intro g hg
    by_cases hgn : g = s.nextGen
    · exact Or.inr ⟨id, ⟨s.nextGen, d, st⟩, by simp, hgn.symm⟩
    · have hlt : g < s.nextGen := by
        have hg' : g < s.nextGen + 1 := hg
        exact Nat.lt_of_le_of_ne (Nat.le_of_lt_succ hg') hgn
      rcases complete g hlt with e | ⟨k, c, hc, e⟩
      · exact Or.inl ((mem_cancelOld s id g).mpr (Or.inl e))
      · by_cases hk : id = k
        · subst hk
          exact Or.inl ((mem_cancelOld s id g).mpr (Or.inr ⟨c, hc, e⟩))
        · exact Or.inr ⟨k, c, by simp only [lookup_insert_ne _ _ hk]; exact hc, e⟩
  · simp only [lookup_insert_ne _ _ hid]; exact resv

theorem delete_inv (s : St) (id : String) (hid : id ≠ reserved) (h : Inv s) :
    Inv (step s (.delete id)) := by
  rw [step_delete s id hid]
  obtain ⟨ndr, ndc, agree, fresh, cancLt, liveNC, inj, complete, resv⟩ := h
  constructor
  · exact nodup_erase _ _ ndr
  · exact nodup_erase _ _ ndc
  · intro k
    by_cases hk : id = k
    · subst hk; simp
    · simp only [lookup_erase_ne _ hk]; exact agree k
  · intro k c hc
    by_cases hk : id = k
    · subst hk; simp at hc
    · simp only [lookup_erase_ne _ hk] at hc
      exact fresh k c hc
  · intro g hg
    rcases (mem_cancelOld s id g).mp hg with e | ⟨c, hc, e⟩
    · exact cancLt g e
    · subst e; exact fresh id c hc
  · intro k c hc hg
    by_cases hk : id = k
    · subst hk; simp at hc
    · simp only [lookup_erase_ne _ hk] at hc
      rcases (mem_cancelOld s id _).mp hg with e | ⟨c', hc', e⟩
      · exact liveNC k c hc e
      · exact hk (inj id k c' c hc' hc e)
  · intro i j ci cj hi hj e
    by_cases h1 : id = i
    · subst h1; simp at hi
    · by_cases h2 : id = j
      · subst h2; simp at hj
      · simp only [lookup_erase_ne _ h1] at hi
        simp only [lookup_erase_ne _ h2] at hj
        exact inj i j ci cj hi hj e
  · intro g hg
    rcases complete g hg with e | ⟨k, c, hc, e⟩
    · exact Or.inl ((mem_cancelOld s id g).mpr (Or.inl e))
    · by_cases hk : id = k
      · subst hk
        exact Or.inl ((mem_cancelOld s id g).mpr (Or.inr ⟨c, hc, e⟩))
      · exact Or.inr ⟨k, c, by simp only [lookup_erase_ne _ hk]; exact hc, e⟩
  · simp only [lookup_erase_ne _ hid]; exact resv

theorem deleteAll_inv (s : St) (h : Inv s) : Inv (step s (.delete reserved)) := by
  rw [step_deleteAll s]
  obtain ⟨ndr, ndc, agree, fresh, cancLt, liveNC, inj, complete, resv⟩ := h
  constructor
  · trivial
  · trivial
  · intro k; rfl
  · intro k c hc; simp at hc
  · intro g hg
    rcases List.mem_append.mp hg with e | e
    · obtain ⟨id, c, hc, e⟩ := (mem_gens s.clients ndc g).mp e
      subst e; exact fresh id c hc
    · exact cancLt g e
  · intro k c hc; simp at hc
  · intro i j ci cj hi; simp at hi
  · intro g hg
    refine Or.inl (List.mem_append.mpr ?_)
    rcases complete g hg with e | ⟨k, c, hc, e⟩
    · exact Or.inr e
    · exact Or.inl ((mem_gens s.clients ndc g).mpr ⟨k, c, hc, e⟩)
  · rfl

/-- environment and message operations do not touch the hub's maps -/
theorem step_core_env (s : St) (op : Op)
    (h : (∀ id st d, op ≠ .add id st d) ∧ (∀ id, op ≠ .delete id)) :
    (step s op).rules = s.rules ∧ (step s op).clients = s.clients ∧
    (step s op).nextGen = s.nextGen ∧ (step s op).cancelled = s.cancelled ∧ (step s op).cfg = s.cfg := by
  cases op with
  | add id st d => exact absurd rfl (h.1 id st d)
  | delete id => exact absurd rfl (h.2 id)
  | bcast t snd => simp [step]
  | inject d => simp [step]
  | down d => simp only [step]; split <;> simp
  | up d => simp only [step]; split <;> simp
  | drop d => simp only [step]; split <;> simp
  | idle => simp [step]

theorem step_inv (s : St) (op : Op) (h : Inv s) : Inv (step s op) := by
  cases op with
  | add id st d =>
    by_cases hid : id = reserved
    · subst hid; rw [step_add_reserved]; exact h
    · exact add_inv s id st d hid h
  | delete id =>
    by_cases hid : id = reserved
    · subst hid; exact deleteAll_inv s h
    · exact delete_inv s id hid h
  | bcast t snd =>
    obtain ⟨a, b, c, d, _⟩ := step_core_env s (.bcast t snd) ⟨by intros; simp, by intros; simp⟩
    exact inv_of_core_eq h a b c d
  | inject x =>
    obtain ⟨a, b, c, d, _⟩ := step_core_env s (.inject x) ⟨by intros; simp, by intros; simp⟩
    exact inv_of_core_eq h a b c d
  | down x =>
    obtain ⟨a, b, c, d, _⟩ := step_core_env s (.down x) ⟨by intros; simp, by intros; simp⟩
    exact inv_of_core_eq h a b c d
  | up x =>
    obtain ⟨a, b, c, d, _⟩ := step_core_env s (.up x) ⟨by intros; simp, by intros; simp⟩
    exact inv_of_core_eq h a b c d
  | drop x =>
    obtain ⟨a, b, c, d, _⟩ := step_core_env s (.drop x) ⟨by intros; simp, by intros; simp⟩
    exact inv_of_core_eq h a b c d
  | idle => exact h

theorem run_inv (ops : List Op) (s : St) (h : Inv s) : Inv (run ops s) := by
  unfold run
  induction ops generalizing s with
  | nil => simpa
  | cons op ops ih => exact ih _ (step_inv s op h)

theorem run_append (a b : List Op) (s : St) : run (a ++ b) s = run b (run a s) := by
  simp [run, List.foldl_append]

theorem run_cons (op : Op) (ops : List Op) (s : St) : run (op :: ops) s = run ops (step s op) := rfl

/-- the start state of a history: empty hub, any aggregation configuration and environment -/
def start (cfg : KV (List String)) : St := { cfg := cfg }

theorem inv_run (cfg : KV (List String)) (ops : List Op) : Inv (run ops (start cfg)) :=
  run_inv ops _ (inv_init cfg [] [])

/-! ### (1) one live client / connection per id -/

/-- **C16 `one_live_per_id`**: in every reachable state (a) an id has at most one client entry,
    (b) a generation is the client of at most one id, (c) every generation created so far that has
    not been cancelled *is* the registered client of some id — so the un-cancelled generations
    (each owning one `ReconWs`) are in one-to-one correspondence with the ids listed. -/
theorem one_live_per_id (cfg : KV (List String)) (ops : List Op) :
    let s := run ops (start cfg)
    (∀ id c c', (id, c) ∈ s.clients → (id, c') ∈ s.clients → c = c') ∧
    (∀ i j ci cj, (i, ci) ∈ s.clients → (j, cj) ∈ s.clients → ci.gen = cj.gen → i = j) ∧
    (∀ g, g < s.nextGen → g ∉ s.cancelled → ∃ id c, (id, c) ∈ s.clients ∧ c.gen = g) ∧
    (∀ id c, (id, c) ∈ s.clients → c.gen < s.nextGen ∧ c.gen ∉ s.cancelled) := by
  intro s
  have hI : Inv s := inv_run cfg ops
  refine ⟨?_, ?_, ?_, ?_⟩
  · intro id c c' h1 h2
    have e1 := lookup_of_mem _ _ _ hI.ndc h1
    have e2 := lookup_of_mem _ _ _ hI.ndc h2
    rw [e1] at e2
    exact Option.some.inj e2
  · intro i j ci cj h1 h2 e
    exact hI.inj i j ci cj (lookup_of_mem _ _ _ hI.ndc h1) (lookup_of_mem _ _ _ hI.ndc h2) e
  · intro g hg hnc
    rcases hI.complete g hg with e | ⟨id, c, hc, e⟩
    · exact absurd e hnc
    · exact ⟨id, c, mem_of_lookup _ _ _ hc, e⟩
  · intro id c h1
    have e1 := lookup_of_mem _ _ _ hI.ndc h1
    exact ⟨hI.fresh id c e1, hI.liveNC id c e1⟩

/-- the ghost observation `orphans` (printed by the model driver, observed on the real hub as
    "a client no longer listed whose context is not cancelled") is always empty -/
theorem no_orphans (cfg : KV (List String)) (ops : List Op) : orphans (run ops (start cfg)) = [] := by
  have hI : Inv (run ops (start cfg)) := inv_run cfg ops
  unfold orphans
  rw [List.filter_eq_nil_iff]
  intro g hg
  have hlt : g < (run ops (start cfg)).nextGen := List.mem_range.mp hg
  rcases hI.complete g hlt with e | ⟨id, c, hc, e⟩
  · simp [e]
  · have : g ∈ gens (run ops (start cfg)).clients := (mem_gens _ hI.ndc g).mpr ⟨id, c, hc, e⟩
    simp [this]

/-! ### (2) refinement to one cell per id: latest rule, its generation -/

theorem step_refines (s : St) (op : Op) (id : String) :
    view (step s op) id = specStep id (view s id) op := by
  cases op with
  | add i st d =>
    by_cases hi : i = reserved
    · subst hi; rw [step_add_reserved]; simp [specStep]
    · rw [step_add s i st d hi]
      by_cases hk : i = id
      · subst hk; simp [view, specStep, hi]
      · simp [view, specStep, hi, hk, lookup_insert_ne _ _ hk]
  | delete i =>
    by_cases hi : i = reserved
    · subst hi; rw [step_deleteAll]; simp [view, specStep]
    · rw [step_delete s i hi]
      by_cases hk : i = id
      · subst hk; simp [view, specStep]
      · simp [view, specStep, hi, hk, lookup_erase_ne _ hk]
  | bcast t snd => simp [step, specStep]
  | inject d => simp [step, specStep]
  | down d => simp only [step, specStep]; split <;> rfl
  | up d => simp only [step, specStep]; split <;> rfl
  | drop d => simp only [step, specStep]; split <;> rfl
  | idle => rfl

theorem run_refines (ops : List Op) (s : St) (id : String) :
    view (run ops s) id = spec id ops (view s id) := by
  unfold run spec
  induction ops generalizing s with
  | nil => rfl
  | cons op ops ih => simp only [List.foldl_cons]; rw [ih (step s op), step_refines s op id]

/-- **C16 `hub_refines_cell`**: for every history and id, what the hub holds for the id (listed rule,
    generation of its client, generation counter) is what the one-cell specification computes from
    the history: the most recent accepted add of *that id* not followed by its delete or a deleteAll. -/
theorem hub_refines_cell (cfg : KV (List String)) (ops : List Op) (id : String) :
    view (run ops (start cfg)) id = spec id ops := run_refines ops (start cfg) id

/-- does `op` touch id `i`: an add of i, a delete of i, or a deleteAll -/
def touches (i : String) : Op → Bool
  | .add j _ _ => j == i
  | .delete j => j == i || j == reserved
  | _ => false

theorem step_untouched (s : St) (op : Op) (i : String) (h : touches i op = false) :
    lookup (step s op).clients i = lookup s.clients i ∧ lookup (step s op).rules i = lookup s.rules i := by
  cases op with
  | add j st d =>
    have hj : j ≠ i := by simpa [touches] using h
    by_cases hr : j = reserved
    · subst hr; rw [step_add_reserved]; exact ⟨rfl, rfl⟩
    · rw [step_add s j st d hr]
      exact ⟨lookup_insert_ne _ _ hj, lookup_insert_ne _ _ hj⟩
  | delete j =>
    have hj : j ≠ i ∧ j ≠ reserved := by simpa [touches] using h
    rw [step_delete s j hj.2]
    exact ⟨lookup_erase_ne _ hj.1, lookup_erase_ne _ hj.1⟩
  | bcast t snd => exact ⟨rfl, rfl⟩
  | inject d => exact ⟨rfl, rfl⟩
  | down d => simp only [step]; split <;> exact ⟨rfl, rfl⟩
  | up d => simp only [step]; split <;> exact ⟨rfl, rfl⟩
  | drop d => simp only [step]; split <;> exact ⟨rfl, rfl⟩
  | idle => exact ⟨rfl, rfl⟩

theorem run_untouched (ops : List Op) (s : St) (i : String) (h : ∀ op ∈ ops, touches i op = false) :
    lookup (run ops s).clients i = lookup s.clients i ∧ lookup (run ops s).rules i = lookup s.rules i := by
  induction ops generalizing s with
  | nil => exact ⟨rfl, rfl⟩
  | cons op ops ih =>
    rw [run_cons]
    have h1 := step_untouched s op i (h op List.mem_cons_self)
    have h2 := ih (step s op) (fun o ho => h o (List.mem_cons_of_mem _ ho))
    exact ⟨h2.1.trans h1.1, h2.2.trans h1.2⟩

/-- **C16 `live_is_latest_rule`**: if the history is `pre`, then an accepted add of id `i`
    (stream `st`, destination `d`), then operations none of which adds/deletes `i` or deletes all,
    the live client of `i` is exactly the generation that add created (the first unused number at
    that moment), connected to `d` for stream `st`, and the listed rule is that rule.
    Conversely a live client always stems from such an add (`hub_refines_cell`). -/
theorem live_is_latest_rule (cfg : KV (List String)) (pre post : List Op) (i : String) (st : Stream) (d : Dest)
    (hi : i ≠ reserved) (hpost : ∀ op ∈ post, touches i op = false) :
    let s := run (pre ++ .add i st d :: post) (start cfg)
    lookup s.clients i = some ⟨(run pre (start cfg)).nextGen, d, st⟩ ∧
    lookup s.rules i = some ⟨st, d⟩ := by
  intro s
  have hs : s = run post (step (run pre (start cfg)) (.add i st d)) := by
    simp only [s, run_append, run_cons]
  have h := run_untouched post (step (run pre (start cfg)) (.add i st d)) i hpost
  rw [hs, h.1, h.2, step_add _ i st d hi]
  simp

/-- and when the most recent operation touching `i` is its delete or a deleteAll, nothing is live
    or listed for `i` -/
theorem nothing_live_after_delete (cfg : KV (List String)) (pre post : List Op) (i j : String)
    (hj : j = i ∨ j = reserved) (hpost : ∀ op ∈ post, touches i op = false) :
    let s := run (pre ++ .delete j :: post) (start cfg)
    lookup s.clients i = none ∧ lookup s.rules i = none := by
  intro s
  have hs : s = run post (step (run pre (start cfg)) (.delete j)) := by
    simp only [s, run_append, run_cons]
  have h := run_untouched post (step (run pre (start cfg)) (.delete j)) i hpost
  rw [hs, h.1, h.2]
  by_cases hr : j = reserved
  · subst hr; rw [step_deleteAll]; exact ⟨rfl, rfl⟩
  · have hji : j = i := hj.resolve_right hr
    subst hji
    rw [step_delete _ j hr]
    simp

/-- **C16 `live_matches_rule`**: an id has a live client iff it has a listed rule, and the client's
    destination and stream are the rule's. -/
theorem live_matches_rule (cfg : KV (List String)) (ops : List Op) (id : String) :
    lookup (run ops (start cfg)).rules id =
      (lookup (run ops (start cfg)).clients id).map (fun c => (⟨c.stream, c.dest⟩ : Rule)) :=
  (inv_run cfg ops).agree id

/-! ### (3) nothing reaches a superseded generation -/

theorem mem_deliveredCl (s : St) (nd : NoDupKeys s.clients) (topic : String) (snd : Option Dest) (c : Cl) :
    c ∈ deliveredCl s topic snd ↔ (∃ id, lookup s.clients id = some c) ∧ wants s.cfg topic snd c = true := by
  unfold deliveredCl
  rw [List.mem_map]
  constructor
  · rintro ⟨⟨id, c'⟩, hm, e⟩
    simp only at e
    subst e
    rw [List.mem_filter] at hm
    exact ⟨⟨id, lookup_of_mem _ _ _ nd hm.1⟩, hm.2⟩
  · rintro ⟨⟨id, hl⟩, hw⟩
    exact ⟨(id, c), List.mem_filter.mpr ⟨mem_of_lookup _ _ _ hl, hw⟩, rfl⟩

/-- only live clients are ever handed a message -/
theorem deliveriesCl_live (s : St) (nd : NoDupKeys s.clients) (op : Op) (c : Cl)
    (h : c ∈ deliveriesCl s op) : ∃ id, lookup s.clients id = some c := by
  cases op with
  | bcast t snd => exact ((mem_deliveredCl s nd t snd c).mp h).1
  | inject d =>
    simp only [deliveriesCl, List.mem_flatMap] at h
    obtain ⟨src, _, hc⟩ := h
    exact ((mem_deliveredCl s nd _ _ c).mp hc).1
  | add _ _ _ => simp [deliveriesCl] at h
  | delete _ => simp [deliveriesCl] at h
  | down _ => simp [deliveriesCl] at h
  | up _ => simp [deliveriesCl] at h
  | drop _ => simp [deliveriesCl] at h
  | idle => simp [deliveriesCl] at h

theorem deliveries_live (s : St) (nd : NoDupKeys s.clients) (op : Op) (g : Gen)
    (h : g ∈ deliveries s op) : ∃ id c, lookup s.clients id = some c ∧ c.gen = g := by
  unfold deliveries at h
  obtain ⟨c, hc, e⟩ := List.mem_map.mp h
  obtain ⟨id, hl⟩ := deliveriesCl_live s nd op c hc
  exact ⟨id, c, hl, e⟩

theorem step_cancelled_mono (s : St) (op : Op) (g : Gen) (h : g ∈ s.cancelled) :
    g ∈ (step s op).cancelled := by
  cases op with
  | add id st d =>
    by_cases hid : id = reserved
    · subst hid; rw [step_add_reserved]; exact h
    · rw [step_add s id st d hid]; exact (mem_cancelOld s id g).mpr (Or.inl h)
  | delete id =>
    by_cases hid : id = reserved
    · subst hid; rw [step_deleteAll]; exact List.mem_append.mpr (Or.inr h)
    · rw [step_delete s id hid]; exact (mem_cancelOld s id g).mpr (Or.inl h)
  | bcast t snd => exact h
  | inject d => exact h
  | down d => simp only [step]; split <;> exact h
  | up d => simp only [step]; split <;> exact h
  | drop d => simp only [step]; split <;> exact h
  | idle => exact h

theorem run_cancelled_mono (ops : List Op) (s : St) (g : Gen) (h : g ∈ s.cancelled) :
    g ∈ (run ops s).cancelled := by
  induction ops generalizing s with
  | nil => exact h
  | cons op ops ih => rw [run_cons]; exact ih _ (step_cancelled_mono s op g h)

/-- `op` replaces, deletes or delete-alls the rule with id `i` -/
def Supersedes (op : Op) (i : String) : Prop :=
  (∃ st d, op = .add i st d ∧ i ≠ reserved) ∨ op = .delete i ∨ op = .delete reserved

theorem supersede_cancels (s : St) (hI : Inv s) (op : Op) (i : String) (c : Cl)
    (hlive : lookup s.clients i = some c) (hop : Supersedes op i) : c.gen ∈ (step s op).cancelled := by
  rcases hop with ⟨st, d, e, hi⟩ | e | e
  · subst e; rw [step_add s i st d hi]
    exact (mem_cancelOld s i _).mpr (Or.inr ⟨c, hlive, rfl⟩)
  · subst e
    by_cases hi : i = reserved
    · subst hi; rw [hI.resv] at hlive; cases hlive
    · rw [step_delete s i hi]
      exact (mem_cancelOld s i _).mpr (Or.inr ⟨c, hlive, rfl⟩)
  · subst e; rw [step_deleteAll]
    exact List.mem_append.mpr (Or.inl ((mem_gens _ hI.ndc _).mpr ⟨i, c, hlive, rfl⟩))

/-- **C16 `nothing_after_supersede`**: let `c` be the live client of id `i` after `pre`, and let `op`
    replace / delete / delete-all it.  Then after any further operations `post`, the old generation
    is not in the delivered-to set of the next operation `b`, whatever it is (a broadcast on any
    topic from any sender, or a message coming in from any destination) — i.e. no message whose
    hand-off to the hub starts after `op` is handed to the old generation — and the old generation
    is not a live client (owns no socket) in any later state. -/
theorem nothing_after_supersede (cfg : KV (List String)) (pre post : List Op) (op b : Op) (i : String) (c : Cl)
    (hlive : lookup (run pre (start cfg)).clients i = some c) (hop : Supersedes op i) :
    let s := run (pre ++ op :: post) (start cfg)
    c.gen ∉ deliveries s b ∧ c.gen ∉ gens s.clients ∧ c.gen ∈ s.cancelled := by
  intro s
  have hI : Inv s := inv_run cfg _
  have hIp : Inv (run pre (start cfg)) := inv_run cfg pre
  have hs : s = run post (step (run pre (start cfg)) op) := by simp only [s, run_append, run_cons]
  have hc : c.gen ∈ s.cancelled := by
    rw [hs]
    exact run_cancelled_mono post _ _ (supersede_cancels _ hIp op i c hlive hop)
  refine ⟨?_, ?_, hc⟩
  · intro hd
    obtain ⟨id, c', hl, e⟩ := deliveries_live s hI.ndc b _ hd
    exact hI.liveNC id c' hl (e ▸ hc)
  · intro hg
    obtain ⟨id, c', hl, e⟩ := (mem_gens _ hI.ndc _).mp hg
    exact hI.liveNC id c' hl (e ▸ hc)

/-- sockets exist only for live clients: the destinations at which a message arrives are those
    of live, delivered-to clients whose destination is accepting -/
theorem received_sub (s : St) (op : Op) (d : Dest) (h : d ∈ received s op) :
    ∃ c, c ∈ deliveriesCl s op ∧ c.dest = d ∧ isUp s d = true := by
  unfold received at h
  obtain ⟨c, hc, e⟩ := List.mem_map.mp h
  rw [List.mem_filter] at hc
  exact ⟨c, hc.1, e, e ▸ hc.2⟩

/-! ### (4) frame: other rules keep flowing -/

/-- `op` is an add of id `i` (accepted or refused) or the delete of the single id `i` -/
def Targets (op : Op) (i : String) : Prop :=
  (∃ st d, op = .add i st d) ∨ (op = .delete i ∧ i ≠ reserved)

theorem targets_untouched (op : Op) (i j : String) (h : Targets op i) (hij : j ≠ i) :
    touches j op = false := by
  rcases h with ⟨st, d, e⟩ | ⟨e, hi⟩
  · subst e; simp [touches]; exact fun e => hij e.symm
  · subst e; simp [touches]; exact ⟨fun e => hij e.symm, hi⟩

theorem step_cfg (s : St) (op : Op) : (step s op).cfg = s.cfg := by
  cases op with
  | add id st d => simp only [step]; split <;> rfl
  | delete id => simp only [step]; split <;> rfl
  | bcast t snd => rfl
  | inject d => rfl
  | down d => simp only [step]; split <;> rfl
  | up d => simp only [step]; split <;> rfl
  | drop d => simp only [step]; split <;> rfl
  | idle => rfl

theorem mem_delivered_live (s : St) (hI : Inv s) (j : String) (c : Cl) (hl : lookup s.clients j = some c)
    (topic : String) (snd : Option Dest) :
    c.gen ∈ delivered s topic snd ↔ wants s.cfg topic snd c = true := by
  unfold delivered
  rw [List.mem_map]
  constructor
  · rintro ⟨c', hc', e⟩
    obtain ⟨⟨id, hl'⟩, hw⟩ := (mem_deliveredCl s hI.ndc topic snd c').mp hc'
    have hid : id = j := hI.inj id j c' c hl' hl e
    subst hid
    rw [hl] at hl'
    cases hl'
    exact hw
  · intro hw
    exact ⟨c, (mem_deliveredCl s hI.ndc topic snd c).mpr ⟨⟨j, hl⟩, hw⟩, rfl⟩

/-- **C16 `others_keep_flowing`** (frame): an add / replace / delete of id `i` leaves every other id `j`
    alone: same listed rule, same live client (same generation, so the same socket), that generation
    is not cancelled by the operation, destinations' up/down state is untouched, and for every topic and sender the
    client of `j` is in the delivered-to set after the operation iff it was before. -/
theorem others_keep_flowing (cfg : KV (List String)) (ops : List Op) (op : Op) (i j : String)
    (h : Targets op i) (hij : j ≠ i) :
    let s := run ops (start cfg)
    let s' := step s op
    lookup s'.rules j = lookup s.rules j ∧
    lookup s'.clients j = lookup s.clients j ∧
    s'.downs = s.downs ∧
    (∀ c, lookup s.clients j = some c →
      c.gen ∉ s'.cancelled ∧
      ∀ topic snd, (c.gen ∈ delivered s' topic snd ↔ c.gen ∈ delivered s topic snd)) := by
  intro s s'
  have hI : Inv s := inv_run cfg ops
  have hI' : Inv s' := step_inv s op hI
  have hu := step_untouched s op j (targets_untouched op i j h hij)
  refine ⟨hu.2, hu.1, ?_, ?_⟩
  · rcases h with ⟨st, d, e⟩ | ⟨e, hi⟩
    · subst e; simp only [s', step]; split <;> rfl
    · subst e; simp only [s', step]; split <;> rfl
  · intro c hl
    have hl' : lookup s'.clients j = some c := hu.1.trans hl
    refine ⟨hI'.liveNC j c hl', ?_⟩
    intro topic snd
    rw [mem_delivered_live s' hI' j c hl' topic snd, mem_delivered_live s hI j c hl topic snd]
    simp only [s', step_cfg]

/-! ### (5) listing, reserved id -/

/-- the per-id "added − deleted" specification of the listing alone -/
def listSpecStep (id : String) (r : Option Rule) : Op → Option Rule
  | .add i st d => if i ≠ reserved ∧ i = id then some ⟨st, d⟩ else r
  | .delete i => if i = reserved ∨ i = id then none else r
  | _ => r

def listSpec (id : String) (ops : List Op) : Option Rule := ops.foldl (listSpecStep id) none

theorem spec_rule (id : String) (ops : List Op) (c : Cell) :
    (ops.foldl (specStep id) c).rule = ops.foldl (listSpecStep id) c.rule := by
  induction ops generalizing c with
  | nil => rfl
  | cons op ops ih =>
    simp only [List.foldl_cons]
    rw [ih]
    congr 1
    cases op with
    | add i st d =>
      by_cases hi : i = reserved
      · simp [specStep, listSpecStep, hi]
      · by_cases hk : i = id
        · subst hk; simp [specStep, listSpecStep, hi]
        · simp [specStep, listSpecStep, hi, hk]
    | delete i =>
      by_cases hk : i = reserved ∨ i = id <;> simp [specStep, listSpecStep, hk]
    | bcast t snd => rfl
    | inject d => rfl
    | down d => rfl
    | up d => rfl
    | drop d => rfl
    | idle => rfl

/-- **C16 `listing_exact`**: for every history and id, the rule listed for the id is the one given by
    the latest accepted add of that id unless its delete or a deleteAll came later ("added − deleted");
    the id is a key of the listing exactly then; and the listing never holds an id twice. -/
theorem listing_exact (cfg : KV (List String)) (ops : List Op) (id : String) :
    let s := run ops (start cfg)
    lookup s.rules id = listSpec id ops ∧
    (id ∈ keys s.rules ↔ (listSpec id ops).isSome = true) ∧
    NoDupKeys s.rules := by
  intro s
  have href := congrArg Cell.rule (hub_refines_cell cfg ops id)
  have h1 : lookup s.rules id = listSpec id ops := by
    have := spec_rule id ops {}
    simp only [view] at href
    unfold spec at href
    rw [this] at href
    exact href
  refine ⟨h1, ?_, (inv_run cfg ops).ndr⟩
  rw [mem_keys_iff_has, has, h1]

/-- **C16 `reserved_id_unreachable`**: the reserved delete-all id is never a key of the rule listing
    nor of the client map, whatever is added. -/
theorem reserved_id_unreachable (cfg : KV (List String)) (ops : List Op) :
    let s := run ops (start cfg)
    lookup s.rules reserved = none ∧ lookup s.clients reserved = none ∧
    reserved ∉ keys s.rules ∧ reserved ∉ keys s.clients := by
  intro s
  have hI : Inv s := inv_run cfg ops
  have h2 : lookup s.clients reserved = none := hI.resv
  have h1 : lookup s.rules reserved = none := by rw [hI.agree, h2]; rfl
  refine ⟨h1, h2, ?_, ?_⟩
  · rw [mem_keys_iff_has, has, h1]; simp
  · rw [mem_keys_iff_has, has, h2]; simp

/-- **C16 `id_taken_verbatim`**: ids are compared and stored as given, for EVERY id string: after any history, an
    add of any id other than exactly the string `"deleteAll"` -- `"/deleteAll"`, `" deleteAll"`, `"DeleteAll"`, the
    empty id, ... included -- is stored and listed under exactly that id; the entry (rule and client) of every other
    id string `j ≠ i` -- ids differing from `i` only by blanks, a slash or case included -- is what it was; and
    still nothing is held under the reserved id.  (No canonicalisation on either side of the reserved-id guard.) -/
theorem id_taken_verbatim (cfg : KV (List String)) (ops : List Op) (i : String) (st : Stream) (d : Dest)
    (hi : i ≠ reserved) :
    let s := run ops (start cfg)
    let s' := step s (.add i st d)
    lookup s'.rules i = some ⟨st, d⟩ ∧
    (lookup s'.clients i).map (fun c => (c.dest, c.stream)) = some (d, st) ∧
    (∀ j, j ≠ i → lookup s'.rules j = lookup s.rules j ∧ lookup s'.clients j = lookup s.clients j) ∧
    lookup s'.rules reserved = none ∧ lookup s'.clients reserved = none := by
  intro s s'
  have hun : ∀ j, j ≠ i → lookup s'.rules j = lookup s.rules j ∧ lookup s'.clients j = lookup s.clients j := by
    intro j hj
    have h := step_untouched s (.add i st d) j (by simpa [touches] using fun h : i = j => hj h.symm)
    exact ⟨h.2, h.1⟩
  have hres := reserved_id_unreachable cfg ops
  have hr := hun reserved (fun h => hi h.symm)
  refine ⟨?_, ?_, hun, hr.1.trans hres.1, hr.2.trans hres.2.1⟩
  · simp only [s', step_add s i st d hi]; simp
  · simp only [s', step_add s i st d hi]; simp

/-- and a delete of any id other than exactly `"deleteAll"` removes that id's entry only -/
theorem delete_taken_verbatim (cfg : KV (List String)) (ops : List Op) (i : String) (hi : i ≠ reserved) :
    let s := run ops (start cfg)
    let s' := step s (.delete i)
    lookup s'.rules i = none ∧ lookup s'.clients i = none ∧
    (∀ j, j ≠ i → lookup s'.rules j = lookup s.rules j ∧ lookup s'.clients j = lookup s.clients j) := by
  intro s s'
  refine ⟨?_, ?_, ?_⟩
  · simp only [s', step_delete s i hi]; simp
  · simp only [s', step_delete s i hi]; simp
  · intro j hj
    have h := step_untouched s (.delete i) j (by
      simp only [touches, Bool.or_eq_false_iff, beq_eq_false_iff_ne, ne_eq]
      exact ⟨fun h => hj h.symm, hi⟩)
    exact ⟨h.2, h.1⟩

/-! ### (6) who dials: a generation that was told to stop never opens a connection again -/

theorem mem_clientsOn (s : St) (nd : NoDupKeys s.clients) (d : Dest) (c : Cl) :
    c ∈ clientsOn s d ↔ (∃ id, lookup s.clients id = some c) ∧ c.dest = d := by
  unfold clientsOn
  rw [List.mem_map]
  constructor
  · rintro ⟨⟨id, c'⟩, hm, e⟩
    simp only at e
    subst e
    rw [List.mem_filter] at hm
    exact ⟨⟨id, lookup_of_mem _ _ _ nd hm.1⟩, by simpa using hm.2⟩
  · rintro ⟨⟨id, hl⟩, hd⟩
    exact ⟨(id, c), List.mem_filter.mpr ⟨mem_of_lookup _ _ _ hl, by simpa using hd⟩, rfl⟩

/-- whoever dials because of `op` is a live client of the state, or the generation `op` creates -/
theorem dials_live_or_new (s : St) (nd : NoDupKeys s.clients) (op : Op) (c : Cl) (h : c ∈ dials s op) :
    (∃ id, lookup s.clients id = some c) ∨ c.gen = s.nextGen := by
  cases op with
  | add id st d =>
    simp only [dials] at h
    split at h
    · simp at h
    · split at h
      · simp at h; subst h; exact Or.inr rfl
      · simp at h
  | up d =>
    simp only [dials] at h
    split at h
    · exact Or.inl ((mem_clientsOn s nd d c).mp h).1
    · simp at h
  | drop d =>
    simp only [dials] at h
    split at h
    · exact Or.inl ((mem_clientsOn s nd d c).mp h).1
    · simp at h
  | delete _ => simp [dials] at h
  | bcast _ _ => simp [dials] at h
  | inject _ => simp [dials] at h
  | down _ => simp [dials] at h
  | idle => simp [dials] at h

theorem inv_not_dials (s : St) (hI : Inv s) (op : Op) (g : Gen) (hg : g ∈ s.cancelled) :
    g ∉ (dials s op).map (·.gen) := by
  intro hm
  obtain ⟨c, hc, e⟩ := List.mem_map.mp hm
  rcases dials_live_or_new s hI.ndc op c hc with ⟨id, hl⟩ | hn
  · exact hI.liveNC id c hl (e ▸ hg)
  · have hlt : g < s.nextGen := hI.cancLt g hg
    rw [← e, hn] at hlt
    exact Nat.lt_irrefl _ hlt

/-- **C16 `cancelled_never_dials`**: after every history, a generation whose context has been cancelled
    (its rule was replaced, deleted, or removed by a delete-all) is not among those that open a
    connection because of the next operation, WHATEVER that operation is: its old destination
    coming up again, dropping its connections, a new rule for the same or another id and the same
    destination, or real time passing (`idle`: the back-off sleep it was in runs out). -/
theorem cancelled_never_dials (cfg : KV (List String)) (ops : List Op) (op : Op) (g : Gen)
    (hg : g ∈ (run ops (start cfg)).cancelled) : g ∉ (dials (run ops (start cfg)) op).map (·.gen) :=
  inv_not_dials _ (inv_run cfg ops) op g hg

/-- **C16 `superseded_never_connects`** (history form): let `c` be the live client of id `i` after `pre`
    and let `op` replace / delete / delete-all it.  Then `c`'s generation opens no connection because of
    `op` itself, and after ANY further operations `post` -- its destination going down and up any number
    of times, time passing, other rules coming and going -- it opens no connection because of the next
    operation `b` either.  (With `accepts_count_dials`: the connections a destination accepts are those
    of generations in force at the time.) -/
theorem superseded_never_connects (cfg : KV (List String)) (pre post : List Op) (op b : Op) (i : String) (c : Cl)
    (hlive : lookup (run pre (start cfg)).clients i = some c) (hop : Supersedes op i) :
    c.gen ∉ (dials (run pre (start cfg)) op).map (·.gen) ∧
    c.gen ∉ (dials (run (pre ++ op :: post) (start cfg)) b).map (·.gen) := by
  have hIp : Inv (run pre (start cfg)) := inv_run cfg pre
  constructor
  · intro hm
    obtain ⟨c', hc', e⟩ := List.mem_map.mp hm
    have hlt := hIp.fresh i c hlive
    rcases hop with ⟨st, d, eo, hi⟩ | eo | eo
    · subst eo
      simp only [dials, hi, if_false] at hc'
      split at hc'
      · simp at hc'; subst hc'; simp only at e
        rw [← e] at hlt
        exact Nat.lt_irrefl _ hlt
      · simp at hc'
    · subst eo; simp [dials] at hc'
    · subst eo; simp [dials] at hc'
  · exact cancelled_never_dials cfg _ b _ (nothing_after_supersede cfg pre post op b i c hlive hop).2.2

theorem getD_bump (m : KV Nat) (d d' : Dest) (n : Nat) :
    (lookup (bump m d n) d').getD 0 = (lookup m d').getD 0 + (if d' = d then n else 0) := by
  unfold bump
  by_cases hn : n = 0
  · simp [hn]
  · simp only [hn, if_false]
    by_cases hd : d' = d
    · subst hd; simp
    · rw [lookup_insert_ne _ _ (Ne.symm hd)]; simp [hd]

theorem clientsOn_length (s : St) (d : Dest) : (clientsOn s d).length = liveOn s d := by
  simp [clientsOn, liveOn]

theorem clientsOn_filter (s : St) (d d' : Dest) :
    ((clientsOn s d).filter (fun c => c.dest == d')).length = if d' = d then liveOn s d else 0 := by
  unfold clientsOn liveOn
  rw [List.filter_map, List.length_map, List.filter_filter]
  by_cases hd : d' = d
  · subst hd
    simp only [if_true]
    congr 1
    apply List.filter_congr
    intro p _
    simp [Function.comp]
  · simp only [hd, if_false, List.length_eq_zero_iff, List.filter_eq_nil_iff]
    intro p _
    simp only [Function.comp, Bool.and_eq_true, beq_iff_eq, not_and]
    intro h1 h2
    exact hd (h1 ▸ h2 ▸ rfl)

/-- **C16 `accepts_count_dials`**: the number of connections a destination has accepted -- the ghost
    counter the driver prints and the correspondence run compares with what the recording destination
    servers counted -- grows with every operation by exactly the number of `dials` to it. -/
theorem accepts_count_dials (s : St) (op : Op) (d : Dest) :
    (lookup (step s op).accepts d).getD 0 =
      (lookup s.accepts d).getD 0 + ((dials s op).filter (fun c => c.dest == d)).length := by
  cases op with
  | add id st x =>
    simp only [step, dials]
    by_cases hid : id = reserved
    · simp [hid]
    · simp only [hid, if_false]
      by_cases hu : isUp s x = true
      · simp only [hu, if_true, getD_bump]
        by_cases hd : d = x
        · subst hd; simp
        · have : ¬ x = d := fun e => hd e.symm
          simp [hd, this]
      · simp [hu]
  | up x =>
    simp only [step, dials]
    split
    · simp only [getD_bump, clientsOn_filter]
    · simp
  | drop x =>
    simp only [step, dials]
    split
    · simp only [getD_bump, clientsOn_filter]
    · simp
  | delete id => simp only [step, dials]; split <;> simp
  | bcast _ _ => simp [step, dials]
  | inject _ => simp [step, dials]
  | down x => simp only [step, dials]; split <;> simp
  | idle => simp [step, dials]

/-- **C16 `idle_is_silent`**: real time passing changes nothing the hub holds, makes nobody dial and
    hands nobody a message: a client whose back-off sleep ends finds either a live context and a
    destination that still refuses, or a cancelled context (and returns). -/
theorem idle_is_silent (s : St) : step s .idle = s ∧ dials s .idle = [] ∧ deliveries s .idle = [] :=
  ⟨rfl, rfl, rfl⟩

/-! ### non-vacuity: one concrete history exercising every clause -/

def demoCfg : KV (List String) := [("stream/a", ["fa"]), ("stream/b", ["fa", "fb"])]

def demoOps : List Op :=
  [ .add "r1" "stream/a" "d1",        -- gen 0
    .add "r2" "stream/b" "d2",        -- gen 1
    .add "deleteAll" "plain" "dx",    -- refused
    .add "" "plain" "d3",             -- gen 2, the empty id is an ordinary key
    .add "r1" "stream/b" "d4",        -- gen 3 replaces gen 0
    .down "d2",
    .add "r3" "plain" "d3",           -- gen 4 shares destination d3 with id ""
    .delete "r2" ]                    -- cancels gen 1

example :
    let s := run demoOps (start demoCfg)
    s.cancelled = [1, 0] ∧
    gens s.clients = [4, 3, 2] ∧
    (s.rules.map (·.1)) = ["r3", "r1", ""] ∧
    delivered s "fa" none = [3] ∧                         -- the replaced generation 0 gets nothing
    delivered s "fb" none = [3] ∧
    delivered s "plain" none = [4, 2] ∧
    delivered s "plain" (some "d3") = [] ∧                 -- same Name as the sender: skipped
    deliveries s (.inject "d3") = [] ∧
    received (step s (.add "r2" "plain" "d2")) (.bcast "plain" none) = ["d3", "d3"] ∧   -- d2 is down
    deliveries (step s (.add "r2" "plain" "d5")) (.inject "d3") = [5, 5] ∧              -- from both sockets to d3
    orphans s = [] := by
  decide

/-- near-reserved ids and whitespace twins are ordinary, pairwise distinct keys; only the exact string is refused;
    deleting `" r1"` leaves `"r1"`; deleting `"/deleteAll"` is not a delete-all -/
example :
    let s := run [.add "/deleteAll" "plain" "d1", .add " deleteAll" "plain" "d2", .add "deleteAll" "plain" "d3",
                  .add "DeleteAll" "plain" "d4", .add "r1" "plain" "d5", .add " r1" "plain" "d6",
                  .add "" "plain" "d7", .add " " "plain" "d8", .add "deleteAll\n" "plain" "d9",
                  .delete " r1", .delete "/deleteAll"] (start demoCfg)
    (s.rules.map (·.1)) = ["deleteAll\n", " ", "", "r1", "DeleteAll", " deleteAll"] ∧
    gens s.clients = [7, 6, 5, 3, 2, 1] ∧ s.cancelled = [0, 4] ∧
    lookup s.rules reserved = none ∧ orphans s = [] := by
  decide

/-- rules whose destination is down, removed / replaced / kept while down; then the destinations come up and
    time passes: only the generations in force dial (r3 kept: 2; r2's replacement: 3), d1 never sees a connection -/
example :
    let pre : List Op := [.down "d1", .down "d2", .down "d3", .add "r1" "plain" "d1", .add "r2" "plain" "d2",
                          .add "r3" "plain" "d3", .bcast "plain" none, .delete "r1", .add "r2" "plain" "d2"]
    let s := run pre (start demoCfg)
    s.cancelled = [1, 0] ∧ gens s.clients = [3, 2] ∧
    (dials s (.up "d1")).map (·.gen) = [] ∧ (dials s (.up "d2")).map (·.gen) = [3] ∧
    (dials s (.up "d3")).map (·.gen) = [2] ∧ dials s .idle = [] ∧
    (run (pre ++ [.up "d1", .up "d2", .up "d3", .idle, .drop "d1", .drop "d2"]) (start demoCfg)).accepts
      = [("d2", 2), ("d3", 1)] := by
  decide

example : (run (demoOps ++ [.delete "deleteAll"]) (start demoCfg)).cancelled = [4, 3, 2, 1, 0] ∧
    (run (demoOps ++ [.delete "deleteAll"]) (start demoCfg)).rules = [] := by decide

end Rwc
