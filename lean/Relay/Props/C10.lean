import Relay.Model.Deny

/-!
# C10 — deny and allow lists behave as one consistent register

Theorems (all for every operation history, any ids, any expiry values, any clock moves):
* `reg_disjoint`            no id is ever on both lists
* `reg_refines_cell`        per id, the register is a single cell holding the latest decision
                            (latest deny/allow wins; prune removes exactly own-expiry < now;
                            operations on other ids are invisible: frame)
* `prune_exact`             an id survives a prune iff it was present with expiry ≥ now
* `only_own_expiry_removes` an id leaves the register only by a prune with its own expiry < now
* `lists_exact`             the list endpoints return exactly the ids whose status is that list
* `bad_params_noop`         empty id / past expiry change nothing and answer 400
-/

namespace Deny
open KV

/-- representation invariant -/
structure Inv (r : Reg) : Prop where
  nda : NoDupKeys r.allow
  ndd : NoDupKeys r.deny
  disj : ∀ id, lookup r.allow id = none ∨ lookup r.deny id = none

theorem inv_init : Inv {} := ⟨trivial, trivial, fun _ => Or.inl rfl⟩

private theorem disj_after_move (a d : KV Int) (k : String) (e : Int)
    (h : ∀ id, lookup a id = none ∨ lookup d id = none) :
    ∀ id, lookup (erase a k) id = none ∨ lookup (insert d k e) id = none := by
  intro id
  by_cases hk : k = id
  · subst hk; exact Or.inl (lookup_erase_self a k)
  · rw [lookup_erase_ne a hk, lookup_insert_ne d e hk]; exact h id

theorem step_inv (r : Reg) (op : Op) (h : Inv r) : Inv (step r op) := by
  obtain ⟨ha, hd, hdis⟩ := h
  cases op with
  | allow id e =>
    refine ⟨nodup_insert _ _ _ ha, nodup_erase _ _ hd, ?_⟩
    intro i
    have := disj_after_move r.deny r.allow id e (fun j => (hdis j).symm) i
    exact this.symm
  | deny id e =>
    exact ⟨nodup_erase _ _ ha, nodup_insert _ _ _ hd, disj_after_move r.allow r.deny id e hdis⟩
  | prune =>
    refine ⟨nodup_keep _ _ ha, nodup_keep _ _ hd, ?_⟩
    intro i
    rcases hdis i with h | h
    · exact Or.inl (lookup_keep_none _ _ _ h)
    · exact Or.inr (lookup_keep_none _ _ _ h)
  | setNow t => exact ⟨ha, hd, hdis⟩
  | denyReq id e =>
    simp only [step]
    split
    · exact ⟨ha, hd, hdis⟩
    · split
      · exact ⟨ha, hd, hdis⟩
      · exact ⟨nodup_erase _ _ ha, nodup_insert _ _ _ hd, disj_after_move r.allow r.deny id e hdis⟩
  | allowReq id e =>
    simp only [step]
    split
    · exact ⟨ha, hd, hdis⟩
    · split
      · exact ⟨ha, hd, hdis⟩
      · refine ⟨nodup_insert _ _ _ ha, nodup_erase _ _ hd, ?_⟩
        intro i
        exact (disj_after_move r.deny r.allow id e (fun j => (hdis j).symm) i).symm

theorem run_inv (ops : List Op) (r : Reg) (h : Inv r) : Inv (run ops r) := by
  unfold run
  induction ops generalizing r with
  | nil => simpa
  | cons op ops ih => exact ih _ (step_inv r op h)

/-- **C10 (i)**: at any time a booking id is on at most one of the two lists. -/
theorem reg_disjoint (ops : List Op) (id : String) :
    ¬ (isAllowed (run ops) id = true ∧ isDenied (run ops) id = true) := by
  have h := (run_inv ops {} inv_init).disj id
  simp only [isAllowed, isDenied, has]
  rcases h with h | h <;> simp [h]

/-! ### refinement to the one-cell specification -/

private theorem status_move_deny (a d : KV Int) (k id : String) (e : Int)
    (hdis : lookup a id = none ∨ lookup d id = none) :
    status { allow := erase a k, deny := insert d k e, now := n } id
      = if k = id then .denied e else status { allow := a, deny := d, now := n } id := by
  by_cases hk : k = id
  · subst hk; simp [status]
  · simp [status, hk, lookup_erase_ne a hk, lookup_insert_ne d e hk]

private theorem status_move_allow (a d : KV Int) (k id : String) (e : Int)
    (hdis : lookup a id = none ∨ lookup d id = none) :
    status { allow := insert a k e, deny := erase d k, now := n } id
      = if k = id then .allowed e else status { allow := a, deny := d, now := n } id := by
  by_cases hk : k = id
  · subst hk; simp [status]
  · simp [status, hk, lookup_erase_ne d hk, lookup_insert_ne a e hk]

private theorem status_prune (r : Reg) (id : String) (h : Inv r) :
    status { r with allow := keep (fresh r.now) r.allow, deny := keep (fresh r.now) r.deny } id
      = match status r id with
        | .absent => .absent
        | .allowed e => if e < r.now then .absent else .allowed e
        | .denied e => if e < r.now then .absent else .denied e := by
  obtain ⟨ha, hd, hdis⟩ := h
  simp only [status, lookup_keep_of_nodup _ _ _ ha, lookup_keep_of_nodup _ _ _ hd]
  cases hd' : lookup r.deny id with
  | some e =>
    have hal : lookup r.allow id = none := by
      rcases hdis id with h | h
      · exact h
      · rw [hd'] at h; cases h
    by_cases he : e < r.now
    · have he' : ¬ r.now ≤ e := by omega
      simp [fresh, he', hal]
    · have he' : r.now ≤ e := by omega
      simp [fresh, he, he', hal]
  | none =>
    cases ha' : lookup r.allow id with
    | none => simp
    | some e =>
      by_cases he : e < r.now
      · have he' : ¬ r.now ≤ e := by omega
        simp [fresh, he']
      · have he' : r.now ≤ e := by omega
        simp [fresh, he, he']

/-- one concrete step is one step of the per-id cell -/
theorem step_refines (r : Reg) (op : Op) (id : String) (h : Inv r) :
    (status (step r op) id, (step r op).now) = specStep id (status r id, r.now) op := by
  have hdis := h.disj id
  cases op with
  | allow k e =>
    simp only [step, specStep]
    rw [status_move_allow r.allow r.deny k id e hdis]
    by_cases hk : k = id <;> simp [hk]
  | deny k e =>
    simp only [step, specStep]
    rw [status_move_deny r.allow r.deny k id e hdis]
    by_cases hk : k = id <;> simp [hk]
  | prune =>
    simp only [step, specStep]
    rw [status_prune r id h]
    cases hs : status r id with
    | absent => rfl
    | allowed e => by_cases he : e < r.now <;> simp [he]
    | denied e => by_cases he : e < r.now <;> simp [he]
  | setNow t => simp [step, specStep, status]
  | denyReq k e =>
    simp only [step, specStep]
    by_cases h1 : k = ""
    · simp [h1]
    · by_cases h2 : e < r.now
      · simp [h1, h2]
      · simp only [h1, h2, if_false]
        rw [status_move_deny r.allow r.deny k id e hdis]
        by_cases hk : k = id
        · subst hk; simp [h1, h2]
        · simp [hk, h1, h2]
  | allowReq k e =>
    simp only [step, specStep]
    by_cases h1 : k = ""
    · simp [h1]
    · by_cases h2 : e < r.now
      · simp [h1, h2]
      · simp only [h1, h2, if_false]
        rw [status_move_allow r.allow r.deny k id e hdis]
        by_cases hk : k = id
        · subst hk; simp [h1, h2]
        · simp [hk, h1, h2]

theorem run_refines (ops : List Op) (r : Reg) (id : String) (h : Inv r) :
    (status (run ops r) id, (run ops r).now) = spec id ops (status r id, r.now) := by
  unfold run spec
  induction ops generalizing r with
  | nil => rfl
  | cons op ops ih =>
    simp only [List.foldl_cons]
    rw [ih (step r op) (step_inv r op h), step_refines r op id h]

/-- **C10 (ii)**: for every history and every id, the register's answer about the id is the
    one the single-cell specification gives: the most recent deny/allow of *that id* that has
    not been pruned away; operations on other ids never matter. -/
theorem reg_refines_cell (ops : List Op) (id : String) :
    status (run ops) id = (spec id ops).1 := by
  have := run_refines ops {} id inv_init
  exact congrArg Prod.fst this

/-- latest-wins as a direct corollary: right after a deny (allow) of `id`, its status is that. -/
theorem reg_latest_wins_deny (ops : List Op) (id : String) (e : Int) :
    status (run (ops ++ [.deny id e])) id = .denied e := by
  rw [reg_refines_cell]; simp [spec, specStep]

theorem reg_latest_wins_allow (ops : List Op) (id : String) (e : Int) :
    status (run (ops ++ [.allow id e])) id = .allowed e := by
  rw [reg_refines_cell]; simp [spec, specStep]

/-- **C10 (iii)** prune is exact -/
theorem prune_exact (ops : List Op) (id : String) :
    let r := run ops
    status (step r .prune) id =
      match status r id with
      | .absent => .absent
      | .allowed e => if e < r.now then .absent else .allowed e
      | .denied e => if e < r.now then .absent else .denied e := by
  intro r
  exact status_prune r id (run_inv ops {} inv_init)

/-- **C10 (iv)**: an entry disappears only by a prune when its own expiry has passed. -/
theorem only_own_expiry_removes (ops : List Op) (op : Op) (id : String)
    (hpresent : status (run ops) id ≠ .absent)
    (hgone : status (step (run ops) op) id = .absent) :
    op = .prune ∧ ∃ e, (status (run ops) id = .allowed e ∨ status (run ops) id = .denied e) ∧
      e < (run ops).now := by
  have hI := run_inv ops {} inv_init
  have href := congrArg Prod.fst (step_refines (run ops) op id hI)
  simp only at href
  rw [hgone] at href
  cases op with
  | allow k e =>
    simp only [specStep] at href
    by_cases hk : k = id
    · simp [hk] at href
    · simp only [hk, if_false] at href; exact absurd href.symm hpresent
  | deny k e =>
    simp only [specStep] at href
    by_cases hk : k = id
    · simp [hk] at href
    · simp only [hk, if_false] at href; exact absurd href.symm hpresent
  | setNow t => simp only [specStep] at href; exact absurd href.symm hpresent
  | denyReq k e =>
    simp only [specStep] at href
    split at href
    · cases href
    · exact absurd href.symm hpresent
  | allowReq k e =>
    simp only [specStep] at href
    split at href
    · cases href
    · exact absurd href.symm hpresent
  | prune =>
    refine ⟨rfl, ?_⟩
    simp only [specStep] at href
    cases hs : status (run ops) id with
    | absent => exact absurd hs hpresent
    | allowed e =>
      rw [hs] at href
      by_cases he : e < (run ops).now
      · exact ⟨e, Or.inl rfl, he⟩
      · simp [he] at href
    | denied e =>
      rw [hs] at href
      by_cases he : e < (run ops).now
      · exact ⟨e, Or.inr rfl, he⟩
      · simp [he] at href

/-- **C10 (v)**: the list endpoints (key sets of the two maps) are exactly the ids with that
    status. -/
theorem lists_exact (ops : List Op) (id : String) :
    (id ∈ keys (run ops).deny ↔ ∃ e, status (run ops) id = .denied e) ∧
    (id ∈ keys (run ops).allow ↔ ∃ e, status (run ops) id = .allowed e) := by
  have hI := run_inv ops {} inv_init
  rw [mem_keys_iff_has, mem_keys_iff_has]
  simp only [has, status]
  rcases hI.disj id with h | h
  · cases hd : lookup (run ops).deny id <;> simp [h]
  · cases ha : lookup (run ops).allow id <;> simp [h]

/-- **C10 (vi)**: requests with an empty id or an expiry in the past change nothing (400). -/
theorem bad_params_noop (r : Reg) (id : String) (e : Int) (h : id = "" ∨ e < r.now) :
    step r (.denyReq id e) = r ∧ step r (.allowReq id e) = r ∧ reqStatus r id e = 400 := by
  rcases h with h | h
  · simp [step, reqStatus, h]
  · by_cases h1 : id = "" <;> simp [step, reqStatus, h, h1]

/-- and good parameters are acted upon (so the guard is exactly the stated one) -/
theorem good_params_act (r : Reg) (id : String) (e : Int) (h1 : id ≠ "") (h2 : ¬ e < r.now) :
    step r (.denyReq id e) = step r (.deny id e) ∧ step r (.allowReq id e) = step r (.allow id e)
      ∧ reqStatus r id e = 204 := by
  simp [step, reqStatus, h1, h2]

/-! ### non-vacuity: a concrete history exercising every clause -/
example :
    let ops := [Op.setNow 100, .denyReq "b1" 150, .allowReq "b2" 120, .deny "b2" 130,
                .setNow 125, .prune, .allow "b1" 124, .setNow 126, .prune]
    status (run ops) "b1" = .absent ∧ status (run ops) "b2" = .denied 130 := by
  decide

end Deny
