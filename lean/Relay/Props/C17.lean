import Relay.Model.Flush

/-!
# C17 — what the experiment sends into the host is what leaves it

For the code in /repo today (`copyOnFlush = true`), for EVERY maximum, every byte stream, every split
of it into writes, every placement of idle flushes between the writes, every choice of which
subscriber queues take which message, and every delay before a consumer looks at a message:

* `output_is_ordered_slices`   what consumer `i` has read is, message by message, the input slice
                               `[a_k, b_k)` of the flush that made it, with `a_1 ≤ b_1 ≤ a_2 ≤ b_2 ≤ … ≤ |input|`
                               (contiguous, non-overlapping, never repeating or going backwards)
* `ordered_slices_hold`        the same in existential form (`OutputIsOrderedSlices`)
* `drops_exact`                the cuts of all flushes tile the flushed part of the input: the next message
                               starts exactly where the previous drop ends, a message is 1..max bytes, bytes are
                               dropped only behind a message of exactly `max` bytes, and what is neither in a
                               cut nor dropped is still in the accumulation buffer
* `lossless_when_within_max`   if no flush ever found more than `max` bytes, a consumer that took and read every
                               message has read exactly the flushed input, concatenated
* `content_fixed_at_handoff`   the content read is the content the message had when it was handed on, and
                               the unread messages do not depend on the flush array at all
* `ws_messages_in_order`       websocket ingest: what a consumer has read is a prefix of the posted messages
                               its queue took, each whole and unchanged
For the code before 833d3d2 (`copyOnFlush = false`):
* `aliasing_reads_B_B`         chunks A then B of equal length, both flushed, then read: the consumer reads B, B
* `aliasing_corrupts`          hence both properties are false for it (negation, concrete witness)
* `aliasing_partial`           but a consumer that reads every message before the next flush is served correctly
-/

namespace Flush

/-! ### list helpers -/

theorem slice_append_left (inp ch : Bytes) (a b : Nat) (h : b ≤ inp.length) :
    slice (inp ++ ch) a b = slice inp a b := by
  unfold slice
  by_cases ha : a ≤ inp.length
  · rw [List.drop_append_of_le_length ha]
    apply List.take_append_of_le_length
    rw [List.length_drop]; omega
  · have h0 : b - a = 0 := by omega
    rw [h0]; simp

theorem slice_adj (inp : Bytes) (a b c : Nat) (h1 : a ≤ b) (h2 : b ≤ c) :
    slice inp a b ++ slice inp b c = slice inp a c := by
  unfold slice
  have e : c - a = (b - a) + (c - b) := by omega
  rw [e, List.take_add, List.drop_drop]
  have e2 : a + (b - a) = b := by omega
  rw [e2]

theorem prefix_of_append_eq {α : Type} (l1 l2 l : List α) (h : l1 ++ l2 = l) :
    l1 = l.take l1.length ∧ l1.length ≤ l.length := by
  subst h
  exact ⟨by simp, by simp⟩

/-! ### one consumer -/

def AllVal (q : List Msg) : Prop := ∀ m ∈ q, ∃ b, m = Msg.val b

theorem content_allval (q : List Msg) (h : AllVal q) (r1 r2 : Bytes) :
    q.map (content r1) = q.map (content r2) := by
  apply List.map_congr_left
  intro m hm
  obtain ⟨b, rfl⟩ := h m hm
  rfl

/-- a consumer that only ever got copies -/
structure Good (c : Cons) : Prop where
  allval : AllVal c.queue
  fixed : c.out ++ c.queue.map (content []) = c.handed

theorem good_init : Good {} := ⟨fun _ h => (nomatch h), rfl⟩

theorem good_deliver (c : Cons) (f : Bytes) (h : Good c) : Good (c.deliver (.val f) f) := by
  refine ⟨?_, ?_⟩
  · intro m hm
    simp only [Cons.deliver, List.mem_append, List.mem_singleton] at hm
    rcases hm with hm | hm
    · exact h.allval m hm
    · exact ⟨f, hm⟩
  · simp only [Cons.deliver, List.map_append, List.map_cons, List.map_nil, content]
    rw [← List.append_assoc, h.fixed]

theorem good_read (c : Cons) (raw : Bytes) (h : Good c) : Good (c.read raw) := by
  unfold Cons.read
  cases hq : c.queue with
  | nil => simpa [hq] using h
  | cons m q =>
    have hv := h.allval
    have hf := h.fixed
    rw [hq] at hv hf
    obtain ⟨b, rfl⟩ := hv m (by simp)
    refine ⟨fun m' hm' => hv m' (by simp [hm']), ?_⟩
    simp only [content, List.map_cons] at hf ⊢
    rw [List.append_assoc]
    exact hf

theorem read_handed (c : Cons) (raw : Bytes) : (c.read raw).handed = c.handed := by
  unfold Cons.read
  cases c.queue <;> rfl

/-! ### the flush model: invariants -/

theorem step_good (max : Nat) (s : St) (op : Op) (h : ∀ i, Good (s.cons i)) :
    ∀ i, Good ((step ⟨max, true⟩ s op).cons i) := by
  intro i
  cases op with
  | write ch => exact h i
  | flush acpt =>
    simp only [step]
    split
    · exact h i
    · simp only [if_true]
      split
      · exact good_deliver _ _ (h i)
      · exact h i
  | read j =>
    simp only [step]
    split
    · exact good_read _ _ (h i)
    · exact h i

theorem runFrom_good (max : Nat) (ops : List Op) (s : St) (h : ∀ i, Good (s.cons i)) :
    ∀ i, Good ((runFrom ⟨max, true⟩ s ops).cons i) := by
  unfold runFrom
  induction ops generalizing s with
  | nil => simpa using h
  | cons op ops ih => exact ih _ (step_good max s op h)

/-- what ties the heap state to the position bookkeeping (any `copyOnFlush`) -/
structure Inv (inp : Bytes) (s : St) (p : Pos) : Prop where
  wr : p.written = inp.length
  le : p.start ≤ p.written
  acc : s.acc = inp.drop p.start
  cb : ∀ x ∈ p.cuts, x.1.b ≤ inp.length
  handed : ∀ i, (s.cons i).handed = (cutsOf i p.cuts).map (sliceOf inp)

theorem inv_init : Inv [] {} {} := ⟨rfl, Nat.le_refl _, rfl, fun _ h => (nomatch h), fun _ => rfl⟩

theorem cutsOf_snoc (i : Nat) (cs : List (Cut × List Nat)) (x : Cut) (a : List Nat) :
    cutsOf i (cs ++ [(x, a)]) = if i ∈ a then cutsOf i cs ++ [x] else cutsOf i cs := by
  unfold cutsOf
  rw [List.filter_append]
  by_cases h : i ∈ a <;> simp [h]

def inputStep (inp : Bytes) : Op → Bytes
  | .write ch => inp ++ ch
  | _ => inp

theorem step_inv (cfg : Cfg) (inp : Bytes) (s : St) (p : Pos) (op : Op) (h : Inv inp s p) :
    Inv (inputStep inp op) (step cfg s op) (posStep cfg.max p op) := by
  obtain ⟨hwr, hle, hacc, hcb, hh⟩ := h
  cases op with
  | write ch =>
    refine ⟨?_, ?_, ?_, ?_, ?_⟩
    · simp [posStep, inputStep, hwr]
    · simp only [posStep]; omega
    · simp only [step, posStep, inputStep, hacc]
      rw [List.drop_append_of_le_length (by omega)]
    · intro x hx
      have := hcb x hx
      simp only [inputStep, List.length_append]; omega
    · intro i
      simp only [step, posStep, inputStep]
      rw [hh i]
      apply List.map_congr_left
      intro x hx
      unfold sliceOf
      have hx' : x ∈ (p.cuts.map (·.1)) := by
        unfold cutsOf at hx
        simp only [List.mem_map, List.mem_filter] at hx ⊢
        obtain ⟨y, ⟨hy, _⟩, rfl⟩ := hx
        exact ⟨y, hy, rfl⟩
      obtain ⟨y, hy, rfl⟩ := List.mem_map.mp hx'
      exact (slice_append_left inp ch _ _ (hcb y hy)).symm
  | flush acpt =>
    have hlen : s.acc.length = p.written - p.start := by
      rw [hacc, List.length_drop, hwr]
    simp only [step, posStep, inputStep, hlen]
    by_cases hn : min (p.written - p.start) cfg.max = 0
    · simp only [hn, if_true]
      refine ⟨hwr, Nat.le_refl _, ?_, hcb, hh⟩
      rw [hwr]; simp
    · simp only [hn, if_false]
      refine ⟨hwr, Nat.le_refl _, ?_, ?_, ?_⟩
      · rw [hwr]; simp
      · intro x hx
        simp only [List.mem_append, List.mem_singleton] at hx
        rcases hx with hx | hx
        · exact hcb x hx
        · subst hx
          simp only
          have : min (p.written - p.start) cfg.max ≤ p.written - p.start := Nat.min_le_left _ _
          omega
      · intro i
        simp only
        rw [cutsOf_snoc]
        by_cases hc : i ∈ acpt
        · rw [if_pos hc, if_pos hc]
          simp only [Cons.deliver, List.map_append, List.map_cons, List.map_nil, hh i]
          congr 2
          unfold sliceOf slice
          simp only
          rw [hacc]
          congr 1
          omega
        · rw [if_neg hc, if_neg hc]
          exact hh i
  | read j =>
    refine ⟨hwr, hle, hacc, hcb, ?_⟩
    intro i
    simp only [step, posStep, inputStep]
    split
    · rw [read_handed]; exact hh i
    · exact hh i

theorem inputFrom_cons (inp : Bytes) (op : Op) (ops : List Op) :
    inputFrom inp (op :: ops) = inputFrom (inputStep inp op) ops := by
  unfold inputFrom
  simp only [List.foldl_cons]
  cases op <;> rfl

theorem runFrom_inv (cfg : Cfg) (ops : List Op) (inp : Bytes) (s : St) (p : Pos) (h : Inv inp s p) :
    Inv (inputFrom inp ops) (runFrom cfg s ops) (posFrom cfg.max p ops) := by
  induction ops generalizing inp s p with
  | nil => simpa [inputFrom, runFrom, posFrom] using h
  | cons op ops ih =>
    rw [inputFrom_cons]
    exact ih _ _ _ (step_inv cfg inp s p op h)

/-! ### position bookkeeping alone -/

theorem forward_le : ∀ (cs : List Cut) (lo hi : Nat), Forward lo cs hi → lo ≤ hi
  | [], _, _, h => h
  | x :: r, lo, hi, h => by
    obtain ⟨h1, h2, h3⟩ := h
    have := forward_le r x.b hi h3
    omega

theorem forward_hi : ∀ (cs : List Cut) (lo hi hi' : Nat), Forward lo cs hi → hi ≤ hi' → Forward lo cs hi'
  | [], _, _, _, h, h' => Nat.le_trans h h'
  | x :: r, _, hi, hi', h, h' => ⟨h.1, h.2.1, forward_hi r x.b hi hi' h.2.2 h'⟩

theorem forward_snoc : ∀ (cs : List Cut) (lo mid : Nat) (x : Cut) (hi : Nat),
    Forward lo cs mid → mid ≤ x.a → x.a ≤ x.b → x.b ≤ hi → Forward lo (cs ++ [x]) hi
  | [], _, _, _, _, h, h1, h2, h3 => ⟨Nat.le_trans h h1, h2, h3⟩
  | y :: r, _, mid, x, hi, h, h1, h2, h3 => ⟨h.1, h.2.1, forward_snoc r y.b mid x hi h.2.2 h1 h2 h3⟩

theorem tiles_snoc (max : Nat) : ∀ (cs : List Cut) (lo mid : Nat) (x : Cut),
    Tiles max lo cs mid → x.a = mid → x.a < x.b → x.b ≤ x.c → x.b - x.a ≤ max →
    (x.b < x.c → x.b - x.a = max) → Tiles max lo (cs ++ [x]) x.c
  | [], _, _, _, h, h1, h2, h3, h4, h5 => ⟨by rw [h1]; exact h.symm, h2, h3, h4, h5, rfl⟩
  | y :: r, _, mid, x, h, h1, h2, h3, h4, h5 =>
    ⟨h.1, h.2.1, h.2.2.1, h.2.2.2.1, h.2.2.2.2.1, tiles_snoc max r y.c mid x h.2.2.2.2.2 h1 h2 h3 h4 h5⟩

structure PosOK (max : Nat) (p : Pos) : Prop where
  le : p.start ≤ p.written
  fwd : ∀ i, Forward 0 (cutsOf i p.cuts) p.start
  tiles : 0 < max → Tiles max 0 (p.cuts.map (·.1)) p.start

theorem posOK_init (max : Nat) : PosOK max {} := ⟨Nat.le_refl _, fun _ => Nat.le_refl _, fun _ => rfl⟩

theorem posStep_ok (max : Nat) (p : Pos) (op : Op) (h : PosOK max p) : PosOK max (posStep max p op) := by
  obtain ⟨hle, hf, ht⟩ := h
  cases op with
  | write ch => exact ⟨by simp only [posStep]; omega, hf, ht⟩
  | read j => exact ⟨hle, hf, ht⟩
  | flush acpt =>
    simp only [posStep]
    by_cases hn : min (p.written - p.start) max = 0
    · simp only [hn, if_true]
      refine ⟨Nat.le_refl _, fun i => forward_hi _ _ _ _ (hf i) hle, ?_⟩
      intro hm
      have : p.start = p.written := by
        have : p.written - p.start = 0 := by
          rcases Nat.le_total (p.written - p.start) max with h | h
          · rwa [Nat.min_eq_left h] at hn
          · rw [Nat.min_eq_right h] at hn; omega
        omega
      rw [← this]; exact ht hm
    · simp only [hn, if_false]
      have hmin1 : min (p.written - p.start) max ≤ p.written - p.start := Nat.min_le_left _ _
      have hmin2 : min (p.written - p.start) max ≤ max := Nat.min_le_right _ _
      refine ⟨Nat.le_refl _, ?_, ?_⟩
      · intro i
        rw [cutsOf_snoc]
        split
        · exact forward_snoc _ _ _ _ _ (hf i) (Nat.le_refl _) (by simp) (by simp only; omega)
        · exact forward_hi _ _ _ _ (hf i) hle
      · intro hm
        rw [List.map_append]
        simp only [List.map_cons, List.map_nil]
        have := tiles_snoc max (p.cuts.map (·.1)) 0 p.start
          { a := p.start, b := p.start + min (p.written - p.start) max, c := p.written }
          (ht hm) rfl (by simp only; omega) (by simp only; omega) (by simp only; omega)
          (by
            simp only
            intro hlt
            rcases Nat.le_total (p.written - p.start) max with h | h
            · rw [Nat.min_eq_left h] at hlt; omega
            · rw [Nat.min_eq_right h]; omega)
        exact this

theorem posFrom_ok (max : Nat) (ops : List Op) (p : Pos) (h : PosOK max p) : PosOK max (posFrom max p ops) := by
  unfold posFrom
  induction ops generalizing p with
  | nil => simpa using h
  | cons op ops ih => exact ih _ (posStep_ok max p op h)

/-! ## The property, for every input, chunking, flush placement, queue behaviour and consumer delay -/

/-- from "read ++ unread = handed on" to the slice statement (any `copyOnFlush`) -/
theorem slices_of_fixed (cfg : Cfg) (ops : List Op) (i : Nat) (rest : List Bytes)
    (hfix : ((run cfg ops).cons i).out ++ rest = ((run cfg ops).cons i).handed) :
    let c := (run cfg ops).cons i
    let inp := inputOf ops
    let cuts := cutsOf i (posRun cfg.max ops).cuts
    c.out = (cuts.take c.out.length).map (sliceOf inp) ∧ c.out.length ≤ cuts.length ∧
      Forward 0 cuts inp.length := by
  intro c inp cuts
  have hI : Inv inp (run cfg ops) (posRun cfg.max ops) := runFrom_inv cfg ops [] {} {} inv_init
  have hP : PosOK cfg.max (posRun cfg.max ops) := posFrom_ok cfg.max ops {} (posOK_init cfg.max)
  rw [hI.handed i] at hfix
  obtain ⟨h1, h2⟩ := prefix_of_append_eq _ _ _ hfix
  refine ⟨?_, ?_, ?_⟩
  · rw [List.map_take]; exact h1
  · simpa using h2
  · have := hP.fwd i
    apply forward_hi _ _ _ _ this
    rw [← hI.wr]; exact hP.le

/-- **C17 (main)**. Today's code: what consumer `i` has read so far is, message by message, the input
    slice `[a_k, b_k)` cut by the flush that produced it (the cuts of the messages its queue took, in
    order; a message not yet read is simply not there yet), and the cut points move forward:
    `0 ≤ a_1 ≤ b_1 ≤ a_2 ≤ b_2 ≤ … ≤ |input|`. -/
theorem output_is_ordered_slices (max : Nat) (ops : List Op) (i : Nat) :
    let c := (run ⟨max, true⟩ ops).cons i
    let inp := inputOf ops
    let cuts := cutsOf i (posRun max ops).cuts
    c.out = (cuts.take c.out.length).map (sliceOf inp) ∧ c.out.length ≤ cuts.length ∧
      Forward 0 cuts inp.length :=
  slices_of_fixed ⟨max, true⟩ ops i _ (runFrom_good max ops {} (fun _ => good_init) i).fixed

/-- the full statement as a property of a configuration -/
def OutputIsOrderedSlices (cfg : Cfg) : Prop :=
  ∀ (ops : List Op) (i : Nat), ∃ cuts : List Cut,
    Forward 0 cuts (inputOf ops).length ∧ ((run cfg ops).cons i).out = cuts.map (sliceOf (inputOf ops))

theorem forward_take : ∀ (cs : List Cut) (n lo hi : Nat), Forward lo cs hi → Forward lo (cs.take n) hi
  | [], n, _, _, h => by simpa using h
  | x :: r, 0, lo, hi, h => by
    have := forward_le _ _ _ h
    simpa [Forward] using this
  | x :: r, n + 1, _, hi, h => ⟨h.1, h.2.1, forward_take r n x.b hi h.2.2⟩

theorem ordered_slices_hold (max : Nat) : OutputIsOrderedSlices ⟨max, true⟩ := by
  intro ops i
  obtain ⟨h1, _, h3⟩ := output_is_ordered_slices max ops i
  exact ⟨_, forward_take _ _ _ _ h3, h1⟩

/-- **C17 (drops)**. For every run (0 < max): the cuts of all flushes tile the input up to the start of
    the accumulation buffer — first message starts at 0, each message has 1..max bytes, the next one
    starts exactly where the bytes dropped behind the previous one end, bytes are dropped only behind
    a message of exactly `max` bytes — and the rest of the input is what the buffer still holds. -/
theorem drops_exact (max : Nat) (hmax : 0 < max) (cp : Bool) (ops : List Op) :
    let p := posRun max ops
    Tiles max 0 (p.cuts.map (·.1)) p.start ∧
      (run ⟨max, cp⟩ ops).acc = (inputOf ops).drop p.start ∧ p.start ≤ (inputOf ops).length := by
  intro p
  have hI : Inv (inputOf ops) (run ⟨max, cp⟩ ops) (posRun max ops) := runFrom_inv ⟨max, cp⟩ ops [] {} {} inv_init
  have hP : PosOK max (posRun max ops) := posFrom_ok max ops {} (posOK_init max)
  exact ⟨hP.tiles hmax, hI.acc, by rw [← hI.wr]; exact hP.le⟩

theorem tiles_flatten (max : Nat) (inp : Bytes) : ∀ (cs : List Cut) (lo hi : Nat),
    Tiles max lo cs hi → (∀ x ∈ cs, x.b = x.c) → (cs.map (sliceOf inp)).flatten = slice inp lo hi ∧ lo ≤ hi
  | [], lo, hi, h, _ => by
    have : lo = hi := h
    subst this
    simp [slice]
  | x :: r, lo, hi, h, hb => by
    obtain ⟨h1, h2, h3, _, _, h6⟩ := h
    have hx := hb x (by simp)
    obtain ⟨ih, ihle⟩ := tiles_flatten max inp r x.c hi h6 (fun y hy => hb y (by simp [hy]))
    refine ⟨?_, by omega⟩
    simp only [List.map_cons, List.flatten_cons, ih, sliceOf]
    rw [← hx, ← h1]
    exact slice_adj inp x.a x.b hi (by omega) (by omega)

/-- **C17 (lossless regime)**. If no flush ever found more than `max` bytes (nothing dropped), a consumer
    whose queue took every message and that has read them all has read exactly the flushed part of the
    input, in order, nothing missing, nothing twice. -/
theorem lossless_when_within_max (max : Nat) (hmax : 0 < max) (ops : List Op) (i : Nat)
    (hnodrop : ∀ x ∈ (posRun max ops).cuts, x.1.b = x.1.c)
    (hall : ∀ x ∈ (posRun max ops).cuts, i ∈ x.2)
    (hread : ((run ⟨max, true⟩ ops).cons i).queue = []) :
    ((run ⟨max, true⟩ ops).cons i).out.flatten = (inputOf ops).take (posRun max ops).start := by
  have hI : Inv (inputOf ops) (run ⟨max, true⟩ ops) (posRun max ops) := runFrom_inv ⟨max, true⟩ ops [] {} {} inv_init
  have hG : Good ((run ⟨max, true⟩ ops).cons i) := runFrom_good max ops {} (fun _ => good_init) i
  have hP : PosOK max (posRun max ops) := posFrom_ok max ops {} (posOK_init max)
  have hfix := hG.fixed
  rw [hread, hI.handed i] at hfix
  simp only [List.map_nil, List.append_nil] at hfix
  have hall' : cutsOf i (posRun max ops).cuts = (posRun max ops).cuts.map (·.1) := by
    unfold cutsOf
    rw [List.filter_eq_self.mpr (fun x hx => by simpa using hall x hx)]
  rw [hfix, hall']
  have := (tiles_flatten max (inputOf ops) _ 0 _ (hP.tiles hmax) (by
    intro x hx
    obtain ⟨y, hy, rfl⟩ := List.mem_map.mp hx
    exact hnodrop y hy)).1
  rw [this]; simp [slice]

/-- the content-stability statement as a property of a configuration: whatever happens between hand-off
    and read, a message is read with the content it had when it was handed on -/
def ContentFixedAtHandoff (cfg : Cfg) : Prop :=
  ∀ (ops : List Op) (i : Nat),
    let c := (run cfg ops).cons i
    c.out = c.handed.take c.out.length

/-- **C17 (stability)**. Today's code: every message read had, when read, the content it had at hand-off;
    and the messages still queued read the same whatever the flush array holds now or later. -/
theorem content_fixed_at_handoff (max : Nat) :
    ContentFixedAtHandoff ⟨max, true⟩ ∧
    ∀ (ops : List Op) (i : Nat) (raw' : Bytes),
      let s := run ⟨max, true⟩ ops
      (s.cons i).out ++ (s.cons i).queue.map (content raw') = (s.cons i).handed := by
  have hG : ∀ ops i, Good ((run ⟨max, true⟩ ops).cons i) :=
    fun ops i => runFrom_good max ops {} (fun _ => good_init) i
  refine ⟨?_, ?_⟩
  · intro ops i
    exact (prefix_of_append_eq _ _ _ (hG ops i).fixed).1
  · intro ops i raw'
    simp only
    rw [content_allval _ (hG ops i).allval raw' []]
    exact (hG ops i).fixed

/-! ## The code before 833d3d2 (`frame := rawFrame[:n]`) -/

/-- chunks `A` then `B` of equal length (1..max), each flushed, consumer 0 queues both and reads them
    afterwards: it reads `B, B`, although `A, B` was handed on. -/
theorem aliasing_reads_B_B (max : Nat) (A B : Bytes) (hl : A.length = B.length) (h0 : 0 < A.length)
    (hm : A.length ≤ max) :
    let c := (run ⟨max, false⟩ [.write A, .flush [0], .write B, .flush [0], .read 0, .read 0]).cons 0
    c.out = [B, B] ∧ c.handed = [A, B] := by
  have e1 : min A.length max = A.length := Nat.min_eq_left hm
  have e2 : min B.length max = B.length := by rw [← hl]; exact e1
  have n1 : A.length ≠ 0 := by omega
  have n2 : B.length ≠ 0 := by omega
  have t : List.take B.length A = A := by rw [← hl]; exact List.take_length
  simp [run, runFrom, step, Cons.deliver, Cons.read, content, e2, n2, hl, t]

/-- **C17 (negation for the pre-fix code)**: neither property holds with `copyOnFlush = false`. -/
theorem aliasing_corrupts (max : Nat) (hmax : 0 < max) :
    ¬ OutputIsOrderedSlices ⟨max, false⟩ ∧ ¬ ContentFixedAtHandoff ⟨max, false⟩ := by
  have hw := aliasing_reads_B_B max [1] [2] rfl (by decide) hmax
  obtain ⟨hout, hhand⟩ := hw
  refine ⟨?_, ?_⟩
  · intro h
    obtain ⟨cuts, hf, ho⟩ := h [.write [1], .flush [0], .write [2], .flush [0], .read 0, .read 0] 0
    rw [hout] at ho
    have hinp : inputOf [.write [1], .flush [0], .write [2], .flush [0], .read 0, .read 0] = [1, 2] := rfl
    rw [hinp] at ho hf
    match cuts, ho, hf with
    | [], ho, _ => simp at ho
    | [_], ho, _ => simp at ho
    | _ :: _ :: _ :: _, ho, _ => simp at ho
    | [x, y], ho, hf =>
      simp only [List.map_cons, List.map_nil, List.cons.injEq, and_true] at ho
      obtain ⟨hx, hy⟩ := ho
      obtain ⟨_, hxab, hxy, hyab, hy2⟩ := hf
      have hy2 : y.b ≤ 2 := hy2
      have lx := congrArg List.length hx
      have ly := congrArg List.length hy
      simp only [sliceOf, slice, List.length_take, List.length_drop, List.length_cons, List.length_nil] at lx ly
      have hxa : x.a = 0 := by omega
      have hxb : x.b = 1 := by omega
      simp only [sliceOf, slice] at hx
      rw [hxa, hxb] at hx
      simp at hx
  · intro h
    have := h [.write [1], .flush [0], .write [2], .flush [0], .read 0, .read 0] 0
    simp only at this
    rw [hout, hhand] at this
    simp at this


/-! ### the pre-fix code is right for a consumer that never holds a message across a flush -/

/-- along the run from `s`, consumer `i` holds no unread message whenever the idle timer fires -/
def Prompt (cfg : Cfg) (i : Nat) : St → List Op → Prop
  | _, [] => True
  | s, .flush a :: r => (s.cons i).queue = [] ∧ Prompt cfg i (step cfg s (.flush a)) r
  | s, op :: r => Prompt cfg i (step cfg s op) r

/-- views included: read ++ unread (looked up in the flush array as it is now) = handed on -/
def FixedNow (s : St) (i : Nat) : Prop :=
  (s.cons i).out ++ (s.cons i).queue.map (content s.raw) = (s.cons i).handed

theorem read_fixedNow (c : Cons) (raw : Bytes) (h : c.out ++ c.queue.map (content raw) = c.handed) :
    (c.read raw).out ++ (c.read raw).queue.map (content raw) = (c.read raw).handed := by
  unfold Cons.read
  cases hq : c.queue with
  | nil => simpa [hq] using h
  | cons m q =>
    rw [hq] at h
    simp only [List.map_cons] at h ⊢
    rw [List.append_assoc]; exact h

theorem runFrom_fixedNow (cfg : Cfg) (i : Nat) : ∀ (ops : List Op) (s : St),
    Prompt cfg i s ops → FixedNow s i → FixedNow (runFrom cfg s ops) i
  | [], _, _, h => h
  | .write ch :: r, s, hp, h => runFrom_fixedNow cfg i r _ hp h
  | .read j :: r, s, hp, h => by
    apply runFrom_fixedNow cfg i r _ hp
    unfold FixedNow
    simp only [step]
    split
    · exact read_fixedNow _ _ h
    · exact h
  | .flush a :: r, s, hp, h => by
    obtain ⟨hq, hp⟩ := hp
    apply runFrom_fixedNow cfg i r _ hp
    unfold FixedNow at h ⊢
    rw [hq] at h
    simp only [step]
    split
    · simp only [hq]; exact h
    · simp only
      split
      · simp only [Cons.deliver, hq, List.nil_append, List.map_cons, List.map_nil]
        have hl : (s.acc.take (min s.acc.length cfg.max)).length = min s.acc.length cfg.max := by
          rw [List.length_take]; omega
        have hc : content (s.acc.take (min s.acc.length cfg.max) ++ s.raw.drop (min s.acc.length cfg.max))
            (if cfg.copyOnFlush then Msg.val (s.acc.take (min s.acc.length cfg.max))
             else Msg.view (min s.acc.length cfg.max)) = s.acc.take (min s.acc.length cfg.max) := by
          cases cfg.copyOnFlush
          · simp only [content, Bool.false_eq_true, if_false]
            exact List.take_left' hl
          · simp [content]
        rw [hc]
        simp only [List.map_nil, List.append_nil] at h
        rw [h]
      · simp only [hq]; exact h

/-- **C17 (`…_partial` for the pre-fix code)**: with `frame := rawFrame[:n]`, a consumer that has read
    every message it holds before the idle timer fires again (never holds one across a flush) still
    reads forward-moving slices with the content handed on. Queueing (Send depth ≥ 1, a lagging
    destination) is exactly what breaks it (`aliasing_reads_B_B`). -/
theorem aliasing_partial (max : Nat) (ops : List Op) (i : Nat) (hp : Prompt ⟨max, false⟩ i {} ops) :
    let c := (run ⟨max, false⟩ ops).cons i
    let cuts := cutsOf i (posRun max ops).cuts
    c.out = c.handed.take c.out.length ∧
    c.out = (cuts.take c.out.length).map (sliceOf (inputOf ops)) ∧ c.out.length ≤ cuts.length ∧
      Forward 0 cuts (inputOf ops).length := by
  have hf : FixedNow (run ⟨max, false⟩ ops) i := runFrom_fixedNow ⟨max, false⟩ i ops {} hp rfl
  exact ⟨(prefix_of_append_eq _ _ _ hf).1, slices_of_fixed ⟨max, false⟩ ops i _ hf⟩

/-! ## Websocket ingest: message in, same message out -/

theorem msgq_runFrom (i : Nat) : ∀ (ops : List Msgq.Op) (s : Msgq.St), Good (s.cons i) →
    Good ((Msgq.runFrom s ops).cons i) ∧
      ((Msgq.runFrom s ops).cons i).handed = (s.cons i).handed ++ Msgq.accepted i ops
  | [], s, h => ⟨h, by simp [Msgq.runFrom, Msgq.accepted]⟩
  | .read j :: r, s, h => by
    have hs : Good ((Msgq.step s (.read j)).cons i) := by
      simp only [Msgq.step]; split
      · exact good_read _ _ h
      · exact h
    have hh : ((Msgq.step s (.read j)).cons i).handed = (s.cons i).handed := by
      simp only [Msgq.step]; split
      · exact read_handed _ _
      · rfl
    obtain ⟨h1, h2⟩ := msgq_runFrom i r _ hs
    exact ⟨h1, by rw [← hh]; exact h2⟩
  | .post m a :: r, s, h => by
    by_cases hc : i ∈ a
    · have hs : Good ((Msgq.step s (.post m a)).cons i) := by
        simp only [Msgq.step, if_pos hc]; exact good_deliver _ _ h
      obtain ⟨h1, h2⟩ := msgq_runFrom i r _ hs
      refine ⟨h1, ?_⟩
      have : (Msgq.runFrom s (.post m a :: r)) = Msgq.runFrom (Msgq.step s (.post m a)) r := rfl
      rw [this, h2]
      simp [Msgq.step, hc, Cons.deliver, Msgq.accepted]
    · have hs : (Msgq.step s (.post m a)).cons i = s.cons i := by
        simp only [Msgq.step, if_neg hc]
      obtain ⟨h1, h2⟩ := msgq_runFrom i r (Msgq.step s (.post m a)) (by rw [hs]; exact h)
      refine ⟨h1, ?_⟩
      have : (Msgq.runFrom s (.post m a :: r)) = Msgq.runFrom (Msgq.step s (.post m a)) r := rfl
      rw [this, h2, hs]
      simp [hc, Msgq.accepted]

/-- **C17 (websocket ingest / hub fan-out)**. For every sequence of posted messages, queue behaviour and
    consumer delay: what consumer `i` has read is a prefix of the posted messages its queue took —
    each one whole, unchanged, once, in posting order. -/
theorem ws_messages_in_order (ops : List Msgq.Op) (i : Nat) :
    let c := (Msgq.run ops).cons i
    c.out = (Msgq.accepted i ops).take c.out.length ∧ c.out.length ≤ (Msgq.accepted i ops).length := by
  obtain ⟨hg, hh⟩ := msgq_runFrom i ops {} good_init
  have hf := hg.fixed
  rw [hh] at hf
  simp only [List.nil_append] at hf
  exact prefix_of_append_eq _ _ _ hf

/-! ### non-vacuity: concrete runs -/

/-- max 4; 6 bytes arrive before the timer fires (2 dropped), then 3 more; consumer 0 queues both
    messages and reads late, consumer 1 misses the first message: -/
example :
    let ops := [Op.write [1, 2, 3], .write [4, 5, 6], .flush [0], .write [7, 8, 9], .flush [0, 1],
                .read 0, .read 0, .read 1, .write [10]]
    let s := run ⟨4, true⟩ ops
    (s.cons 0).out = [[1, 2, 3, 4], [7, 8, 9]] ∧ (s.cons 1).out = [[7, 8, 9]] ∧ s.acc = [10] ∧
      (posRun 4 ops).cuts.map (·.1) = [⟨0, 4, 6⟩, ⟨6, 9, 9⟩] ∧
      inputOf ops = [1, 2, 3, 4, 5, 6, 7, 8, 9, 10] := by
  decide

/-- the same schedule on the pre-fix code: consumer 0 reads the second message twice (first one
    overwritten in place, cut to its own length) -/
example :
    let ops := [Op.write [1, 2, 3], .write [4, 5, 6], .flush [0], .write [7, 8, 9], .flush [0, 1],
                .read 0, .read 0, .read 1]
    ((run ⟨4, false⟩ ops).cons 0).out = [[7, 8, 9, 4], [7, 8, 9]] := by
  decide

example :
    let ops := [Msgq.Op.post [1, 2] [0, 1], .post [] [0], .post [3] [1], .read 0, .read 1, .read 0, .read 1]
    ((Msgq.run ops).cons 0).out = [[1, 2], []] ∧ ((Msgq.run ops).cons 1).out = [[1, 2], [3]] := by
  decide

end Flush
