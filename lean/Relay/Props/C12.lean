import Relay.Base.Locks
import Relay.Base.LockSerial
import Relay.Extracted.Locks

/-!
# C12 — concurrent use of the relay is equivalent to some serial use

Three layers:
1. `all_wellLocked` — a kernel-evaluated check of the table REGENERATED from /repo's source on every run
   (`Relay/Extracted/Locks.lean`): every method of the code store, the deny/allow store and the
   cancel-channel store, and every crossbar function touching hub membership or per-connection statistics,
   reads its guarded fields only under the guarding mutex (R or W), writes them only under W, balances its
   locks and holds nothing at exit.
2. `stores_race_free` — therefore (generic theorem `Locks.wellLocked_race_free`) for ANY number of
   goroutines each running ANY of these functions, under every schedule the mutexes admit, no two
   conflicting accesses to one guarded location are ever enabled together.
3. `LockSerial.serializes` — bodies that are single critical sections of one mutex leave the memory, whenever
   the lock is free, equal to the serial execution of the completed sections in acquisition order, for every
   schedule: each store method is one atomic step (what C02, C07, C10 assume).
-/

namespace C12
open Locks

/-- the regenerated lock table satisfies the discipline (fails to elaborate if any method of the current
    source lost a lock, accesses a guarded field outside it, or leaves a lock held) -/
theorem all_wellLocked : ∀ m ∈ Extracted.methods, wellLocked m.2 = true := by decide

/-- **no mutex is held across a wait for another goroutine**: in the current source no store method and no crossbar function
    performs a channel send or receive (outside a `select` with a `default`), a `WaitGroup.Wait` or a `Sleep` between taking and
    releasing one of the mutexes of the table. This is what makes "a goroutine holding a lock finishes its critical section without
    anybody's help" true — the premise under which a lock table says something about progress (a lock held across an unbuffered
    hand-over to the hub dead-locks with the status scan as soon as the hub itself waits for the hub lock). -/
theorem no_blocking_under_lock : Extracted.blockingUnderLock = [] := rfl

/-- every guarded location named in the property is covered by the table -/
theorem guarded_state_covered :
    ∀ loc ∈ ["CodeStore.store", "deny.AllowList", "deny.DenyList", "chanmap.ChildrenByParent", "chanmap.ParentByChild",
             "crossbar.Hub.clients", "crossbar.Frames.tx", "crossbar.Frames.rx"],
      (guardOf loc).isSome = true ∧ ∃ m ∈ Extracted.methods, (Ev.wr loc ∈ m.2 ∨ Ev.rd loc ∈ m.2) := by decide

/-- **race freedom for every interleaving**: any number of goroutines, each executing any function of the
    table, any schedule admitted by the mutexes: conflicting accesses are never enabled together. -/
theorem stores_race_free (threads : List (List Ev))
    (hfrom : ∀ b ∈ threads, ∃ m ∈ Extracted.methods, b = m.2)
    (c : Config) (hr : Reach threads c) (t1 t2 : Nat) (hne : t1 ≠ t2) (e1 e2 : Ev)
    (h1 : c.next t1 = some e1) (h2 : c.next t2 = some e2) : conflicting e1 e2 = none := by
  apply wellLocked_race_free threads _ c hr t1 t2 hne e1 e2 h1 h2
  intro b hb
  obtain ⟨m, hm, rfl⟩ := hfrom b hb
  exact all_wellLocked m hm

/-- the methods whose whole guarded work is one critical section of one mutex (so `LockSerial.serializes`
    applies to them): a single lock … unlock bracket with every access inside -/
def singleSection (evs : List Ev) : Bool :=
  match evs with
  | [] => true
  | .lock m :: rest =>
    (match rest.reverse with
     | .unlock m' :: mid => m == m' && mid.all (fun e => match e with | .rd _ | .wr _ => true | _ => false)
     | _ => false)
  | _ => false

def hasPrefix (p s : String) : Bool := p.toList.isPrefixOf s.toList

theorem store_methods_single_section :
    ∀ m ∈ Extracted.methods, (hasPrefix "ttlcode." m.1 || hasPrefix "deny." m.1 || hasPrefix "chanmap." m.1) = true →
      singleSection m.2 = true := by decide

/-- for every schedule and any number of concurrent store calls (each a critical section over the store's
    state `σ`), when the mutex is free the store equals the serial execution in acquisition order -/
theorem store_ops_linearizable {σ : Type} (bodies : List (LockSerial.Body σ)) (m0 : σ) (sched : List Nat) :
    let s := sched.foldl (LockSerial.step bodies) (LockSerial.init m0)
    s.holder = none → s.mem = LockSerial.foldEff bodies s.order m0 :=
  LockSerial.serializes bodies m0 sched

/-! non-vacuity: two goroutines in `ExchangeCode` racing with `DeleteByBookingID` is an instance -/
example : ∃ m1 ∈ Extracted.methods, ∃ m2 ∈ Extracted.methods,
    m1.1 = "ttlcode.CodeStore.ExchangeCode" ∧ m2.1 = "ttlcode.CodeStore.DeleteByBookingID" ∧
    Ev.wr "CodeStore.store" ∈ m1.2 ∧ Ev.wr "CodeStore.store" ∈ m2.2 := by decide

end C12
