import Relay.Model.Expiry
import Relay.Props.C01
import Relay.Props.C13
import Relay.Props.C03
import Relay.Extracted.Consts

/-!
# C06 — a connection lasts as long as its token allows and no longer
-/

namespace Expiry

theorem wrap64_id (x : Int) (h1 : -(2 : Int) ^ 63 ≤ x) (h2 : x < 2 ^ 63) : wrap64 x = x := by
  unfold wrap64
  have : (x + 2 ^ 63) % 2 ^ 64 = x + 2 ^ 63 := Int.emod_eq_of_lt (by omega) (by omega)
  omega

/-- **closed within a second after E, never before**: for every admission instant `a ≥ 0` and every expiry
    `expS` not before the admission second and less than 2^63 ns (≈ 292 years) away, the relay cancels the
    connection at an instant in `[E, E + 1 s)`, namely at E plus the sub-second offset of the admission. -/
theorem closes_within_a_second (a expS : Int) (ha : 0 ≤ a) (hge : nowS a ≤ expS)
    (hno : (expS - nowS a) * second < 2 ^ 63) :
    closeAt a expS = expS * second + a % second ∧
    expS * second ≤ closeAt a expS ∧ closeAt a expS < (expS + 1) * second := by
  unfold closeAt timerNs nowS second at *
  have hnn : 0 ≤ (expS - a / 1000000000) * 1000000000 := by omega
  have hw := wrap64_id ((expS - a / 1000000000) * 1000000000) (by omega) hno
  rw [hw, Int.max_eq_left hnn]
  omega

/-- the hypothesis `… < 2^63` is forced by the arithmetic: beyond it the product wraps and the relay
    closes the connection AT ONCE (known finding K3): e.g. a token expiring 9 223 372 037 s (≈ 292.5 years)
    after admission. -/
theorem overflow_closes_immediately :
    let a : Int := 1000000 * second + 500000000
    let expS : Int := 1000000 + 9223372037
    closeAt a expS = a ∧ ¬ (expS * second ≤ closeAt a expS) := by decide

/-- an already-expired token (`expS < now`) is cancelled immediately as well — but such a token is not
    admitted in the first place (`Access.ws_join_iff`: `s.now ≤ pt.exp`) -/
theorem expired_timer_fires_at_once (a expS : Int) (hlt : expS < nowS a) (hno : -(2:Int) ^ 63 ≤ (expS - nowS a) * second) :
    closeAt a expS = a := by
  unfold closeAt timerNs nowS second at *
  have hneg : (expS - a / 1000000000) * 1000000000 < 0 := by omega
  rw [wrap64_id _ hno (by omega)]
  omega

/-- **a code presented before nbf or after exp admits nothing** (from the admission decision, C01) -/
theorem early_or_late_code_admits_none (cfg : Access.Config) (s : Access.St) (path : List Char) (c : Nat) (ua remote : String)
    (e : TtlCode.Entry) (pt : Access.PTok)
    (hf : TtlCode.find s.codes.entries c = some e) (hpt : s.ptoks[e.tok]? = some pt)
    (hbad : s.now < pt.nbf ∨ pt.exp < s.now) :
    ∀ n, (Access.wsAdmit cfg s path (some c) ua remote).2 ≠ .joined n := by
  intro n hn
  obtain ⟨c', e', pt', hc, hf', _, hpt', hA⟩ := (Access.ws_join_iff cfg s path (some c) ua remote).1 ⟨n, hn⟩
  injection hc with hc; subst hc
  rw [hf] at hf'; injection hf' with hf'; subst hf'
  rw [hpt] at hpt'; injection hpt' with hpt'; subst hpt'
  have h1 := hA.2.2.2.2.2.2.1
  have h2 := hA.2.2.2.2.2.2.2.1
  rcases hbad with h | h <;> omega

/-- **a cooperative client is never timed out**: if `pingPeriod + δ < pongWait`, every pong of a
    δ-cooperative client arrives before the read deadline then in force, for every ping number — so the
    keep-alive never ends the connection, however long it sits idle. -/
theorem cooperative_survives (t0 pingPeriod pongWait δ : Int) (hp : 0 ≤ pingPeriod) (hd : 0 ≤ δ)
    (hmargin : pingPeriod + δ < pongWait) (k : Nat) :
    pongBy t0 pingPeriod δ (k + 1) < deadlineAfter t0 pingPeriod pongWait k := by
  unfold pongBy deadlineAfter
  have : ((k + 1 : Nat) : Int) * pingPeriod = (k : Int) * pingPeriod + pingPeriod := by
    rw [Int.natCast_succ, Int.add_mul, Int.one_mul]
  omega

/-- **source obligation**: with the constants REGENERATED from the source, the margin is positive: a client
    that answers pings within 5.9 s and keeps reading is never timed out; the write deadline is positive -/
theorem keepalive_constants :
    Extracted.pingPeriod + 5900000000 < Extracted.pongWait ∧ 0 < Extracted.pingPeriod ∧ 0 < Extracted.writeWait ∧
    Extracted.maxMessageSize = 10 * 1024 * 1024 ∧ Extracted.expiryTimerExpr = "time.Duration(ttl) * time.Second" := by decide

theorem cooperative_survives_current (t0 δ : Int) (hd : 0 ≤ δ) (hδ : δ ≤ 5900000000) (k : Nat) :
    pongBy t0 Extracted.pingPeriod δ (k + 1) < deadlineAfter t0 Extracted.pingPeriod Extracted.pongWait k :=
  cooperative_survives t0 _ _ δ (by decide) hd (by have := keepalive_constants.1; omega) k

/-- **nothing is relayed to or from it afterwards**: once the reader has exited (it is unregistered), the
    connection is not a hub member, so an inbound frame attributed to it changes nothing (`Hub.unjoined_never_relays`)
    and the fan-out, which walks members only, cannot reach it (`Hub.broadcast_members_sub`). -/
theorem no_relay_after_close (h : Hub.Hub) (n : Nat) (d : List Nat) (mt : Nat) :
    let h' := Hub.step h (.unregister n)
    Hub.findMember h' n = none ∧ Hub.step h' (.inbound n d mt) = h' := by
  intro h'
  have hnone : Hub.findMember h' n = none := by
    simp only [h', Hub.findMember, Hub.step]
    apply List.find?_eq_none.2
    intro c hc
    simp only [List.mem_filter, bne_iff_ne, ne_eq] at hc
    simpa using hc.2
  exact ⟨hnone, Hub.unjoined_never_relays h' n d mt hnone⟩

/-! non-vacuity -/
example : closeAt (1000000 * second + 950000000) 1000003 = 1000003 * second + 950000000 := by decide
example : closeAt (1000000 * second) 1000000 = 1000000 * second := by decide

end Expiry
