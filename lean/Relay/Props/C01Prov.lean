import Relay.Props.C14Members

/-!
# C01 over whole histories — provenance of every code and of every joined connection

For every history of relay operations (sessions, denies, allows, admissions, traffic, disconnects, prunes,
sweeps, clock moves, in any order): every connection token ever minted, every code in the store and every
connection joined to the hub traces back to a session request that the access API GRANTED to a bearer
token which AT THAT MOMENT was fully valid for the requested topic (HMAC-signed with the secret, inside its
nbf/exp window, addressed to this relay, complete in its claims, naming exactly that topic); and the joined
connection carries that token's topic, booking id, scopes and expiry.
-/

namespace Relay
open Access

/-- what is recorded about grant `g = (bearer, id, time)` justifies connection token `pt` -/
def GrantOK (cfg : Config) (g : Bearer × String × Int) (pt : PTok) : Prop :=
  (∃ s0 : St, s0.now = g.2.2 ∧ FullyValid cfg s0 g.1 g.2.1) ∧
  pt.topic = g.2.1 ∧ pt.scopes = g.1.scopes ∧ pt.bid = g.1.bid ∧ pt.exp = g.1.exp.getD 0 ∧ pt.aud = [cfg.target]

structure ProvInv (cfg : Config) (s : St) : Prop where
  len : s.ptoks.length = s.grants.length
  grant : ∀ (k : Nat) (pt : PTok), s.ptoks[k]? = some pt → ∃ g, s.grants[k]? = some g ∧ GrantOK cfg g pt
  codes : ∀ e ∈ s.codes.entries, ∃ pt, s.ptoks[e.tok]? = some pt ∧ pt.bid = e.bid
  members : ∀ c ∈ s.hub.members, ∃ i ∈ s.info, i.name = c.name ∧
      ∃ (k : Nat) (pt : PTok), s.ptoks[k]? = some pt ∧ c.topic = pt.topic ∧ c.bid = pt.bid ∧ i.scopes = pt.scopes ∧ i.exp = pt.exp

theorem prov_init (cfg : Config) : ProvInv cfg {} := ⟨rfl, by simp, by simp, by simp⟩

/-- hub events other than a registration keep name, topic and booking of every remaining member -/
theorem hub_step_ident (h : Hub.Hub) (e : Hub.Ev) (hreg : ∀ t b r w cap, e ≠ .register t b r w cap) :
    ∀ c' ∈ (Hub.step h e).members, ∃ c ∈ h.members, c'.name = c.name ∧ c'.topic = c.topic ∧ c'.bid = c.bid := by
  intro c' hc'
  cases e with
  | register t b r w cap => exact absurd rfl (hreg t b r w cap)
  | unregister n =>
    simp only [Hub.step, List.mem_filter] at hc'
    exact ⟨c', hc'.1, rfl, rfl, rfl⟩
  | inbound n d mt =>
    simp only [Hub.step] at hc'
    split at hc'
    · split at hc'
      · simp only [Hub.broadcast, List.mem_filterMap] at hc'
        obtain ⟨c, hc, ho⟩ := hc'
        refine ⟨c, hc, ?_⟩
        unfold Hub.offer at ho
        split at ho
        · split at ho
          · injection ho with ho; subst ho; exact ⟨rfl, rfl, rfl⟩
          · cases ho
        · injection ho with ho; subst ho; exact ⟨rfl, rfl, rfl⟩
      · exact ⟨c', hc', rfl, rfl, rfl⟩
    · exact ⟨c', hc', rfl, rfl, rfl⟩
  | drain n k =>
    simp only [Hub.step, List.mem_map] at hc'
    obtain ⟨c, hc, rfl⟩ := hc'
    refine ⟨c, hc, ?_⟩
    split
    · unfold Hub.drainC; split
      · exact ⟨rfl, rfl, rfl⟩
      · split <;> exact ⟨rfl, rfl, rfl⟩
    · exact ⟨rfl, rfl, rfl⟩

theorem prov_hubev (cfg : Config) (s : St) (e : Hub.Ev) (hreg : ∀ t b r w cap, e ≠ .register t b r w cap)
    (hI : ProvInv cfg s) : ProvInv cfg { s with hub := Hub.step s.hub e } := by
  refine ⟨hI.len, hI.grant, hI.codes, ?_⟩
  intro c' hc'
  obtain ⟨c, hc, hn, ht, hb⟩ := hub_step_ident s.hub e hreg c' hc'
  obtain ⟨i, hi, hin, k, pt, hpt, h1, h2, h3, h4⟩ := hI.members c hc
  exact ⟨i, hi, by rw [hin, hn], k, pt, hpt, by rw [ht, h1], by rw [hb, h2], h3, h4⟩

theorem prov_step (cfg : Config) (s : St) (op : Op) (hI : ProvInv cfg s) : ProvInv cfg (step cfg s op) := by
  -- a step that leaves tokens, grants and members alone and only shrinks the code store
  have shrink : ∀ s' : St, s'.ptoks = s.ptoks → s'.grants = s.grants → s'.hub = s.hub → s'.info = s.info →
      (∀ e ∈ s'.codes.entries, e ∈ s.codes.entries) → ProvInv cfg s' := by
    intro s' h1 h2 h3 h4 h5
    refine ⟨by rw [h1, h2]; exact hI.len, by rw [h1, h2]; exact hI.grant, ?_, by rw [h1, h3, h4]; exact hI.members⟩
    intro e he; rw [h1]; exact hI.codes e (h5 e he)
  cases op with
  | setNow t => exact shrink _ rfl rfl rfl rfl (fun e he => he)
  | session cred id =>
    simp only [step]
    by_cases hr : routable id = true
    · cases cred with
      | absent => rw [session_absent cfg s id hr]; exact hI
      | token b =>
        by_cases hv : headerValid cfg s.now b = true
        · cases hs : sessionRefusal cfg s b id with
          | some c => rw [session_refusal cfg s b id c hr hv hs]; exact hI
          | none =>
            rw [session_grant cfg s b id hr hv hs]
            have hfv : FullyValid cfg s b id := (valid_iff cfg s b id).1 ⟨hv, hs⟩
            refine ⟨?_, ?_, ?_, ?_⟩
            · simp [sessionGrant, hI.len]
            · intro k pt hk
              simp only [sessionGrant] at hk ⊢
              by_cases hlt : k < s.ptoks.length
              · rw [List.getElem?_append_left hlt] at hk
                obtain ⟨g, hg, hok⟩ := hI.grant k pt hk
                exact ⟨g, by rw [List.getElem?_append_left (by rw [← hI.len]; exact hlt)]; exact hg, hok⟩
              · have hge : s.ptoks.length ≤ k := Nat.le_of_not_lt hlt
                rw [List.getElem?_append_right hge] at hk
                have hk0 : k - s.ptoks.length = 0 := by
                  cases hd : k - s.ptoks.length with
                  | zero => rfl
                  | succ n => rw [hd] at hk; simp at hk
                rw [hk0] at hk
                simp only [List.getElem?_cons_zero, Option.some.injEq] at hk
                subst hk
                refine ⟨(b, id, s.now), ?_, ⟨⟨s, rfl, hfv⟩, rfl, rfl, rfl, rfl, rfl⟩⟩
                have hge' : s.grants.length ≤ k := by rw [← hI.len]; exact hge
                rw [List.getElem?_append_right hge', ← hI.len, hk0]
                rfl
            · intro e he
              simp only [sessionGrant, TtlCode.step, List.mem_cons] at he ⊢
              rcases he with he | he
              · subst he
                exact ⟨{ topic := id, pfx := b.pfx, bid := b.bid, scopes := b.scopes, iat := b.iat.getD 0, nbf := b.nbf.getD 0,
                         exp := b.exp.getD 0, aud := [cfg.target] }, by simp, rfl⟩
              · obtain ⟨pt, hpt, hb⟩ := hI.codes e he
                have hlt : e.tok < s.ptoks.length := by
                  rcases Nat.lt_or_ge e.tok s.ptoks.length with h | h
                  · exact h
                  · rw [List.getElem?_eq_none h] at hpt; cases hpt
                exact ⟨pt, by rw [List.getElem?_append_left hlt]; exact hpt, hb⟩
            · intro c hc
              simp only [sessionGrant] at hc ⊢
              obtain ⟨i, hi, hin, k, pt, hpt, h1, h2, h3, h4⟩ := hI.members c hc
              have hlt : k < s.ptoks.length := by
                rcases Nat.lt_or_ge k s.ptoks.length with h | h
                · exact h
                · rw [List.getElem?_eq_none h] at hpt; cases hpt
              exact ⟨i, hi, hin, k, pt, by rw [List.getElem?_append_left hlt]; exact hpt, h1, h2, h3, h4⟩
        · rw [session_badtoken cfg s b id hr (by simpa using hv)]; exact hI
    · rw [session_unroutable cfg s cred id (by simpa using hr)]; exact hI
  | deny cred bid exp =>
    simp only [step]
    by_cases h204 : (denyReq cfg s cred bid exp).2 = .status 204
    · cases cred with
      | absent => rw [deny_absent] at h204; cases h204
      | token bt =>
        obtain ⟨b', k, e, hb', hA, hbind, he⟩ := (deny_ok_iff cfg s (.token bt) bid exp).1 h204
        injection hb' with hb'; subst hb'
        rw [deny_done cfg s bt bid exp k e hA.1 hbind ((isRelayAdmin_iff cfg s bt hA.1).2 hA) he]
        refine ⟨hI.len, hI.grant, ?_, ?_⟩
        · intro en hen
          simp only [TtlCode.step] at hen
          exact hI.codes en ((TtlCode.mem_keepIf _ _ _).1 hen).1
        · intro c hc
          simp only [dropBooking, List.mem_filter] at hc
          exact hI.members c hc.1
    · rw [(refused_changes_nothing cfg s cred bid exp).1 h204]; exact hI
  | allow cred bid exp =>
    simp only [step]
    by_cases h204 : (allowReq cfg s cred bid exp).2 = .status 204
    · cases cred with
      | absent => rw [allow_absent] at h204; cases h204
      | token bt =>
        obtain ⟨b', k, e, hb', hA, hbind, he⟩ := (allow_ok_iff cfg s (.token bt) bid exp).1 h204
        injection hb' with hb'; subst hb'
        rw [allow_done cfg s bt bid exp k e hA.1 hbind ((isRelayAdmin_iff cfg s bt hA.1).2 hA) he]
        exact shrink _ rfl rfl rfl rfl (fun e he => he)
    · rw [(refused_changes_nothing cfg s cred bid exp).2 h204]; exact hI
  | ws path code ua remote =>
    simp only [step]
    by_cases hj : ∃ n, (wsAdmit cfg s path code ua remote).2 = .joined n
    · obtain ⟨n, hn⟩ := hj
      obtain ⟨c, e, pt, hc, hf, hexp, hpt, hA⟩ := (ws_join_iff cfg s path code ua remote).1 ⟨n, hn⟩
      subst hc
      have hp := hA.1
      have hout := (exchange_token_iff s.codes c e.bid e.tok).2 ⟨e, hf, hexp, rfl, rfl⟩
      have hadm := (admitCheck_iff cfg s path pt hp).2 hA
      have htopic : String.ofList (Path.route path).2 = pt.topic := hA.2.2.2.2.2.2.2.2.2.1
      rw [ws_accept cfg s path c ua remote e.bid e.tok pt hp hout hpt hadm]
      refine ⟨hI.len, hI.grant, ?_, ?_⟩
      · intro en hen
        exact hI.codes en (TtlCode.exchange_entries_sub s.codes c en hen)
      · intro m hm
        simp only [Hub.step, List.mem_append, List.mem_singleton] at hm
        rcases hm with hm | hm
        · obtain ⟨i, hi, hin, k, pt', hpt', h1, h2, h3, h4⟩ := hI.members m hm
          exact ⟨i, List.mem_append_left _ hi, hin, k, pt', hpt', h1, h2, h3, h4⟩
        · subst hm
          exact ⟨_, List.mem_append_right _ (List.mem_singleton.2 rfl), rfl, e.tok, pt, hpt, htopic, rfl, rfl, rfl⟩
    · have hno : ∀ n, (wsAdmit cfg s path code ua remote).2 ≠ .joined n := fun n hn => hj ⟨n, hn⟩
      have hh := (ws_refused_no_join cfg s path code ua remote hno).1
      have hinfo := ws_refused_info cfg s path code ua remote hno
      -- tokens and grants are untouched by an admission attempt; codes only shrink
      have hpt : (wsAdmit cfg s path code ua remote).1.ptoks = s.ptoks ∧ (wsAdmit cfg s path code ua remote).1.grants = s.grants ∧
          (∀ en ∈ (wsAdmit cfg s path code ua remote).1.codes.entries, en ∈ s.codes.entries) := by
        by_cases hp : (Path.route path).1 = "session".toList
        · cases code with
          | none => rw [ws_nocode cfg s path ua remote hp]; exact ⟨rfl, rfl, fun _ h => h⟩
          | some c =>
            by_cases hex : ∃ b t, (TtlCode.step s.codes (.exchange c)).2 = .token b t
            · obtain ⟨b, t, hout⟩ := hex
              cases hptk : s.ptoks[t]? with
              | none =>
                rw [ws_notok cfg s path c ua remote b t hp hout hptk]
                exact ⟨rfl, rfl, TtlCode.exchange_entries_sub s.codes c⟩
              | some pt =>
                by_cases hadm : admitCheck cfg s (String.ofList (Path.route path).2) pt = true
                · exfalso
                  rw [ws_accept cfg s path c ua remote b t pt hp hout hptk hadm] at hno
                  exact hno _ rfl
                · rw [ws_reject cfg s path c ua remote b t pt hp hout hptk (by simpa using hadm)]
                  exact ⟨rfl, rfl, TtlCode.exchange_entries_sub s.codes c⟩
            · rw [ws_badcode cfg s path c ua remote hp (fun b t h => hex ⟨b, t, h⟩)]
              exact ⟨rfl, rfl, TtlCode.exchange_entries_sub s.codes c⟩
        · rw [ws_notfound cfg s path code ua remote hp]; exact ⟨rfl, rfl, fun _ h => h⟩
      exact shrink _ hpt.1 hpt.2.1 hh hinfo hpt.2.2
  | send n d mt => exact prov_hubev cfg s _ (by intro _ _ _ _ _ h; cases h) hI
  | drain n k => exact prov_hubev cfg s _ (by intro _ _ _ _ _ h; cases h) hI
  | close n => exact prov_hubev cfg s _ (by intro _ _ _ _ _ h; cases h) hI
  | prune => exact shrink _ rfl rfl rfl rfl (fun e he => he)
  | sweep =>
    refine shrink _ rfl rfl rfl rfl ?_
    intro e he
    simp only [step, TtlCode.step] at he
    exact ((TtlCode.mem_keepIf _ _ _).1 he).1

theorem prov_run (cfg : Config) (ops : List Op) : ProvInv cfg (run cfg ops) := by
  unfold run
  suffices ∀ s, ProvInv cfg s → ProvInv cfg (ops.foldl (step cfg) s) from this {} (prov_init cfg)
  induction ops with
  | nil => intro s h; exact h
  | cons op ops ih => intro s h; exact ih _ (prov_step cfg s op h)

/-- **C01 over histories — joined connections**: after any history, every connection joined to the hub was
    admitted on a code minted by a session request that the access API granted, at some moment `t`, to a
    bearer `b` that was then fully valid for exactly the topic the connection is filed under; and the
    connection carries `b`'s booking id, scopes and expiry. -/
theorem member_provenance (cfg : Config) (ops : List Op) :
    ∀ c ∈ (run cfg ops).hub.members, ∃ b t s0 i,
      s0.now = t ∧ FullyValid cfg s0 b c.topic ∧
      i ∈ (run cfg ops).info ∧ i.name = c.name ∧ c.bid = b.bid ∧ i.scopes = b.scopes ∧ i.exp = b.exp.getD 0 := by
  intro c hc
  have hI := prov_run cfg ops
  obtain ⟨i, hi, hin, k, pt, hpt, h1, h2, h3, h4⟩ := hI.members c hc
  obtain ⟨g, _, ⟨s0, hs0, hfv⟩, g1, g2, g3, g4, _⟩ := hI.grant k pt hpt
  refine ⟨g.1, g.2.2, s0, i, hs0, ?_, hi, hin, by rw [h2, g3], by rw [h3, g2], by rw [h4, g4]⟩
  rw [h1, g1]; exact hfv

/-- **C01 over histories — codes**: every code in the store stands for a connection token minted by a
    granted session whose bearer was fully valid at that moment, with the same booking id. -/
theorem code_provenance (cfg : Config) (ops : List Op) :
    ∀ e ∈ (run cfg ops).codes.entries, ∃ pt b id t s0,
      (run cfg ops).ptoks[e.tok]? = some pt ∧ pt.bid = e.bid ∧ pt.topic = id ∧ s0.now = t ∧ FullyValid cfg s0 b id := by
  intro e he
  have hI := prov_run cfg ops
  obtain ⟨pt, hpt, hb⟩ := hI.codes e he
  obtain ⟨g, _, ⟨s0, hs0, hfv⟩, g1, _⟩ := hI.grant e.tok pt hpt
  exact ⟨pt, g.1, g.2.1, g.2.2, s0, hpt, hb, g1, hs0, hfv⟩

end Relay
