import Relay.Model.TtlCode

/-!
# C02 — connection codes are single-use, short-lived and die with the booking

For every history of issue / exchange / sweep / delete-by-booking / clock moves (any order, any
number of codes, clock moving in any direction):
* `exchange_at_most_once`            each code is exchanged successfully at most once
* `exchange_concurrent_at_most_once` n simultaneous exchanges of one code (each an atomic step, any
                                     order, interleaved with anything else): at most one succeeds
* `expired_admits_none`              an exchange when `now > issue time + ttl` fails, swept or not
* `purge_kills`                      after delete-by-booking b, no code issued for b before it ever succeeds
* `code_frame_exchange/clean/submit` exchanging, expiring or issuing one code never affects another
* `codes_distinct`                   issued codes are pairwise distinct (counter model of uuid)
-/

namespace TtlCode

theorem find_none_iff (es : List Entry) (c : Nat) : find es c = none ↔ ∀ e ∈ es, e.code ≠ c := by
  induction es with
  | nil => simp [find]
  | cons x xs ih => by_cases h : x.code = c <;> simp_all [find]

theorem find_some (es : List Entry) (c : Nat) (e : Entry) (h : find es c = some e) :
    e ∈ es ∧ e.code = c := by
  induction es with
  | nil => simp [find] at h
  | cons x xs ih =>
    by_cases hx : x.code = c
    · simp only [find, hx, if_true, Option.some.injEq] at h
      subst h; exact ⟨List.mem_cons_self, hx⟩
    · simp only [find, hx, if_false] at h
      exact ⟨List.mem_cons_of_mem _ (ih h).1, (ih h).2⟩

theorem mem_remove (es : List Entry) (c : Nat) (e : Entry) :
    e ∈ remove es c ↔ e ∈ es ∧ e.code ≠ c := by
  induction es with
  | nil => simp [remove]
  | cons x xs ih =>
    by_cases hx : x.code = c
    · simp only [remove, hx, if_true, ih, List.mem_cons]
      constructor
      · intro h; exact ⟨Or.inr h.1, h.2⟩
      · intro h
        rcases h.1 with h1 | h1
        · subst h1; exact absurd hx h.2
        · exact ⟨h1, h.2⟩
    · simp only [remove, hx, if_false, List.mem_cons, ih]
      constructor
      · intro h
        rcases h with h | h
        · subst h; exact ⟨Or.inl rfl, hx⟩
        · exact ⟨Or.inr h.1, h.2⟩
      · intro h
        rcases h.1 with h1 | h1
        · exact Or.inl h1
        · exact Or.inr ⟨h1, h.2⟩

theorem mem_keepIf (p : Entry → Bool) (es : List Entry) (e : Entry) :
    e ∈ keepIf p es ↔ e ∈ es ∧ p e = true := by
  induction es with
  | nil => simp [keepIf]
  | cons x xs ih =>
    by_cases hx : p x = true
    · simp only [keepIf, hx, if_true, List.mem_cons, ih]
      constructor
      · intro h
        rcases h with h | h
        · subst h; exact ⟨Or.inl rfl, hx⟩
        · exact ⟨Or.inr h.1, h.2⟩
      · intro h
        rcases h.1 with h1 | h1
        · exact Or.inl h1
        · exact Or.inr ⟨h1, h.2⟩
    · have hx' : p x = false := by simpa using hx
      simp only [keepIf, hx', Bool.false_eq_true, if_false, List.mem_cons, ih]
      constructor
      · intro h; exact ⟨Or.inr h.1, h.2⟩
      · intro h
        rcases h.1 with h1 | h1
        · subst h1; exact absurd h.2 hx
        · exact ⟨h1, h.2⟩

theorem find_remove_ne (es : List Entry) (c c' : Nat) (h : c ≠ c') :
    find (remove es c) c' = find es c' := by
  induction es with
  | nil => rfl
  | cons x xs ih =>
    by_cases h1 : x.code = c
    · subst h1
      have h2 : ¬ x.code = c' := h
      simp only [remove, if_true, find, h2, if_false, ih]
    · by_cases h2 : x.code = c'
      · subst h2
        simp only [remove, h1, if_false, find, if_true]
      · simp only [remove, h1, if_false, find, h2, ih]

theorem find_keepIf (p : Entry → Bool) (es : List Entry) (c : Nat) (e : Entry)
    (h : find es c = some e) (hp : p e = true) : find (keepIf p es) c = some e := by
  induction es with
  | nil => simp [find] at h
  | cons x xs ih =>
    by_cases hx : x.code = c
    · simp only [find, hx, if_true, Option.some.injEq] at h
      subst h
      simp [keepIf, hp, find, hx]
    · simp only [find, hx, if_false] at h
      by_cases hpx : p x = true
      · simp [keepIf, hpx, find, hx, ih h]
      · have hpx' : p x = false := by simpa using hpx
        simp [keepIf, hpx', ih h]

theorem exchange_out (s : Store) (c : Nat) :
    (step s (.exchange c)).2 =
      match find s.entries c with
      | none => .invalid
      | some e => if expired s.now e then .invalid else .token e.bid e.tok := by
  cases h : find s.entries c with
  | none => simp [step, h]
  | some e => by_cases hexp : expired s.now e = true <;> simp [step, h, hexp]

theorem exchange_state (s : Store) (c : Nat) :
    (step s (.exchange c)).1 =
      match find s.entries c with
      | none => s
      | some _ => { s with entries := remove s.entries c } := by
  cases h : find s.entries c with
  | none => simp [step, h]
  | some e => by_cases hexp : expired s.now e = true <;> simp [step, h, hexp]

theorem exchange_next (s : Store) (c : Nat) : (step s (.exchange c)).1.next = s.next := by
  rw [exchange_state]; split <;> rfl

theorem exchange_entries_sub (s : Store) (c : Nat) :
    ∀ e ∈ (step s (.exchange c)).1.entries, e ∈ s.entries := by
  rw [exchange_state]
  split
  · intro e he; exact he
  · intro e he; exact ((mem_remove _ _ _).1 he).1

/-- codes already handed out are below the counter -/
def Fresh (s : Store) : Prop := ∀ e ∈ s.entries, e.code < s.next

/-- `c` was issued and is no longer in the store -/
def Dead (s : Store) (c : Nat) : Prop := c < s.next ∧ ∀ e ∈ s.entries, e.code ≠ c

theorem fresh_step (s : Store) (op : Op) (h : Fresh s) : Fresh (step s op).1 := by
  cases op with
  | submit b t =>
    intro e he
    simp only [step, List.mem_cons] at he
    rcases he with he | he
    · subst he; simp [step]
    · have := h e he; simp only [step]; omega
  | exchange c =>
    intro e he
    rw [exchange_next]
    exact h e (exchange_entries_sub s c e he)
  | clean => intro e he; simp only [step] at he; exact h e ((mem_keepIf _ _ _).1 he).1
  | deleteByBooking b => intro e he; simp only [step] at he; exact h e ((mem_keepIf _ _ _).1 he).1
  | setNow t => exact h

theorem next_mono_step (s : Store) (op : Op) : s.next ≤ (step s op).1.next := by
  cases op with
  | exchange c => rw [exchange_next]; exact Nat.le_refl _
  | submit b t => simp [step]
  | clean => simp [step]
  | deleteByBooking b => simp [step]
  | setNow t => simp [step]

theorem dead_step (s : Store) (op : Op) (c : Nat) (h : Dead s c) : Dead (step s op).1 c := by
  obtain ⟨h1, h2⟩ := h
  refine ⟨Nat.lt_of_lt_of_le h1 (next_mono_step s op), ?_⟩
  cases op with
  | submit b t =>
    intro e he
    simp only [step, List.mem_cons] at he
    rcases he with he | he
    · subst he; simp only; omega
    · exact h2 e he
  | exchange c' => intro e he; exact h2 e (exchange_entries_sub s c' e he)
  | clean => intro e he; simp only [step] at he; exact h2 e ((mem_keepIf _ _ _).1 he).1
  | deleteByBooking b => intro e he; simp only [step] at he; exact h2 e ((mem_keepIf _ _ _).1 he).1
  | setNow t => exact h2

theorem dead_exchange_invalid (s : Store) (c : Nat) (h : Dead s c) :
    (step s (.exchange c)).2 = .invalid := by
  have : find s.entries c = none := (find_none_iff _ _).2 h.2
  rw [exchange_out, this]

theorem dead_no_success (c : Nat) (s : Store) (ops : List Op) (h : Dead s c) :
    successes c s ops = 0 := by
  induction ops generalizing s with
  | nil => rfl
  | cons op ops ih =>
    simp only [successes]
    rw [ih _ (dead_step s op c h)]
    cases op with
    | exchange c' =>
      by_cases hc : c' = c
      · subst hc; simp [dead_exchange_invalid s c' h, isOkExchange]
      · cases hh : (step s (.exchange c')).2 <;> simp [isOkExchange, hc]
    | _ => simp [isOkExchange]

/-- a successful exchange leaves the code dead -/
theorem ok_exchange_dead (s : Store) (c : Nat) (hf : Fresh s)
    (hok : isOkExchange c (.exchange c, (step s (.exchange c)).2) = true) :
    Dead (step s (.exchange c)).1 c := by
  rw [exchange_out] at hok
  rw [exchange_state]
  cases hfind : find s.entries c with
  | none => simp [hfind, isOkExchange] at hok
  | some e =>
    obtain ⟨hmem, hcode⟩ := find_some _ _ _ hfind
    have hlt : c < s.next := hcode ▸ hf e hmem
    exact ⟨hlt, fun e' he' => ((mem_remove _ _ _).1 he').2⟩

theorem successes_le_one (c : Nat) (s : Store) (ops : List Op) (hf : Fresh s) :
    successes c s ops ≤ 1 := by
  induction ops generalizing s with
  | nil => simp [successes]
  | cons op ops ih =>
    simp only [successes]
    have ih' := ih _ (fresh_step s op hf)
    by_cases hok : isOkExchange c (op, (step s op).2) = true
    · -- then op = exchange c and the code is dead afterwards
      have hop : op = .exchange c := by
        cases op with
        | exchange c' =>
          cases hh : (step s (.exchange c')).2 <;> simp [isOkExchange, hh] at hok
          subst hok; rfl
        | _ => simp [isOkExchange] at hok
      subst hop
      rw [dead_no_success c _ ops (ok_exchange_dead s c hf hok)]
      simp [hok]
    · simp only [hok]
      simpa using ih'

/-- **C02 (i)**: over every history, every code is exchanged successfully at most once. -/
theorem exchange_at_most_once (ttl : Int) (ops : List Op) (c : Nat) :
    successes c { ttl := ttl } ops ≤ 1 :=
  successes_le_one c _ ops (by intro e he; simp at he)

/-- **C02 (ii)**: any number of simultaneous exchanges of the same code, each one atomic step
    (store mutex, C12), in any order and interleaved with any other operations `pre`/`mid`:
    at most one is admitted. (An interleaving of atomic steps *is* a history.) -/
theorem exchange_concurrent_at_most_once (ttl : Int) (pre : List Op) (n : Nat) (c : Nat)
    (between : List (List Op)) :
    successes c { ttl := ttl } (pre ++ (between.map (fun mid => Op.exchange c :: mid)).flatten
      ++ List.replicate n (Op.exchange c)) ≤ 1 :=
  exchange_at_most_once ttl _ c

/-- **C02 (iii)** one step: an exchange when the clock is past the entry's expiry is refused,
    whether or not the sweeper has run. -/
theorem expired_step_invalid (s : Store) (c : Nat)
    (h : ∀ e, find s.entries c = some e → s.now > e.exp) :
    (step s (.exchange c)).2 = .invalid := by
  rw [exchange_out]
  cases hf : find s.entries c with
  | none => rfl
  | some e => simp [expired, h e hf]

/-- every stored entry of code `c` carries expiry `x` -/
def ExpIs (s : Store) (c : Nat) (x : Int) : Prop := ∀ e ∈ s.entries, e.code = c → e.exp = x

theorem expis_step (s : Store) (op : Op) (c : Nat) (x : Int) (hc : c < s.next) (h : ExpIs s c x) :
    ExpIs (step s op).1 c x := by
  cases op with
  | submit b t =>
    intro e he hce
    simp only [step, List.mem_cons] at he
    rcases he with he | he
    · subst he; simp only at hce; omega
    · exact h e he hce
  | exchange c' => intro e he; exact h e (exchange_entries_sub s c' e he)
  | clean => intro e he; simp only [step] at he; exact h e ((mem_keepIf _ _ _).1 he).1
  | deleteByBooking b => intro e he; simp only [step] at he; exact h e ((mem_keepIf _ _ _).1 he).1
  | setNow t => exact h

theorem expis_after (s : Store) (ops : List Op) (c : Nat) (x : Int) (hc : c < s.next)
    (h : ExpIs s c x) : ExpIs (after s ops) c x := by
  unfold after
  induction ops generalizing s with
  | nil => exact h
  | cons op ops ih =>
    exact ih _ (Nat.lt_of_lt_of_le hc (next_mono_step s op)) (expis_step s op c x hc h)

/-- **C02 (iii)** over histories: a code issued at time `t0` (state `s`, any earlier history) admits
    nothing at any later point of any history at which the clock shows more than `t0 + ttl`. -/
theorem expired_admits_none (s : Store) (bid : String) (tok : Nat) (later : List Op)
    (hf : Fresh s)
    (hlate : (after (step s (.submit bid tok)).1 later).now > s.now + s.ttl) :
    (step (after (step s (.submit bid tok)).1 later) (.exchange s.next)).2 = .invalid := by
  apply expired_step_invalid
  intro e he
  obtain ⟨hmem, hcode⟩ := find_some _ _ _ he
  have hexp : ExpIs (step s (.submit bid tok)).1 s.next (s.now + s.ttl) := by
    intro e' he' hc'
    simp only [step, List.mem_cons] at he'
    rcases he' with he' | he'
    · subst he'; rfl
    · have := hf e' he'; omega
  have := expis_after _ later s.next _ (by simp [step]) hexp e hmem hcode
  rw [this]; exact hlate

/-- **C02 (iv)**: after delete-by-booking `b`, no code issued before it for booking `b` is ever
    exchanged successfully, whatever happens later. -/
theorem purge_kills (s : Store) (b : String) (later : List Op) (c : Nat) (hc : c < s.next)
    (bid : String) (tok : Nat)
    (hok : (step (after (step s (.deleteByBooking b)).1 later) (.exchange c)).2 = .token bid tok) :
    bid ≠ b := by
  -- invariant: every stored entry with a code below the purge-time counter has a booking ≠ b
  have key : ∀ (ops : List Op) (s' : Store), s.next ≤ s'.next →
      (∀ e ∈ s'.entries, e.code < s.next → e.bid ≠ b) →
      (∀ e ∈ (after s' ops).entries, e.code < s.next → e.bid ≠ b) := by
    intro ops
    induction ops with
    | nil => intro s' _ h; exact h
    | cons op ops ih =>
      intro s' hn h
      apply ih (step s' op).1 (Nat.le_trans hn (next_mono_step s' op))
      cases op with
      | submit b' t =>
        intro e he hlt
        simp only [step, List.mem_cons] at he
        rcases he with he | he
        · subst he; simp only at hlt; omega
        · exact h e he hlt
      | exchange c' => intro e he; exact h e (exchange_entries_sub s' c' e he)
      | clean => intro e he; simp only [step] at he; exact h e ((mem_keepIf _ _ _).1 he).1
      | deleteByBooking b' => intro e he; simp only [step] at he; exact h e ((mem_keepIf _ _ _).1 he).1
      | setNow t => exact h
  have h0 : ∀ e ∈ (step s (.deleteByBooking b)).1.entries, e.code < s.next → e.bid ≠ b := by
    intro e he _
    simp only [step] at he
    simpa using ((mem_keepIf _ _ _).1 he).2
  have hinv := key later _ (by simp [step]) h0
  rw [exchange_out] at hok
  cases hfind : find (after (step s (.deleteByBooking b)).1 later).entries c with
  | none => rw [hfind] at hok; cases hok
  | some e =>
    obtain ⟨hmem, hcode⟩ := find_some _ _ _ hfind
    rw [hfind] at hok
    simp only at hok
    split at hok
    · cases hok
    · injection hok with h1 h2
      subst h1
      exact hinv e hmem (hcode ▸ hc)

/-- **C02 (v)** frame: exchanging one code does not change what the store holds for another. -/
theorem code_frame_exchange (s : Store) (c c' : Nat) (h : c ≠ c') :
    find (step s (.exchange c)).1.entries c' = find s.entries c' := by
  have hrem := find_remove_ne s.entries c c' h
  rw [exchange_state]
  split
  · rfl
  · exact hrem

/-- frame: the sweeper removes a code only if that code's own entry has expired. -/
theorem code_frame_clean (s : Store) (c' : Nat) (e : Entry) (h : find s.entries c' = some e)
    (hlive : ¬ s.now > e.exp) :
    find (step s .clean).1.entries c' = some e := by
  simp only [step]
  exact find_keepIf _ _ _ _ h (by simp [expired, hlive])

/-- frame: issuing a code leaves every existing code as it was. -/
theorem code_frame_submit (s : Store) (bid : String) (tok : Nat) (c' : Nat) (hc : c' < s.next) :
    find (step s (.submit bid tok)).1.entries c' = find s.entries c' := by
  have : ¬ s.next = c' := by omega
  simp [step, find, this]

theorem exchange_not_issued (s : Store) (c k : Nat) : (step s (.exchange c)).2 ≠ .issued k := by
  rw [exchange_out]
  split
  · simp
  · split <;> simp

theorem issued_ge (s : Store) (ops : List Op) : ∀ c ∈ issuedCodes s ops, s.next ≤ c := by
  induction ops generalizing s with
  | nil => simp [issuedCodes]
  | cons op ops ih =>
    intro c hc
    have hmono := next_mono_step s op
    simp only [issuedCodes] at hc
    cases op with
    | submit b t =>
      simp only [step, List.mem_cons] at hc
      rcases hc with hc | hc
      · omega
      · have := ih _ c hc; simp only at this; omega
    | exchange c' =>
      cases ho : (step s (.exchange c')).2 with
      | issued k => exact absurd ho (exchange_not_issued s c' k)
      | _ => simp only [ho] at hc; exact Nat.le_trans hmono (ih _ c hc)
    | clean => exact ih (step s .clean).1 c hc
    | deleteByBooking b => exact ih (step s (.deleteByBooking b)).1 c hc
    | setNow t => exact ih (step s (.setNow t)).1 c hc

/-- **C02 (vi)**: the codes issued in any history are pairwise distinct (strictly increasing). -/
theorem codes_distinct (s : Store) (ops : List Op) : (issuedCodes s ops).Pairwise (· < ·) := by
  induction ops generalizing s with
  | nil => simp [issuedCodes]
  | cons op ops ih =>
    simp only [issuedCodes]
    cases op with
    | submit b t =>
      simp only [step, List.pairwise_cons]
      refine ⟨?_, ih _⟩
      intro c hc
      have := issued_ge _ ops c hc
      simp only at this; omega
    | exchange c' =>
      cases ho : (step s (.exchange c')).2 with
      | issued k => exact absurd ho (exchange_not_issued s c' k)
      | _ => exact ih _
    | clean => simp only [step]; exact ih _
    | deleteByBooking b => simp only [step]; exact ih _
    | setNow t => simp only [step]; exact ih _

/-! non-vacuity: a history where a code is issued, exchanged once (ok) and a second time (refused),
    another expires unswept, a third dies with its booking -/
example :
    let ops := [Op.setNow 100, .submit "b1" 1, .submit "b2" 2, .submit "b1" 3, .exchange 0, .exchange 0,
                .setNow 131, .exchange 1, .setNow 105, .deleteByBooking "b1", .exchange 2]
    (run { ttl := 30 } ops).2 = [.done, .issued 0, .issued 1, .issued 2, .token "b1" 1, .invalid,
                                 .done, .invalid, .done, .done, .invalid] := by
  decide

end TtlCode
