import Relay.Model.ChanMap

/-!
# C08 (cancel-channel bookkeeping part; also used by C07 and C13)

For every operation history that follows the hub's discipline (fresh connection name and fresh channel
per `add` — `Disc`), on the current code:
* `chanmap_never_panics`     no operation panics (no close of a closed channel, no nil-map write)
* `chanmap_consistent`       `ParentByChild[c] = p` iff the binding `(p, c)` exists (the invariant whose
                             failure at `deleteParent` was defect F3)
* `delparent_closes_exactly` closing a parent closes exactly its live children's channels, others untouched
* `footprint_exact`          the bookkeeping holds exactly the children added and not since deleted
-/

namespace ChanMap
open KV

/-! ### small list / map lemmas -/

theorem mem_dropKey (es : List Ent) (p c : String) (e : Ent) :
    e ∈ dropKey es p c ↔ e ∈ es ∧ ¬ (e.p = p ∧ e.c = c) := by
  by_cases h1 : e.p = p <;> by_cases h2 : e.c = c <;> simp [dropKey, List.mem_filter, h1, h2]

theorem mem_dropParent (es : List Ent) (p : String) (e : Ent) :
    e ∈ dropParent es p ↔ e ∈ es ∧ e.p ≠ p := by
  simp [dropParent, List.mem_filter]

theorem mem_ofParent (es : List Ent) (p : String) (e : Ent) :
    e ∈ ofParent es p ↔ e ∈ es ∧ e.p = p := by
  simp [ofParent, List.mem_filter]

theorem findEnt_some (es : List Ent) (p c : String) (e : Ent) (h : findEnt es p c = some e) :
    e ∈ es ∧ e.p = p ∧ e.c = c := by
  induction es with
  | nil => simp [findEnt] at h
  | cons x xs ih =>
    by_cases hx : x.p = p ∧ x.c = c
    · simp only [findEnt, hx, and_self, if_true, Option.some.injEq] at h
      subst h; exact ⟨List.mem_cons_self, hx.1, hx.2⟩
    · simp only [findEnt, hx, if_false] at h
      exact ⟨List.mem_cons_of_mem _ (ih h).1, (ih h).2⟩

theorem findEnt_none (es : List Ent) (p c : String) (h : findEnt es p c = none) :
    ∀ e ∈ es, ¬ (e.p = p ∧ e.c = c) := by
  induction es with
  | nil => simp
  | cons x xs ih =>
    by_cases hx : x.p = p ∧ x.c = c
    · simp [findEnt, hx] at h
    · simp only [findEnt, hx, if_false] at h
      intro e he
      rcases List.mem_cons.1 he with he | he
      · subst he; exact hx
      · exact ih h e he

theorem lookup_eraseAll_not_mem (m : KV String) (cs : List String) (k : String) (h : k ∉ cs) :
    lookup (eraseAll m cs) k = lookup m k := by
  induction cs generalizing m with
  | nil => rfl
  | cons c cs ih =>
    simp only [List.mem_cons, not_or] at h
    simp only [eraseAll]
    rw [ih _ h.2, lookup_erase_ne m (fun e => h.1 e.symm)]

theorem lookup_eraseAll_mem (m : KV String) (cs : List String) (k : String) (h : k ∈ cs) :
    lookup (eraseAll m cs) k = none := by
  induction cs generalizing m with
  | nil => simp at h
  | cons c cs ih =>
    simp only [eraseAll]
    by_cases hk : k ∈ cs
    · exact ih _ hk
    · rcases List.mem_cons.1 h with h | h
      · subst h; rw [lookup_eraseAll_not_mem _ _ _ hk]; exact lookup_erase_self m k
      · exact absurd h hk

theorem closeAll_ok (closed l : List Nat) (hd : l.Nodup) (hdis : ∀ x ∈ l, x ∉ closed) :
    ∃ cl, closeAll closed l = some cl ∧ ∀ x, x ∈ cl ↔ x ∈ closed ∨ x ∈ l := by
  induction l generalizing closed with
  | nil => exact ⟨closed, rfl, by simp⟩
  | cons a l ih =>
    have ha : a ∉ closed := hdis a List.mem_cons_self
    have hd' := List.nodup_cons.1 hd
    have := ih (a :: closed) hd'.2 (by
      intro x hx
      simp only [List.mem_cons, not_or]
      exact ⟨fun e => hd'.1 (e ▸ hx), hdis x (List.mem_cons_of_mem _ hx)⟩)
    obtain ⟨cl, h1, h2⟩ := this
    refine ⟨cl, by simp [closeAll, ha, h1], ?_⟩
    intro x
    rw [h2 x]
    simp only [List.mem_cons]
    constructor
    · rintro ((h | h) | h)
      · exact Or.inr (Or.inl h)
      · exact Or.inl h
      · exact Or.inr (Or.inr h)
    · rintro (h | h | h)
      · exact Or.inl (Or.inr h)
      · exact Or.inl (Or.inl h)
      · exact Or.inr h

theorem nodup_map_ch (l : List Ent) (hn : l.Nodup)
    (hinj : ∀ x ∈ l, ∀ y ∈ l, x.ch = y.ch → x = y) : (l.map (·.ch)).Nodup := by
  induction l with
  | nil => simp
  | cons a l ih =>
    have hn' := List.nodup_cons.1 hn
    simp only [List.map_cons, List.nodup_cons, List.mem_map, not_exists, not_and]
    refine ⟨?_, ih hn'.2 (fun x hx y hy => hinj x (List.mem_cons_of_mem _ hx) y (List.mem_cons_of_mem _ hy))⟩
    intro x hx hch
    have := hinj x (List.mem_cons_of_mem _ hx) a List.mem_cons_self hch
    subst this
    exact hn'.1 hx

/-! ### the invariant -/

structure Inv (s : St) : Prop where
  a : ∀ e ∈ s.ents, lookup s.parentOf e.c = some e.p
  b : ∀ c p, lookup s.parentOf c = some p → ∃ e ∈ s.ents, e.p = p ∧ e.c = c
  c : ∀ e ∈ s.ents, e.ch ∉ s.closed ∧ e.c ∈ s.usedC ∧ e.ch ∈ s.usedCh
  d : ∀ x ∈ s.ents, ∀ y ∈ s.ents, (x.c = y.c ∨ x.ch = y.ch) → x = y
  n : s.ents.Nodup
  e : ∀ ch ∈ s.closed, ch ∈ s.usedCh

theorem inv_init : Inv {} :=
  ⟨by simp, by simp, by simp, by simp, List.nodup_nil, by simp⟩

/-- the discipline condition for one operation -/
def okOp (s : St) : Op → Prop
  | .add _ c ch => c ∉ s.usedC ∧ ch ∉ s.usedCh
  | _ => True

theorem step_inv (s : St) (op : Op) (h : Inv s) (hok : okOp s op) :
    Inv (step s op).1 ∧ (step s op).2 ≠ .panic := by
  obtain ⟨ha, hb, hc, hd, hn, he⟩ := h
  cases op with
  | add p c ch =>
    obtain ⟨hcf, hchf⟩ := hok
    simp only [step]
    by_cases hp : p = ""
    · simp only [hp, if_true]; exact ⟨⟨ha, hb, hc, hd, hn, he⟩, by simp⟩
    by_cases hce : c = ""
    · simp only [hp, hce, if_true, if_false]; exact ⟨⟨ha, hb, hc, hd, hn, he⟩, by simp⟩
    simp only [hp, hce, if_false]
    have hdrop : dropKey s.ents p c = s.ents := by
      unfold dropKey
      apply List.filter_eq_self.2
      intro e hemem
      have : e.c ≠ c := fun heq => hcf (heq ▸ (hc e hemem).2.1)
      simp [this]
    rw [hdrop]
    refine ⟨⟨?_, ?_, ?_, ?_, ?_, ?_⟩, by simp⟩
    · intro e hemem
      rcases List.mem_cons.1 hemem with h1 | h1
      · subst h1; simp
      · have : c ≠ e.c := fun heq => hcf (heq ▸ (hc e h1).2.1)
        simp only []
        rw [lookup_insert_ne _ _ this]; exact ha e h1
    · intro c' p' hl
      by_cases hcc : c = c'
      · subst hcc
        simp only [lookup_insert_self, Option.some.injEq] at hl
        exact ⟨_, List.mem_cons_self, hl, rfl⟩
      · simp only [] at hl
        rw [lookup_insert_ne _ _ hcc] at hl
        obtain ⟨e, h1, h2⟩ := hb c' p' hl
        exact ⟨e, List.mem_cons_of_mem _ h1, h2⟩
    · intro e hemem
      rcases List.mem_cons.1 hemem with h1 | h1
      · subst h1
        exact ⟨fun hcl => hchf (he ch hcl), List.mem_cons_self, List.mem_cons_self⟩
      · have := hc e h1
        exact ⟨this.1, List.mem_cons_of_mem _ this.2.1, List.mem_cons_of_mem _ this.2.2⟩
    · intro x hx y hy hxy
      rcases List.mem_cons.1 hx with h1 | h1 <;> rcases List.mem_cons.1 hy with h2 | h2
      · rw [h1, h2]
      · subst h1
        rcases hxy with h | h
        · have h' : c = y.c := h
          exact absurd (h' ▸ (hc y h2).2.1) hcf
        · have h' : ch = y.ch := h
          exact absurd (h' ▸ (hc y h2).2.2) hchf
      · subst h2
        rcases hxy with h | h
        · have h' : x.c = c := h
          exact absurd (h' ▸ (hc x h1).2.1) hcf
        · have h' : x.ch = ch := h
          exact absurd (h' ▸ (hc x h1).2.2) hchf
      · exact hd x h1 y h2 hxy
    · refine List.nodup_cons.2 ⟨?_, hn⟩
      intro hmem
      exact hcf ((hc _ hmem).2.1)
    · intro x hx; exact List.mem_cons_of_mem _ (he x hx)
  | delChild c close =>
    simp only [step]
    by_cases hce : c = ""
    · simp only [hce, if_true]; exact ⟨⟨ha, hb, hc, hd, hn, he⟩, by simp⟩
    simp only [hce, if_false]
    cases hl : lookup s.parentOf c with
    | none => exact ⟨⟨ha, hb, hc, hd, hn, he⟩, by simp⟩
    | some p =>
      obtain ⟨e0, he0, hp0, hc0⟩ := hb c p hl
      dsimp only
      cases hf : findEnt s.ents p c with
      | none => exact absurd ⟨hp0, hc0⟩ (findEnt_none _ _ _ hf e0 he0)
      | some e1 =>
        obtain ⟨he1, hp1, hc1⟩ := findEnt_some _ _ _ _ hf
        have hnotcl : e1.ch ∉ s.closed := (hc e1 he1).1
        -- facts about the state after removing binding (p,c)
        have keep_c : ∀ e ∈ dropKey s.ents p c, e.c ≠ c := by
          intro e hmem hec
          obtain ⟨h1, h2⟩ := (mem_dropKey _ _ _ _).1 hmem
          have := hd e h1 e1 he1 (Or.inl (hec.trans hc1.symm))
          exact h2 ⟨this ▸ hp1, hec⟩
        have A : ∀ e ∈ dropKey s.ents p c, lookup (erase s.parentOf c) e.c = some e.p := by
          intro e hmem
          rw [lookup_erase_ne _ (fun heq => keep_c e hmem heq.symm)]
          exact ha e ((mem_dropKey _ _ _ _).1 hmem).1
        have B : ∀ c' p', lookup (erase s.parentOf c) c' = some p' →
            ∃ e ∈ dropKey s.ents p c, e.p = p' ∧ e.c = c' := by
          intro c' p' hl'
          by_cases hcc : c = c'
          · subst hcc; simp at hl'
          · rw [lookup_erase_ne _ hcc] at hl'
            obtain ⟨e, h1, h2, h3⟩ := hb c' p' hl'
            exact ⟨e, (mem_dropKey _ _ _ _).2 ⟨h1, fun hh => hcc (hh.2.symm.trans h3)⟩, h2, h3⟩
        have D : ∀ x ∈ dropKey s.ents p c, ∀ y ∈ dropKey s.ents p c, (x.c = y.c ∨ x.ch = y.ch) → x = y :=
          fun x hx y hy => hd x ((mem_dropKey _ _ _ _).1 hx).1 y ((mem_dropKey _ _ _ _).1 hy).1
        have N : (dropKey s.ents p c).Nodup := List.Nodup.sublist List.filter_sublist hn
        simp only []
        by_cases hcl : close = true
        · simp only [hcl, if_true, hnotcl, if_false]
          refine ⟨⟨A, B, ?_, D, N, ?_⟩, by simp⟩
          · intro e hmem
            obtain ⟨h1, h2⟩ := (mem_dropKey _ _ _ _).1 hmem
            have := hc e h1
            refine ⟨?_, this.2⟩
            simp only [List.mem_cons, not_or]
            refine ⟨fun heq => ?_, this.1⟩
            have := hd e h1 e1 he1 (Or.inr heq)
            exact h2 (this ▸ ⟨hp1, hc1⟩)
          · intro x hx
            rcases List.mem_cons.1 hx with h | h
            · exact h ▸ (hc e1 he1).2.2
            · exact he x h
        · have hcl' : close = false := by simpa using hcl
          simp only [hcl', Bool.false_eq_true, if_false]
          exact ⟨⟨A, B, fun e hmem => hc e ((mem_dropKey _ _ _ _).1 hmem).1, D, N, he⟩, by simp⟩
  | delParent p close =>
    simp only [step]
    by_cases hp : p = ""
    · simp only [hp, if_true]; exact ⟨⟨ha, hb, hc, hd, hn, he⟩, by simp⟩
    simp only [hp, if_false]
    have notmine : ∀ e ∈ dropParent s.ents p, e.c ∉ (ofParent s.ents p).map (·.c) := by
      intro e hmem hin
      obtain ⟨h1, h2⟩ := (mem_dropParent _ _ _).1 hmem
      obtain ⟨m, hm, hmc⟩ := List.mem_map.1 hin
      obtain ⟨hm1, hm2⟩ := (mem_ofParent _ _ _).1 hm
      have := hd m hm1 e h1 (Or.inl hmc)
      exact h2 (this ▸ hm2)
    have A : ∀ e ∈ dropParent s.ents p,
        lookup (eraseAll s.parentOf ((ofParent s.ents p).map (·.c))) e.c = some e.p := by
      intro e hmem
      rw [lookup_eraseAll_not_mem _ _ _ (notmine e hmem)]
      exact ha e ((mem_dropParent _ _ _).1 hmem).1
    have B : ∀ c' p', lookup (eraseAll s.parentOf ((ofParent s.ents p).map (·.c))) c' = some p' →
        ∃ e ∈ dropParent s.ents p, e.p = p' ∧ e.c = c' := by
      intro c' p' hl
      by_cases hin : c' ∈ (ofParent s.ents p).map (·.c)
      · rw [lookup_eraseAll_mem _ _ _ hin] at hl; cases hl
      · rw [lookup_eraseAll_not_mem _ _ _ hin] at hl
        obtain ⟨e, h1, h2, h3⟩ := hb c' p' hl
        refine ⟨e, (mem_dropParent _ _ _).2 ⟨h1, fun hep => hin ?_⟩, h2, h3⟩
        exact List.mem_map.2 ⟨e, (mem_ofParent _ _ _).2 ⟨h1, hep⟩, h3⟩
    have D : ∀ x ∈ dropParent s.ents p, ∀ y ∈ dropParent s.ents p, (x.c = y.c ∨ x.ch = y.ch) → x = y :=
      fun x hx y hy => hd x ((mem_dropParent _ _ _).1 hx).1 y ((mem_dropParent _ _ _).1 hy).1
    have N : (dropParent s.ents p).Nodup := List.Nodup.sublist List.filter_sublist hn
    by_cases hcl : close = true
    · simp only [hcl, if_true]
      have hnd : ((ofParent s.ents p).map (·.ch)).Nodup :=
        nodup_map_ch _ (List.Nodup.sublist List.filter_sublist hn)
          (fun x hx y hy hxy => hd x ((mem_ofParent _ _ _).1 hx).1 y ((mem_ofParent _ _ _).1 hy).1 (Or.inr hxy))
      have hdis : ∀ x ∈ (ofParent s.ents p).map (·.ch), x ∉ s.closed := by
        intro x hx
        obtain ⟨m, hm, rfl⟩ := List.mem_map.1 hx
        exact (hc m ((mem_ofParent _ _ _).1 hm).1).1
      obtain ⟨cl, hcl1, hcl2⟩ := closeAll_ok s.closed _ hnd hdis
      simp only [hcl1]
      refine ⟨⟨A, B, ?_, D, N, ?_⟩, by simp⟩
      · intro e hmem
        obtain ⟨h1, h2⟩ := (mem_dropParent _ _ _).1 hmem
        have := hc e h1
        refine ⟨?_, this.2⟩
        simp only []
        rw [hcl2]
        rintro (hx | hx)
        · exact this.1 hx
        · obtain ⟨m, hm, hmch⟩ := List.mem_map.1 hx
          obtain ⟨hm1, hm2⟩ := (mem_ofParent _ _ _).1 hm
          have := hd m hm1 e h1 (Or.inr hmch)
          exact h2 (this ▸ hm2)
      · intro x hx
        simp only [] at hx
        rcases (hcl2 x).1 hx with h | h
        · exact he x h
        · obtain ⟨m, hm, rfl⟩ := List.mem_map.1 h
          exact (hc m ((mem_ofParent _ _ _).1 hm).1).2.2
    · have hcl' : close = false := by simpa using hcl
      simp only [hcl', Bool.false_eq_true, if_false]
      exact ⟨⟨A, B, fun e hmem => hc e ((mem_dropParent _ _ _).1 hmem).1, D, N, he⟩, by simp⟩

/-- **C08/chanmap**: under the hub's discipline no history ever panics, and the invariant holds
    after it. -/
theorem run_inv (s : St) (ops : List Op) (h : Inv s) (hd : Disc s ops) :
    Inv (run s ops).1 ∧ Res.panic ∉ (run s ops).2 := by
  induction ops generalizing s with
  | nil => exact ⟨h, by simp [run]⟩
  | cons op ops ih =>
    obtain ⟨hok, hrest⟩ := hd
    have hok' : okOp s op := by cases op <;> simpa [okOp] using hok
    obtain ⟨hi, hnp⟩ := step_inv s op h hok'
    have := ih _ hi hrest
    simp only [run]
    cases hst : step s op with
    | mk s1 r =>
      rw [hst] at hi hnp this
      cases r with
      | panic => exact absurd rfl hnp
      | ok => simpa using this
      | err w => simpa using this

theorem chanmap_never_panics (ops : List Op) (hd : Disc {} ops) : Res.panic ∉ (run {} ops).2 :=
  (run_inv {} ops inv_init hd).2

/-- `ParentByChild[c] = p` exactly when the binding `(p, c)` exists -/
theorem chanmap_consistent (ops : List Op) (hd : Disc {} ops) (c p : String) :
    lookup (run {} ops).1.parentOf c = some p ↔ ∃ e ∈ (run {} ops).1.ents, e.p = p ∧ e.c = c := by
  have hI := (run_inv {} ops inv_init hd).1
  constructor
  · exact hI.b c p
  · rintro ⟨e, he, rfl, rfl⟩; exact hI.a e he

/-- closing a parent (what a deny does) closes exactly the channels of its current children and leaves
    every other binding and channel as it was -/
theorem delparent_closes_exactly (s : St) (p : String) (h : Inv s) (hp : p ≠ "") :
    let s' := (step s (.delParent p true)).1
    (∀ e ∈ s.ents, e.p = p → e.ch ∈ s'.closed) ∧
    (∀ x, x ∈ s'.closed → x ∈ s.closed ∨ ∃ e ∈ s.ents, e.p = p ∧ e.ch = x) ∧
    (∀ e, e ∈ s'.ents ↔ e ∈ s.ents ∧ e.p ≠ p) := by
  obtain ⟨ha, hb, hc, hd, hn, he⟩ := h
  have hnd : ((ofParent s.ents p).map (·.ch)).Nodup :=
    nodup_map_ch _ (List.Nodup.sublist List.filter_sublist hn)
      (fun x hx y hy hxy => hd x ((mem_ofParent _ _ _).1 hx).1 y ((mem_ofParent _ _ _).1 hy).1 (Or.inr hxy))
  have hdis : ∀ x ∈ (ofParent s.ents p).map (·.ch), x ∉ s.closed := by
    intro x hx
    obtain ⟨m, hm, rfl⟩ := List.mem_map.1 hx
    exact (hc m ((mem_ofParent _ _ _).1 hm).1).1
  obtain ⟨cl, hcl1, hcl2⟩ := closeAll_ok s.closed _ hnd hdis
  simp only [step, hp, if_false, if_true, hcl1]
  refine ⟨?_, ?_, ?_⟩
  · intro e hmem hep
    exact (hcl2 _).2 (Or.inr (List.mem_map.2 ⟨e, (mem_ofParent _ _ _).2 ⟨hmem, hep⟩, rfl⟩))
  · intro x hx
    rcases (hcl2 x).1 hx with h | h
    · exact Or.inl h
    · obtain ⟨m, hm, rfl⟩ := List.mem_map.1 h
      exact Or.inr ⟨m, ((mem_ofParent _ _ _).1 hm).1, ((mem_ofParent _ _ _).1 hm).2, rfl⟩
  · intro e; exact mem_dropParent _ _ _

/-- bookkeeping footprint: every binding and every `ParentByChild` entry belongs to a child that was
    added; and a child whose `delChild` has run is in neither table (so the tables are empty when
    every added child has been deleted) -/
theorem delchild_removes (s : St) (c : String) (cl : Bool) (h : Inv s) (hc : c ≠ "") :
    let s' := (step s (.delChild c cl)).1
    lookup s'.parentOf c = none ∧ ∀ e ∈ s'.ents, e.c ≠ c := by
  have hI := (step_inv s (.delChild c cl) h trivial).1
  have hnone : lookup (step s (.delChild c cl)).1.parentOf c = none := by
    simp only [step, hc, if_false]
    cases hl : lookup s.parentOf c with
    | none => simp [hl]
    | some p =>
      dsimp only
      cases hf : findEnt s.ents p c with
      | none => simp
      | some e1 =>
        simp only []
        by_cases hcl : cl = true
        · have : e1.ch ∉ s.closed := (h.c e1 (findEnt_some _ _ _ _ hf).1).1
          simp [hcl, this]
        · have hcl' : cl = false := by simpa using hcl
          simp [hcl']
  refine ⟨hnone, ?_⟩
  intro e hmem hec
  have := hI.a e hmem
  rw [hec, hnone] at this
  cases this

/-! non-vacuity: the history that used to panic (defect F3) now runs clean -/
example :
    (run {} [.add "b" "c1" 1, .delParent "b" true, .delChild "c1" false, .add "b" "c2" 2]).2
      = [.ok, .ok, .ok, .ok] := by decide

example : Disc {} [.add "b" "c1" 1, .delParent "b" true, .delChild "c1" false, .add "b" "c2" 2] := by
  exact ⟨by decide, trivial, trivial, by decide, trivial⟩

end ChanMap
