import Relay.Props.C07Seq
import Relay.Props.C04

/-!
# C14, membership half — the status report lists exactly the joined connections, truthfully

`reportOf s` is what `GET /status` and the stats topic are computed from (`Hub.GetStats` walks the
membership table under the hub lock; the relay's own stats feeder is the one extra, constant entry).
For every history of relay operations: every joined connection has exactly one report entry, carrying
the topic it is filed under, the capabilities derived from its token's scopes, and the scopes, expiry,
user agent and forwarded address recorded at admission; nothing else is listed.
-/

namespace Relay
open Access

structure Entry where
  name : Nat
  topic : String
  canRead : Bool
  canWrite : Bool
  scopes : List String
  exp : Int
  ua : String
  remote : String
deriving Repr, DecidableEq

/-- the report: one entry per current hub member, joined with the metadata recorded at admission -/
def reportOf (s : St) : List Entry :=
  s.hub.members.filterMap fun c =>
    (s.info.find? (·.name == c.name)).map fun i =>
      { name := c.name, topic := c.topic, canRead := c.canRead, canWrite := c.canWrite,
        scopes := i.scopes, exp := i.exp, ua := i.ua, remote := i.remote }

/-- every member has its admission record, capabilities are those of the recorded scopes, and records
    are only made for names the hub has handed out -/
structure InfoInv (s : St) : Prop where
  cover : ∀ c ∈ s.hub.members, ∃ i ∈ s.info, i.name = c.name ∧
            c.canRead = Hub.canReadOf i.scopes ∧ c.canWrite = Hub.canWriteOf i.scopes
  fresh : ∀ i ∈ s.info, i.name < s.hub.next
  uniq : s.info.Pairwise (fun a b => a.name ≠ b.name)
  hubinv : Hub.HubInv s.hub

theorem inv_init_info : InfoInv {} := ⟨by simp, by simp, List.Pairwise.nil, Hub.inv_init⟩

theorem hub_next_step (h : Hub.Hub) (e : Hub.Ev) : h.next ≤ (Hub.step h e).next := by
  cases e with
  | register t b r w cap => simp [Hub.step]
  | unregister n => simp [Hub.step]
  | drain n k => simp [Hub.step]
  | inbound n d mt =>
    simp only [Hub.step]
    split
    · split <;> simp [Hub.broadcast]
    · exact Nat.le_refl _

/-- a hub event other than a registration keeps the invariant (members only shrink or keep their caps) -/
theorem hubev_inv (s : St) (e : Hub.Ev) (hreg : ∀ t b r w cap, e ≠ .register t b r w cap) (hI : InfoInv s) :
    InfoInv { s with hub := Hub.step s.hub e } := by
  obtain ⟨hc, hf, hu, hh⟩ := hI
  refine ⟨?_, fun i hi => Nat.lt_of_lt_of_le (hf i hi) (hub_next_step s.hub e), hu, Hub.step_inv s.hub e hh⟩
  intro c' hc'
  rcases Hub.caps_fixed s.hub e c' hc' with ⟨c, hcm, hn, hr, hw⟩ | ⟨t, b, r, w, cap, he, _⟩
  · obtain ⟨i, hi, h1, h2, h3⟩ := hc c hcm
    exact ⟨i, hi, by rw [h1, hn], by rw [hr, h2], by rw [hw, h3]⟩
  · exact absurd he (hreg t b r w cap)

theorem step_inv_info (cfg : Config) (s : St) (op : Op) (hI : InfoInv s) : InfoInv (step cfg s op) := by
  have same : ∀ s' : St, s'.hub = s.hub → s'.info = s.info → InfoInv s' := by
    intro s' h1 h2
    exact ⟨by rw [h1, h2]; exact hI.cover, by rw [h1, h2]; exact hI.fresh, by rw [h2]; exact hI.uniq, by rw [h1]; exact hI.hubinv⟩
  cases op with
  | setNow t => exact same _ rfl rfl
  | session cred id =>
    simp only [step]
    by_cases hok : ∃ c uri, (session cfg s cred id).2 = .sessionOK c uri
    · obtain ⟨c, uri, h⟩ := hok
      cases cred with
      | absent => exact same _ (by unfold session; split <;> simp [authenticate]) (by unfold session; split <;> simp [authenticate])
      | token b =>
        have hb := (session_code_bound cfg s b id c uri h).2.2.2
        refine same _ hb ?_
        unfold session
        split
        · rfl
        · split
          · rfl
          · split
            · rfl
            · rfl
    · have := (session_refused_no_effect cfg s cred id (fun c uri h => hok ⟨c, uri, h⟩)).1
      rw [this]; exact hI
  | deny cred bid exp =>
    simp only [step]
    by_cases h204 : (denyReq cfg s cred bid exp).2 = .status 204
    · cases cred with
      | absent => rw [deny_absent] at h204; cases h204
      | token bt =>
        obtain ⟨b', k, e, hb', hA, hbind, he⟩ := (deny_ok_iff cfg s (.token bt) bid exp).1 h204
        injection hb' with hb'; subst hb'
        rw [deny_done cfg s bt bid exp k e hA.1 hbind ((isRelayAdmin_iff cfg s bt hA.1).2 hA) he]
        obtain ⟨hc, hf, hu, hh⟩ := hI
        refine ⟨?_, hf, hu, ⟨?_, ?_⟩⟩
        · intro c hcm
          simp only [dropBooking, List.mem_filter] at hcm
          exact hc c hcm.1
        · intro c hcm
          simp only [dropBooking, List.mem_filter] at hcm
          exact hh.good c hcm.1
        · exact List.Pairwise.filter _ hh.nodup
    · rw [(refused_changes_nothing cfg s cred bid exp).1 h204]; exact hI
  | allow cred bid exp =>
    simp only [step]
    by_cases h204 : (allowReq cfg s cred bid exp).2 = .status 204
    · cases cred with
      | absent => rw [allow_absent] at h204; cases h204
      | token bt =>
        obtain ⟨b', k, e, hb', hA, hbind, he⟩ := (allow_ok_iff cfg s (.token bt) bid exp).1 h204
        injection hb' with hb'; subst hb'
        rw [allow_done cfg s bt bid exp k e hA.1 hbind ((isRelayAdmin_iff cfg s bt hA.1).2 hA) he]
        exact same _ rfl rfl
    · rw [(refused_changes_nothing cfg s cred bid exp).2 h204]; exact hI
  | ws path code ua remote =>
    simp only [step]
    by_cases hj : ∃ n, (wsAdmit cfg s path code ua remote).2 = .joined n
    · obtain ⟨n, hn⟩ := hj
      obtain ⟨c, e, pt, hc, hf, hexp, hpt, hA⟩ := (ws_join_iff cfg s path code ua remote).1 ⟨n, hn⟩
      subst hc
      have hp := hA.1
      have hout := (exchange_token_iff s.codes c e.bid e.tok).2 ⟨e, hf, hexp, rfl, rfl⟩
      have hadm := (admitCheck_iff cfg s path pt hp).2 hA
      rw [ws_accept cfg s path c ua remote e.bid e.tok pt hp hout hpt hadm]
      obtain ⟨hcv, hfr, hu, hh⟩ := hI
      refine ⟨?_, ?_, ?_, Hub.step_inv s.hub (.register (String.ofList (Path.route path).2) pt.bid (Hub.canReadOf pt.scopes) (Hub.canWriteOf pt.scopes) cfg.cap) hh⟩
      · intro m hm
        simp only [Hub.step, List.mem_append, List.mem_singleton] at hm
        rcases hm with hm | hm
        · obtain ⟨i, hi, h1, h2, h3⟩ := hcv m hm
          exact ⟨i, List.mem_append_left _ hi, h1, h2, h3⟩
        · subst hm
          exact ⟨_, List.mem_append_right _ (List.mem_singleton.2 rfl), rfl, rfl, rfl⟩
      · intro i hi
        simp only [List.mem_append, List.mem_singleton] at hi
        simp only [Hub.step]
        rcases hi with hi | hi
        · have := hfr i hi; omega
        · subst hi; simp
      · rw [List.pairwise_append]
        refine ⟨hu, by simp, ?_⟩
        intro a ha b hb
        simp only [List.mem_singleton] at hb
        subst hb
        have := hfr a ha
        simp only; omega
    · have hno : ∀ n, (wsAdmit cfg s path code ua remote).2 ≠ .joined n := fun n hn => hj ⟨n, hn⟩
      have hh := (ws_refused_no_join cfg s path code ua remote hno).1
      exact same _ hh (ws_refused_info cfg s path code ua remote hno)
  | send n d mt => exact hubev_inv s _ (by intro _ _ _ _ _ h; cases h) hI
  | drain n k => exact hubev_inv s _ (by intro _ _ _ _ _ h; cases h) hI
  | close n => exact hubev_inv s _ (by intro _ _ _ _ _ h; cases h) hI
  | prune => exact same _ rfl rfl
  | sweep => exact same _ rfl rfl

theorem run_inv_info (cfg : Config) (ops : List Op) : InfoInv (run cfg ops) := by
  unfold run
  suffices ∀ s, InfoInv s → InfoInv (ops.foldl (step cfg) s) from this {} inv_init_info
  induction ops with
  | nil => intro s h; exact h
  | cons op ops ih => intro s h; exact ih _ (step_inv_info cfg s op h)

theorem find_unique (l : List ConnInfo) (hp : l.Pairwise (fun a b => a.name ≠ b.name)) (i : ConnInfo) (hi : i ∈ l) :
    l.find? (·.name == i.name) = some i := by
  induction l with
  | nil => simp at hi
  | cons a l ih =>
    have hp' := List.pairwise_cons.1 hp
    rcases List.mem_cons.1 hi with h | h
    · subst h; simp
    · have hne : a.name ≠ i.name := hp'.1 i h
      have hb : (a.name == i.name) = false := by simpa using hne
      simp only [List.find?, hb]
      exact ih hp'.2 h

/-- **the report lists exactly the joined connections**: for every history, the names reported are
    exactly the names of the current hub members (one entry each, in the same order), and each entry shows
    the member's own topic and capabilities, the latter being those of the scopes recorded from its token. -/
theorem status_lists_exactly_members (cfg : Config) (ops : List Op) :
    let s := run cfg ops
    (reportOf s).map (·.name) = s.hub.members.map (·.name) ∧
    ∀ e ∈ reportOf s, ∃ c ∈ s.hub.members, e.name = c.name ∧ e.topic = c.topic ∧
      e.canRead = c.canRead ∧ e.canWrite = c.canWrite ∧
      e.canRead = Hub.canReadOf e.scopes ∧ e.canWrite = Hub.canWriteOf e.scopes := by
  intro s
  have hI := run_inv_info cfg ops
  have hfind : ∀ c ∈ s.hub.members, ∃ i, s.info.find? (·.name == c.name) = some i ∧
      c.canRead = Hub.canReadOf i.scopes ∧ c.canWrite = Hub.canWriteOf i.scopes := by
    intro c hc
    obtain ⟨i, hi, h1, h2, h3⟩ := hI.cover c hc
    have := find_unique s.info hI.uniq i hi
    rw [h1] at this
    exact ⟨i, this, h2, h3⟩
  constructor
  · unfold reportOf
    have : ∀ ms : List Hub.Client, (∀ c ∈ ms, ∃ i, s.info.find? (·.name == c.name) = some i) →
        (ms.filterMap fun c => (s.info.find? (·.name == c.name)).map fun i =>
          ({ name := c.name, topic := c.topic, canRead := c.canRead, canWrite := c.canWrite,
             scopes := i.scopes, exp := i.exp, ua := i.ua, remote := i.remote } : Entry)).map (·.name)
          = ms.map (·.name) := by
      intro ms
      induction ms with
      | nil => intro _; rfl
      | cons c ms ih =>
        intro h
        obtain ⟨i, hi⟩ := h c List.mem_cons_self
        simp only [List.filterMap_cons, hi, Option.map_some, List.map_cons]
        rw [ih (fun c' hc' => h c' (List.mem_cons_of_mem _ hc'))]
    exact this _ (fun c hc => let ⟨i, hi, _⟩ := hfind c hc; ⟨i, hi⟩)
  · intro e he
    simp only [reportOf, List.mem_filterMap] at he
    obtain ⟨c, hc, hopt⟩ := he
    obtain ⟨i, hi, h2, h3⟩ := hfind c hc
    rw [hi] at hopt
    simp only [Option.map_some, Option.some.injEq] at hopt
    subst hopt
    exact ⟨c, hc, rfl, rfl, rfl, rfl, h2, h3⟩

/-- a connection that has left (closed, denied, dropped for its backlog) is no longer reported -/
theorem gone_not_reported (cfg : Config) (ops : List Op) (n : Nat) :
    let s := step cfg (run cfg ops) (.close n)
    ∀ e ∈ reportOf s, e.name ≠ n := by
  intro s e he
  simp only [reportOf, List.mem_filterMap] at he
  obtain ⟨c, hc, hopt⟩ := he
  have hcn : c.name ≠ n := by
    simp only [s, step, Hub.step, List.mem_filter, bne_iff_ne, ne_eq] at hc
    exact hc.2
  cases hf : (s.info.find? fun x => x.name == c.name) with
  | none => rw [hf] at hopt; cases hopt
  | some i => rw [hf] at hopt; simp only [Option.map_some, Option.some.injEq] at hopt; subst hopt; exact hcn

end Relay
