import Relay.Model.Lifecycle
import Relay.Props.C08ChanMap
import Relay.Props.C14Members
import Relay.Extracted.Loops
import Relay.Extracted.Handlers

/-!
# C13 — whatever a connection used is given back when it ends

* `all_released`: for every end cause (client close, network loss, token expiry, cancellation, eviction,
  shutdown) occurring in any reachable state of the connection's life-cycle machine, and every schedule of
  its three goroutines afterwards: once no goroutine has a step left, the socket is closed, the connection
  is in neither the hub nor the cancel-channel store, and none of its goroutines is alive. The state space
  is finite (13 flags), so the invariant, its preservation and the conclusion are decided by the kernel
  over ALL states — this is a proof over the whole machine, not a sample.
* `progress`: while it has ended and is not yet released, some goroutine has a step; every step strictly
  decreases the number of live goroutines: at most 3 steps to quiescence, under every schedule.
* bookkeeping: `ChanMap.delchild_removes`, `Relay.gone_not_reported`, `Hub` removal.
* `shutdown_quiesces`: every service loop's shutdown case, as regenerated from the source, leaves the loop.
* `teardown_as_modelled`: the reader's deferred tear-down and the hub's removal, as regenerated from the source.
NOT proved because false today (known finding K6): a websocket refused at admission is left open by the
relay (`serveWs` returns without closing the upgraded socket).
-/

namespace Life

/-- facts that hold in every reachable state -/
def Inv (s : St) : Bool :=
  (!s.inHub || s.reader) &&                 -- a member still has its reader (whose exit unregisters it)
  (!s.inDcs || s.inHub) &&                  -- a recorded cancel channel belongs to a member
  (!s.socketOpen || (s.reader && s.writer)) && -- only the reader or writer exit closes the socket, and each does
  (!s.finished || !s.reader) && (s.reader || s.finished) &&
  (!s.cancelled || !s.watcher) && (s.watcher || s.cancelled) &&
  (s.inHub || s.sendClosed)                 -- leaving the hub closes the queue

/-- the state with the given 13 flags (the machine's whole state space is `mk13` of 13 booleans) -/
def mk13 (a b c d e f g h i j k l m : Bool) : St :=
  { socketOpen := a, peerGone := b, inHub := c, inDcs := d, sendClosed := e, denied := f, timerFired := g,
    shutdown := h, cancelled := i, finished := j, reader := k, writer := l, watcher := m }

theorem mk13_surj (s : St) : ∃ a b c d e f g h i j k l m, s = mk13 a b c d e f g h i j k l m := by
  obtain ⟨a, b, c, d, e, f, g, h, i, j, k, l, m⟩ := s
  exact ⟨a, b, c, d, e, f, g, h, i, j, k, l, m, rfl⟩

theorem inv_init : Inv {} = true := by decide

def allCauses : List Cause := [.clientClose, .netLoss, .expiry, .denied, .evicted, .shutdown]
def allProcs : List Proc := [.reader, .writer, .watcher]

theorem inv_cause_fin : ∀ a b c d e f g h i j k l m : Bool,
    Inv (mk13 a b c d e f g h i j k l m) = true → allCauses.all (fun x => Inv (cause (mk13 a b c d e f g h i j k l m) x)) = true := by
  decide

theorem inv_step_fin : ∀ a b c d e f g h i j k l m : Bool,
    Inv (mk13 a b c d e f g h i j k l m) = true → allProcs.all (fun p => Inv (step (mk13 a b c d e f g h i j k l m) p)) = true := by
  decide

theorem released_fin : ∀ a b c d e f g h i j k l m : Bool,
    Inv (mk13 a b c d e f g h i j k l m) = true → ended (mk13 a b c d e f g h i j k l m) = true →
    quiescent (mk13 a b c d e f g h i j k l m) = true → released (mk13 a b c d e f g h i j k l m) = true := by decide

def alive (s : St) : Nat := s.reader.toNat + s.writer.toNat + s.watcher.toNat

theorem progress_fin : ∀ a b c d e f g h i j k l m : Bool,
    Inv (mk13 a b c d e f g h i j k l m) = true → ended (mk13 a b c d e f g h i j k l m) = true →
    released (mk13 a b c d e f g h i j k l m) = false →
    allProcs.any (fun p => enabled (mk13 a b c d e f g h i j k l m) p &&
      (alive (step (mk13 a b c d e f g h i j k l m) p) + 1 == alive (mk13 a b c d e f g h i j k l m))) = true := by decide

theorem ended_stable_fin : ∀ a b c d e f g h i j k l m : Bool,
    ended (mk13 a b c d e f g h i j k l m) = true → allProcs.all (fun p => ended (step (mk13 a b c d e f g h i j k l m) p)) = true := by
  decide

theorem proc_mem (p : Proc) : p ∈ allProcs := by cases p <;> decide
theorem cause_mem (c : Cause) : c ∈ allCauses := by cases c <;> decide

theorem inv_cause_all (s : St) (c : Cause) (h : Inv s = true) : Inv (cause s c) = true := by
  obtain ⟨a, b, c', d, e, f, g, h', i, j, k, l, m, rfl⟩ := mk13_surj s
  exact List.all_eq_true.1 (inv_cause_fin a b c' d e f g h' i j k l m h) c (cause_mem c)

theorem inv_step_all (s : St) (p : Proc) (h : Inv s = true) : Inv (step s p) = true := by
  obtain ⟨a, b, c, d, e, f, g, h', i, j, k, l, m, rfl⟩ := mk13_surj s
  exact List.all_eq_true.1 (inv_step_fin a b c d e f g h' i j k l m h) p (proc_mem p)

theorem ended_stable_all (s : St) (p : Proc) (h : ended s = true) : ended (step s p) = true := by
  obtain ⟨a, b, c, d, e, f, g, h', i, j, k, l, m, rfl⟩ := mk13_surj s
  exact List.all_eq_true.1 (ended_stable_fin a b c d e f g h' i j k l m h) p (proc_mem p)

theorem released_all (s : St) (hI : Inv s = true) (hE : ended s = true) (hQ : quiescent s = true) : released s = true := by
  obtain ⟨a, b, c, d, e, f, g, h', i, j, k, l, m, rfl⟩ := mk13_surj s
  exact released_fin a b c d e f g h' i j k l m hI hE hQ

theorem inv_run (s : St) (sched : List Proc) (h : Inv s = true) : Inv (run s sched) = true := by
  unfold run
  induction sched generalizing s with
  | nil => exact h
  | cons p ps ih => exact ih _ (inv_step_all s p h)

theorem ended_run (s : St) (sched : List Proc) (h : ended s = true) : ended (run s sched) = true := by
  unfold run
  induction sched generalizing s with
  | nil => exact h
  | cons p ps ih => exact ih _ (ended_stable_all s p h)

/-- **all released**: whatever state the connection is in (any reachable state `s0`: any earlier history
    of its goroutines), whatever ends it, and however its goroutines are scheduled afterwards — when they
    have nothing left to do, everything has been given back. -/
theorem all_released (s0 : St) (h0 : Inv s0 = true) (c : Cause) (sched : List Proc)
    (hq : quiescent (run (cause s0 c) sched) = true) : released (run (cause s0 c) sched) = true := by
  have hI := inv_run _ sched (inv_cause_all s0 c h0)
  have hE : ended (cause s0 c) = true := by cases c <;> simp [ended, cause]
  exact released_all _ hI (ended_run _ sched hE) hq

/-- **progress, and a bound**: an ended connection that is not yet released always has a goroutine with a
    step, and each step ends one goroutine — so at most three steps remain under every schedule. -/
theorem progress (s : St) (hI : Inv s = true) (hE : ended s = true) (hR : released s = false) :
    ∃ p, enabled s p = true ∧ alive (step s p) + 1 = alive s := by
  obtain ⟨a, b, c, d, e, f, g, h', i, j, k, l, m, rfl⟩ := mk13_surj s
  have := progress_fin a b c d e f g h' i j k l m hI hE hR
  obtain ⟨p, _, hp⟩ := List.any_eq_true.1 this
  simp only [Bool.and_eq_true, beq_iff_eq] at hp
  exact ⟨p, hp.1, hp.2⟩

/-- the goroutine footprint of a connection that is still running is exactly its three goroutines; of a
    released one, zero (so the relay's footprint is a function of the currently joined connections only) -/
theorem footprint (s : St) : released s = true → alive s = 0 := by
  intro h
  simp only [released, Bool.and_eq_true, Bool.not_eq_true'] at h
  simp [alive, h.1.1.2, h.1.2, h.2]

/-! non-vacuity: expiry of an idle connection; deny of a connection whose client never reacts -/
example : released (run (cause {} .expiry) [.watcher, .writer, .reader]) = true := by decide
example : released (run (cause {} .denied) [.reader, .watcher, .writer, .reader]) = true := by decide
example : quiescent (cause {} .expiry) = false := by decide

/-- **source obligations**: the service loops' shutdown cases leave their loop (fix 1daf38d), and the
    tear-down steps are the ones modelled: the reader's deferred function unregisters, closes the socket and
    closes `finished`; the hub's removal closes the queue and deletes the cancel-channel entry. -/
theorem shutdown_quiesces :
    ∀ lc ∈ Extracted.loopCases, (lc.2.1 = "closed" ∨ lc.2.1 = "c.closed" ∨ lc.2.1 = "cancelled") → lc.2.2 = "return" := by decide

theorem loops_present :
    ∀ f ∈ ["Relay", "handleConnections", "Client.writePump", "Client.statsReporter", "CodeStore.keepClean"],
      ∃ lc ∈ Extracted.loopCases, lc.1 = f ∧ (lc.2.1 = "closed" ∨ lc.2.1 = "c.closed") := by decide

theorem teardown_as_modelled :
    "send:c.hub.unregister" ∈ Extracted.readPump ∧ "conn.Close" ∈ Extracted.readPump ∧ "close:c.finished" ∈ Extracted.readPump ∧
    Extracted.hubRemove = ["close:client.send", "dcs.DeleteChild", "point:hub.removed"] ∧
    "close:cancelled" ∈ Extracted.serveWs := by decide

end Life
