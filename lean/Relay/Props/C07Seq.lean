import Relay.Model.Relay
import Relay.Props.C09
import Relay.Props.HubInv
import Relay.Props.C02

/-!
# C07, sequential part — a cancellation takes effect and stays in effect

`deny_sticks_atomic_partial`: for every history in which each API call / admission runs as one atomic
step (any number of bookings, any order, any clock moves): while a booking id is on the deny list, no
connection made under it is joined and no code issued for it is in the store — so nothing presented
later can be admitted under it — and session requests carrying it are refused. It leaves the deny list
only by an explicit allow or by the prune after the expiry given in the deny request (C10).
The interleaved version (handlers' internal steps racing) is in `Props/C07.lean`.
-/

namespace Relay
open Access

/-- while `b` is denied: no member under `b`, no stored code for `b` -/
def DenyInv (s : St) : Prop :=
  ∀ b, Deny.isDenied s.reg b = true →
    (∀ c ∈ s.hub.members, c.bid ≠ b) ∧ (∀ e ∈ s.codes.entries, e.bid ≠ b)

theorem has_erase_imp {α : Type} (m : KV α) (k b : String) (h : KV.has (KV.erase m k) b = true) :
    KV.has m b = true ∧ b ≠ k := by
  by_cases hk : k = b
  · subst hk; simp at h
  · rw [KV.has_erase_ne m hk] at h; exact ⟨h, fun e => hk e.symm⟩

theorem has_insert_imp {α : Type} (m : KV α) (k b : String) (v : α) (h : KV.has (KV.insert m k v) b = true) :
    b = k ∨ KV.has m b = true := by
  by_cases hk : k = b
  · exact Or.inl hk.symm
  · rw [KV.has_insert_ne m v hk] at h; exact Or.inr h

theorem has_keep_imp {α : Type} (p : String → α → Bool) (m : KV α) (b : String)
    (h : KV.has (KV.keep p m) b = true) : KV.has m b = true := by
  cases hm : KV.lookup m b with
  | none => simp [KV.has, KV.lookup_keep_none p m b hm] at h
  | some v => simp [KV.has, hm]

theorem hub_step_bids (h : Hub.Hub) (e : Hub.Ev) (hreg : ∀ t b r w cap, e ≠ .register t b r w cap) :
    ∀ c' ∈ (Hub.step h e).members, ∃ c ∈ h.members, c'.bid = c.bid := by
  intro c' hc'
  cases e with
  | register t b r w cap => exact absurd rfl (hreg t b r w cap)
  | unregister n =>
    simp only [Hub.step, List.mem_filter] at hc'
    exact ⟨c', hc'.1, rfl⟩
  | inbound n d mt =>
    simp only [Hub.step] at hc'
    split at hc'
    · split at hc'
      · simp only [Hub.broadcast, List.mem_filterMap] at hc'
        obtain ⟨c, hc, ho⟩ := hc'
        refine ⟨c, hc, ?_⟩
        unfold Hub.offer at ho
        split at ho
        · split at ho
          · injection ho with ho; subst ho; rfl
          · cases ho
        · injection ho with ho; subst ho; rfl
      · exact ⟨c', hc', rfl⟩
    · exact ⟨c', hc', rfl⟩
  | drain n k =>
    simp only [Hub.step, List.mem_map] at hc'
    obtain ⟨c, hc, rfl⟩ := hc'
    refine ⟨c, hc, ?_⟩
    split
    · unfold Hub.drainC; split
      · rfl
      · split <;> rfl
    · rfl

theorem inv_init : DenyInv {} := by
  intro b h; simp [Deny.isDenied, KV.has, KV.lookup] at h

theorem step_inv (cfg : Config) (s : St) (op : Op) (hI : DenyInv s) : DenyInv (step cfg s op) := by
  cases op with
  | setNow t => intro b hb; exact hI b hb
  | session cred id =>
    simp only [step]
    by_cases hr : routable id = true
    · cases cred with
      | absent => rw [session_absent cfg s id hr]; exact hI
      | token bt =>
        by_cases hv : headerValid cfg s.now bt = true
        · cases hs : sessionRefusal cfg s bt id with
          | some c => rw [session_refusal cfg s bt id c hr hv hs]; exact hI
          | none =>
            rw [session_grant cfg s bt id hr hv hs]
            intro b hb
            simp only [sessionGrant, Deny.isDenied, Deny.step] at hb
            obtain ⟨hb1, hb2⟩ := has_erase_imp _ _ _ hb
            have := hI b hb1
            refine ⟨this.1, ?_⟩
            intro e he
            simp only [sessionGrant, TtlCode.step, List.mem_cons] at he
            rcases he with he | he
            · subst he; exact fun h => hb2 h.symm
            · exact this.2 e he
        · rw [session_badtoken cfg s bt id hr (by simpa using hv)]; exact hI
    · rw [session_unroutable cfg s cred id (by simpa using hr)]; exact hI
  | deny cred bid exp =>
    simp only [step]
    cases cred with
    | absent => rw [deny_absent]; exact hI
    | token bt =>
      by_cases hv : headerValid cfg s.now bt = true
      · cases hb : bindBidExp bid exp with
        | none => rw [deny_unbound cfg s bt bid exp hv hb]; exact hI
        | some ke =>
          obtain ⟨k, e⟩ := ke
          by_cases ha : isRelayAdmin bt = true
          · by_cases he : e < s.now
            · rw [deny_past cfg s bt bid exp k e hv hb ha he]; exact hI
            · rw [deny_done cfg s bt bid exp k e hv hb ha he]
              intro b hden
              simp only [Deny.isDenied, Deny.step] at hden
              constructor
              · intro c hc
                simp only [dropBooking, List.mem_filter, bne_iff_ne, ne_eq] at hc
                rcases has_insert_imp _ _ _ _ hden with h | h
                · subst h; exact hc.2
                · exact (hI b h).1 c hc.1
              · intro en hen
                simp only [TtlCode.step] at hen
                have hmem := (TtlCode.mem_keepIf _ _ _).1 hen
                rcases has_insert_imp _ _ _ _ hden with h | h
                · subst h; simpa using hmem.2
                · exact (hI b h).2 en hmem.1
          · rw [deny_noscope cfg s bt bid exp k e hv hb (by simpa using ha)]; exact hI
      · rw [deny_badtoken cfg s bt bid exp (by simpa using hv)]; exact hI
  | allow cred bid exp =>
    simp only [step]
    cases cred with
    | absent => rw [allow_absent]; exact hI
    | token bt =>
      by_cases hv : headerValid cfg s.now bt = true
      · cases hb : bindBidExp bid exp with
        | none => rw [allow_unbound cfg s bt bid exp hv hb]; exact hI
        | some ke =>
          obtain ⟨k, e⟩ := ke
          by_cases ha : isRelayAdmin bt = true
          · by_cases he : e < s.now
            · rw [allow_past cfg s bt bid exp k e hv hb ha he]; exact hI
            · rw [allow_done cfg s bt bid exp k e hv hb ha he]
              intro b hden
              simp only [Deny.isDenied, Deny.step] at hden
              exact hI b (has_erase_imp _ _ _ hden).1
          · rw [allow_noscope cfg s bt bid exp k e hv hb (by simpa using ha)]; exact hI
      · rw [allow_badtoken cfg s bt bid exp (by simpa using hv)]; exact hI
  | ws path code ua remote =>
    simp only [step]
    by_cases hj : ∃ n, (wsAdmit cfg s path code ua remote).2 = .joined n
    · obtain ⟨n, hn⟩ := hj
      obtain ⟨c, e, pt, hc, hf, hexp, hpt, hA⟩ := (ws_join_iff cfg s path code ua remote).1 ⟨n, hn⟩
      subst hc
      obtain ⟨e', pt', hf', hpt', hn', hmem, _, hcodes⟩ := client_bound_to_token cfg s path c ua remote n hn
      rw [hf] at hf'; injection hf' with hf'; subst hf'
      rw [hpt] at hpt'; injection hpt' with hpt'; subst hpt'
      have hreg : (wsAdmit cfg s path (some c) ua remote).1.reg = s.reg := by
        have hp := hA.1
        have hout := (exchange_token_iff s.codes c e.bid e.tok).2 ⟨e, hf, hexp, rfl, rfl⟩
        have hadm := (admitCheck_iff cfg s path pt hp).2 hA
        rw [ws_accept cfg s path c ua remote e.bid e.tok pt hp hout hpt hadm]
        rfl
      intro b hden
      rw [hreg] at hden
      constructor
      · intro m hm
        rw [hmem] at hm
        simp only [List.mem_append, List.mem_singleton] at hm
        rcases hm with hm | hm
        · exact (hI b hden).1 m hm
        · subst hm
          intro hbid
          simp only at hbid
          have hnd : Deny.isDenied s.reg pt.bid = false := hA.2.2.2.2.2.2.2.2.2.2.1
          rw [hbid, hden] at hnd; cases hnd
      · intro en hen
        rw [hcodes] at hen
        exact (hI b hden).2 en (TtlCode.exchange_entries_sub s.codes c en hen)
    · have hno : ∀ n, (wsAdmit cfg s path code ua remote).2 ≠ .joined n := fun n hn => hj ⟨n, hn⟩
      obtain ⟨hh, hr⟩ := ws_refused_no_join cfg s path code ua remote hno
      intro b hden
      rw [hr] at hden
      refine ⟨by rw [hh]; exact (hI b hden).1, ?_⟩
      intro en hen
      apply (hI b hden).2 en
      -- codes only shrink on a refused attempt
      unfold wsAdmit at hen
      split at hen
      · exact hen
      · cases code with
        | none => exact hen
        | some c =>
          simp only at hen
          split at hen
          · split at hen
            · exact TtlCode.exchange_entries_sub s.codes c en hen
            · split at hen
              · exact TtlCode.exchange_entries_sub s.codes c en hen
              · exact TtlCode.exchange_entries_sub s.codes c en hen
          · exact TtlCode.exchange_entries_sub s.codes c en hen
  | send n d mt =>
    intro b hden
    refine ⟨?_, (hI b hden).2⟩
    intro c hc
    obtain ⟨c0, hc0, hb⟩ := hub_step_bids s.hub (.inbound n d mt) (by intro _ _ _ _ _ h; cases h) c hc
    rw [hb]; exact (hI b hden).1 c0 hc0
  | drain n k =>
    intro b hden
    refine ⟨?_, (hI b hden).2⟩
    intro c hc
    obtain ⟨c0, hc0, hb⟩ := hub_step_bids s.hub (.drain n k) (by intro _ _ _ _ _ h; cases h) c hc
    rw [hb]; exact (hI b hden).1 c0 hc0
  | close n =>
    intro b hden
    refine ⟨?_, (hI b hden).2⟩
    intro c hc
    obtain ⟨c0, hc0, hb⟩ := hub_step_bids s.hub (.unregister n) (by intro _ _ _ _ _ h; cases h) c hc
    rw [hb]; exact (hI b hden).1 c0 hc0
  | prune =>
    intro b hden
    simp only [step, Deny.isDenied, Deny.step] at hden
    exact hI b (has_keep_imp _ _ _ hden)
  | sweep =>
    intro b hden
    refine ⟨(hI b hden).1, ?_⟩
    intro en hen
    simp only [step, TtlCode.step] at hen
    exact (hI b hden).2 en ((TtlCode.mem_keepIf _ _ _).1 hen).1

theorem run_inv (cfg : Config) (ops : List Op) : DenyInv (run cfg ops) := by
  unfold run
  suffices ∀ s, DenyInv s → DenyInv (ops.foldl (step cfg) s) from this {} inv_init
  induction ops with
  | nil => intro s h; exact h
  | cons op ops ih => intro s h; exact ih _ (step_inv cfg s op h)

/-- **C07 for sequential histories** (`_partial`: every handler instance runs atomically): at every point
    of every history, for every booking id currently on the deny list —
    (i) no connection made under it is joined, (ii) no code issued for it is in the store, hence any
    websocket presenting a code for it is refused and the hub stays as it is, (iii) every session request
    carrying it is refused with no code. -/
theorem deny_sticks_atomic_partial (cfg : Config) (ops : List Op) (b : String)
    (hden : Deny.isDenied (run cfg ops).reg b = true) :
    (∀ c ∈ (run cfg ops).hub.members, c.bid ≠ b) ∧
    (∀ e ∈ (run cfg ops).codes.entries, e.bid ≠ b) ∧
    (∀ bt id, bt.bid = b → ∀ c uri, (session cfg (run cfg ops) (.token bt) id).2 ≠ .sessionOK c uri) := by
  have hI := run_inv cfg ops b hden
  refine ⟨hI.1, hI.2, ?_⟩
  intro bt id hbid c uri hok
  by_cases hr : routable id = true
  · obtain ⟨b', hb', hfv⟩ := (session_ok_iff cfg _ (.token bt) id hr).1 ⟨c, uri, hok⟩
    injection hb' with hb'; subst hb'
    have := hfv.2.2.2.2.2.2.2.2.2.2.2.2
    rw [hbid, hden] at this; cases this
  · rw [session_unroutable cfg _ _ id (by simpa using hr)] at hok; cases hok

/-- what an acknowledged deny does in one step: the booking is on the deny list, its connections are
    gone, its codes are gone; **other bookings are untouched** (their members, codes and list status). -/
theorem deny_effect (cfg : Config) (s : St) (bt : Bearer) (bid exp : Param)
    (h : (denyReq cfg s (.token bt) bid exp).2 = .status 204) :
    ∃ k e, bindBidExp bid exp = some (k, e) ∧
      let s' := (denyReq cfg s (.token bt) bid exp).1
      Deny.isDenied s'.reg k = true ∧
      (∀ c, c ∈ s'.hub.members ↔ c ∈ s.hub.members ∧ c.bid ≠ k) ∧
      (∀ en, en ∈ s'.codes.entries ↔ en ∈ s.codes.entries ∧ en.bid ≠ k) ∧
      (∀ b', b' ≠ k → Deny.status s'.reg b' = Deny.status s.reg b') := by
  obtain ⟨b', k, e, hb', hA, hbind, he⟩ := (deny_ok_iff cfg s (.token bt) bid exp).1 h
  injection hb' with hb'; subst hb'
  have hv := hA.1
  have ha := (isRelayAdmin_iff cfg s bt hv).2 hA
  refine ⟨k, e, hbind, ?_⟩
  rw [deny_done cfg s bt bid exp k e hv hbind ha he]
  refine ⟨by simp [Deny.isDenied, Deny.step], ?_, ?_, ?_⟩
  · intro c; simp [dropBooking, List.mem_filter]
  · intro en
    simp only [TtlCode.step]
    rw [TtlCode.mem_keepIf]
    simp
  · intro b' hne
    simp only [Deny.step, Deny.status]
    rw [KV.lookup_insert_ne _ _ (fun h => hne h.symm), KV.lookup_erase_ne _ (fun h => hne h.symm)]

end Relay
