import Relay.Props.C09

/-!
# C11 — the access API always answers, and never with success to a bad request

The model of the handlers is a total function into `Resp` with no `panic` outcome: every dereference
the Go handlers perform is guarded in the current code (after fix 100759d the missing-`exp` case is
the `hasRequiredClaims`/`claimsCheck` refusal, the missing `iat`/`nbf` case is a 401 of the session
handler). That the real handlers are total in the same way is what the correspondence run checks
(tokens omitting each claim, ill-typed claims, every parameter shape). What is proved here:
success is never given to a request that is not valid in every respect, and every refusal is one of
the documented error statuses and leaves the state untouched.
-/

namespace Access

/-- every request to the five endpoints of the model -/
inductive Req where
  | session (cred : Cred) (id : String)
  | deny (cred : Cred) (bid exp : Param)
  | allow (cred : Cred) (bid exp : Param)
  | list (cred : Cred) (denied : Bool)
  | status (cred : Cred)

def respond (cfg : Config) (s : St) : Req → St × Resp
  | .session c id => session cfg s c id
  | .deny c b e => denyReq cfg s c b e
  | .allow c b e => allowReq cfg s c b e
  | .list c d => listReq cfg s c d
  | .status c => statusReq cfg s c

def Resp.isSuccess : Resp → Bool
  | .status c => c == 204
  | _ => true

/-- valid in every respect -/
def ReqValid (cfg : Config) (s : St) : Req → Prop
  | .session c id => routable id = true ∧ ∃ b, c = .token b ∧ FullyValid cfg s b id
  | .deny c bid exp => ∃ b k e, c = .token b ∧ AdminValid cfg s b ∧ bindBidExp bid exp = some (k, e) ∧ ¬ e < s.now
  | .allow c bid exp => ∃ b k e, c = .token b ∧ AdminValid cfg s b ∧ bindBidExp bid exp = some (k, e) ∧ ¬ e < s.now
  | .list c _ => ∃ b, c = .token b ∧ AdminValid cfg s b
  | .status c => ∃ b, c = .token b ∧ StatsValid cfg s b

theorem deny_status (cfg : Config) (s : St) (cred : Cred) (bid exp : Param) :
    ∃ c, (denyReq cfg s cred bid exp).2 = .status c ∧ (c = 204 ∨ c = 401 ∨ c = 500 ∨ c = 422 ∨ c = 400) := by
  cases cred with
  | absent => rw [deny_absent]; exact ⟨401, rfl, by simp⟩
  | token b =>
    by_cases hv : headerValid cfg s.now b = true
    · cases hb : bindBidExp bid exp with
      | none => rw [deny_unbound cfg s b bid exp hv hb]; exact ⟨422, rfl, by simp⟩
      | some ke =>
        obtain ⟨k, e⟩ := ke
        by_cases ha : isRelayAdmin b = true
        · by_cases he : e < s.now
          · rw [deny_past cfg s b bid exp k e hv hb ha he]; exact ⟨400, rfl, by simp⟩
          · rw [deny_done cfg s b bid exp k e hv hb ha he]; exact ⟨204, rfl, by simp⟩
        · rw [deny_noscope cfg s b bid exp k e hv hb (by simpa using ha)]; exact ⟨401, rfl, by simp⟩
    · rw [deny_badtoken cfg s b bid exp (by simpa using hv)]; exact ⟨500, rfl, by simp⟩

theorem allow_status (cfg : Config) (s : St) (cred : Cred) (bid exp : Param) :
    ∃ c, (allowReq cfg s cred bid exp).2 = .status c ∧ (c = 204 ∨ c = 401 ∨ c = 500 ∨ c = 422 ∨ c = 400) := by
  cases cred with
  | absent => rw [allow_absent]; exact ⟨401, rfl, by simp⟩
  | token b =>
    by_cases hv : headerValid cfg s.now b = true
    · cases hb : bindBidExp bid exp with
      | none => rw [allow_unbound cfg s b bid exp hv hb]; exact ⟨422, rfl, by simp⟩
      | some ke =>
        obtain ⟨k, e⟩ := ke
        by_cases ha : isRelayAdmin b = true
        · by_cases he : e < s.now
          · rw [allow_past cfg s b bid exp k e hv hb ha he]; exact ⟨400, rfl, by simp⟩
          · rw [allow_done cfg s b bid exp k e hv hb ha he]; exact ⟨204, rfl, by simp⟩
        · rw [allow_noscope cfg s b bid exp k e hv hb (by simpa using ha)]; exact ⟨401, rfl, by simp⟩
    · rw [allow_badtoken cfg s b bid exp (by simpa using hv)]; exact ⟨500, rfl, by simp⟩

theorem list_status (cfg : Config) (s : St) (cred : Cred) (d : Bool) :
    (∃ ids, (listReq cfg s cred d).2 = .list ids) ∨
    (∃ c, (listReq cfg s cred d).2 = .status c ∧ (c = 401 ∨ c = 500)) := by
  cases cred with
  | absent => right; exact ⟨401, by simp [listReq, authenticate], by simp⟩
  | token b =>
    by_cases hv : headerValid cfg s.now b = true
    · by_cases ha : isRelayAdmin b = true
      · left; exact ⟨if d = true then KV.keys s.reg.deny else KV.keys s.reg.allow, by simp [listReq, authenticate, hv, ha]⟩
      · right; exact ⟨401, by simp [listReq, authenticate, hv, ha], by simp⟩
    · right; exact ⟨500, by simp [listReq, authenticate, hv], by simp⟩

theorem status_status (cfg : Config) (s : St) (cred : Cred) :
    (statusReq cfg s cred).2 = .report ∨
    (∃ c, (statusReq cfg s cred).2 = .status c ∧ (c = 401 ∨ c = 500)) := by
  cases cred with
  | absent => right; exact ⟨401, by simp [statusReq, authenticate], by simp⟩
  | token b =>
    by_cases hv : headerValid cfg s.now b = true
    · by_cases ha : hasStatsScope b = true
      · left; simp [statusReq, authenticate, hv, ha]
      · right; exact ⟨401, by simp [statusReq, authenticate, hv, ha], by simp⟩
    · right; exact ⟨500, by simp [statusReq, authenticate, hv], by simp⟩

/-- **never grants a bad request** (and grants every good one): the answer is a success exactly when
    the request is valid in every respect. -/
theorem success_iff_valid (cfg : Config) (s : St) (r : Req) :
    (respond cfg s r).2.isSuccess = true ↔ ReqValid cfg s r := by
  cases r with
  | session c id =>
    simp only [respond, ReqValid]
    by_cases hr : routable id = true
    · rw [← session_ok_iff cfg s c id hr]
      simp only [hr, true_and]
      constructor
      · intro h
        cases hres : (session cfg s c id).2 with
        | sessionOK k u => exact ⟨k, u, rfl⟩
        | status k =>
          have := (session_refused_no_effect cfg s c id (by rw [hres]; intro _ _ h'; cases h')).2
          obtain ⟨code, hc, hcodes⟩ := this
          rw [hres] at hc h
          injection hc with hc; subst hc
          simp only [Resp.isSuccess, beq_iff_eq] at h
          rcases hcodes with h1 | h1 | h1 | h1 <;> omega
        | list ids =>
          have := (session_refused_no_effect cfg s c id (by rw [hres]; intro _ _ h'; cases h')).2
          obtain ⟨code, hc, _⟩ := this
          rw [hres] at hc; cases hc
        | report =>
          have := (session_refused_no_effect cfg s c id (by rw [hres]; intro _ _ h'; cases h')).2
          obtain ⟨code, hc, _⟩ := this
          rw [hres] at hc; cases hc
      · rintro ⟨k, u, h⟩; rw [h]; rfl
    · have hr' : routable id = false := by simpa using hr
      rw [session_unroutable cfg s c id hr']
      simp [Resp.isSuccess, hr']
  | deny c b e =>
    simp only [respond, ReqValid]
    rw [← deny_ok_iff]
    obtain ⟨k, hk, _⟩ := deny_status cfg s c b e
    rw [hk]; simp [Resp.isSuccess]
  | allow c b e =>
    simp only [respond, ReqValid]
    rw [← allow_ok_iff]
    obtain ⟨k, hk, _⟩ := allow_status cfg s c b e
    rw [hk]; simp [Resp.isSuccess]
  | list c d =>
    simp only [respond, ReqValid]
    rw [← list_ok_iff cfg s c d]
    rcases list_status cfg s c d with ⟨ids, h⟩ | ⟨k, h, hk⟩
    · rw [h]; exact ⟨fun _ => ⟨ids, rfl⟩, fun _ => rfl⟩
    · rw [h]
      constructor
      · intro hs; simp only [Resp.isSuccess, beq_iff_eq] at hs; rcases hk with hk | hk <;> omega
      · rintro ⟨_, h'⟩; cases h'
  | status c =>
    simp only [respond, ReqValid]
    rw [← stats_ok_iff cfg s c]
    rcases status_status cfg s c with h | ⟨k, h, hk⟩
    · rw [h]; exact ⟨fun _ => rfl, fun _ => rfl⟩
    · rw [h]
      constructor
      · intro hs; simp only [Resp.isSuccess, beq_iff_eq] at hs; rcases hk with hk | hk <;> omega
      · intro h'; cases h'

/-- **a refusal never changes anything**: whenever the answer is not a success, the whole relay state
    is as before (so the next request is answered from the same state). -/
theorem refusal_keeps_state (cfg : Config) (s : St) (r : Req) (h : (respond cfg s r).2.isSuccess = false) :
    (respond cfg s r).1 = s := by
  cases r with
  | session c id =>
    simp only [respond] at h ⊢
    apply (session_refused_no_effect cfg s c id _).1
    intro k u hk; rw [hk] at h; simp [Resp.isSuccess] at h
  | deny c b e =>
    simp only [respond] at h ⊢
    apply (refused_changes_nothing cfg s c b e).1
    intro hk; rw [hk] at h; simp [Resp.isSuccess] at h
  | allow c b e =>
    simp only [respond] at h ⊢
    apply (refused_changes_nothing cfg s c b e).2
    intro hk; rw [hk] at h; simp [Resp.isSuccess] at h
  | list c d => exact (readonly_endpoints cfg s c d).1
  | status c => exact (readonly_endpoints cfg s c false).2

/-- **tokens that omit a claim are answered, never granted**: a correctly signed bearer without exp,
    or (for a session) without nbf or iat, or without audience or scopes, gets an error status on every
    endpoint and changes nothing. -/
theorem missing_claims_refused (cfg : Config) (s : St) (b : Bearer) (r : Req)
    (hmiss : b.exp = none ∨ b.aud = [] ∨ b.scopes = [])
    (hcred : match r with
      | .session c _ => c = .token b | .deny c _ _ => c = .token b | .allow c _ _ => c = .token b
      | .list c _ => c = .token b | .status c => c = .token b) :
    (respond cfg s r).2.isSuccess = false ∧ (respond cfg s r).1 = s := by
  have hnot : ¬ ReqValid cfg s r := by
    have hfv : ∀ id, ¬ FullyValid cfg s b id := by
      rintro id ⟨_, _, _, ⟨e, he, _⟩, _, _, haud, _, hs, _⟩
      rcases hmiss with h | h | h
      · rw [h] at he; cases he
      · rw [h] at haud; simp [verifyAud] at haud
      · exact hs h
    have had : ¬ AdminValid cfg s b := by
      rintro ⟨_, hs, ha, ⟨e, he, _⟩, _⟩
      rcases hmiss with h | h | h
      · rw [h] at he; cases he
      · exact ha h
      · exact hs h
    have hst : ¬ StatsValid cfg s b := by
      rintro ⟨_, hs, ha, ⟨e, he, _⟩, _⟩
      rcases hmiss with h | h | h
      · rw [h] at he; cases he
      · exact ha h
      · exact hs h
    cases r with
    | session c id => subst hcred; rintro ⟨_, b', hb', hv⟩; injection hb' with hb'; subst hb'; exact hfv id hv
    | deny c x y => subst hcred; rintro ⟨b', _, _, hb', hv, _⟩; injection hb' with hb'; subst hb'; exact had hv
    | allow c x y => subst hcred; rintro ⟨b', _, _, hb', hv, _⟩; injection hb' with hb'; subst hb'; exact had hv
    | list c d => subst hcred; rintro ⟨b', hb', hv⟩; injection hb' with hb'; subst hb'; exact had hv
    | status c => subst hcred; rintro ⟨b', hb', hv⟩; injection hb' with hb'; subst hb'; exact hst hv
  have hf : (respond cfg s r).2.isSuccess = false := by
    cases hh : (respond cfg s r).2.isSuccess with
    | false => rfl
    | true => exact absurd ((success_iff_valid cfg s r).1 hh) hnot
  exact ⟨hf, refusal_keeps_state cfg s r hf⟩

/-- parameter binding is total and exact: `exp` binds iff it is an optionally signed decimal int64 -/
example : parseInt64 "9223372036854775807" = some 9223372036854775807 ∧ parseInt64 "9223372036854775808" = none ∧
    parseInt64 "-9223372036854775808" = some (-9223372036854775808) ∧ parseInt64 "1e3" = none ∧ parseInt64 "" = none ∧
    parseInt64 "+7" = some 7 ∧ parseInt64 "-" = none ∧ parseInt64 "1_0" = none := by decide

end Access
