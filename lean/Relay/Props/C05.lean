import Relay.Props.HubInv
import Relay.Extracted.Handlers

/-!
# C05 — relayed data arrives complete, ordered and intact, or the reader is dropped

For every event history (any mix of writers and readers, message sizes, drain points — i.e. every
way the per-connection writer interleaves with the hub — and per-client buffer sizes):
-/

namespace Hub

/-- **whole messages, in order, no split**: for a reader, the frames written so far are built from
    consecutive blocks of the delivered messages; the blocks, followed by what is still queued, are
    exactly the delivered list (nothing lost, duplicated or reordered between hub and socket). -/
theorem frame_is_whole_messages (evs : List Ev) :
    ∀ c ∈ (run evs).members, c.canRead = true →
      c.blocks.flatten ++ c.queue = c.delivered ∧ frames c = c.blocks.map bytes := by
  intro c hc hr
  exact ⟨((run_inv evs).good c hc).rd hr, rfl⟩

/-- **byte-stream integrity**: the bytes a reader has received, followed by the bytes still queued
    for it, are exactly the concatenation of the whole messages delivered to it, in order. -/
theorem stream_integrity (evs : List Ev) :
    ∀ c ∈ (run evs).members, c.canRead = true →
      (frames c).flatten ++ bytes c.queue = bytes c.delivered := by
  intro c hc hr
  have h := ((run_inv evs).good c hc).rd hr
  rw [← h, bytes_append, bytes_flatten]
  rfl

/-- **complete, ordered, no duplicates (no silent skip)**: what has been delivered to a member is
    exactly the sub-sequence — in hub order — of all messages broadcast since it joined that are on its
    topic and not its own. A member that is still connected has missed nothing. -/
theorem delivered_exact (evs : List Ev) :
    ∀ c ∈ (run evs).members,
      c.delivered = ((run evs).sent.drop c.joinedAt).filter (wantsTN c.topic c.name) :=
  fun c hc => ((run_inv evs).good c hc).exact

/-- **per-writer FIFO**: the messages of one writer `w` appear at a member in the order `w` sent them
    (as sub-sequence of the hub log), each exactly once. -/
theorem per_sender_fifo (evs : List Ev) (w : Nat) :
    ∀ c ∈ (run evs).members,
      c.delivered.filter (fun m => m.sender == w)
        = ((run evs).sent.drop c.joinedAt).filter (fun m => wantsTN c.topic c.name m && m.sender == w) := by
  intro c hc
  rw [delivered_exact evs c hc, List.filter_filter]
  congr 1
  funext m
  exact Bool.and_comm _ _

/-- **dropped, never skipped**: in one broadcast every member that should get the message either gets
    it appended to its queue or is removed from the hub in that very step. -/
theorem no_silent_skip (h : Hub) (m : Msg) (c : Client) (hc : c ∈ h.members) (hw : wants c m = true) :
    (∃ c' ∈ (broadcast h m).members, c'.name = c.name ∧ c'.queue = c.queue ++ [m]) ∨
    (c ∈ (broadcast h m).gone ∧ ¬ c.queue.length < c.cap) := by
  by_cases hr : hasRoom c = true
  · left
    refine ⟨{ c with queue := c.queue ++ [m], delivered := c.delivered ++ [m] }, ?_, rfl, rfl⟩
    simp only [broadcast, List.mem_filterMap]
    exact ⟨c, hc, by simp [offer, hw, hr]⟩
  · right
    constructor
    · simp only [broadcast, evicted, List.mem_append, List.mem_filter]
      right; exact ⟨hc, by simp [hw, hr]⟩
    · simpa [hasRoom] using hr

/-- a member is dropped by the hub only because of its OWN backlog (fault confinement, C08): the
    fan-out removes `c` only when `c` itself wants the message and `c`'s own queue is full. -/
theorem evicted_only_own_backlog (h : Hub) (m : Msg) (c : Client) (hc : c ∈ evicted h.members m) :
    c ∈ h.members ∧ wants c m = true ∧ ¬ c.queue.length < c.cap := by
  simp only [evicted, List.mem_filter, Bool.and_eq_true, Bool.not_eq_eq_eq_not, Bool.not_true] at hc
  exact ⟨hc.1, hc.2.1, by simpa [hasRoom] using hc.2.2⟩

/-- and a member with room, or not concerned by the message, stays a member -/
theorem stays_member (h : Hub) (m : Msg) (c : Client) (hc : c ∈ h.members)
    (hk : wants c m = false ∨ c.queue.length < c.cap) :
    ∃ c' ∈ (broadcast h m).members, c'.name = c.name := by
  simp only [broadcast, List.mem_filterMap]
  rcases hk with hk | hk
  · exact ⟨c, ⟨c, hc, by simp [offer, hk]⟩, rfl⟩
  · by_cases hw : wants c m = true
    · exact ⟨{ c with queue := c.queue ++ [m], delivered := c.delivered ++ [m] },
        ⟨c, hc, by simp [offer, hw, hasRoom, hk]⟩, rfl⟩
    · have hw' : wants c m = false := by simpa using hw
      exact ⟨c, ⟨c, hc, by simp [offer, hw']⟩, rfl⟩

/-! non-vacuity: two writers, a reader draining at uneven points (frames merge 2 messages), and a
    reader with buffer 1 that falls behind and is dropped -/
example :
    let evs := [Ev.register "t" "" true false 8, .register "t" "" false true 8, .register "t" "" false true 8,
                .register "t" "" true false 1,
                .inbound 1 [1] 1, .inbound 2 [2, 2] 1, .drain 0 1, .inbound 1 [3] 1, .drain 0 5]
    ((run evs).members.map fun c => (c.name, frames c, c.queue.length)) =
        [(0, [[1, 2, 2], [3]], 0), (1, [], 1), (2, [], 2)]
      ∧ (run evs).gone.map (·.name) = [3] := by decide

/-- **source obligation**: the bytes a connection hands to the hub are the slice `ReadMessage()` returned for that frame —
    freshly allocated per frame by the websocket library and never written again — not a pooled, reused or re-sliced buffer.
    The model's messages are immutable values; this is what makes that faithful (a queued frame cannot change under the
    reader, and cannot turn into another topic's frame). -/
theorem frames_are_fresh_slices :
    Extracted.readPumpFrameSource = ["data:data", "data[1/3] := c.conn.ReadMessage()"] := by
  decide

end Hub
