import Relay.Model.Conc
import Relay.Props.C07Seq
import Relay.Props.C08ChanMap
import Relay.Extracted.Handlers

/-!
# C07 — cancelling a booking takes effect and stays in effect, whatever races with it

* The full statement `DenySticks` (every interleaving of the handlers' internal steps, any number of
  instances) is FALSE of the current code, in two ways; both are proved with explicit schedules and both
  are replayed on the real handlers through the scheduling points (known findings K1, K2):
  - `race_session_erases_deny`: a session request reads "not denied"; a complete deny of the same booking
    runs and is acknowledged; the session's `Allow` then removes the deny entry and a code is minted.
  - `race_admission_slips_past`: an admission passes the deny re-check; the deny completes and the
    crossbar closes the (still empty) channel set; the hub then records the new connection: a live
    connection under a denied booking that nothing will close.
* Proved positively: `Relay.deny_sticks_atomic_partial` (all sequential histories, any bookings),
  `Relay.deny_effect` (one acknowledged deny: listed, connections gone, codes gone, other bookings
  untouched), `TtlCode.purge_kills`, `ChanMap.delparent_closes_exactly`.
* `handlers_as_modelled`: the order of store operations and scheduling points in the five code paths, as
  REGENERATED from the source on every run, is the one the interleaving model is built from.
-/

namespace Conc

/-- the property as stated: for every number of requests and every schedule -/
def DenySticks : Prop := ∀ acts : List Act, quiescent (run acts) = true → denySticks (run acts) = true

/-- K1: session(check) ‖ deny(complete) ‖ session(allow, mint) -/
def scheduleK1 : List Act :=
  [.spawn .sStart, .client 0,                        -- session reads IsDenied = false, parks before Allow
   .spawn .dStart, .client 1, .client 1, .client 1, .sys .crossbar, .client 1,   -- deny: listed, purged, notified, processed, 204
   .client 0, .client 0, .client 0]                  -- session: Allow (erases the deny), mint, 200

theorem race_session_erases_deny :
    let c := run scheduleK1
    quiescent c = true ∧ c.sh.acked = true ∧ c.sh.denied = false ∧ c.sh.codes ≠ [] ∧
      (c.threads.map (·.pc)) = [.done 200, .done 204] := by decide

/-- K2: admission(re-check passed) ‖ deny(complete, crossbar processed) ‖ hub(records late) -/
def scheduleK2 : List Act :=
  [.spawn .sStart, .client 0, .client 0, .client 0, .client 0,     -- a session mints code 0
   .spawn (.wStart 0), .client 1, .client 1,                       -- admission: exchange ok, deny re-check false; parked at ws.checked
   .spawn .dStart, .client 2, .client 2, .client 2, .sys .crossbar, .client 2,   -- deny complete: nothing recorded yet, nothing closed
   .client 1, .sys .hubRecord, .client 1]                          -- admission registers; hub records; joined

theorem race_admission_slips_past :
    let c := run scheduleK2
    quiescent c = true ∧ c.sh.acked = true ∧ c.sh.denied = true ∧ c.sh.members = [1] ∧ c.sh.cancelled = [] ∧
      (c.threads.map (·.pc)) = [.done 200, .done 1, .done 204] := by decide

theorem not_DenySticks : ¬ DenySticks := by
  intro h
  have := h scheduleK1 (by decide)
  revert this
  decide

/-- the same two requests one after the other are fine (the model is not trivially broken):
    deny then session → refused; session+admission then deny → connection closed -/
example : let c := run [.spawn .dStart, .client 0, .client 0, .client 0, .sys .crossbar, .client 0, .spawn .sStart, .client 1]
    quiescent c = true ∧ denySticks c = true ∧ (c.threads.map (·.pc)) = [.done 204, .done 400] := by decide

example : let c := run [.spawn .sStart, .client 0, .client 0, .client 0, .client 0, .spawn (.wStart 0), .client 1, .client 1, .client 1,
                        .sys .hubRecord, .client 1, .spawn .dStart, .client 2, .client 2, .client 2, .sys .crossbar, .client 2, .sys (.teardown 1)]
    quiescent c = true ∧ denySticks c = true ∧ c.sh.members = [] := by decide

/-- **source obligation**: the order of store operations and scheduling points in the handlers is the one
    the model's thread programs are built from (a removed deny re-check, a reordered Allow, a missing purge
    or notification changes this table and the obligation no longer elaborates). -/
theorem handlers_as_modelled :
    Extracted.sessionHandler = ["DenyStore.IsDenied", "point:session.checked", "DenyStore.Allow", "point:session.allowed",
                                "CodeStore.SubmitToken", "point:session.minted"] ∧
    Extracted.denyHandler = ["DenyStore.Now", "DenyStore.Deny", "point:deny.listed", "CodeStore.DeleteByBookingID",
                             "point:deny.purged", "send:config.DenyChannel", "point:deny.notified"] ∧
    Extracted.allowHandler = ["DenyStore.Now", "DenyStore.Allow", "point:allow.done"] ∧
    Extracted.serveWs = ["point:ws.pre_exchange", "CodeStore.ExchangeCode", "CodeStore.GetTime", "DenyStore.IsDenied",
                         "point:ws.checked", "send:client.hub.register", "point:ws.registered", "close:cancelled"] ∧
    Extracted.hubRun = ["dcs.Add", "point:hub.recorded", "call:remove", "send:client.send", "call:remove"] ∧
    Extracted.hubRemove = ["close:client.send", "dcs.DeleteChild", "point:hub.removed"] ∧
    Extracted.handleConnections = ["dcs.DeleteAndCloseParent", "point:xbar.deny_processed"] := by decide

end Conc
