import Relay.Props.HubInv
import Relay.Model.Path

/-!
# C03 — topics are isolated and senders do not hear themselves

All statements are for every event history `evs` (any number of topics and connections, any
interleaving of joins, leaves, sends and queue drains).
-/

namespace Hub

/-- **isolation**: everything ever delivered to a member was sent on exactly the member's topic
    (string equality: prefixes, extra path segments etc. are different topics). -/
theorem isolation (evs : List Ev) : ∀ c ∈ (run evs).members, ∀ m ∈ c.delivered, m.topic = c.topic :=
  fun c hc m hm => ((run_inv evs).good c hc).own m hm |>.1

/-- **no echo**: nothing delivered to a member was sent by that member. -/
theorem no_echo (evs : List Ev) : ∀ c ∈ (run evs).members, ∀ m ∈ c.delivered, m.sender ≠ c.name :=
  fun c hc m hm => ((run_inv evs).good c hc).own m hm |>.2

/-- names are unique, so the sender filter suppresses the sender only, never another member -/
theorem names_unique (evs : List Ev) : (run evs).members.Pairwise (fun a b => a.name ≠ b.name) :=
  (run_inv evs).nodup

/-- the hub's decision for one member, written out -/
theorem offer_eq (c : Client) (m : Msg) :
    offer c m =
      if c.topic = m.topic ∧ c.name ≠ m.sender then
        (if c.queue.length < c.cap
         then some { c with queue := c.queue ++ [m], delivered := c.delivered ++ [m] } else none)
      else some c := by
  have hw := wants_iff c m
  by_cases h1 : wants c m = true
  · have h1' := hw.1 h1
    by_cases h2 : c.queue.length < c.cap <;> simp [offer, h1, hasRoom, h2, h1']
  · have h1f : wants c m = false := by simpa using h1
    have hn : ¬ (c.topic = m.topic ∧ c.name ≠ m.sender) := fun h => h1 (hw.2 h)
    simp [offer, h1f, hn]

/-- **delivery rule, one broadcast** (both directions): `m` is delivered to member `c` iff `c` is
    filed under exactly `m.topic` (string equality), is not the sender, and has room in its queue. -/
theorem deliver_iff (c : Client) (m : Msg) :
    (∃ c', offer c m = some c' ∧ c'.delivered = c.delivered ++ [m]) ↔
      (c.topic = m.topic ∧ c.name ≠ m.sender ∧ c.queue.length < c.cap) := by
  rw [offer_eq]
  constructor
  · rintro ⟨c', h, hd⟩
    split at h
    · rename_i hw
      split at h
      · rename_i hr; exact ⟨hw.1, hw.2, hr⟩
      · cases h
    · injection h with h; subst h
      have := congrArg List.length hd
      simp at this
  · rintro ⟨h1, h2, h3⟩
    refine ⟨{ c with queue := c.queue ++ [m], delivered := c.delivered ++ [m] }, ?_, rfl⟩
    rw [if_pos ⟨h1, h2⟩, if_pos h3]

/-- a member that should get `m` but has no room is dropped (never silently skipped) -/
theorem dropped_iff (c : Client) (m : Msg) :
    offer c m = none ↔ (c.topic = m.topic ∧ c.name ≠ m.sender ∧ ¬ c.queue.length < c.cap) := by
  rw [offer_eq]
  constructor
  · intro h
    split at h
    · rename_i hw
      split at h
      · cases h
      · rename_i hr; exact ⟨hw.1, hw.2, hr⟩
    · cases h
  · rintro ⟨h1, h2, h3⟩; simp [h1, h2, h3]

/-- any other member is left exactly as it was -/
theorem untouched_iff (c : Client) (m : Msg) (h : ¬ (c.topic = m.topic ∧ c.name ≠ m.sender)) :
    offer c m = some c := by
  rw [offer_eq]; simp [h]

/-- the fan-out never creates members and never changes a member's topic, name or capabilities -/
theorem broadcast_members_sub (h : Hub) (m : Msg) :
    ∀ c' ∈ (broadcast h m).members, ∃ c ∈ h.members, c'.name = c.name ∧ c'.topic = c.topic ∧
      c'.canRead = c.canRead ∧ c'.canWrite = c.canWrite := by
  intro c' hc'
  simp only [broadcast, List.mem_filterMap] at hc'
  obtain ⟨c, hc, ho⟩ := hc'
  refine ⟨c, hc, ?_⟩
  unfold offer at ho
  split at ho
  · split at ho
    · injection ho with ho; subst ho; exact ⟨rfl, rfl, rfl, rfl⟩
    · cases ho
  · injection ho with ho; subst ho; exact ⟨rfl, rfl, rfl, rfl⟩

/-- a connection that is not a member is never relayed from: an inbound message attributed to a name
    that is not registered changes nothing (C01: unjoined connections never send). -/
theorem unjoined_never_relays (h : Hub) (n : Nat) (d : List Nat) (mt : Nat)
    (hn : findMember h n = none) : step h (.inbound n d mt) = h := by
  simp [step, hn]

/-! non-vacuity: two topics sharing a prefix, a sender with a peer on its topic -/
example :
    let evs := [Ev.register "a" "b1" true true 2, .register "a" "b2" true false 2,
                .register "a/b" "b3" true true 2, .inbound 0 [1, 2] 1, .inbound 2 [9] 1, .drain 1 0]
    ((run evs).members.map fun c => (c.name, c.delivered.map (·.data), frames c))
      = [(0, [], []), (1, [[1, 2]], [[1, 2]]), (2, [], [])] := by decide

end Hub

namespace Path

/-- every character of an extracted topic is in the topic class (so a topic never contains `?`, `#`,
    blanks, …) -/
theorem topic_chars (p : List Char) : ∀ c ∈ topicOf p, cls2 c = true := by
  intro c hc
  unfold topicOf at hc
  split at hc
  · split at hc
    · rename_i t _
      have hall : (t.takeWhile cls2).all cls2 = true := List.all_takeWhile
      exact List.all_eq_true.1 hall c hc
    · simp at hc
  · simp at hc

/-- the path always gets exactly one leading slash -/
theorem slashify_head (p : List Char) : (slashify p).head? = some '/' := rfl

/-! spelling examples (tests, not theorems): trailing slash is the same topic; a longer path, a
    prefix and a different segment are different topics -/
example : topicOf (slashify "/session/abc/".toList) = topicOf (slashify "session/abc".toList) := by decide
example : topicOf (slashify "/session/abc/d".toList) ≠ topicOf (slashify "/session/abc".toList) := by decide
example : topicOf (slashify "/session/ab".toList) ≠ topicOf (slashify "/session/abc".toList) := by decide
example : (route "/session/a%2Fb-c_d.e?x".toList) = ("session".toList, "a%2Fb-c_d.e".toList) := by decide

end Path
