import Relay.Model.Agg
import Relay.Lemmas.Agg

/-!
# C15 — a stream carries exactly its latest rule's feeds; rule edits never crash the host

All theorems are about `Agg.run` (the code of today, `step true`) and hold for EVERY sequence of
register / unregister / add-or-replace rule / delete rule / delete-all / broadcast, over any
streams, feeds and subscribers, unless a hypothesis is written out.

* `agg_never_panics`              no op sequence makes the hub goroutine panic (no `stuck` outcome exists
                                  in the model: the loop's only sends go to the never-blocking inner hub)
* `stream_follows_latest_rule`    copies of a message on feed `f` forwarded to `u` through the
                                  sub-subscription table = (number of times `f` is listed in the latest
                                  rule of `u`'s stream) if `u` is a registered stream subscriber whose name
                                  differs from the sender's, else 0.  A feed listed twice is forwarded twice.
* `stream_forwarded_iff`          the same as an iff (forwarded at all ⟺ registered ∧ latest rule exists ∧ f ∈ it)
* `stream_delivery_follows_rule`  end to end (table + leaked forwarders + direct registration): under the
                                  usage discipline `NoReRegister` what `u` receives is exactly that number
* `reregister_orphans_forwarder`  without the discipline the end-to-end statement is FALSE (witness)
* `plain_delivery_exact`, `plain_subscribers_unaffected`
                                  a plain subscriber gets one copy of each message of its topic (not its
                                  own); erasing every rule op from the history changes nothing for it
* `removed_feed_stops`, `deleted_rule_stops`, `delete_all_stops`, `unregistered_gets_nothing`
                                  corollaries: the state right after the change already forwards nothing
* `old_code_panics_*`             the three historical sequences panic in the model of the code before e26c2fb

Stalled peers (`Agg.Full`, `Agg.fstep`: subscribers that stop draining their `Send` channel, forwarders
blocked in `c.Send <- msg`, tear-down of blocked forwarders), for EVERY history of table ops, stalls and drains:

* `stalls_never_crash_or_block_hub`  the hub loop neither panics nor blocks, and its tables are exactly those of
                                  the table ops alone (a peer that does not read cannot influence them)
* `stalled_iff_history`           the stalled set is what the history says (last stall/drain op was a stall)
* `undelivered_were_owed`         whatever sits in a buffer or with a blocked forwarder (also a stopped one)
                                  belongs to a subscriber that is stalled now and is the message of an earlier
                                  broadcast that owed it to that subscriber at that time ("in flight" only)
* `drained_were_owed`             so a subscriber that drains again gets only such messages, and is clean after
* `draining_subscriber_unaffected`, `draining_stream_subscriber_follows_rule`
                                  a subscriber that drains (never stalled, or drained again) is served as if
                                  nobody had stalled: exactly the latest rule's multiplicity (under `NoReRegister`)
* `broadcast_rows`                a broadcast delivers at once only to draining subscribers; a stalled one gets
                                  nothing until it drains
-/

namespace Agg
open KV

/-- representation invariant of the code of today -/
structure Inv (s : State) : Prop where
  /-- no stopped sub-subscription is ever kept in the table -/
  allLive : SM.AllLive s.subs
  regsStream : ∀ u ∈ s.regs, isStream u.topic = true
  plainNot : ∀ u ∈ s.plain, isStream u.topic = false
  orphStream : ∀ p ∈ s.orphans, isStream p.1.topic = true
  /-- the table is a function of the registered set and the rules -/
  table : ∀ u, SM.lookup s.subs u =
    if u ∈ s.regs then (lookup s.rules u.topic).map (fun feeds => feeds.map live) else none

theorem inv_init : Inv {} := by
  refine ⟨SM.allLive_nil, ?_, ?_, ?_, ?_⟩
  · intro u h; cases h
  · intro u h; cases h
  · intro u h; cases h
  · intro u; simp

/-- every step of today's code from a state satisfying the invariant succeeds and keeps it -/
theorem step_inv (s : State) (op : Op) (h : Inv s) : ∃ s', step true s op = .ok s' ∧ Inv s' := by
  obtain ⟨hl, hrs, hpn, hos, htab⟩ := h
  cases op with
  | register u =>
    by_cases hs : isStream u.topic = true
    · cases hr : lookup s.rules u.topic with
      | none =>
        refine ⟨{ s with regs := setAdd u s.regs }, by simp only [step, hs, hr, if_true], hl, ?_, hpn, hos, ?_⟩
        · intro v hv
          rcases (mem_setAdd u v s.regs).1 hv with e | e
          · exact e ▸ hs
          · exact hrs v e
        · intro v
          show SM.lookup s.subs v = if v ∈ setAdd u s.regs then _ else none
          rw [htab v]
          by_cases hv : v = u
          · subst hv
            simp [mem_setAdd, hr]
          · simp [mem_setAdd, hv]
      | some feeds =>
        refine ⟨{ s with regs := setAdd u s.regs, subs := SM.insert s.subs u (feeds.map live),
                         orphans := (liveOf s.subs u).map (fun f => (u, f)) ++ s.orphans },
          by simp only [step, hs, hr, if_true],
          SM.allLive_insert _ _ _ hl (live_not_stopped feeds), ?_, hpn, ?_, ?_⟩
        · intro v hv
          rcases (mem_setAdd u v s.regs).1 hv with e | e
          · exact e ▸ hs
          · exact hrs v e
        · intro p hp
          simp only [List.mem_append, List.mem_map] at hp
          rcases hp with ⟨f, _, rfl⟩ | hp
          · exact hs
          · exact hos p hp
        · intro v
          show SM.lookup (SM.insert s.subs u (feeds.map live)) v = if v ∈ setAdd u s.regs then _ else none
          by_cases hv : v = u
          · subst hv
            simp [mem_setAdd, hr]
          · rw [SM.lookup_insert_ne _ _ (fun e => hv e.symm), htab v]
            simp [mem_setAdd, hv]
    · have hs' : isStream u.topic = false := by simpa using hs
      refine ⟨{ s with plain := setAdd u s.plain }, by simp [step, hs'], hl, hrs, ?_, hos, htab⟩
      intro v hv
      rcases (mem_setAdd u v s.plain).1 hv with e | e
      · exact e ▸ hs'
      · exact hpn v e
  | unregister u =>
    by_cases hs : isStream u.topic = true
    · refine ⟨{ s with regs := setDel u s.regs, subs := SM.erase s.subs u },
        by simp [step, hs, anyStopped_false _ _ hl],
        SM.allLive_erase _ _ hl, ?_, hpn, hos, ?_⟩
      · intro v hv
        exact hrs v ((mem_setDel u v s.regs).1 hv).1
      · intro v
        show SM.lookup (SM.erase s.subs u) v = if v ∈ setDel u s.regs then _ else none
        by_cases hv : v = u
        · subst hv
          simp [mem_setDel]
        · rw [SM.lookup_erase_ne _ (fun e => hv e.symm), htab v]
          simp [mem_setDel, hv]
    · have hs' : isStream u.topic = false := by simpa using hs
      refine ⟨{ s with plain := setDel u s.plain }, by simp [step, hs'], hl, hrs, ?_, hos, htab⟩
      intro v hv
      exact hpn v ((mem_setDel u v s.plain).1 hv).1
  | add stream feeds =>
    by_cases hd : stream = "deleteAll"
    · exact ⟨s, by simp only [step, hd, if_true], hl, hrs, hpn, hos, htab⟩
    · refine ⟨{ s with rules := insert s.rules stream feeds,
                       subs := SM.setAll s.subs (members s stream) (feeds.map live) },
        by simp [step, hd, anyStopped_false _ _ hl],
        SM.allLive_setAll _ _ _ hl (live_not_stopped feeds), hrs, hpn, hos, ?_⟩
      intro v
      show SM.lookup (SM.setAll s.subs (members s stream) (feeds.map live)) v =
        if v ∈ s.regs then (lookup (insert s.rules stream feeds) v.topic).map _ else none
      rw [SM.lookup_setAll, htab v]
      by_cases hv : v ∈ s.regs
      · by_cases ht : v.topic = stream
        · subst ht
          simp [mem_members, hv]
        · have ht' : stream ≠ v.topic := fun e => ht e.symm
          simp [mem_members, hv, ht, lookup_insert_ne _ _ ht']
      · simp [mem_members, hv]
  | delete stream =>
    by_cases hd : stream = "deleteAll"
    · refine ⟨{ s with subs := [], rules := [] }, by simp [step, hd, anyStoppedAll_false _ hl],
        SM.allLive_nil, hrs, hpn, hos, ?_⟩
      intro v
      show SM.lookup [] v = if v ∈ s.regs then (lookup [] v.topic).map _ else none
      simp
    · by_cases hh : has s.rules stream = true
      · refine ⟨{ s with subs := SM.eraseAll s.subs (members s stream), rules := erase s.rules stream },
          by simp [step, hd, hh, anyStopped_false _ _ hl],
          SM.allLive_eraseAll _ _ hl, hrs, hpn, hos, ?_⟩
        intro v
        show SM.lookup (SM.eraseAll s.subs (members s stream)) v =
          if v ∈ s.regs then (lookup (erase s.rules stream) v.topic).map _ else none
        rw [SM.lookup_eraseAll, htab v]
        by_cases hv : v ∈ s.regs
        · by_cases ht : v.topic = stream
          · subst ht
            simp [mem_members, hv]
          · have ht' : stream ≠ v.topic := fun e => ht e.symm
            simp [mem_members, hv, ht, lookup_erase_ne _ ht']
        · simp [mem_members, hv]
      · have hh' : has s.rules stream = false := by simpa using hh
        refine ⟨{ s with rules := erase s.rules stream }, by simp [step, hd, hh'], hl, hrs, hpn, hos, ?_⟩
        intro v
        show SM.lookup s.subs v =
          if v ∈ s.regs then (lookup (erase s.rules stream) v.topic).map _ else none
        rw [htab v]
        by_cases ht : v.topic = stream
        · subst ht
          have : lookup s.rules v.topic = none := by
            simpa [has] using hh'
          simp [this]
        · have ht' : stream ≠ v.topic := fun e => ht e.symm
          simp [lookup_erase_ne _ ht']
  | broadcast t snd => exact ⟨s, rfl, hl, hrs, hpn, hos, htab⟩

/-! ### running -/

theorem foldl_panic (fx : Bool) (ops : List Op) :
    ops.foldl (fun o op => Outcome.bind o (fun s => step fx s op)) (.panic : Outcome State) = .panic := by
  induction ops with
  | nil => rfl
  | cons op ops ih => simpa [Outcome.bind] using ih

theorem runFrom_cons (fx : Bool) (s : State) (op : Op) (ops : List Op) :
    runFrom fx s (op :: ops) = (step fx s op).bind (fun s1 => runFrom fx s1 ops) := by
  unfold runFrom
  simp only [List.foldl_cons, Outcome.bind]
  cases step fx s op with
  | ok s1 => rfl
  | panic => simp only []; exact foldl_panic fx ops

theorem runFrom_ok_cons (s s1 : State) (op : Op) (ops : List Op) (h : step true s op = .ok s1) :
    runFrom true s (op :: ops) = runFrom true s1 ops := by
  rw [runFrom_cons, h]; rfl

/-- one step against the history-only specification -/
theorem step_rules (s s1 : State) (op : Op) (st : String) (h : step true s op = .ok s1)
    (hI : Inv s) : lookup s1.rules st = ruleStep st (lookup s.rules st) op := by
  have hl := hI.allLive
  cases op with
  | register u =>
    simp only [step] at h
    split at h
    · split at h <;> · cases h; rfl
    · cases h; rfl
  | unregister u =>
    simp only [step, anyStopped_false _ _ hl] at h
    split at h <;> · cases h; rfl
  | add stream feeds =>
    simp only [step, anyStopped_false _ _ hl, Bool.and_false] at h
    by_cases hd : stream = "deleteAll"
    · simp only [hd, if_true] at h; cases h; simp [ruleStep, hd]
    · simp only [hd, if_false] at h
      cases h
      by_cases hst : stream = st
      · subst hst; simp [ruleStep, hd]
      · simp [ruleStep, hd, hst, lookup_insert_ne _ _ hst]
  | delete stream =>
    simp only [step, anyStopped_false _ _ hl, anyStoppedAll_false _ hl] at h
    by_cases hd : stream = "deleteAll"
    · simp only [hd, if_true] at h; cases h; simp [ruleStep, hd]
    · simp only [hd, if_false] at h
      have : s1.rules = erase s.rules stream := by
        split at h <;> · cases h; rfl
      rw [this]
      by_cases hst : stream = st
      · subst hst; simp [ruleStep, hd]
      · simp [ruleStep, hd, hst, lookup_erase_ne _ hst]
  | broadcast t snd => cases h; rfl

theorem step_regs (s s1 : State) (op : Op) (u : Sub) (h : step true s op = .ok s1) (hI : Inv s)
    (hu : isStream u.topic = true) : decide (u ∈ s1.regs) = regStep u (decide (u ∈ s.regs)) op := by
  have hl := hI.allLive
  cases op with
  | register v =>
    simp only [step] at h
    have key : isStream v.topic = true → s1.regs = setAdd v s.regs := by
      intro hv
      simp only [hv, if_true] at h
      split at h <;> · cases h; rfl
    by_cases hv : isStream v.topic = true
    · rw [key hv]
      by_cases e : v = u
      · subst e; simp [regStep, mem_setAdd]
      · have e' : ¬ u = v := fun x => e x.symm
        simp [regStep, mem_setAdd, e, e']
    · have hv' : isStream v.topic = false := by simpa using hv
      simp only [hv'] at h
      cases h
      have e : ¬ v = u := by intro e; subst e; rw [hu] at hv'; cases hv'
      simp [regStep, e]
  | unregister v =>
    simp only [step, anyStopped_false _ _ hl] at h
    by_cases hv : isStream v.topic = true
    · simp only [hv, if_true] at h
      cases h
      by_cases e : v = u
      · subst e; simp [regStep, mem_setDel]
      · have e' : ¬ u = v := fun x => e x.symm
        simp [regStep, mem_setDel, e, e']
    · have hv' : isStream v.topic = false := by simpa using hv
      simp only [hv'] at h
      cases h
      have e : ¬ v = u := by intro e; subst e; rw [hu] at hv'; cases hv'
      simp [regStep, e]
  | add stream feeds =>
    simp only [step, anyStopped_false _ _ hl, Bool.and_false] at h
    split at h <;> · cases h; rfl
  | delete stream =>
    simp only [step, anyStopped_false _ _ hl, anyStoppedAll_false _ hl] at h
    have : s1.regs = s.regs := by
      split at h
      · cases h; rfl
      · split at h <;> · cases h; rfl
    rw [this]; rfl
  | broadcast t snd => cases h; rfl

theorem step_plain (s s1 : State) (op : Op) (u : Sub) (h : step true s op = .ok s1) (hI : Inv s)
    (hu : isStream u.topic = false) : decide (u ∈ s1.plain) = regStep u (decide (u ∈ s.plain)) op := by
  have hl := hI.allLive
  cases op with
  | register v =>
    simp only [step] at h
    by_cases hv : isStream v.topic = true
    · have : s1.plain = s.plain := by
        simp only [hv, if_true] at h
        split at h <;> · cases h; rfl
      rw [this]
      have e : ¬ v = u := by intro e; subst e; rw [hu] at hv; cases hv
      simp [regStep, e]
    · have hv' : isStream v.topic = false := by simpa using hv
      simp only [hv'] at h
      cases h
      by_cases e : v = u
      · subst e; simp [regStep, mem_setAdd]
      · have e' : ¬ u = v := fun x => e x.symm
        simp [regStep, mem_setAdd, e, e']
  | unregister v =>
    simp only [step, anyStopped_false _ _ hl] at h
    by_cases hv : isStream v.topic = true
    · simp only [hv, if_true] at h
      cases h
      have e : ¬ v = u := by intro e; subst e; rw [hu] at hv; cases hv
      simp [regStep, e]
    · have hv' : isStream v.topic = false := by simpa using hv
      simp only [hv'] at h
      cases h
      by_cases e : v = u
      · subst e; simp [regStep, mem_setDel]
      · have e' : ¬ u = v := fun x => e x.symm
        simp [regStep, mem_setDel, e, e']
  | add stream feeds =>
    simp only [step, anyStopped_false _ _ hl, Bool.and_false] at h
    split at h <;> · cases h; rfl
  | delete stream =>
    simp only [step, anyStopped_false _ _ hl, anyStoppedAll_false _ hl] at h
    have : s1.plain = s.plain := by
      split at h
      · cases h; rfl
      · split at h <;> · cases h; rfl
    rw [this]; rfl
  | broadcast t snd => cases h; rfl

/-- the whole run against the history-only specification (generalised over the start state) -/
theorem runFrom_spec (ops : List Op) : ∀ s, Inv s → ∃ s', runFrom true s ops = .ok s' ∧ Inv s' ∧
    (∀ st, lookup s'.rules st = ops.foldl (ruleStep st) (lookup s.rules st)) ∧
    (∀ u, isStream u.topic = true → decide (u ∈ s'.regs) = ops.foldl (regStep u) (decide (u ∈ s.regs))) ∧
    (∀ u, isStream u.topic = false → decide (u ∈ s'.plain) = ops.foldl (regStep u) (decide (u ∈ s.plain))) := by
  induction ops with
  | nil => intro s hI; exact ⟨s, rfl, hI, fun _ => rfl, fun _ _ => rfl, fun _ _ => rfl⟩
  | cons op ops ih =>
    intro s hI
    obtain ⟨s1, h1, hI1⟩ := step_inv s op hI
    obtain ⟨s', hr, hI', a, b, c⟩ := ih s1 hI1
    refine ⟨s', by rw [runFrom_ok_cons s s1 op ops h1]; exact hr, hI', ?_, ?_, ?_⟩
    · intro st; rw [a st, step_rules s s1 op st h1 hI]; rfl
    · intro u hu; rw [b u hu, step_regs s s1 op u h1 hI hu]; rfl
    · intro u hu; rw [c u hu, step_plain s s1 op u h1 hI hu]; rfl

theorem run_spec (ops : List Op) : ∃ s, run ops = .ok s ∧ Inv s ∧
    (∀ st, lookup s.rules st = latestRule ops st) ∧
    (∀ u, isStream u.topic = true → decide (u ∈ s.regs) = registered ops u) ∧
    (∀ u, isStream u.topic = false → decide (u ∈ s.plain) = registered ops u) := by
  obtain ⟨s, h, hI, a, b, c⟩ := runFrom_spec ops {} inv_init
  exact ⟨s, h, hI, a, fun u hu => by rw [b u hu]; rfl, fun u hu => by rw [c u hu]; rfl⟩

/-- **C15 (iii)**: no sequence of rule edits, joins, leaves and broadcasts makes the hub panic. -/
theorem agg_never_panics (ops : List Op) : ∃ s, run ops = .ok s := by
  obtain ⟨s, h, _⟩ := run_spec ops
  exact ⟨s, h⟩

/-! ### streams -/

/-- number of copies the property asks for: `f`'s multiplicity in the latest rule of `u`'s stream, for
    a registered stream subscriber that is not the sender -/
theorem expected_def (ops : List Op) (u : Sub) (f sender : String) :
    expected ops u f sender =
      if isStream u.topic = true ∧ registered ops u = true ∧ u.name ≠ sender then
        match latestRule ops u.topic with
        | some feeds => feeds.count f
        | none => 0
      else 0 := rfl

theorem fwdTable_of_inv (s : State) (hI : Inv s) (u : Sub) (f sender : String) :
    fwdTable s u f sender =
      if u ∈ s.regs ∧ u.name ≠ sender then
        match lookup s.rules u.topic with
        | some feeds => feeds.count f
        | none => 0
      else 0 := by
  unfold fwdTable liveOf
  rw [hI.table u]
  by_cases hn : u.name = sender
  · simp [hn]
  · by_cases hr : u ∈ s.regs
    · cases hl : lookup s.rules u.topic with
      | none => simp [hn, hr]
      | some feeds => simp [hn, hr, liveFeeds_fresh]
    · simp [hn, hr]

/-- **C15 (i)**: for every op sequence, stream subscriber `u`, feed `f` and sender: the number of
    copies of a message on `f` that the sub-subscription table forwards to `u` is the multiplicity of
    `f` in the LATEST rule of `u`'s stream when `u` is registered (and is not the sender), and 0
    otherwise (no rule, rule deleted, deleted by delete-all, `u` left, `u` never joined). -/
theorem stream_follows_latest_rule (ops : List Op) (u : Sub) (f sender : String) :
    ∃ s, run ops = .ok s ∧ fwdTable s u f sender = expected ops u f sender := by
  obtain ⟨s, h, hI, a, b, _⟩ := run_spec ops
  refine ⟨s, h, ?_⟩
  rw [fwdTable_of_inv s hI, expected_def, a u.topic]
  by_cases hu : isStream u.topic = true
  · have hb := b u hu
    by_cases hr : u ∈ s.regs
    · have : registered ops u = true := by rw [← hb]; simpa using hr
      simp [hu, hr, this]
    · have : registered ops u = false := by rw [← hb]; simpa using hr
      simp [hr, this]
  · have hr : u ∉ s.regs := fun hr => hu (hI.regsStream u hr)
    simp [hu, hr]

/-- the same as an equivalence: forwarded at all ⟺ `u` is a registered stream subscriber (not the
    sender) ∧ the latest rule of its stream exists ∧ `f` is one of its feeds -/
theorem stream_forwarded_iff (ops : List Op) (u : Sub) (f sender : String) :
    ∃ s, run ops = .ok s ∧
      (0 < fwdTable s u f sender ↔
        isStream u.topic = true ∧ registered ops u = true ∧ u.name ≠ sender ∧
        ∃ feeds, latestRule ops u.topic = some feeds ∧ f ∈ feeds) := by
  obtain ⟨s, h, he⟩ := stream_follows_latest_rule ops u f sender
  refine ⟨s, h, ?_⟩
  rw [he, expected_def]
  constructor
  · intro hp
    split at hp
    · rename_i hc
      obtain ⟨h1, h2, h3⟩ := hc
      cases hl : latestRule ops u.topic with
      | none => simp [hl] at hp
      | some feeds =>
        simp only [hl] at hp
        exact ⟨h1, h2, h3, feeds, rfl, List.count_pos_iff.1 hp⟩
    · cases hp
  · rintro ⟨h1, h2, h3, feeds, hl, hf⟩
    simp only [h1, h2, h3, hl, ne_eq, not_false_eq_true, and_self, if_true]
    exact List.count_pos_iff.2 hf

/-! ### the usage discipline and leaked forwarders -/

theorem step_orphans (s s1 : State) (op : Op) (h : step true s op = .ok s1) (hI : Inv s)
    (hno : ∀ u, op = .register u → isStream u.topic = true → u ∉ s.regs) :
    s1.orphans = s.orphans := by
  have hl := hI.allLive
  cases op with
  | register u =>
    simp only [step] at h
    by_cases hs : isStream u.topic = true
    · simp only [hs, if_true] at h
      have hnr := hno u rfl hs
      have hlo : liveOf s.subs u = [] := by
        unfold liveOf; rw [hI.table u]; simp [hnr]
      split at h
      · cases h; simp [hlo]
      · cases h; rfl
    · have hs' : isStream u.topic = false := by simpa using hs
      simp only [hs'] at h; cases h; rfl
  | unregister u =>
    simp only [step, anyStopped_false _ _ hl] at h
    split at h <;> · cases h; rfl
  | add stream feeds =>
    simp only [step, anyStopped_false _ _ hl, Bool.and_false] at h
    split at h <;> · cases h; rfl
  | delete stream =>
    simp only [step, anyStopped_false _ _ hl, anyStoppedAll_false _ hl] at h
    split at h
    · cases h; rfl
    · split at h <;> · cases h; rfl
  | broadcast t snd => cases h; rfl

theorem runFrom_no_orphans (ops : List Op) : ∀ (s : State) (regd : List Sub), Inv s →
    (∀ u, u ∈ regd ↔ u ∈ s.regs) → fresh regd ops = true →
    ∃ s', runFrom true s ops = .ok s' ∧ s'.orphans = s.orphans := by
  induction ops with
  | nil => intro s _ _ _ _; exact ⟨s, rfl, rfl⟩
  | cons op ops ih =>
    intro s regd hI hreg hf
    obtain ⟨s1, h1, hI1⟩ := step_inv s op hI
    rw [runFrom_ok_cons s s1 op ops h1]
    have hl := hI.allLive
    cases op with
    | register u =>
      by_cases hs : isStream u.topic = true
      · simp only [fresh, hs, if_true, Bool.and_eq_true, Bool.not_eq_true', decide_eq_false_iff_not] at hf
        obtain ⟨hnot, hf⟩ := hf
        have hnr : u ∉ s.regs := fun e => hnot ((hreg u).2 e)
        have ho := step_orphans s s1 _ h1 hI (fun v e _ => by cases e; exact hnr)
        have hregs : s1.regs = setAdd u s.regs := by
          simp only [step, hs, if_true] at h1
          split at h1 <;> · cases h1; rfl
        obtain ⟨s', hr, ho'⟩ := ih s1 (setAdd u regd) hI1
          (fun v => by rw [hregs, mem_setAdd, mem_setAdd, hreg v]) hf
        exact ⟨s', hr, by rw [ho', ho]⟩
      · have hs' : isStream u.topic = false := by simpa using hs
        simp only [fresh, hs'] at hf
        have ho := step_orphans s s1 _ h1 hI (fun v e hv => by cases e; rw [hs'] at hv; cases hv)
        have hregs : s1.regs = s.regs := by
          simp only [step, hs'] at h1; cases h1; rfl
        obtain ⟨s', hr, ho'⟩ := ih s1 regd hI1 (fun v => by rw [hregs]; exact hreg v) hf
        exact ⟨s', hr, by rw [ho', ho]⟩
    | unregister u =>
      have ho := step_orphans s s1 _ h1 hI (fun v e _ => by cases e)
      by_cases hs : isStream u.topic = true
      · simp only [fresh, hs, if_true] at hf
        have hregs : s1.regs = setDel u s.regs := by
          simp only [step, hs, anyStopped_false _ _ hl, if_true] at h1; cases h1; rfl
        obtain ⟨s', hr, ho'⟩ := ih s1 (setDel u regd) hI1
          (fun v => by rw [hregs, mem_setDel, mem_setDel, hreg v]) hf
        exact ⟨s', hr, by rw [ho', ho]⟩
      · have hs' : isStream u.topic = false := by simpa using hs
        simp only [fresh, hs'] at hf
        have hregs : s1.regs = s.regs := by
          simp only [step, hs'] at h1; cases h1; rfl
        obtain ⟨s', hr, ho'⟩ := ih s1 regd hI1 (fun v => by rw [hregs]; exact hreg v) hf
        exact ⟨s', hr, by rw [ho', ho]⟩
    | add stream feeds =>
      have ho := step_orphans s s1 _ h1 hI (fun v e _ => by cases e)
      have hregs : s1.regs = s.regs := by
        simp only [step, anyStopped_false _ _ hl, Bool.and_false] at h1
        split at h1 <;> · cases h1; rfl
      simp only [fresh] at hf
      obtain ⟨s', hr, ho'⟩ := ih s1 regd hI1 (fun v => by rw [hregs]; exact hreg v) hf
      exact ⟨s', hr, by rw [ho', ho]⟩
    | delete stream =>
      have ho := step_orphans s s1 _ h1 hI (fun v e _ => by cases e)
      have hregs : s1.regs = s.regs := by
        simp only [step, anyStopped_false _ _ hl, anyStoppedAll_false _ hl] at h1
        split at h1
        · cases h1; rfl
        · split at h1 <;> · cases h1; rfl
      simp only [fresh] at hf
      obtain ⟨s', hr, ho'⟩ := ih s1 regd hI1 (fun v => by rw [hregs]; exact hreg v) hf
      exact ⟨s', hr, by rw [ho', ho]⟩
    | broadcast t snd =>
      cases h1
      simp only [fresh] at hf
      exact ih s regd hI hreg hf

/-- under the discipline no forwarder is ever leaked -/
theorem no_orphans (ops : List Op) (hd : NoReRegister ops) :
    ∃ s, run ops = .ok s ∧ s.orphans = [] := by
  obtain ⟨s, h, ho⟩ := runFrom_no_orphans ops {} [] inv_init (fun u => by simp) hd
  exact ⟨s, h, ho⟩

/-- **C15 (i, end to end)**: for every op sequence that respects the usage discipline `NoReRegister`
    (a stream subscriber is not registered again while it is registered — the only hypothesis), the
    total number of copies a stream subscriber `u` receives of a message on feed `f`, by whatever path
    (sub-subscription table, leaked forwarders, direct registration), is the multiplicity of `f` in the
    latest rule of `u`'s stream if `u` is registered and not the sender, else 0. -/
theorem stream_delivery_follows_rule (ops : List Op) (hd : NoReRegister ops) (u : Sub)
    (hu : isStream u.topic = true) (f sender : String) :
    ∃ s, run ops = .ok s ∧ received s u f sender = expected ops u f sender := by
  obtain ⟨s, h, ho⟩ := no_orphans ops hd
  obtain ⟨s2, h2, he⟩ := stream_follows_latest_rule ops u f sender
  obtain ⟨s3, h3, hI, _⟩ := run_spec ops
  rw [h] at h2 h3; cases h2; cases h3
  refine ⟨s, h, ?_⟩
  have hp : u ∉ s.plain := fun e => by rw [hI.plainNot u e] at hu; cases hu
  unfold received
  rw [he]
  simp [plainRecv, fwdOrphan, hp, ho]

/-- the end-to-end statement without the discipline -/
def StreamDeliveryAlwaysFollowsRule : Prop :=
  ∀ (ops : List Op) (u : Sub) (f sender : String), isStream u.topic = true →
    ∃ s, run ops = .ok s ∧ received s u f sender = expected ops u f sender

/-- **It is false**: registering the same subscriber twice while a rule exists overwrites its
    table entry without stopping the old sub-subscriptions; they keep forwarding after the
    subscriber has left and after every rule has been deleted.
    Witness: add stream/s [f1]; register u; register u; unregister u; delete-all — a message on f1
    still reaches u (expected: 0 copies). Reproduced on the real hub (corpus/agg.json). -/
theorem reregister_orphans_forwarder : ¬ StreamDeliveryAlwaysFollowsRule := by
  intro h
  have := h [.add "stream/s" ["f1"], .register ⟨"u", "stream/s"⟩, .register ⟨"u", "stream/s"⟩,
             .unregister ⟨"u", "stream/s"⟩, .deleteAll] ⟨"u", "stream/s"⟩ "f1" "x" (by decide)
  obtain ⟨s, hs, he⟩ := this
  have hrun : run [.add "stream/s" ["f1"], .register ⟨"u", "stream/s"⟩, .register ⟨"u", "stream/s"⟩,
             .unregister ⟨"u", "stream/s"⟩, .deleteAll] =
      .ok { rules := [], regs := [], subs := [], plain := [],
            orphans := [(⟨"u", "stream/s"⟩, "f1")] } := by decide
  rw [hrun] at hs
  cases hs
  revert he
  decide

/-! ### plain subscribers -/

/-- **C15 (ii, exact)**: a plain (non-stream) subscriber receives exactly one copy of every message
    broadcast on its own topic by somebody else while it is registered, and nothing else — whatever
    rules were added, replaced or deleted. -/
theorem plain_delivery_exact (ops : List Op) (v : Sub) (hv : isStream v.topic = false)
    (f sender : String) :
    ∃ s, run ops = .ok s ∧
      received s v f sender = if registered ops v = true ∧ v.topic = f ∧ v.name ≠ sender then 1 else 0 := by
  obtain ⟨s, h, hI, _, _, c⟩ := run_spec ops
  refine ⟨s, h, ?_⟩
  have hc := c v hv
  have hnr : v ∉ s.regs := fun e => by rw [hI.regsStream v e] at hv; cases hv
  have ht : fwdTable s v f sender = 0 := by
    rw [fwdTable_of_inv s hI]; simp [hnr]
  have ho : fwdOrphan s v f sender = 0 := by
    unfold fwdOrphan
    split
    · rfl
    · apply List.count_eq_zero.2
      intro hm
      have := hI.orphStream _ hm
      simp only at this
      rw [hv] at this; cases this
  unfold received
  rw [ht, ho]
  unfold plainRecv
  by_cases hp : v ∈ s.plain
  · have : registered ops v = true := by rw [← hc]; simpa using hp
    simp [hp, this]
  · have : registered ops v = false := by rw [← hc]; simpa using hp
    simp [hp, this]

theorem registered_filter (ops : List Op) (v : Sub) : ∀ b : Bool,
    (ops.filter (fun o => !o.isRuleOp)).foldl (regStep v) b = ops.foldl (regStep v) b := by
  induction ops with
  | nil => intro b; rfl
  | cons op ops ih =>
    intro b
    rw [List.filter_cons]
    cases op with
    | register u =>
      have hk : (!Op.isRuleOp (Op.register u)) = true := rfl
      rw [if_pos hk, List.foldl_cons, List.foldl_cons, ih]
    | unregister u =>
      have hk : (!Op.isRuleOp (Op.unregister u)) = true := rfl
      rw [if_pos hk, List.foldl_cons, List.foldl_cons, ih]
    | broadcast t snd =>
      have hk : (!Op.isRuleOp (Op.broadcast t snd)) = true := rfl
      rw [if_pos hk, List.foldl_cons, List.foldl_cons, ih]
    | add st feeds =>
      have hk : ¬ (!Op.isRuleOp (Op.add st feeds)) = true := by simp [Op.isRuleOp]
      rw [if_neg hk, List.foldl_cons]
      exact ih b
    | delete st =>
      have hk : ¬ (!Op.isRuleOp (Op.delete st)) = true := by simp [Op.isRuleOp]
      rw [if_neg hk, List.foldl_cons]
      exact ih b

/-- **C15 (ii)**: delivery to a plain subscriber does not depend on any rule operation: erase every
    add / replace / delete / delete-all from the history and it receives exactly the same. -/
theorem plain_subscribers_unaffected (ops : List Op) (v : Sub) (hv : isStream v.topic = false) :
    ∃ s s', run ops = .ok s ∧ run (ops.filter (fun o => !o.isRuleOp)) = .ok s' ∧
      ∀ f sender, received s v f sender = received s' v f sender := by
  obtain ⟨s, h⟩ := agg_never_panics ops
  obtain ⟨s', h'⟩ := agg_never_panics (ops.filter (fun o => !o.isRuleOp))
  refine ⟨s, s', h, h', ?_⟩
  intro f sender
  obtain ⟨t, ht, e⟩ := plain_delivery_exact ops v hv f sender
  obtain ⟨t', ht', e'⟩ := plain_delivery_exact (ops.filter (fun o => !o.isRuleOp)) v hv f sender
  rw [h] at ht; cases ht
  rw [h'] at ht'; cases ht'
  rw [e, e']
  unfold registered
  rw [registered_filter]

/-! ### "stops as soon as the change has been applied" -/

theorem latestRule_snoc (ops : List Op) (op : Op) (st : String) :
    latestRule (ops ++ [op]) st = ruleStep st (latestRule ops st) op := by
  simp [latestRule, List.foldl_append]

theorem registered_snoc (ops : List Op) (op : Op) (u : Sub) :
    registered (ops ++ [op]) u = regStep u (registered ops u) op := by
  simp [registered, List.foldl_append]

theorem isStream_ne_deleteAll (st : String) (h : isStream st = true) : st ≠ "deleteAll" := by
  intro e; subst e; revert h; decide

/-- a rule update that no longer lists `f` (e.g. audio muted): right after it nothing on `f` is
    forwarded to any subscriber of that stream -/
theorem removed_feed_stops (ops : List Op) (u : Sub) (hu : isStream u.topic = true)
    (feeds : List String) (f sender : String) (hf : f ∉ feeds) :
    ∃ s, run (ops ++ [.add u.topic feeds]) = .ok s ∧ fwdTable s u f sender = 0 := by
  obtain ⟨s, h, he⟩ := stream_follows_latest_rule (ops ++ [.add u.topic feeds]) u f sender
  refine ⟨s, h, ?_⟩
  rw [he, expected_def, latestRule_snoc]
  have := isStream_ne_deleteAll _ hu
  simp only [ruleStep, this, if_false, if_true]
  split
  · exact List.count_eq_zero.2 hf
  · rfl

/-- a deleted rule: right after it nothing is forwarded to the subscribers of that stream -/
theorem deleted_rule_stops (ops : List Op) (u : Sub) (f sender : String) :
    ∃ s, run (ops ++ [.delete u.topic]) = .ok s ∧ fwdTable s u f sender = 0 := by
  obtain ⟨s, h, he⟩ := stream_follows_latest_rule (ops ++ [.delete u.topic]) u f sender
  refine ⟨s, h, ?_⟩
  rw [he, expected_def, latestRule_snoc]
  by_cases hd : u.topic = "deleteAll" <;> simp [ruleStep, hd]

/-- delete-all: right after it nothing is forwarded to any stream subscriber -/
theorem delete_all_stops (ops : List Op) (u : Sub) (f sender : String) :
    ∃ s, run (ops ++ [.deleteAll]) = .ok s ∧ fwdTable s u f sender = 0 := by
  obtain ⟨s, h, he⟩ := stream_follows_latest_rule (ops ++ [.deleteAll]) u f sender
  refine ⟨s, h, ?_⟩
  rw [he, expected_def, latestRule_snoc]
  simp [ruleStep]

/-- a subscriber that has left gets nothing through the table -/
theorem unregistered_gets_nothing (ops : List Op) (u : Sub) (f sender : String) :
    ∃ s, run (ops ++ [.unregister u]) = .ok s ∧ fwdTable s u f sender = 0 := by
  obtain ⟨s, h, he⟩ := stream_follows_latest_rule (ops ++ [.unregister u]) u f sender
  refine ⟨s, h, ?_⟩
  rw [he, expected_def, registered_snoc]
  simp [regStep]

/-! ### stalled subscribers -/

/-- on the tables an op of the full model is `step true` (a panic of the one is a panic of the other);
    `stall`/`unstall` leave the tables alone and always succeed -/
theorem fstepS_core (f : Full) (o : Op) :
    (step true f.core o = .panic ∧ fstepS f (.core o) = .panic) ∨
    ∃ f', fstepS f (.core o) = .ok f' ∧ step true f.core o = .ok f'.core := by
  cases h : step true f.core o with
  | panic => exact Or.inl ⟨rfl, by simp only [fstepS, fstep, h]⟩
  | ok c => exact Or.inr ⟨(tableStep f c o).1, by simp only [fstepS, fstep, h], by rw [tableStep_core]⟩

theorem fstepS_stall (f : Full) (u : Sub) (k : Nat) : fstepS f (.stall u k) = .ok (stallOp f u k) := rfl

theorem fstepS_unstall (f : Full) (u : Sub) : fstepS f (.unstall u) = .ok (unstallOp f u) := rfl

theorem ffoldl_panic (ops : List FOp) :
    ops.foldl (fun o op => o.bind (fun f => fstepS f op)) (Outcome.panic : Outcome Full) = .panic := by
  induction ops with
  | nil => rfl
  | cons op ops ih => simpa [List.foldl, Outcome.bind] using ih

theorem frunFrom_cons (f : Full) (op : FOp) (ops : List FOp) :
    frunFrom f (op :: ops) = (fstepS f op).bind (fun f' => frunFrom f' ops) := by
  unfold frunFrom
  simp only [List.foldl_cons, Outcome.bind]
  cases fstepS f op with
  | panic => exact ffoldl_panic ops
  | ok f' => rfl

theorem frunFrom_snoc (f : Full) (ops : List FOp) (op : FOp) :
    frunFrom f (ops ++ [op]) = (frunFrom f ops).bind (fun f' => fstepS f' op) := by
  unfold frunFrom
  rw [List.foldl_append]; rfl

/-- the tables of the full model are those of the table ops alone -/
theorem frunFrom_core (ops : List FOp) : ∀ f : Full,
    (runFrom true f.core (coreOps ops) = .panic ∧ frunFrom f ops = .panic) ∨
    ∃ f', frunFrom f ops = .ok f' ∧ runFrom true f.core (coreOps ops) = .ok f'.core := by
  induction ops with
  | nil => intro f; exact Or.inr ⟨f, rfl, rfl⟩
  | cons op ops ih =>
    intro f
    rw [frunFrom_cons]
    cases op with
    | core o =>
      simp only [coreOps]
      rw [runFrom_cons]
      rcases fstepS_core f o with ⟨h1, h2⟩ | ⟨f', h1, h2⟩
      · rw [h1, h2]; exact Or.inl ⟨rfl, rfl⟩
      · rw [h1, h2]; exact ih f'
    | stall u k =>
      simp only [coreOps, fstepS_stall, Outcome.bind]
      have := ih (stallOp f u k)
      rwa [stallOp_core] at this
    | unstall u =>
      simp only [coreOps, fstepS_unstall, Outcome.bind]
      exact ih (unstallOp f u)

/-- **C15 (iii) with stalled peers**: for every history of table ops, stalls and drains the hub loop
    neither panics nor blocks (the model has no other outcome than a next state), and its tables are
    exactly those of the table ops alone — a peer that does not read cannot influence rules, registrations or
    sub-subscriptions. -/
theorem stalls_never_crash_or_block_hub (ops : List FOp) :
    ∃ F, frun ops = .ok F ∧ run (coreOps ops) = .ok F.core := by
  rcases frunFrom_core ops {} with ⟨h1, _⟩ | ⟨F, h1, h2⟩
  · obtain ⟨s, hs⟩ := agg_never_panics (coreOps ops)
    unfold run at hs
    rw [hs] at h1; cases h1
  · exact ⟨F, h1, h2⟩

/-! #### who is stalled -/

/-- one op changes "is stalled" exactly as the history says -/
theorem fstepS_stalled (f f' : Full) (op : FOp) (u : Sub) (h : fstepS f op = .ok f') :
    (roomOf f'.room u).isSome = stallStep u (roomOf f.room u).isSome op := by
  cases op with
  | core o =>
    simp only [fstepS, fstep] at h
    cases hs : step true f.core o with
    | panic => simp [hs] at h
    | ok c =>
      simp only [hs, Outcome.ok.injEq] at h
      subst h
      simpa [stallStep] using tableStep_room f c o u
  | stall v k =>
    rw [fstepS_stall, Outcome.ok.injEq] at h
    subst h
    unfold stallOp stallStep
    by_cases hv : v = u
    · subst hv
      cases hr : roomOf f.room v with
      | some r => simp [hr]
      | none => simp [roomOf]
    · cases hr : roomOf f.room v with
      | some r => simp [hv]
      | none => simp [roomOf, hv]
  | unstall v =>
    rw [fstepS_unstall, Outcome.ok.injEq] at h
    subst h
    unfold unstallOp stallStep
    by_cases hv : v = u
    · subst hv; rw [roomOf_filter_self]; simp
    · have : u ≠ v := fun e => hv e.symm
      rw [roomOf_filter_ne _ _ _ this]; simp [hv]

theorem frunFrom_stalled (ops : List FOp) (u : Sub) : ∀ f F : Full, frunFrom f ops = .ok F →
    (roomOf F.room u).isSome = ops.foldl (stallStep u) (roomOf f.room u).isSome := by
  induction ops with
  | nil => intro f F h; cases h; rfl
  | cons op ops ih =>
    intro f F h
    rw [frunFrom_cons] at h
    cases h1 : fstepS f op with
    | panic => simp [h1, Outcome.bind] at h
    | ok f1 =>
      simp only [h1, Outcome.bind] at h
      rw [List.foldl_cons, ← fstepS_stalled f f1 op u h1]
      exact ih f1 F h

/-- a subscriber is in the stalled set exactly when its last stall/drain op was a stall -/
theorem stalled_iff_history (ops : List FOp) (F : Full) (h : frun ops = .ok F) (u : Sub) :
    (roomOf F.room u).isSome = stalledNow ops u := by
  have := frunFrom_stalled ops u {} F h
  simpa [roomOf, stalledNow] using this

/-! #### undelivered messages -/

/-- where the undelivered messages after one op come from: they were undelivered before (and their
    subscriber did not just drain), or this op is a broadcast that owed them to a stalled subscriber -/
theorem fstepS_items (f f' : Full) (op : FOp) (h : fstepS f op = .ok f') (i : Item) (hi : i ∈ f'.items) :
    (op ≠ .unstall i.to ∧ ∃ j ∈ f.items, j.to = i.to ∧ j.msg = i.msg) ∨
    (∃ t sn, op = .core (.broadcast t sn) ∧ (roomOf f.room i.to).isSome = true ∧ i.msg = ⟨t, f.seq⟩ ∧
      0 < incoming f i.to t sn) := by
  cases op with
  | core o =>
    simp only [fstepS, fstep] at h
    cases hs : step true f.core o with
    | panic => simp [hs] at h
    | ok c =>
      simp only [hs, Outcome.ok.injEq] at h
      subst h
      cases o with
      | broadcast t sn =>
        have hc : c = f.core := by simp only [step, Outcome.ok.injEq] at hs; exact hs.symm
        subst hc
        simp only [tableStep, Op.bcOf, bcStep, retag, List.mem_append, List.mem_flatMap] at hi
        rcases hi with hi | ⟨p, hp, hi⟩
        · exact Or.inl ⟨by simp, i, hi, rfl, rfl⟩
        · obtain ⟨a, b, c⟩ := bcStalled_mem _ _ _ _ _ _ hi
          refine Or.inr ⟨t, sn, rfl, ?_, b, ?_⟩
          · rw [a]; exact roomOf_mem f.room p.1 p.2 hp
          · rw [a]; exact c
      | register u =>
        simp only [tableStep, Op.bcOf] at hi
        exact Or.inl ⟨by simp, retag_mem f.core f.items _ i hi⟩
      | unregister u =>
        simp only [tableStep, Op.bcOf] at hi
        exact Or.inl ⟨by simp, retag_mem f.core f.items _ i hi⟩
      | add st fl =>
        simp only [tableStep, Op.bcOf] at hi
        exact Or.inl ⟨by simp, retag_mem f.core f.items _ i hi⟩
      | delete st =>
        simp only [tableStep, Op.bcOf] at hi
        exact Or.inl ⟨by simp, retag_mem f.core f.items _ i hi⟩
  | stall v k =>
    rw [fstepS_stall, Outcome.ok.injEq] at h
    subst h
    have : (stallOp f v k).items = f.items := by unfold stallOp; cases roomOf f.room v <;> rfl
    rw [this] at hi
    exact Or.inl ⟨by simp, i, hi, rfl, rfl⟩
  | unstall v =>
    rw [fstepS_unstall, Outcome.ok.injEq] at h
    subst h
    simp only [unstallOp, List.mem_filter, decide_eq_true_eq] at hi
    refine Or.inl ⟨?_, i, hi.1, rfl, rfl⟩
    intro e
    cases e
    exact hi.2 rfl

/-- every undelivered message belongs to a subscriber that is stalled -/
def Parked (F : Full) : Prop := ∀ i ∈ F.items, (roomOf F.room i.to).isSome = true

theorem fstepS_parked (f f' : Full) (op : FOp) (h : fstepS f op = .ok f') (hp : Parked f) : Parked f' := by
  intro i hi
  rw [fstepS_stalled f f' op i.to h]
  rcases fstepS_items f f' op h i hi with ⟨hne, j, hj, hto, _⟩ | ⟨t, sn, rfl, hr, _⟩
  · have := hp j hj
    rw [hto] at this
    rw [this]
    cases op with
    | core o => rfl
    | stall v k => simp only [stallStep]; split <;> rfl
    | unstall v =>
      simp only [stallStep]
      split
      · rename_i e; subst e; exact absurd rfl hne
      · rfl
  · rw [hr]; rfl

/-- message `m` was owed to `u` by a broadcast of the history `pre`, made while `u` was stalled:
    `pre = p ++ broadcast t sn :: post`, `m` is that broadcast's message, and in the state after `p`
    the subscriber `u` is stalled and at least one copy is on its way to `u` -/
def Owed (pre : List FOp) (u : Sub) (m : Msg) : Prop :=
  ∃ p post t sn Fp, pre = p ++ FOp.core (.broadcast t sn) :: post ∧ frun p = .ok Fp ∧ m = ⟨t, Fp.seq⟩ ∧
    (roomOf Fp.room u).isSome = true ∧ 0 < incoming Fp u t sn

theorem Owed.snoc {pre : List FOp} {u : Sub} {m : Msg} (h : Owed pre u m) (op : FOp) :
    Owed (pre ++ [op]) u m := by
  obtain ⟨p, post, t, sn, Fp, e, h1, h2, h3, h4⟩ := h
  exact ⟨p, post ++ [op], t, sn, Fp, by rw [e]; simp, h1, h2, h3, h4⟩

theorem frunFrom_inv (ops : List FOp) : ∀ (pre : List FOp) (F0 F : Full), frun pre = .ok F0 →
    frunFrom F0 ops = .ok F → Parked F0 → (∀ i ∈ F0.items, Owed pre i.to i.msg) →
    Parked F ∧ ∀ i ∈ F.items, Owed (pre ++ ops) i.to i.msg := by
  induction ops with
  | nil =>
    intro pre F0 F _ h hp ho
    cases h
    exact ⟨hp, by simpa using ho⟩
  | cons op ops ih =>
    intro pre F0 F hpre h hp ho
    rw [frunFrom_cons] at h
    cases h1 : fstepS F0 op with
    | panic => simp [h1, Outcome.bind] at h
    | ok f1 =>
      simp only [h1, Outcome.bind] at h
      have hpre1 : frun (pre ++ [op]) = .ok f1 := by
        unfold frun at hpre ⊢
        rw [frunFrom_snoc, hpre]; exact h1
      have ho1 : ∀ i ∈ f1.items, Owed (pre ++ [op]) i.to i.msg := by
        intro i hi
        rcases fstepS_items F0 f1 op h1 i hi with ⟨_, j, hj, hto, hmsg⟩ | ⟨t, sn, rfl, hr, hm, hin⟩
        · have := (ho j hj).snoc op
          rwa [hto, hmsg] at this
        · exact ⟨pre, [], t, sn, F0, rfl, hpre, hm, hr, hin⟩
      have := ih (pre ++ [op]) f1 F hpre1 h (fstepS_parked F0 f1 op h1 hp) ho1
      simpa [List.append_assoc] using this

/-- **undelivered messages are in-flight messages**: in every reachable state, whatever sits in a
    subscriber's buffer or with a forwarder blocked on it (also a forwarder that was stopped since: the
    subscriber left, its rule was replaced or deleted) (a) belongs to a subscriber that is stalled now and
    (b) is the message of an earlier broadcast that owed it to that subscriber when it was made. Nothing
    else can reach a subscriber when it drains again. -/
theorem undelivered_were_owed (ops : List FOp) (F : Full) (h : frun ops = .ok F) :
    ∀ i ∈ F.items, stalledNow ops i.to = true ∧ Owed ops i.to i.msg := by
  have := frunFrom_inv ops [] {} F rfl h (by intro i hi; cases hi) (by intro i hi; cases hi)
  intro i hi
  refine ⟨?_, by simpa using this.2 i hi⟩
  rw [← stalled_iff_history ops F h]
  exact this.1 i hi

theorem drainRows_mem (items : List Item) (u : Sub) (r : Row) (h : r ∈ drainRows items u) :
    r.to = u ∧ ∃ i ∈ items, i.to = u ∧ i.msg = r.msg := by
  unfold drainRows at h
  obtain ⟨i, hi, rfl⟩ := List.mem_map.1 h
  simp only [List.mem_filter, decide_eq_true_eq] at hi
  exact ⟨rfl, i, hi.1, hi.2, rfl⟩

/-- what a subscriber gets when it drains again: only messages owed to it by earlier broadcasts -/
theorem drained_were_owed (ops : List FOp) (F : Full) (h : frun ops = .ok F) (u : Sub) :
    ∃ F' rows, fstep F (.unstall u) = .ok (F', rows) ∧ (roomOf F'.room u) = none ∧
      (∀ i ∈ F'.items, i.to ≠ u) ∧ ∀ r ∈ rows, r.to = u ∧ Owed ops u r.msg := by
  refine ⟨_, _, rfl, roomOf_filter_self _ _, ?_, ?_⟩
  · intro i hi
    simp only [unstallOp, List.mem_filter, decide_eq_true_eq] at hi
    exact hi.2
  · intro r hr
    obtain ⟨h1, i, hi, hto, hm⟩ := drainRows_mem _ _ _ hr
    have := (undelivered_were_owed ops F h i hi).2
    rw [hto, hm] at this
    exact ⟨h1, this⟩

theorem heldCount_zero (F : Full) (hp : Parked F) (u : Sub) (hu : roomOf F.room u = none)
    (k : Hold) (t : String) : heldCount F.items u k t = 0 := by
  unfold heldCount
  rw [List.countP_eq_zero]
  intro i hi
  simp only [decide_eq_true_eq, not_and]
  intro hto
  have := hp i hi
  rw [hto, hu] at this
  cases this

/-- **a subscriber that drains is served as if nobody stalled**: in every reachable state the number of
    copies of a broadcast that reach a subscriber which is not stalled is `received` of the tables alone
    (no forwarder of a draining subscriber is ever blocked), whoever else is stalled, however long. -/
theorem draining_subscriber_unaffected (ops : List FOp) (F : Full) (h : frun ops = .ok F) (u : Sub)
    (hu : stalledNow ops u = false) (t sn : String) :
    incoming F u t sn = received F.core u t sn := by
  have hp : Parked F := (frunFrom_inv ops [] {} F rfl h (by intro i hi; cases hi) (by intro i hi; cases hi)).1
  have hr : roomOf F.room u = none := by
    have := stalled_iff_history ops F h u
    rw [hu] at this
    cases hx : roomOf F.room u with
    | none => rfl
    | some r => rw [hx] at this; cases this
  unfold incoming freeTable freeOrphan received
  rw [heldCount_zero F hp u hr, heldCount_zero F hp u hr]
  rfl

/-- **C15 (i) next to / after stalls**: under the usage discipline a stream subscriber that drains (it never
    stalled, or drained again) receives of a message on feed `f` exactly the multiplicity of `f` in the
    latest rule of its stream if it is registered and not the sender, else nothing — in every history with
    any stalls and drains of any subscribers in between. -/
theorem draining_stream_subscriber_follows_rule (ops : List FOp) (hd : NoReRegister (coreOps ops))
    (u : Sub) (hu : isStream u.topic = true) (hs : stalledNow ops u = false) (f sender : String) :
    ∃ F, frun ops = .ok F ∧ incoming F u f sender = expected (coreOps ops) u f sender := by
  obtain ⟨F, h, hc⟩ := stalls_never_crash_or_block_hub ops
  obtain ⟨s, h2, he⟩ := stream_delivery_follows_rule (coreOps ops) hd u hu f sender
  rw [hc] at h2; cases h2
  exact ⟨F, h, by rw [draining_subscriber_unaffected ops F h u hs, he]⟩

/-- a broadcast delivers at once only to subscribers that drain, each its `incoming` copies of the new
    message; a stalled subscriber gets nothing until it drains -/
theorem broadcast_rows (F : Full) (t sn : String) :
    ∃ F' rows, fstep F (.core (.broadcast t sn)) = .ok (F', rows) ∧ F'.seq = F.seq + 1 ∧
      ∀ r ∈ rows, roomOf F.room r.to = none ∧ r.msg = ⟨t, F.seq⟩ ∧ r.n = incoming F r.to t sn := by
  refine ⟨_, _, rfl, rfl, ?_⟩
  intro r hr
  simp only [bcRows, retag, List.mem_map, List.mem_filter] at hr
  obtain ⟨u, ⟨_, hu⟩, rfl⟩ := hr
  refine ⟨?_, rfl, rfl⟩
  cases hx : roomOf F.room u with
  | none => rfl
  | some k => simp [hx] at hu

/-! non-vacuity: `u` stalls with one free slot; three broadcasts: the first is buffered, the next two stay
    with blocked forwarders; `u` leaves (both forwarders stopped while blocked: the hub goes on), `w` joins and
    is served; when `u` drains it gets the three in-flight messages and nothing is left -/
example :
    let u : Sub := ⟨"u", "stream/s"⟩
    let w : Sub := ⟨"w", "stream/s"⟩
    let ops : List FOp := [.core (.add "stream/s" ["v", "a"]), .core (.register u), .stall u 1,
      .core (.broadcast "v" "cam"), .core (.broadcast "a" "cam"), .core (.broadcast "v" "cam"),
      .core (.broadcast "v" "cam"), .core (.unregister u), .core (.register w)]
    (∃ F, frun ops = .ok F ∧
       F.items = [⟨u, .buffered, ⟨"v", 0⟩⟩, ⟨u, .zombie, ⟨"a", 1⟩⟩, ⟨u, .zombie, ⟨"v", 2⟩⟩] ∧
       F.room = [(u, 0)] ∧ incoming F w "v" "cam" = 1 ∧ incoming F u "v" "cam" = 0 ∧
       drainRows F.items u = [⟨u, ⟨"v", 0⟩, 1⟩, ⟨u, ⟨"a", 1⟩, 1⟩, ⟨u, ⟨"v", 2⟩, 1⟩]) ∧
    (∃ F, frun (ops ++ [.unstall u, .core (.register u)]) = .ok F ∧ F.items = [] ∧ F.room = [] ∧
       incoming F u "a" "cam" = 1) ∧
    stalledNow ops u = true ∧ NoReRegister (coreOps ops) := by
  refine ⟨⟨_, rfl, by decide⟩, ⟨_, rfl, by decide⟩, by decide, by decide⟩

/-! ### the code before e26c2fb: the panic outcome is real -/

theorem old_code_panics_delete_unregister :
    runOld [.add "stream/s" ["f1"], .register ⟨"u", "stream/s"⟩, .delete "stream/s",
            .unregister ⟨"u", "stream/s"⟩] = .panic := by decide

theorem old_code_panics_deleteAll_twice :
    runOld [.add "stream/s" ["f1"], .register ⟨"u", "stream/s"⟩, .deleteAll, .deleteAll] = .panic := by
  decide

theorem old_code_panics_delete_deleteAll :
    runOld [.add "stream/s" ["f1"], .register ⟨"u", "stream/s"⟩, .delete "stream/s", .deleteAll]
      = .panic := by decide

/-! ### non-vacuity: a history exercising replace, repeated feed, delete, delete-all, leave -/
example :
    let u : Sub := ⟨"u", "stream/s"⟩
    let p : Sub := ⟨"p", "audio"⟩
    let ops := [Op.add "stream/s" ["video", "audio", "audio"], .register u, .register p]
    NoReRegister ops ∧
    (∃ s, run ops = .ok s ∧ received s u "audio" "cam" = 2 ∧ received s u "video" "cam" = 1 ∧
        received s u "audio" "u" = 0 ∧ received s p "audio" "cam" = 1) ∧
    (∃ s, run (ops ++ [.add "stream/s" ["video"]]) = .ok s ∧          -- audio muted
        received s u "audio" "cam" = 0 ∧ received s u "video" "cam" = 1 ∧ received s p "audio" "cam" = 1) ∧
    (∃ s, run (ops ++ [.delete "stream/s", .unregister u, .deleteAll, .deleteAll]) = .ok s ∧
        received s u "video" "cam" = 0 ∧ received s p "audio" "cam" = 1) := by
  refine ⟨by decide, ⟨_, rfl, by decide⟩, ⟨_, rfl, by decide⟩, ⟨_, rfl, by decide⟩⟩

end Agg
