import Relay.Props.HubInv
import Relay.Extracted.Handlers

/-!
# C04 — read and write scopes are enforced on every connection
-/

namespace Hub

/-- **non-writer is silent**: an inbound message from a member without the write capability changes
    nothing in the hub — no queue, no ghost log, no membership — in any state. -/
theorem nonwriter_silent (h : Hub) (n : Nat) (d : List Nat) (mt : Nat) (c : Client)
    (hc : findMember h n = some c) (hw : c.canWrite = false) : step h (.inbound n d mt) = h := by
  simp [step, hc, hw]

/-- so over any history, every message the hub ever broadcast came from a member that could write
    at that moment (stated on the ghost log: it grows only through a writer's inbound event) -/
theorem sent_grows_only_by_writers (h : Hub) (e : Ev) :
    (step h e).sent = h.sent ∨
    ∃ n d mt c, e = .inbound n d mt ∧ findMember h n = some c ∧ c.canWrite = true ∧
      (step h e).sent = h.sent ++ [{ sender := c.name, topic := c.topic, data := d, mt := mt }] := by
  cases e with
  | register t b r w cap => left; rfl
  | unregister n => left; rfl
  | drain n k => left; rfl
  | inbound n d mt =>
    cases hf : findMember h n with
    | none => left; simp [step, hf]
    | some c =>
      by_cases hw : c.canWrite = true
      · right; exact ⟨n, d, mt, c, rfl, hf, hw, by simp [step, hf, hw, broadcast]⟩
      · left; simp [step, hf, hw]

/-- **non-reader is deaf**: for every history, nothing has ever been written to the socket of a
    member without the read capability. -/
theorem nonreader_deaf (evs : List Ev) :
    ∀ c ∈ (run evs).members, c.canRead = false → frames c = [] := by
  intro c hc hr
  have := ((run_inv evs).good c hc).nrd hr
  simp [frames, this]

/-- capabilities never change after registration: a later event cannot add a capability -/
theorem caps_fixed (h : Hub) (e : Ev) :
    ∀ c' ∈ (step h e).members, (∃ c ∈ h.members, c'.name = c.name ∧ c'.canRead = c.canRead ∧ c'.canWrite = c.canWrite)
      ∨ (∃ t b r w cap, e = .register t b r w cap ∧ c'.name = h.next ∧ c'.canRead = r ∧ c'.canWrite = w) := by
  intro c' hc'
  cases e with
  | register t b r w cap =>
    simp only [step, List.mem_append, List.mem_singleton] at hc'
    rcases hc' with hc' | hc'
    · left; exact ⟨c', hc', rfl, rfl, rfl⟩
    · right; subst hc'; exact ⟨t, b, r, w, cap, rfl, rfl, rfl, rfl⟩
  | unregister n =>
    simp only [step, List.mem_filter] at hc'
    left; exact ⟨c', hc'.1, rfl, rfl, rfl⟩
  | inbound n d mt =>
    left
    simp only [step] at hc'
    split at hc'
    · split at hc'
      · simp only [broadcast, List.mem_filterMap] at hc'
        obtain ⟨c, hc, ho⟩ := hc'
        refine ⟨c, hc, ?_⟩
        unfold offer at ho
        split at ho
        · split at ho
          · injection ho with ho; subst ho; exact ⟨rfl, rfl, rfl⟩
          · cases ho
        · injection ho with ho; subst ho; exact ⟨rfl, rfl, rfl⟩
      · exact ⟨c', hc', rfl, rfl, rfl⟩
    · exact ⟨c', hc', rfl, rfl, rfl⟩
  | drain n k =>
    left
    simp only [step, List.mem_map] at hc'
    obtain ⟨c, hc, rfl⟩ := hc'
    refine ⟨c, hc, ?_⟩
    split
    · unfold drainC; split
      · exact ⟨rfl, rfl, rfl⟩
      · split <;> exact ⟨rfl, rfl, rfl⟩
    · exact ⟨rfl, rfl, rfl⟩

/-! ### the scope function of `serveWs` -/

/-- **neither scope ⇒ not admitted**, and admission needs exactly one of the two strings -/
theorem no_scope_no_admission (scopes : List String) :
    admittedScopes scopes = true ↔ ("read" ∈ scopes ∨ "write" ∈ scopes) := by
  simp [admittedScopes, canReadOf, canWriteOf]

/-- **extra or unknown scopes never add capabilities**: adding, duplicating or permuting scopes other
    than the exact strings `read` / `write` changes neither capability. -/
theorem scopes_only_read_write (s1 s2 : List String)
    (h : ∀ x, (x = "read" ∨ x = "write") → (x ∈ s1 ↔ x ∈ s2)) :
    canReadOf s1 = canReadOf s2 ∧ canWriteOf s1 = canWriteOf s2 := by
  have hr := h "read" (Or.inl rfl)
  have hw := h "write" (Or.inr rfl)
  constructor
  · simp only [canReadOf, List.contains_eq_mem, decide_eq_decide]; exact hr
  · simp only [canWriteOf, List.contains_eq_mem, decide_eq_decide]; exact hw

/-! non-vacuity: a non-writer's message goes nowhere; a non-reader hears nothing although queued -/
example :
    let evs := [Ev.register "t" "" true false 4, .register "t" "" false true 4, .register "t" "" true true 4,
                .inbound 0 [7] 1, .inbound 2 [8] 1, .drain 1 0, .drain 0 0]
    ((run evs).members.map fun c => (c.name, c.delivered.map (·.data), frames c))
      = [(0, [[8]], [[8]]), (1, [[8]], []), (2, [], [])] := by decide

example : canReadOf ["Read", "read ", "relay:admin"] = false ∧ canWriteOf ["x", "write", "write"] = true := by decide

/-- **source obligation**: in the pumps of the current source the ONLY guard on the way from a websocket to the hub is the
    connection's write capability, and the ONLY guard on the way from the hub queue to the websocket is its read capability —
    no topic, name or scope-string exception (the model's `canWrite` / `canRead` tests are exactly these). -/
theorem pumps_guard_scopes :
    Extracted.readPumpGuards = [("send:c.hub.broadcast", "c.canWrite")] ∧
    Extracted.writePumpGuards = [("c.conn.WriteMessage(websocket.CloseMessage)", "!ok"), ("c.conn.NextWriter", "c.canRead"),
      ("w.Write", "c.canRead"), ("w.Write", "c.canRead"), ("c.conn.WriteMessage(websocket.PingMessage)", "")] := by
  decide

end Hub
