import Relay.Props.C01

/-!
# C09 — administrative and status endpoints require their own scopes
-/

namespace Access

/-- a valid token carrying the admin scope (exact string), with the claims the handlers insist on -/
def AdminValid (cfg : Config) (s : St) (b : Bearer) : Prop :=
  headerValid cfg s.now b = true ∧ b.scopes ≠ [] ∧ b.aud ≠ [] ∧ (∃ e, b.exp = some e ∧ e ≠ zeroTimeUnix) ∧
  "relay:admin" ∈ b.scopes

def StatsValid (cfg : Config) (s : St) (b : Bearer) : Prop :=
  headerValid cfg s.now b = true ∧ b.scopes ≠ [] ∧ b.aud ≠ [] ∧ (∃ e, b.exp = some e ∧ e ≠ zeroTimeUnix) ∧
  "relay:stats" ∈ b.scopes

theorem claimsCheck_iff (b : Bearer) :
    claimsCheck b = true ↔ b.scopes ≠ [] ∧ b.aud ≠ [] ∧ ∃ e, b.exp = some e ∧ e ≠ zeroTimeUnix := by
  unfold claimsCheck
  cases hE : b.exp <;> simp [List.isEmpty_iff]
  constructor
  · rintro ⟨⟨h1, h2⟩, h3⟩; exact ⟨h1, h2, h3⟩
  · rintro ⟨h1, h2, h3⟩; exact ⟨⟨h1, h2⟩, h3⟩

theorem isRelayAdmin_iff (cfg : Config) (s : St) (b : Bearer) (hv : headerValid cfg s.now b = true) :
    isRelayAdmin b = true ↔ AdminValid cfg s b := by
  unfold isRelayAdmin AdminValid
  simp only [Bool.and_eq_true, claimsCheck_iff, List.contains_eq_mem, decide_eq_true_eq, hv, true_and]
  constructor
  · rintro ⟨⟨h1, h2, h3⟩, h4⟩; exact ⟨h1, h2, h3, h4⟩
  · rintro ⟨h1, h2, h3, h4⟩; exact ⟨⟨h1, h2, h3⟩, h4⟩

theorem hasStatsScope_iff (cfg : Config) (s : St) (b : Bearer) (hv : headerValid cfg s.now b = true) :
    hasStatsScope b = true ↔ StatsValid cfg s b := by
  unfold hasStatsScope StatsValid
  simp only [Bool.and_eq_true, claimsCheck_iff, List.contains_eq_mem, decide_eq_true_eq, hv, true_and]
  constructor
  · rintro ⟨⟨h1, h2, h3⟩, h4⟩; exact ⟨h1, h2, h3, h4⟩
  · rintro ⟨h1, h2, h3, h4⟩; exact ⟨⟨h1, h2, h3⟩, h4⟩

/-! ### `denyReq` / `allowReq` by cases (the two share their guards) -/

theorem deny_absent (cfg : Config) (s : St) (bid exp : Param) : denyReq cfg s .absent bid exp = (s, .status 401) := by
  simp [denyReq, authenticate]
theorem deny_badtoken (cfg : Config) (s : St) (b : Bearer) (bid exp : Param) (hv : headerValid cfg s.now b = false) :
    denyReq cfg s (.token b) bid exp = (s, .status 500) := by simp [denyReq, authenticate, hv]
theorem deny_unbound (cfg : Config) (s : St) (b : Bearer) (bid exp : Param) (hv : headerValid cfg s.now b = true)
    (hb : bindBidExp bid exp = none) : denyReq cfg s (.token b) bid exp = (s, .status 422) := by
  simp [denyReq, authenticate, hv, hb]
theorem deny_noscope (cfg : Config) (s : St) (b : Bearer) (bid exp : Param) (k : String) (e : Int)
    (hv : headerValid cfg s.now b = true) (hb : bindBidExp bid exp = some (k, e)) (ha : isRelayAdmin b = false) :
    denyReq cfg s (.token b) bid exp = (s, .status 401) := by simp [denyReq, authenticate, hv, hb, ha]
theorem deny_past (cfg : Config) (s : St) (b : Bearer) (bid exp : Param) (k : String) (e : Int)
    (hv : headerValid cfg s.now b = true) (hb : bindBidExp bid exp = some (k, e)) (ha : isRelayAdmin b = true)
    (he : e < s.now) : denyReq cfg s (.token b) bid exp = (s, .status 400) := by
  simp [denyReq, authenticate, hv, hb, ha, he]
theorem deny_done (cfg : Config) (s : St) (b : Bearer) (bid exp : Param) (k : String) (e : Int)
    (hv : headerValid cfg s.now b = true) (hb : bindBidExp bid exp = some (k, e)) (ha : isRelayAdmin b = true)
    (he : ¬ e < s.now) :
    denyReq cfg s (.token b) bid exp =
      ({ s with reg := Deny.step s.reg (.deny k e), codes := (TtlCode.step s.codes (.deleteByBooking k)).1,
                hub := dropBooking s.hub k }, .status 204) := by
  simp [denyReq, authenticate, hv, hb, ha, he]

theorem allow_absent (cfg : Config) (s : St) (bid exp : Param) : allowReq cfg s .absent bid exp = (s, .status 401) := by
  simp [allowReq, authenticate]
theorem allow_badtoken (cfg : Config) (s : St) (b : Bearer) (bid exp : Param) (hv : headerValid cfg s.now b = false) :
    allowReq cfg s (.token b) bid exp = (s, .status 500) := by simp [allowReq, authenticate, hv]
theorem allow_unbound (cfg : Config) (s : St) (b : Bearer) (bid exp : Param) (hv : headerValid cfg s.now b = true)
    (hb : bindBidExp bid exp = none) : allowReq cfg s (.token b) bid exp = (s, .status 422) := by
  simp [allowReq, authenticate, hv, hb]
theorem allow_noscope (cfg : Config) (s : St) (b : Bearer) (bid exp : Param) (k : String) (e : Int)
    (hv : headerValid cfg s.now b = true) (hb : bindBidExp bid exp = some (k, e)) (ha : isRelayAdmin b = false) :
    allowReq cfg s (.token b) bid exp = (s, .status 401) := by simp [allowReq, authenticate, hv, hb, ha]
theorem allow_past (cfg : Config) (s : St) (b : Bearer) (bid exp : Param) (k : String) (e : Int)
    (hv : headerValid cfg s.now b = true) (hb : bindBidExp bid exp = some (k, e)) (ha : isRelayAdmin b = true)
    (he : e < s.now) : allowReq cfg s (.token b) bid exp = (s, .status 400) := by
  simp [allowReq, authenticate, hv, hb, ha, he]
theorem allow_done (cfg : Config) (s : St) (b : Bearer) (bid exp : Param) (k : String) (e : Int)
    (hv : headerValid cfg s.now b = true) (hb : bindBidExp bid exp = some (k, e)) (ha : isRelayAdmin b = true)
    (he : ¬ e < s.now) :
    allowReq cfg s (.token b) bid exp = ({ s with reg := Deny.step s.reg (.allow k e) }, .status 204) := by
  simp [allowReq, authenticate, hv, hb, ha, he]

/-- **deny succeeds iff** the token is valid, carries `relay:admin`, and the parameters are valid
    (bid present and non-empty, exp an int64 not in the past). -/
theorem deny_ok_iff (cfg : Config) (s : St) (cred : Cred) (bid exp : Param) :
    (denyReq cfg s cred bid exp).2 = .status 204 ↔
      ∃ b k e, cred = .token b ∧ AdminValid cfg s b ∧ bindBidExp bid exp = some (k, e) ∧ ¬ e < s.now := by
  cases cred with
  | absent =>
    rw [deny_absent]
    constructor
    · intro h; cases h
    · rintro ⟨_, _, _, h, _⟩; cases h
  | token b =>
    by_cases hv : headerValid cfg s.now b = true
    · cases hb : bindBidExp bid exp with
      | none =>
        rw [deny_unbound cfg s b bid exp hv hb]
        constructor
        · intro h; cases h
        · rintro ⟨_, _, _, _, _, h, _⟩; cases h
      | some ke =>
        obtain ⟨k, e⟩ := ke
        by_cases ha : isRelayAdmin b = true
        · by_cases he : e < s.now
          · rw [deny_past cfg s b bid exp k e hv hb ha he]
            constructor
            · intro h; cases h
            · rintro ⟨_, _, _, _, _, h, hn⟩; injection h with h; injection h with h1 h2; subst h2; exact absurd he hn
          · rw [deny_done cfg s b bid exp k e hv hb ha he]
            constructor
            · intro _; exact ⟨b, k, e, rfl, (isRelayAdmin_iff cfg s b hv).1 ha, rfl, he⟩
            · intro _; rfl
        · have ha' : isRelayAdmin b = false := by simpa using ha
          rw [deny_noscope cfg s b bid exp k e hv hb ha']
          constructor
          · intro h; cases h
          · rintro ⟨b', _, _, hb', hA, _⟩
            injection hb' with hb'; subst hb'
            exact absurd ((isRelayAdmin_iff cfg s b hv).2 hA) ha
    · have hv' : headerValid cfg s.now b = false := by simpa using hv
      rw [deny_badtoken cfg s b bid exp hv']
      constructor
      · intro h; cases h
      · rintro ⟨b', _, _, hb', hA, _⟩
        injection hb' with hb'; subst hb'
        exact absurd hA.1 hv

theorem allow_ok_iff (cfg : Config) (s : St) (cred : Cred) (bid exp : Param) :
    (allowReq cfg s cred bid exp).2 = .status 204 ↔
      ∃ b k e, cred = .token b ∧ AdminValid cfg s b ∧ bindBidExp bid exp = some (k, e) ∧ ¬ e < s.now := by
  cases cred with
  | absent =>
    rw [allow_absent]
    constructor
    · intro h; cases h
    · rintro ⟨_, _, _, h, _⟩; cases h
  | token b =>
    by_cases hv : headerValid cfg s.now b = true
    · cases hb : bindBidExp bid exp with
      | none =>
        rw [allow_unbound cfg s b bid exp hv hb]
        constructor
        · intro h; cases h
        · rintro ⟨_, _, _, _, _, h, _⟩; cases h
      | some ke =>
        obtain ⟨k, e⟩ := ke
        by_cases ha : isRelayAdmin b = true
        · by_cases he : e < s.now
          · rw [allow_past cfg s b bid exp k e hv hb ha he]
            constructor
            · intro h; cases h
            · rintro ⟨_, _, _, _, _, h, hn⟩; injection h with h; injection h with h1 h2; subst h2; exact absurd he hn
          · rw [allow_done cfg s b bid exp k e hv hb ha he]
            constructor
            · intro _; exact ⟨b, k, e, rfl, (isRelayAdmin_iff cfg s b hv).1 ha, rfl, he⟩
            · intro _; rfl
        · have ha' : isRelayAdmin b = false := by simpa using ha
          rw [allow_noscope cfg s b bid exp k e hv hb ha']
          constructor
          · intro h; cases h
          · rintro ⟨b', _, _, hb', hA, _⟩
            injection hb' with hb'; subst hb'
            exact absurd ((isRelayAdmin_iff cfg s b hv).2 hA) ha
    · have hv' : headerValid cfg s.now b = false := by simpa using hv
      rw [allow_badtoken cfg s b bid exp hv']
      constructor
      · intro h; cases h
      · rintro ⟨b', _, _, hb', hA, _⟩
        injection hb' with hb'; subst hb'
        exact absurd hA.1 hv

/-- **listing succeeds iff** valid token with `relay:admin`; it then returns exactly the list's keys. -/
theorem list_ok_iff (cfg : Config) (s : St) (cred : Cred) (denied : Bool) :
    (∃ ids, (listReq cfg s cred denied).2 = .list ids) ↔ ∃ b, cred = .token b ∧ AdminValid cfg s b := by
  cases cred with
  | absent => simp [listReq, authenticate]
  | token b =>
    by_cases hv : headerValid cfg s.now b = true
    · by_cases ha : isRelayAdmin b = true
      · simp only [listReq, authenticate, hv, if_true, ha, Bool.not_true, Bool.false_eq_true, if_false]
        exact ⟨fun _ => ⟨b, rfl, (isRelayAdmin_iff cfg s b hv).1 ha⟩, fun _ => ⟨_, rfl⟩⟩
      · have ha' : isRelayAdmin b = false := by simpa using ha
        simp only [listReq, authenticate, hv, if_true, ha', Bool.not_false]
        constructor
        · rintro ⟨_, h⟩; cases h
        · rintro ⟨b', hb', hA⟩
          injection hb' with hb'; subst hb'
          exact absurd ((isRelayAdmin_iff cfg s b hv).2 hA) ha
    · have hv' : headerValid cfg s.now b = false := by simpa using hv
      simp only [listReq, authenticate, hv', Bool.false_eq_true, if_false]
      constructor
      · rintro ⟨_, h⟩; cases h
      · rintro ⟨b', hb', hA⟩
        injection hb' with hb'; subst hb'
        exact absurd hA.1 hv

theorem list_exact (cfg : Config) (s : St) (cred : Cred) (denied : Bool) (ids : List String)
    (h : (listReq cfg s cred denied).2 = .list ids) :
    ids = (if denied then KV.keys s.reg.deny else KV.keys s.reg.allow) ∧ (listReq cfg s cred denied).1 = s := by
  cases cred with
  | absent => simp [listReq, authenticate] at h
  | token b =>
    by_cases hv : headerValid cfg s.now b = true
    · by_cases ha : isRelayAdmin b = true
      · simp only [listReq, authenticate, hv, if_true, ha, Bool.not_true, Bool.false_eq_true, if_false,
          Resp.list.injEq] at h ⊢
        exact ⟨h.symm, trivial⟩
      · have ha' : isRelayAdmin b = false := by simpa using ha
        simp [listReq, authenticate, hv, ha'] at h
    · have hv' : headerValid cfg s.now b = false := by simpa using hv
      simp [listReq, authenticate, hv'] at h

/-- **the status report is given iff** valid token with `relay:stats`. -/
theorem stats_ok_iff (cfg : Config) (s : St) (cred : Cred) :
    (statusReq cfg s cred).2 = .report ↔ ∃ b, cred = .token b ∧ StatsValid cfg s b := by
  cases cred with
  | absent => simp [statusReq, authenticate]
  | token b =>
    by_cases hv : headerValid cfg s.now b = true
    · by_cases ha : hasStatsScope b = true
      · simp only [statusReq, authenticate, hv, if_true, ha, Bool.not_true, Bool.false_eq_true, if_false]
        exact ⟨fun _ => ⟨b, rfl, (hasStatsScope_iff cfg s b hv).1 ha⟩, fun _ => trivial⟩
      · have ha' : hasStatsScope b = false := by simpa using ha
        simp only [statusReq, authenticate, hv, if_true, ha', Bool.not_false]
        constructor
        · intro h; cases h
        · rintro ⟨b', hb', hA⟩
          injection hb' with hb'; subst hb'
          exact absurd ((hasStatsScope_iff cfg s b hv).2 hA) ha
    · have hv' : headerValid cfg s.now b = false := by simpa using hv
      simp only [statusReq, authenticate, hv', Bool.false_eq_true, if_false]
      constructor
      · intro h; cases h
      · rintro ⟨b', hb', hA⟩
        injection hb' with hb'; subst hb'
        exact absurd hA.1 hv

/-- **a valid token without the scope gets 401** (given bindable parameters) on deny and allow, on
    the listings and on the status endpoint. -/
theorem valid_without_scope_is_401 (cfg : Config) (s : St) (b : Bearer) (bid exp : Param) (k : String) (e : Int)
    (hv : headerValid cfg s.now b = true) (hb : bindBidExp bid exp = some (k, e))
    (hna : "relay:admin" ∉ b.scopes) (hns : "relay:stats" ∉ b.scopes) :
    denyReq cfg s (.token b) bid exp = (s, .status 401) ∧ allowReq cfg s (.token b) bid exp = (s, .status 401) ∧
    listReq cfg s (.token b) true = (s, .status 401) ∧ listReq cfg s (.token b) false = (s, .status 401) ∧
    statusReq cfg s (.token b) = (s, .status 401) := by
  have ha : isRelayAdmin b = false := by simp [isRelayAdmin, hna]
  have hs : hasStatsScope b = false := by simp [hasStatsScope, hns]
  refine ⟨deny_noscope cfg s b bid exp k e hv hb ha, allow_noscope cfg s b bid exp k e hv hb ha, ?_, ?_, ?_⟩
  · simp [listReq, authenticate, hv, ha]
  · simp [listReq, authenticate, hv, ha]
  · simp [statusReq, authenticate, hv, hs]

/-- **a refused call changes nothing**: any answer other than 204 leaves the deny/allow lists, the
    codes and the hub (hence every connection) exactly as they were. -/
theorem refused_changes_nothing (cfg : Config) (s : St) (cred : Cred) (bid exp : Param) :
    ((denyReq cfg s cred bid exp).2 ≠ .status 204 → (denyReq cfg s cred bid exp).1 = s) ∧
    ((allowReq cfg s cred bid exp).2 ≠ .status 204 → (allowReq cfg s cred bid exp).1 = s) := by
  constructor
  · intro h
    cases cred with
    | absent => rw [deny_absent]
    | token b =>
      by_cases hv : headerValid cfg s.now b = true
      · cases hb : bindBidExp bid exp with
        | none => rw [deny_unbound cfg s b bid exp hv hb]
        | some ke =>
          obtain ⟨k, e⟩ := ke
          by_cases ha : isRelayAdmin b = true
          · by_cases he : e < s.now
            · rw [deny_past cfg s b bid exp k e hv hb ha he]
            · rw [deny_done cfg s b bid exp k e hv hb ha he] at h; exact absurd rfl h
          · rw [deny_noscope cfg s b bid exp k e hv hb (by simpa using ha)]
      · rw [deny_badtoken cfg s b bid exp (by simpa using hv)]
  · intro h
    cases cred with
    | absent => rw [allow_absent]
    | token b =>
      by_cases hv : headerValid cfg s.now b = true
      · cases hb : bindBidExp bid exp with
        | none => rw [allow_unbound cfg s b bid exp hv hb]
        | some ke =>
          obtain ⟨k, e⟩ := ke
          by_cases ha : isRelayAdmin b = true
          · by_cases he : e < s.now
            · rw [allow_past cfg s b bid exp k e hv hb ha he]
            · rw [allow_done cfg s b bid exp k e hv hb ha he] at h; exact absurd rfl h
          · rw [allow_noscope cfg s b bid exp k e hv hb (by simpa using ha)]
      · rw [allow_badtoken cfg s b bid exp (by simpa using hv)]

/-- read-only endpoints never change anything -/
theorem readonly_endpoints (cfg : Config) (s : St) (cred : Cred) (d : Bool) :
    (listReq cfg s cred d).1 = s ∧ (statusReq cfg s cred).1 = s := by
  constructor
  · unfold listReq; split
    · rfl
    · split <;> rfl
  · unfold statusReq; split
    · rfl
    · split <;> rfl

/-- **look-alike scopes are refused**: the admin (stats) right is exactly membership of the exact
    string; prefixes, suffixes, case variants, `read`/`write` do not count. -/
theorem lookalike_scopes_refused (b : Bearer) :
    (isRelayAdmin b = true → "relay:admin" ∈ b.scopes) ∧ (hasStatsScope b = true → "relay:stats" ∈ b.scopes) := by
  constructor
  · intro h; simp only [isRelayAdmin, Bool.and_eq_true, List.contains_eq_mem, decide_eq_true_eq] at h; exact h.2
  · intro h; simp only [hasStatsScope, Bool.and_eq_true, List.contains_eq_mem, decide_eq_true_eq] at h; exact h.2

example : isRelayAdmin { exp := some 5, aud := ["a"], scopes := ["relay:admin ", "Relay:Admin", "relay:admins", "admin", "read", "write", "relay:stats"] } = false := by decide
example : isRelayAdmin { exp := some 5, aud := ["a"], scopes := ["read", "relay:admin"] } = true := by decide

end Access
