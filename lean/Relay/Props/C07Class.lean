import Relay.Model.Conc

/-!
# C07 — every violation of `DenySticks` has one of the two recorded shapes

`violations_are_the_two_shapes`: for EVERY number of session / deny / allow / admission requests on the
booking and EVERY interleaving of their internal steps with the hub, the crossbar listener and connection
tear-down: if, at quiescence, an acknowledged deny (not followed by an explicit allow) is not in effect —
the booking is off the deny list, or a connection under it is still joined, or a session request started
after the acknowledgement got a code — then during that execution
* pattern A occurred (`flagA`): some session request's `Allow` ran while the booking was on the deny list
  (i.e. a deny listed the booking between that request's deny check and its `Allow`), or
* pattern B occurred (`flagB`): the hub recorded a connection's cancel channel while the booking was denied
  and no closure was pending any more (i.e. an admission passed the deny re-check and registered only after
  the crossbar had processed the deny).
These are exactly the signatures of known findings K1 and K2: the classification is proved, not sampled.
-/

namespace Conc

/-! ### list facts about `set` and `any` -/

theorem any_set_of_new {α : Type} (p : α → Bool) (l : List α) (i : Nat) (a : α) (hi : i < l.length) (hp : p a = true) :
    (l.set i a).any p = true := by
  apply List.any_eq_true.2
  exact ⟨a, by rw [List.mem_iff_getElem]; exact ⟨i, by simpa using hi, by simp⟩, hp⟩

theorem any_set_keep {α : Type} (p : α → Bool) (l : List α) (i : Nat) (a old : α) (hold : l[i]? = some old)
    (hpo : p old = false) (h : l.any p = true) : (l.set i a).any p = true := by
  obtain ⟨x, hx, hpx⟩ := List.any_eq_true.1 h
  obtain ⟨j, hj, hjx⟩ := List.mem_iff_getElem.1 hx
  have hne : i ≠ j := by
    intro e; subst e
    rw [List.getElem?_eq_getElem hj, hjx] at hold
    injection hold with hold; subst hold
    rw [hpo] at hpx; cases hpx
  apply List.any_eq_true.2
  refine ⟨x, ?_, hpx⟩
  rw [List.mem_iff_getElem]
  exact ⟨j, by simpa using hj, by rw [List.getElem_set_ne hne]; exact hjx⟩

theorem mem_set_cases {α : Type} (l : List α) (i : Nat) (a x : α) (h : x ∈ l.set i a) : x = a ∨ x ∈ l := by
  obtain ⟨j, hj, hjx⟩ := List.mem_iff_getElem.1 h
  by_cases e : i = j
  · subst e; left; rw [List.getElem_set_self] at hjx; exact hjx.symm
  · right; rw [List.getElem_set_ne e] at hjx
    exact hjx ▸ List.getElem_mem _

/-! ### the invariant -/

/-- a deny thread that has listed the booking and not been overtaken by an explicit allow -/
def liveDeny (s : Sh) (t : Thread) : Bool :=
  (t.pc == .dListed || t.pc == .dPurged || t.pc == .dNotified) && t.epochAtList == s.allowEpoch

structure CInv (c : Cfg) : Prop where
  j1 : c.sh.acked = true → c.sh.flagA = false → c.sh.denied = true
  j2 : ∀ k ∈ c.sh.members, k ∈ c.sh.recorded ∨ k ∈ c.sh.cancelled
  j3 : c.sh.denied = true → c.sh.flagB = false → pendingClose c = false → c.sh.recorded = []
  j4 : (∀ t ∈ c.threads, t.startedAfterAck = true → c.sh.flagA = true) ∧ (0 < c.sh.sessionsOkAfterAck → c.sh.flagA = true)
  j5 : ∀ t ∈ c.threads, liveDeny c.sh t = true → c.sh.flagA = false → c.sh.denied = true
  j6 : ∀ t ∈ c.threads, t.epochAtList ≤ c.sh.allowEpoch

theorem cinv_init : CInv {} :=
  ⟨by simp, by simp, by simp, ⟨by simp, by simp⟩, by simp, by simp⟩

theorem pending_of_queue (c : Cfg) (h : 0 < c.sh.queue) : pendingClose c = true := by
  simp [pendingClose, h]

/-- a client step of thread `i` (currently `t`) that leaves the shared flags needed by J3 alone -/
theorem client_step (c : Cfg) (i : Nat) (t : Thread) (ht : c.threads[i]? = some t) (hI : CInv c) :
    CInv (step c (.client i)) := by
  obtain ⟨j1, j2, j3, j4, j5, j6⟩ := hI
  have hlt : i < c.threads.length := by
    rcases Nat.lt_or_ge i c.threads.length with h | h
    · exact h
    · rw [List.getElem?_eq_none h] at ht; cases ht
  have htm : t ∈ c.threads := by
    rw [List.getElem?_eq_getElem hlt] at ht; injection ht with ht; exact ht ▸ List.getElem_mem _
  simp only [step, ht]
  -- generic closing tactic pieces
  have keepP : ∀ t' : Thread, t.denyInFlight = false → pendingClose c = true →
      pendingClose { sh := c.sh, threads := c.threads.set i t' } = true := by
    intro t' hf hp
    simp only [pendingClose, Bool.or_eq_true, decide_eq_true_eq] at hp ⊢
    rcases hp with hp | hp
    · exact Or.inl hp
    · exact Or.inr (any_set_keep _ _ _ _ t ht hf hp)
  cases hpc : t.pc with
  | sStart =>
    simp only [stepClient, hpc]
    by_cases hd : c.sh.denied = true
    · simp only [hd, if_true]
      refine ⟨j1, j2, ?_, ⟨?_, j4.2⟩, ?_, ?_⟩
      · intro h1 h2 h3
        apply j3 h1 h2
        cases hp : pendingClose c with
        | false => rfl
        | true => rw [keepP _ (by simp [Thread.denyInFlight, hpc]) hp] at h3; cases h3
      · intro x hx hs
        rcases mem_set_cases _ _ _ _ hx with h | h
        · subst h; exact j4.1 t htm hs
        · exact j4.1 x h hs
      · intro x hx hl
        rcases mem_set_cases _ _ _ _ hx with h | h
        · subst h; simp [liveDeny] at hl
        · exact j5 x h hl
      · intro x hx
        rcases mem_set_cases _ _ _ _ hx with h | h
        · subst h; exact j6 t htm
        · exact j6 x h
    · have hd' : c.sh.denied = false := by simpa using hd
      simp only [hd', Bool.false_eq_true, if_false]
      refine ⟨j1, j2, ?_, ⟨?_, j4.2⟩, ?_, ?_⟩
      · intro h1; rw [hd'] at h1; cases h1
      · intro x hx hs
        rcases mem_set_cases _ _ _ _ hx with h | h
        · subst h
          simp only at hs
          -- acked while not denied: pattern A must already have occurred
          cases hfa : c.sh.flagA with
          | true => rfl
          | false => have := j1 hs hfa; rw [hd'] at this; cases this
        · exact j4.1 x h hs
      · intro x hx hl
        rcases mem_set_cases _ _ _ _ hx with h | h
        · subst h; simp [liveDeny] at hl
        · exact j5 x h hl
      · intro x hx
        rcases mem_set_cases _ _ _ _ hx with h | h
        · subst h; exact j6 t htm
        · exact j6 x h
  | sChecked =>
    simp only [stepClient, hpc]
    refine ⟨?_, j2, ?_, ⟨?_, ?_⟩, ?_, ?_⟩
    · intro ha hf
      simp only [Bool.or_eq_false_iff] at hf
      have := j1 ha hf.1
      rw [hf.2] at this; cases this
    · intro h1; cases h1
    · intro x hx hs
      have : c.sh.flagA = true := by
        rcases mem_set_cases _ _ _ _ hx with h | h
        · subst h; exact j4.1 t htm hs
        · exact j4.1 x h hs
      simp [this]
    · intro h; simp [j4.2 h]
    · intro x hx hl hf
      simp only [Bool.or_eq_false_iff] at hf
      rcases mem_set_cases _ _ _ _ hx with h | h
      · subst h; simp [liveDeny] at hl
      · have := j5 x h hl hf.1
        rw [hf.2] at this; cases this
    · intro x hx
      rcases mem_set_cases _ _ _ _ hx with h | h
      · subst h; exact j6 t htm
      · exact j6 x h
  | sAllowed =>
    simp only [stepClient, hpc]
    refine ⟨j1, j2, ?_, ⟨?_, j4.2⟩, ?_, ?_⟩
    · intro h1 h2 h3
      apply j3 h1 h2
      cases hp : pendingClose c with
      | false => rfl
      | true =>
        have := keepP { t with pc := .sMinted } (by simp [Thread.denyInFlight, hpc]) hp
        simp only [pendingClose] at this h3 ⊢
        rw [this] at h3; cases h3
    · intro x hx hs
      rcases mem_set_cases _ _ _ _ hx with h | h
      · subst h; exact j4.1 t htm hs
      · exact j4.1 x h hs
    · intro x hx hl
      rcases mem_set_cases _ _ _ _ hx with h | h
      · subst h; simp [liveDeny] at hl
      · exact j5 x h hl
    · intro x hx
      rcases mem_set_cases _ _ _ _ hx with h | h
      · subst h; exact j6 t htm
      · exact j6 x h
  | sMinted =>
    simp only [stepClient, hpc]
    refine ⟨j1, j2, ?_, ⟨?_, ?_⟩, ?_, ?_⟩
    · intro h1 h2 h3
      apply j3 h1 h2
      cases hp : pendingClose c with
      | false => rfl
      | true =>
        have := keepP { t with pc := .done 200 } (by simp [Thread.denyInFlight, hpc]) hp
        simp only [pendingClose] at this h3 ⊢
        rw [this] at h3; cases h3
    · intro x hx hs
      rcases mem_set_cases _ _ _ _ hx with h | h
      · subst h; exact j4.1 t htm hs
      · exact j4.1 x h hs
    · intro hpos
      by_cases hs : t.startedAfterAck = true
      · exact j4.1 t htm hs
      · have hs' : t.startedAfterAck = false := by simpa using hs
        simp only [hs', Bool.false_eq_true, if_false, Nat.add_zero] at hpos
        exact j4.2 hpos
    · intro x hx hl
      rcases mem_set_cases _ _ _ _ hx with h | h
      · subst h; simp [liveDeny] at hl
      · exact j5 x h hl
    · intro x hx
      rcases mem_set_cases _ _ _ _ hx with h | h
      · subst h; exact j6 t htm
      · exact j6 x h
  | dStart =>
    simp only [stepClient, hpc]
    refine ⟨fun _ _ => rfl, j2, ?_, ⟨?_, j4.2⟩, fun _ _ _ _ => rfl, ?_⟩
    · intro _ _ h3
      have : pendingClose { sh := { c.sh with denied := true }, threads := c.threads.set i { t with pc := .dListed, epochAtList := c.sh.allowEpoch } } = true := by
        simp only [pendingClose, Bool.or_eq_true]
        exact Or.inr (any_set_of_new _ _ _ _ hlt (by simp [Thread.denyInFlight]))
      rw [this] at h3; cases h3
    · intro x hx hs
      rcases mem_set_cases _ _ _ _ hx with h | h
      · subst h; exact j4.1 t htm hs
      · exact j4.1 x h hs
    · intro x hx
      rcases mem_set_cases _ _ _ _ hx with h | h
      · subst h; exact Nat.le_refl _
      · exact j6 x h
  | dListed =>
    simp only [stepClient, hpc]
    have hlive : liveDeny c.sh { t with pc := .dPurged } = liveDeny c.sh t := by simp [liveDeny, hpc]
    refine ⟨j1, j2, ?_, ⟨?_, j4.2⟩, ?_, ?_⟩
    · intro _ _ h3
      have : pendingClose { sh := { c.sh with codes := [] }, threads := c.threads.set i { t with pc := .dPurged } } = true := by
        simp only [pendingClose, Bool.or_eq_true]
        exact Or.inr (any_set_of_new _ _ _ _ hlt (by simp [Thread.denyInFlight]))
      rw [this] at h3; cases h3
    · intro x hx hs
      rcases mem_set_cases _ _ _ _ hx with h | h
      · subst h; exact j4.1 t htm hs
      · exact j4.1 x h hs
    · intro x hx hl
      rcases mem_set_cases _ _ _ _ hx with h | h
      · subst h; exact j5 t htm (by simpa [liveDeny, hpc] using hl)
      · exact j5 x h hl
    · intro x hx
      rcases mem_set_cases _ _ _ _ hx with h | h
      · subst h; exact j6 t htm
      · exact j6 x h
  | dPurged =>
    simp only [stepClient, hpc]
    refine ⟨j1, j2, ?_, ⟨?_, j4.2⟩, ?_, ?_⟩
    · intro _ _ h3
      have : pendingClose { sh := { c.sh with queue := c.sh.queue + 1 }, threads := c.threads.set i { t with pc := .dNotified } } = true :=
        pending_of_queue _ (by simp)
      rw [this] at h3; cases h3
    · intro x hx hs
      rcases mem_set_cases _ _ _ _ hx with h | h
      · subst h; exact j4.1 t htm hs
      · exact j4.1 x h hs
    · intro x hx hl
      rcases mem_set_cases _ _ _ _ hx with h | h
      · subst h; exact j5 t htm (by simpa [liveDeny, hpc] using hl)
      · exact j5 x h hl
    · intro x hx
      rcases mem_set_cases _ _ _ _ hx with h | h
      · subst h; exact j6 t htm
      · exact j6 x h
  | dNotified =>
    simp only [stepClient, hpc]
    refine ⟨?_, j2, ?_, ⟨?_, j4.2⟩, ?_, ?_⟩
    · intro ha hf
      simp only [Bool.or_eq_true, decide_eq_true_eq] at ha
      rcases ha with ha | ha
      · exact j1 ha hf
      · exact j5 t htm (by simp [liveDeny, hpc, ha]) hf
    · intro h1 h2 h3
      apply j3 h1 h2
      cases hp : pendingClose c with
      | false => rfl
      | true =>
        have := keepP { t with pc := .done 204 } (by simp [Thread.denyInFlight, hpc]) hp
        simp only [pendingClose] at this h3 ⊢
        rw [this] at h3; cases h3
    · intro x hx hs
      rcases mem_set_cases _ _ _ _ hx with h | h
      · subst h; exact j4.1 t htm hs
      · exact j4.1 x h hs
    · intro x hx hl
      rcases mem_set_cases _ _ _ _ hx with h | h
      · subst h; simp [liveDeny] at hl
      · exact j5 x h hl
    · intro x hx
      rcases mem_set_cases _ _ _ _ hx with h | h
      · subst h; exact j6 t htm
      · exact j6 x h
  | aStart =>
    simp only [stepClient, hpc]
    refine ⟨(fun h => by cases h), j2, (fun h => by cases h), ⟨?_, j4.2⟩, ?_, ?_⟩
    · intro x hx hs
      rcases mem_set_cases _ _ _ _ hx with h | h
      · subst h; exact j4.1 t htm hs
      · exact j4.1 x h hs
    · intro x hx hl
      exfalso
      rcases mem_set_cases _ _ _ _ hx with h | h
      · subst h; simp [liveDeny] at hl
      · have := j6 x h
        simp only [liveDeny, Bool.and_eq_true, beq_iff_eq] at hl
        omega
    · intro x hx
      rcases mem_set_cases _ _ _ _ hx with h | h
      · subst h; have := j6 t htm; simp only; omega
      · have := j6 x h; simp only; omega
  | aDone =>
    simp only [stepClient, hpc]
    refine ⟨j1, j2, ?_, ⟨?_, j4.2⟩, ?_, ?_⟩
    · intro h1 h2 h3
      apply j3 h1 h2
      cases hp : pendingClose c with
      | false => rfl
      | true =>
        have := keepP { t with pc := .done 204 } (by simp [Thread.denyInFlight, hpc]) hp
        simp only [pendingClose] at this h3 ⊢
        rw [this] at h3; cases h3
    · intro x hx hs
      rcases mem_set_cases _ _ _ _ hx with h | h
      · subst h; exact j4.1 t htm hs
      · exact j4.1 x h hs
    · intro x hx hl
      rcases mem_set_cases _ _ _ _ hx with h | h
      · subst h; simp [liveDeny] at hl
      · exact j5 x h hl
    · intro x hx
      rcases mem_set_cases _ _ _ _ hx with h | h
      · subst h; exact j6 t htm
      · exact j6 x h
  | wStart code =>
    simp only [stepClient, hpc]
    refine ⟨j1, j2, ?_, ⟨?_, j4.2⟩, ?_, ?_⟩
    · intro h1 h2 h3
      apply j3 h1 h2
      cases hp : pendingClose c with
      | false => rfl
      | true =>
        have := keepP { t with pc := .wPre code } (by simp [Thread.denyInFlight, hpc]) hp
        simp only [pendingClose] at this h3 ⊢
        rw [this] at h3; cases h3
    · intro x hx hs
      rcases mem_set_cases _ _ _ _ hx with h | h
      · subst h; exact j4.1 t htm hs
      · exact j4.1 x h hs
    · intro x hx hl
      rcases mem_set_cases _ _ _ _ hx with h | h
      · subst h; simp [liveDeny] at hl
      · exact j5 x h hl
    · intro x hx
      rcases mem_set_cases _ _ _ _ hx with h | h
      · subst h; exact j6 t htm
      · exact j6 x h
  | wPre code =>
    simp only [stepClient, hpc]
    -- whatever branch is taken, only `codes` and this thread's pc change
    have fin : ∀ (cs : List Nat) (pc' : Pc), (pc' = .done 0 ∨ pc' = .wChecked i) →
        CInv { sh := { c.sh with codes := cs }, threads := c.threads.set i { t with pc := pc' } } := by
      intro cs pc' hpc'
      have hnf : ({ t with pc := pc' } : Thread).denyInFlight = false := by
        rcases hpc' with h | h <;> simp [Thread.denyInFlight, h]
      refine ⟨j1, j2, ?_, ⟨?_, j4.2⟩, ?_, ?_⟩
      · intro h1 h2 h3
        apply j3 h1 h2
        cases hp : pendingClose c with
        | false => rfl
        | true =>
          have := keepP { t with pc := pc' } (by simp [Thread.denyInFlight, hpc]) hp
          simp only [pendingClose] at this h3 ⊢
          rw [this] at h3; cases h3
      · intro x hx hs
        rcases mem_set_cases _ _ _ _ hx with h | h
        · subst h; exact j4.1 t htm hs
        · exact j4.1 x h hs
      · intro x hx hl
        rcases mem_set_cases _ _ _ _ hx with h | h
        · subst h; rcases hpc' with h' | h' <;> simp [liveDeny, h'] at hl
        · exact j5 x h hl
      · intro x hx
        rcases mem_set_cases _ _ _ _ hx with h | h
        · subst h; exact j6 t htm
        · exact j6 x h
    split
    · split
      · exact fin _ _ (Or.inl rfl)
      · exact fin _ _ (Or.inr rfl)
    · have := fin c.sh.codes (.done 0) (Or.inl rfl)
      simpa using this
  | wChecked k =>
    simp only [stepClient, hpc]
    refine ⟨j1, j2, ?_, ⟨?_, j4.2⟩, ?_, ?_⟩
    · intro h1 h2 h3
      apply j3 h1 h2
      cases hp : pendingClose c with
      | false => rfl
      | true =>
        have := keepP { t with pc := .wRegistered k } (by simp [Thread.denyInFlight, hpc]) hp
        simp only [pendingClose] at this h3 ⊢
        rw [this] at h3; cases h3
    · intro x hx hs
      rcases mem_set_cases _ _ _ _ hx with h | h
      · subst h; exact j4.1 t htm hs
      · exact j4.1 x h hs
    · intro x hx hl
      rcases mem_set_cases _ _ _ _ hx with h | h
      · subst h; simp [liveDeny] at hl
      · exact j5 x h hl
    · intro x hx
      rcases mem_set_cases _ _ _ _ hx with h | h
      · subst h; exact j6 t htm
      · exact j6 x h
  | wRegistered k =>
    simp only [stepClient, hpc]
    refine ⟨j1, j2, ?_, ⟨?_, j4.2⟩, ?_, ?_⟩
    · intro h1 h2 h3
      apply j3 h1 h2
      cases hp : pendingClose c with
      | false => rfl
      | true =>
        have := keepP { t with pc := .done 1 } (by simp [Thread.denyInFlight, hpc]) hp
        simp only [pendingClose] at this h3 ⊢
        rw [this] at h3; cases h3
    · intro x hx hs
      rcases mem_set_cases _ _ _ _ hx with h | h
      · subst h; exact j4.1 t htm hs
      · exact j4.1 x h hs
    · intro x hx hl
      rcases mem_set_cases _ _ _ _ hx with h | h
      · subst h; simp [liveDeny] at hl
      · exact j5 x h hl
    · intro x hx
      rcases mem_set_cases _ _ _ _ hx with h | h
      · subst h; exact j6 t htm
      · exact j6 x h
  | done r =>
    simp only [stepClient, hpc]
    refine ⟨j1, j2, ?_, ⟨?_, j4.2⟩, ?_, ?_⟩
    · intro h1 h2 h3
      apply j3 h1 h2
      cases hp : pendingClose c with
      | false => rfl
      | true =>
        have := keepP { t with pc := .done r } (by simp [Thread.denyInFlight, hpc]) hp
        simp only [pendingClose] at this h3 ⊢
        rw [this] at h3; cases h3
    · intro x hx hs
      rcases mem_set_cases _ _ _ _ hx with h | h
      · subst h; exact j4.1 t htm hs
      · exact j4.1 x h hs
    · intro x hx hl
      rcases mem_set_cases _ _ _ _ hx with h | h
      · subst h; simp [liveDeny] at hl
      · exact j5 x h hl
    · intro x hx
      rcases mem_set_cases _ _ _ _ hx with h | h
      · subst h; exact j6 t htm
      · exact j6 x h

theorem step_cinv (c : Cfg) (a : Act) (hI : CInv c) : CInv (step c a) := by
  cases a with
  | client i =>
    cases ht : c.threads[i]? with
    | none => simp only [step, ht]; exact hI
    | some t => exact client_step c i t ht hI
  | spawn pc =>
    simp only [step]
    split
    · rename_i hs
      obtain ⟨j1, j2, j3, j4, j5, j6⟩ := hI
      have hnf : ({ pc := pc } : Thread).denyInFlight = false := by
        cases pc <;> simp [Pc.isStart] at hs <;> simp [Thread.denyInFlight]
      refine ⟨j1, j2, ?_, ⟨?_, j4.2⟩, ?_, ?_⟩
      · intro h1 h2 h3
        apply j3 h1 h2
        simp only [pendingClose, List.any_append, List.any_cons, List.any_nil, Bool.or_false, hnf] at h3 ⊢
        exact h3
      · intro x hx hs'
        rcases List.mem_append.1 hx with h | h
        · exact j4.1 x h hs'
        · simp only [List.mem_singleton] at h; subst h; cases hs'
      · intro x hx hl
        rcases List.mem_append.1 hx with h | h
        · exact j5 x h hl
        · simp only [List.mem_singleton] at h; subst h
          cases pc <;> simp [Pc.isStart] at hs <;> simp [liveDeny] at hl
      · intro x hx
        rcases List.mem_append.1 hx with h | h
        · exact j6 x h
        · simp only [List.mem_singleton] at h; subst h; exact Nat.zero_le _
    · exact hI
  | sys x =>
    obtain ⟨j1, j2, j3, j4, j5, j6⟩ := hI
    simp only [step]
    cases x with
    | hubRecord =>
      simp only [stepSys]
      cases htr : c.sh.toRecord with
      | nil => exact ⟨j1, j2, j3, j4, j5, j6⟩
      | cons k rest =>
        simp only
        refine ⟨j1, ?_, ?_, j4, j5, j6⟩
        · intro m hm
          simp only [List.mem_append, List.mem_singleton] at hm ⊢
          rcases hm with hm | hm
          · rcases j2 m hm with h | h
            · exact Or.inl (Or.inl h)
            · exact Or.inr h
          · exact Or.inl (Or.inr hm)
        · intro h1 h2 h3
          exfalso
          simp only [Bool.or_eq_false_iff, Bool.and_eq_false_iff, Bool.not_eq_false'] at h2
          have hpend : pendingClose c = true := by
            rcases h2.2 with h | h
            · rw [h1] at h; cases h
            · exact h
          have h3' : pendingClose c = false := h3
          rw [hpend] at h3'; cases h3'
    | crossbar =>
      simp only [stepSys]
      split
      · refine ⟨j1, ?_, fun _ _ _ => rfl, j4, j5, j6⟩
        intro m hm
        right
        rcases j2 m hm with h | h
        · exact List.mem_append_right _ h
        · exact List.mem_append_left _ h
      · exact ⟨j1, j2, j3, j4, j5, j6⟩
    | teardown k =>
      simp only [stepSys]
      split
      · refine ⟨j1, ?_, j3, j4, j5, j6⟩
        intro m hm
        exact j2 m (List.mem_of_mem_erase hm)
      · exact ⟨j1, j2, j3, j4, j5, j6⟩

theorem run_cinv (acts : List Act) : CInv (run acts) := by
  unfold run
  suffices ∀ c, CInv c → CInv (acts.foldl step c) from this {} cinv_init
  induction acts with
  | nil => intro c h; exact h
  | cons a as ih => intro c h; exact ih _ (step_cinv c a h)

/-- at quiescence nothing is pending: the queue is empty and every deny request has been answered -/
theorem quiescent_not_pending (c : Cfg) (hq : quiescent c = true) : pendingClose c = false := by
  simp only [quiescent, Bool.and_eq_true, beq_iff_eq, List.all_eq_true] at hq
  obtain ⟨⟨⟨hdone, hqueue⟩, _⟩, _⟩ := hq
  simp only [pendingClose, Bool.or_eq_false_iff, decide_eq_false_iff_not]
  refine ⟨by omega, ?_⟩
  apply List.any_eq_false.2
  intro t ht
  have := hdone t ht
  cases hpc : t.pc <;> simp [Thread.isDone, hpc] at this <;> simp [Thread.denyInFlight, hpc]

/-- **classification**: every execution — any number of requests, any interleaving — that ends in a
    quiescent configuration violating `denySticks` contains pattern A or pattern B. -/
theorem violations_are_the_two_shapes (acts : List Act) (hq : quiescent (run acts) = true) :
    denySticks (run acts) = true ∨ (run acts).sh.flagA = true ∨ (run acts).sh.flagB = true := by
  have hI := run_cinv acts
  cases hA : (run acts).sh.flagA with
  | true => exact Or.inr (Or.inl rfl)
  | false =>
    cases hB : (run acts).sh.flagB with
    | true => exact Or.inr (Or.inr rfl)
    | false =>
      left
      simp only [denySticks, Bool.or_eq_true, Bool.not_eq_true', Bool.and_eq_true, beq_iff_eq, List.isEmpty_iff]
      cases hack : (run acts).sh.acked with
      | false => exact Or.inl rfl
      | true =>
        right
        have hden := hI.j1 hack hA
        have hrec := hI.j3 hden hB (quiescent_not_pending _ hq)
        refine ⟨⟨hden, ?_⟩, ?_⟩
        · -- every member is recorded (none are) or cancelled (then tear-down would be enabled): no members
          simp only [quiescent, Bool.and_eq_true, List.all_eq_true, Bool.not_eq_true'] at hq
          obtain ⟨_, hnoc⟩ := hq
          cases hm : (run acts).sh.members with
          | nil => rfl
          | cons k ks =>
            exfalso
            have hk : k ∈ (run acts).sh.members := by rw [hm]; exact List.mem_cons_self
            rcases hI.j2 k hk with h | h
            · rw [hrec] at h; cases h
            · have := hnoc k hk
              simp only [List.contains_eq_mem, decide_eq_false_iff_not] at this
              exact this h
        · cases hs : (run acts).sh.sessionsOkAfterAck with
          | zero => rfl
          | succ n =>
            have := hI.j4.2 (by rw [hs]; exact Nat.succ_pos n)
            rw [hA] at this; cases this

/-- the positive half: an execution in which neither race occurred keeps every acknowledged deny in effect -/
theorem deny_sticks_without_races (acts : List Act) (hq : quiescent (run acts) = true)
    (hA : (run acts).sh.flagA = false) (hB : (run acts).sh.flagB = false) : denySticks (run acts) = true := by
  rcases violations_are_the_two_shapes acts hq with h | h | h
  · exact h
  · rw [hA] at h; cases h
  · rw [hB] at h; cases h

/-- not vacuous: race-free executions with an acknowledged deny exist (and end with the deny in effect) -/
example : let c := run [.spawn .sStart, .client 0, .client 0, .client 0, .client 0, .spawn (.wStart 0), .client 1, .client 1, .client 1,
                        .sys .hubRecord, .client 1, .spawn .dStart, .client 2, .client 2, .client 2, .sys .crossbar, .client 2, .sys (.teardown 1)]
    quiescent c = true ∧ c.sh.acked = true ∧ c.sh.flagA = false ∧ c.sh.flagB = false ∧ c.sh.members = [] := by decide

/-- the flags do not fire on benign overlap: a session that runs entirely while a deny is in flight but before it lists -/
example : let c := run [.spawn .dStart, .spawn .sStart, .client 1, .client 1, .client 1, .client 1, .client 0, .client 0, .client 0, .sys .crossbar, .client 0]
    quiescent c = true ∧ c.sh.acked = true ∧ c.sh.flagA = false ∧ c.sh.flagB = false ∧ denySticks c = true := by decide

/-- and the two shapes really are what happens in the two recorded races -/
theorem k1_is_pattern_A : (run [.spawn .sStart, .client 0, .spawn .dStart, .client 1, .client 1, .client 1, .sys .crossbar, .client 1,
                                .client 0, .client 0, .client 0]).sh.flagA = true := by decide

theorem k2_is_pattern_B : (run [.spawn .sStart, .client 0, .client 0, .client 0, .client 0, .spawn (.wStart 0), .client 1, .client 1,
                                .spawn .dStart, .client 2, .client 2, .client 2, .sys .crossbar, .client 2,
                                .client 1, .sys .hubRecord, .client 1]).sh.flagB = true := by decide

end Conc
