import Relay.Model.Hub

/-!
# The hub invariant (shared by C03, C04, C05, C08, C14)

For every event history and every current member `c`:
* every message ever queued for `c` was sent on exactly `c`'s topic by somebody else
* if `c` may read: the frames written to its socket, in order, followed by what is still queued, are
  exactly the messages delivered to it — each frame a contiguous block of whole messages
* if `c` may not read: nothing was ever written to its socket
* the messages delivered to `c` are exactly those the hub broadcast since `c` joined that `c` wants,
  in hub order (nothing skipped, nothing duplicated, nothing reordered)
-/

namespace Hub

structure Good (sent : List Msg) (next : Nat) (c : Client) : Prop where
  own : ∀ m ∈ c.delivered, m.topic = c.topic ∧ m.sender ≠ c.name
  rd : c.canRead = true → c.blocks.flatten ++ c.queue = c.delivered
  nrd : c.canRead = false → c.blocks = []
  suffix : ∃ pre, pre ++ c.queue = c.delivered
  joined : c.joinedAt ≤ sent.length
  exact : c.delivered = (sent.drop c.joinedAt).filter (wantsTN c.topic c.name)
  fresh : c.name < next

theorem wants_iff (c : Client) (m : Msg) : wants c m = true ↔ c.topic = m.topic ∧ c.name ≠ m.sender := by
  simp [wants, wantsTN]

theorem good_enqueue (sent : List Msg) (next : Nat) (c : Client) (m : Msg) (hw : wants c m = true)
    (hg : Good sent next c) :
    Good (sent ++ [m]) next { c with queue := c.queue ++ [m], delivered := c.delivered ++ [m] } := by
  obtain ⟨h1, h2, h3, ⟨pre, h4⟩, h5, h6, h7⟩ := hg
  have hw' := (wants_iff c m).1 hw
  refine ⟨?_, ?_, h3, ⟨pre, ?_⟩, ?_, ?_, h7⟩
  · intro x hx
    simp only [List.mem_append, List.mem_singleton] at hx
    rcases hx with hx | hx
    · exact h1 x hx
    · subst hx; exact ⟨hw'.1.symm, fun e => hw'.2 e.symm⟩
  · intro hr
    simp only [← List.append_assoc, h2 hr]
  · simp only [← List.append_assoc, h4]
  · simp only [List.length_append, List.length_singleton]; omega
  · simp only
    rw [List.drop_append_of_le_length h5, List.filter_append, ← h6]
    have hw2 : wantsTN c.topic c.name m = true := hw
    simp [List.filter, hw2]

theorem good_skip (sent : List Msg) (next : Nat) (c : Client) (m : Msg) (hw : wants c m = false)
    (hg : Good sent next c) : Good (sent ++ [m]) next c := by
  obtain ⟨h1, h2, h3, h4, h5, h6, h7⟩ := hg
  refine ⟨h1, h2, h3, h4, ?_, ?_, h7⟩
  · simp only [List.length_append, List.length_singleton]; omega
  · rw [List.drop_append_of_le_length h5, List.filter_append, ← h6]
    have hw2 : wantsTN c.topic c.name m = false := hw
    simp [List.filter, hw2]

theorem good_drain (sent : List Msg) (next : Nat) (c : Client) (k : Nat) (hg : Good sent next c) :
    Good sent next (drainC c k) := by
  obtain ⟨h1, h2, h3, ⟨pre, h4⟩, h5, h6, h7⟩ := hg
  unfold drainC
  cases hq : c.queue with
  | nil => exact ⟨h1, h2, h3, ⟨pre, h4⟩, h5, h6, h7⟩
  | cons a as =>
    simp only
    by_cases hr : c.canRead = true
    · simp only [hr, if_true]
      refine ⟨h1, ?_, fun h => by simp [hr] at h, ⟨pre ++ (a :: as).take (k + 1), ?_⟩, h5, ?_, h7⟩
      · intro _
        have := h2 hr
        rw [hq] at this
        simp only [List.flatten_append, List.flatten_cons, List.flatten_nil, List.append_nil,
          List.append_assoc, List.take_append_drop]
        exact this
      · rw [hq] at h4
        simp only [List.append_assoc, List.take_append_drop]
        exact h4
      · exact h6
    · have hf : c.canRead = false := by simpa using hr
      simp only [hf, Bool.false_eq_true, if_false]
      refine ⟨h1, fun h => by simp [hf] at h, fun _ => h3 hf, ⟨pre ++ [a], ?_⟩, h5, ?_, h7⟩
      · rw [hq] at h4
        simpa using h4
      · exact h6

/-- all members are good and carry pairwise distinct names -/
structure HubInv (h : Hub) : Prop where
  good : ∀ c ∈ h.members, Good h.sent h.next c
  nodup : h.members.Pairwise (fun a b => a.name ≠ b.name)

theorem inv_init : HubInv {} := ⟨by simp, List.Pairwise.nil⟩

theorem good_mono_next (sent : List Msg) (n n' : Nat) (c : Client) (h : n ≤ n') (hg : Good sent n c) :
    Good sent n' c :=
  ⟨hg.own, hg.rd, hg.nrd, hg.suffix, hg.joined, hg.exact, Nat.lt_of_lt_of_le hg.fresh h⟩

theorem offer_name (c c' : Client) (m : Msg) (h : offer c m = some c') : c'.name = c.name := by
  unfold offer at h
  split at h
  · split at h
    · injection h with h; subst h; rfl
    · cases h
  · injection h with h; subst h; rfl

theorem broadcast_inv (h : Hub) (m : Msg) (hI : HubInv h) : HubInv (broadcast h m) := by
  obtain ⟨hg, hn⟩ := hI
  constructor
  · intro c hc
    simp only [broadcast, List.mem_filterMap] at hc
    obtain ⟨c1, hc1, hopt⟩ := hc
    simp only [broadcast]
    by_cases hw : wants c1 m = true
    · simp only [offer, hw, if_true] at hopt
      by_cases hroom : hasRoom c1 = true
      · simp only [hroom, if_true, Option.some.injEq] at hopt
        subst hopt; exact good_enqueue _ _ c1 m hw (hg c1 hc1)
      · simp [hroom] at hopt
    · have hw' : wants c1 m = false := by simpa using hw
      simp only [offer, hw', Bool.false_eq_true, if_false, Option.some.injEq] at hopt
      subst hopt; exact good_skip _ _ c1 m hw' (hg c1 hc1)
  · simp only [broadcast]
    -- filterMap preserves pairwise-distinct names because offer keeps names
    have : ∀ (l : List Client), l.Pairwise (fun a b => a.name ≠ b.name) →
        (l.filterMap (fun c => offer c m)).Pairwise (fun a b => a.name ≠ b.name) := by
      intro l hl
      induction l with
      | nil => simp
      | cons a l ih =>
        have hl' := List.pairwise_cons.1 hl
        simp only [List.filterMap_cons]
        cases ho : offer a m with
        | none => exact ih hl'.2
        | some a' =>
          simp only
          refine List.pairwise_cons.2 ⟨?_, ih hl'.2⟩
          intro b hb
          simp only [List.mem_filterMap] at hb
          obtain ⟨b0, hb0, hob⟩ := hb
          rw [offer_name a a' m ho, offer_name b0 b m hob]
          exact hl'.1 b0 hb0
    exact this _ hn

theorem step_inv (h : Hub) (e : Ev) (hI : HubInv h) : HubInv (step h e) := by
  cases e with
  | register t b r w cap =>
    obtain ⟨hg, hn⟩ := hI
    constructor
    · intro c hc
      simp only [step, List.mem_append, List.mem_singleton] at hc
      simp only [step]
      rcases hc with hc | hc
      · exact good_mono_next _ _ _ c (Nat.le_succ _) (hg c hc)
      · subst hc
        refine ⟨by simp, by simp, by simp, ⟨[], by simp⟩, by simp, by simp, by simp⟩
    · simp only [step]
      rw [List.pairwise_append]
      refine ⟨hn, by simp, ?_⟩
      intro a ha b hb
      simp only [List.mem_singleton] at hb
      subst hb
      have := (hg a ha).fresh
      simp only; omega
  | unregister n =>
    obtain ⟨hg, hn⟩ := hI
    constructor
    · intro c hc; simp only [step, List.mem_filter] at hc; exact hg c hc.1
    · exact List.Pairwise.filter _ hn
  | inbound n d mt =>
    simp only [step]
    split
    · split
      · exact broadcast_inv h _ hI
      · exact hI
    · exact hI
  | drain n k =>
    obtain ⟨hg, hn⟩ := hI
    have hname : ∀ c : Client, (if (c.name == n) = true then drainC c k else c).name = c.name := by
      intro c
      split
      · unfold drainC; split
        · rfl
        · split <;> rfl
      · rfl
    constructor
    · intro c hc
      simp only [step, List.mem_map] at hc
      obtain ⟨c1, hc1, rfl⟩ := hc
      simp only [step]
      split
      · exact good_drain _ _ c1 k (hg c1 hc1)
      · exact hg c1 hc1
    · simp only [step]
      rw [List.pairwise_map]
      exact hn.imp (fun {a b} hab => by rw [hname a, hname b]; exact hab)

/-- the invariant holds after every event history -/
theorem run_inv (evs : List Ev) : HubInv (run evs) := by
  unfold run
  suffices ∀ h : Hub, HubInv h → HubInv (evs.foldl step h) from this {} inv_init
  induction evs with
  | nil => intro h hI; exact hI
  | cons e es ih => intro h hI; exact ih _ (step_inv h e hI)

theorem bytes_flatten (bs : List (List Msg)) : bytes bs.flatten = (bs.map bytes).flatten := by
  induction bs with
  | nil => rfl
  | cons b bs ih => simp [bytes, List.map_append] at ih ⊢; rw [← ih]

theorem bytes_append (a b : List Msg) : bytes (a ++ b) = bytes a ++ bytes b := by
  simp [bytes]

end Hub
