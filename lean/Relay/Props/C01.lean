import Relay.Model.Access

/-!
# C01 — only holders of a currently valid token for the topic get onto the relay

`FullyValid` spells out the property's words: HMAC-signed with the relay's secret, inside its
not-before/expiry window, addressed to this relay's audience, complete in its required claims,
naming exactly the requested topic (and carrying a booking id that is permitted and not denied).
-/

namespace Access

/-- the bearer is, at `s.now`, fully valid for a session request on topic `id` -/
def FullyValid (cfg : Config) (s : St) (b : Bearer) (id : String) : Prop :=
  b.wellFormed = true ∧ b.alg.isHMAC = true ∧ b.sigOK = true ∧
  (∃ e, b.exp = some e ∧ s.now < e ∧ e ≠ zeroTimeUnix) ∧ (∃ n, b.nbf = some n ∧ n ≤ s.now) ∧ (∃ i, b.iat = some i ∧ i ≤ s.now) ∧
  verifyAud b.aud cfg.host = true ∧
  b.topic ≠ "" ∧ b.scopes ≠ [] ∧ b.pfx ≠ "" ∧
  b.topic = id ∧ (b.bid ≠ "" ∨ cfg.allowNoBid = true) ∧ Deny.isDenied s.reg b.bid = false

theorem aud_nonempty_of_verify (aud : List String) (host : String) (h : verifyAud aud host = true) :
    aud ≠ [] := by
  cases aud <;> simp_all [verifyAud]

theorem valid_iff (cfg : Config) (s : St) (b : Bearer) (id : String) :
    (headerValid cfg s.now b = true ∧ sessionRefusal cfg s b id = none) ↔ FullyValid cfg s b id := by
  unfold FullyValid sessionRefusal headerValid timeValid hasRequiredClaims
  have haud : verifyAud b.aud cfg.host = true → b.aud.isEmpty = false := by
    intro h; cases hh : b.aud <;> simp_all [verifyAud]
  cases hE : b.exp <;> cases hN : b.nbf <;> cases hI : b.iat <;> simp
  case some.some.some e n i =>
    constructor
    · rintro ⟨⟨⟨⟨⟨hwf, halg⟩, ⟨⟨h1, h2⟩, h3⟩⟩, hsig⟩, ha⟩, hrest⟩
      split at hrest
      · cases hrest
      · rename_i g1
        split at hrest
        · rename_i g2
          split at hrest
          · cases hrest
          · rename_i g3
            split at hrest
            · cases hrest
            · rename_i g4
              simp only [not_or] at g1
              refine ⟨hwf, halg, hsig, ⟨h1, g1.2⟩, h3, h2, ha, g1.1.1.1.1, g1.1.1.1.2, g1.1.1.2, g2, ?_, by simpa using g4⟩
              by_cases hb : b.bid = ""
              · right
                cases hcfg : cfg.allowNoBid
                · exact absurd ⟨hb, hcfg⟩ g3
                · rfl
              · exact Or.inl hb
        · cases hrest
    · rintro ⟨hwf, halg, hsig, ⟨h1, hz⟩, h3, h2, ha, ht, hs, hp, hid, hbid, hden⟩
      refine ⟨⟨⟨⟨⟨hwf, halg⟩, ⟨⟨h1, h2⟩, h3⟩⟩, hsig⟩, ha⟩, ?_⟩
      have hane : b.aud ≠ [] := aud_nonempty_of_verify _ _ ha
      have g1 : ¬ ((((b.topic = "" ∨ b.scopes = []) ∨ b.pfx = "") ∨ b.aud = []) ∨ e = zeroTimeUnix) := by
        simp [ht, hs, hp, hane, hz]
      have g3 : ¬ (b.bid = "" ∧ cfg.allowNoBid = false) := by
        rintro ⟨hb, hc⟩
        rcases hbid with h | h
        · exact h hb
        · rw [h] at hc; cases hc
      rw [if_neg g1, if_pos hid, if_neg g3]
      simp [hden]

/-! ### `session` by cases -/

theorem session_unroutable (cfg : Config) (s : St) (cred : Cred) (id : String) (h : routable id = false) :
    session cfg s cred id = (s, .status 404) := by simp [session, h]

theorem session_absent (cfg : Config) (s : St) (id : String) (h : routable id = true) :
    session cfg s .absent id = (s, .status 401) := by simp [session, h, authenticate]

theorem session_badtoken (cfg : Config) (s : St) (b : Bearer) (id : String) (h : routable id = true)
    (hv : headerValid cfg s.now b = false) : session cfg s (.token b) id = (s, .status 500) := by
  simp [session, h, authenticate, hv]

theorem session_refusal (cfg : Config) (s : St) (b : Bearer) (id : String) (c : Nat) (h : routable id = true)
    (hv : headerValid cfg s.now b = true) (hs : sessionRefusal cfg s b id = some c) :
    session cfg s (.token b) id = (s, .status c) := by
  simp [session, h, authenticate, hv, hs]

theorem session_grant (cfg : Config) (s : St) (b : Bearer) (id : String) (h : routable id = true)
    (hv : headerValid cfg s.now b = true) (hs : sessionRefusal cfg s b id = none) :
    session cfg s (.token b) id = sessionGrant cfg s b id := by
  simp [session, h, authenticate, hv, hs]

theorem sessionRefusal_codes (cfg : Config) (s : St) (b : Bearer) (id : String) (c : Nat)
    (h : sessionRefusal cfg s b id = some c) : c = 401 ∨ c = 400 := by
  unfold sessionRefusal at h
  split at h
  · injection h with h; exact Or.inl h.symm
  · split at h
    · injection h with h; exact Or.inl h.symm
    · split at h
      · injection h with h; exact Or.inl h.symm
      · split at h
        · injection h with h; exact Or.inr h.symm
        · split at h
          · injection h with h; exact Or.inr h.symm
          · cases h

/-- **decision table, both directions**: the session endpoint answers 200 with a code exactly for a
    fully valid bearer on a routable id. -/
theorem session_ok_iff (cfg : Config) (s : St) (cred : Cred) (id : String) (hid : routable id = true) :
    (∃ c uri, (session cfg s cred id).2 = .sessionOK c uri) ↔
      (∃ b, cred = .token b ∧ FullyValid cfg s b id) := by
  cases cred with
  | absent =>
    rw [session_absent cfg s id hid]
    constructor
    · rintro ⟨_, _, h⟩; cases h
    · rintro ⟨_, h, _⟩; cases h
  | token b =>
    by_cases hv : headerValid cfg s.now b = true
    · cases hr : sessionRefusal cfg s b id with
      | some c =>
        rw [session_refusal cfg s b id c hid hv hr]
        constructor
        · rintro ⟨_, _, h⟩; cases h
        · rintro ⟨b', hb', hfv⟩
          injection hb' with hb'; subst hb'
          have := (valid_iff cfg s b id).2 hfv
          rw [hr] at this; cases this.2
      | none =>
        rw [session_grant cfg s b id hid hv hr]
        constructor
        · intro _; exact ⟨b, rfl, (valid_iff cfg s b id).1 ⟨hv, hr⟩⟩
        · intro _; exact ⟨_, _, rfl⟩
    · have hv' : headerValid cfg s.now b = false := by simpa using hv
      rw [session_badtoken cfg s b id hid hv']
      constructor
      · rintro ⟨_, _, h⟩; cases h
      · rintro ⟨b', hb', hfv⟩
        injection hb' with hb'; subst hb'
        exact absurd ((valid_iff cfg s b id).2 hfv).1 hv

/-- **any other token is answered with an error status and no code, and changes nothing**: whenever
    the session endpoint does not grant, the answer is an error status (never 200, never a code) and the
    relay's state (codes, register, hub) is exactly as before. -/
theorem session_refused_no_effect (cfg : Config) (s : St) (cred : Cred) (id : String)
    (h : ∀ c uri, (session cfg s cred id).2 ≠ .sessionOK c uri) :
    (session cfg s cred id).1 = s ∧
      ∃ code, (session cfg s cred id).2 = .status code ∧ (code = 404 ∨ code = 401 ∨ code = 500 ∨ code = 400) := by
  by_cases hr : routable id = true
  · cases cred with
    | absent => rw [session_absent cfg s id hr]; exact ⟨rfl, 401, rfl, by simp⟩
    | token b =>
      by_cases hv : headerValid cfg s.now b = true
      · cases hs : sessionRefusal cfg s b id with
        | some c =>
          rw [session_refusal cfg s b id c hr hv hs]
          refine ⟨rfl, c, rfl, ?_⟩
          rcases sessionRefusal_codes cfg s b id c hs with h1 | h1 <;> simp [h1]
        | none =>
          exfalso
          rw [session_grant cfg s b id hr hv hs] at h
          exact h _ _ rfl
      · have hv' : headerValid cfg s.now b = false := by simpa using hv
        rw [session_badtoken cfg s b id hr hv']; exact ⟨rfl, 500, rfl, by simp⟩
  · have hr' : routable id = false := by simpa using hr
    rw [session_unroutable cfg s cred id hr']; exact ⟨rfl, 404, rfl, by simp⟩

/-- the code handed out is fresh and bound to a connection token carrying exactly the bearer's topic
    (= the requested id), scopes, booking id and expiry, addressed to the relay's audience; it expires
    `ttl` seconds after issue. -/
theorem session_code_bound (cfg : Config) (s : St) (b : Bearer) (id : String) (c : Nat) (uri : String)
    (h : (session cfg s (.token b) id).2 = .sessionOK c uri) :
    let s' := (session cfg s (.token b) id).1
    s'.ptoks = s.ptoks ++ [{ topic := id, pfx := b.pfx, bid := b.bid, scopes := b.scopes, iat := b.iat.getD 0,
                             nbf := b.nbf.getD 0, exp := b.exp.getD 0, aud := [cfg.target] }] ∧
    c = s.codes.next ∧
    TtlCode.find s'.codes.entries c = some { code := c, bid := b.bid, tok := s.ptoks.length, exp := s.codes.now + s.codes.ttl } ∧
    s'.hub = s.hub := by
  by_cases hr : routable id = true
  · by_cases hv : headerValid cfg s.now b = true
    · cases hs : sessionRefusal cfg s b id with
      | some c' => rw [session_refusal cfg s b id c' hr hv hs] at h; cases h
      | none =>
        rw [session_grant cfg s b id hr hv hs] at h ⊢
        simp only [sessionGrant, Resp.sessionOK.injEq] at h
        obtain ⟨hc, _⟩ := h
        subst hc
        refine ⟨rfl, rfl, ?_, rfl⟩
        simp [sessionGrant, TtlCode.step, TtlCode.find]
    · have hv' : headerValid cfg s.now b = false := by simpa using hv
      rw [session_badtoken cfg s b id hr hv'] at h; cases h
  · have hr' : routable id = false := by simpa using hr
    rw [session_unroutable cfg s _ id hr'] at h; cases h

/-! ### websocket admission -/

/-- the connection token a live code stands for admits a websocket on `path` at `s.now` -/
def Admissible (cfg : Config) (s : St) (path : List Char) (pt : PTok) : Prop :=
  (Path.route path).1 = "session".toList ∧
  pt.topic ≠ "" ∧ pt.scopes ≠ [] ∧ pt.pfx ≠ "" ∧ pt.aud ≠ [] ∧ pt.exp ≠ zeroTimeUnix ∧
  pt.nbf ≤ s.now ∧ s.now ≤ pt.exp ∧ cfg.target ∈ pt.aud ∧
  String.ofList (Path.route path).2 = pt.topic ∧
  Deny.isDenied s.reg pt.bid = false ∧
  ("read" ∈ pt.scopes ∨ "write" ∈ pt.scopes)

theorem admitCheck_iff (cfg : Config) (s : St) (path : List Char) (pt : PTok)
    (hp : (Path.route path).1 = "session".toList) :
    admitCheck cfg s (String.ofList (Path.route path).2) pt = true ↔ Admissible cfg s path pt := by
  unfold admitCheck Admissible Hub.canReadOf Hub.canWriteOf
  simp only [Bool.and_eq_true, Bool.not_eq_true', Bool.or_eq_false_iff, beq_eq_false_iff_ne, ne_eq,
    List.isEmpty_eq_false_iff, decide_eq_true_eq, List.contains_eq_mem, beq_iff_eq, Bool.or_eq_true]
  constructor
  · rintro ⟨⟨⟨⟨⟨⟨⟨⟨⟨⟨h1, h2⟩, h3⟩, h4⟩, h5⟩, h6⟩, h7⟩, h8⟩, h9⟩, h10⟩, h11⟩
    exact ⟨hp, h1, h2, h3, h4, h5, h6, by omega, h7, h8, h10, h11⟩
  · rintro ⟨_, h1, h2, h3, h4, h5, h6, h7, h8, h9, h10, h11⟩
    exact ⟨⟨⟨⟨⟨⟨⟨⟨⟨⟨h1, h2⟩, h3⟩, h4⟩, h5⟩, h6⟩, h8⟩, h9⟩, by omega⟩, h10⟩, h11⟩

theorem exchange_token_iff (st : TtlCode.Store) (c : Nat) (b : String) (t : Nat) :
    (TtlCode.step st (.exchange c)).2 = .token b t ↔
      ∃ e, TtlCode.find st.entries c = some e ∧ ¬ st.now > e.exp ∧ e.bid = b ∧ e.tok = t := by
  cases hf : TtlCode.find st.entries c with
  | none => simp [TtlCode.step, hf]
  | some e =>
    by_cases hexp : TtlCode.expired st.now e = true
    · have hgt : st.now > e.exp := by simpa [TtlCode.expired] using hexp
      simp only [TtlCode.step, hf, hexp, if_true]
      constructor
      · intro h; cases h
      · rintro ⟨e', he', hn, _⟩
        injection he' with he'; subst he'; exact absurd hgt hn
    · have hle : ¬ st.now > e.exp := by simpa [TtlCode.expired] using hexp
      simp only [TtlCode.step, hf, hexp, Bool.false_eq_true, if_false]
      constructor
      · intro h; injection h with h1 h2; exact ⟨e, rfl, hle, h1, h2⟩
      · rintro ⟨e', he', _, hb, ht⟩
        injection he' with he'; subst he'; rw [hb, ht]

/-! ### `wsAdmit` by cases -/

theorem ws_notfound (cfg : Config) (s : St) (path : List Char) (code : Option Nat) (ua remote : String)
    (hp : (Path.route path).1 ≠ "session".toList) : wsAdmit cfg s path code ua remote = (s, .notFound) := by
  unfold wsAdmit; rw [if_pos hp]

theorem ws_nocode (cfg : Config) (s : St) (path : List Char) (ua remote : String)
    (hp : (Path.route path).1 = "session".toList) : wsAdmit cfg s path none ua remote = (s, .refused) := by
  simp [wsAdmit, hp]

/-- the state after an attempt that got as far as the code exchange but did not join -/
def afterExchange (s : St) (c : Nat) : St := { s with codes := (TtlCode.step s.codes (.exchange c)).1 }

theorem ws_badcode (cfg : Config) (s : St) (path : List Char) (c : Nat) (ua remote : String)
    (hp : (Path.route path).1 = "session".toList)
    (hout : ∀ b t, (TtlCode.step s.codes (.exchange c)).2 ≠ .token b t) :
    wsAdmit cfg s path (some c) ua remote = (afterExchange s c, .refused) := by
  cases ho : (TtlCode.step s.codes (.exchange c)).2 with
  | token b t => exact absurd ho (hout b t)
  | issued k => simp [wsAdmit, hp, ho, afterExchange]
  | invalid => simp [wsAdmit, hp, ho, afterExchange]
  | done => simp [wsAdmit, hp, ho, afterExchange]

theorem ws_notok (cfg : Config) (s : St) (path : List Char) (c : Nat) (ua remote : String) (b : String) (t : Nat)
    (hp : (Path.route path).1 = "session".toList)
    (hout : (TtlCode.step s.codes (.exchange c)).2 = .token b t) (hpt : s.ptoks[t]? = none) :
    wsAdmit cfg s path (some c) ua remote = (afterExchange s c, .refused) := by
  simp [wsAdmit, hp, hout, hpt, afterExchange]

theorem ws_reject (cfg : Config) (s : St) (path : List Char) (c : Nat) (ua remote : String) (b : String) (t : Nat)
    (pt : PTok) (hp : (Path.route path).1 = "session".toList)
    (hout : (TtlCode.step s.codes (.exchange c)).2 = .token b t) (hpt : s.ptoks[t]? = some pt)
    (hadm : admitCheck cfg s (String.ofList (Path.route path).2) pt = false) :
    wsAdmit cfg s path (some c) ua remote = (afterExchange s c, .refused) := by
  simp [wsAdmit, hp, hout, hpt, hadm, afterExchange]

theorem ws_accept (cfg : Config) (s : St) (path : List Char) (c : Nat) (ua remote : String) (b : String) (t : Nat)
    (pt : PTok) (hp : (Path.route path).1 = "session".toList)
    (hout : (TtlCode.step s.codes (.exchange c)).2 = .token b t) (hpt : s.ptoks[t]? = some pt)
    (hadm : admitCheck cfg s (String.ofList (Path.route path).2) pt = true) :
    wsAdmit cfg s path (some c) ua remote =
      ({ afterExchange s c with
          hub := Hub.step s.hub (.register (String.ofList (Path.route path).2) pt.bid (Hub.canReadOf pt.scopes)
                   (Hub.canWriteOf pt.scopes) cfg.cap),
          info := s.info ++ [{ name := s.hub.next, scopes := pt.scopes, exp := pt.exp, ua := ua, remote := remote }] },
        .joined s.hub.next) := by
  simp [wsAdmit, hp, hout, hpt, hadm, afterExchange]

/-- **a websocket joins iff it presents a live code whose token admits it** (both directions):
    live = in the code store and not past its time-to-live. -/
theorem ws_join_iff (cfg : Config) (s : St) (path : List Char) (code : Option Nat) (ua remote : String) :
    (∃ n, (wsAdmit cfg s path code ua remote).2 = .joined n) ↔
      ∃ c e pt, code = some c ∧ TtlCode.find s.codes.entries c = some e ∧ ¬ s.codes.now > e.exp ∧
        s.ptoks[e.tok]? = some pt ∧ Admissible cfg s path pt := by
  by_cases hp : (Path.route path).1 = "session".toList
  · cases code with
    | none =>
      rw [ws_nocode cfg s path ua remote hp]
      constructor
      · rintro ⟨_, h⟩; cases h
      · rintro ⟨_, _, _, h, _⟩; cases h
    | some c =>
      by_cases hex : ∃ b t, (TtlCode.step s.codes (.exchange c)).2 = .token b t
      · obtain ⟨b, t, hout⟩ := hex
        obtain ⟨e, hf, hexp, hb, ht⟩ := (exchange_token_iff _ _ _ _).1 hout
        cases hpt : s.ptoks[t]? with
        | none =>
          rw [ws_notok cfg s path c ua remote b t hp hout hpt]
          constructor
          · rintro ⟨_, h⟩; cases h
          · rintro ⟨c', e', pt, hc, hf', _, hpt', _⟩
            injection hc with hc; subst hc
            rw [hf] at hf'; injection hf' with hf'; subst hf'
            rw [ht, hpt] at hpt'; cases hpt'
        | some pt =>
          by_cases hadm : admitCheck cfg s (String.ofList (Path.route path).2) pt = true
          · rw [ws_accept cfg s path c ua remote b t pt hp hout hpt hadm]
            constructor
            · intro _
              exact ⟨c, e, pt, rfl, hf, hexp, by rw [ht]; exact hpt, (admitCheck_iff cfg s path pt hp).1 hadm⟩
            · intro _; exact ⟨_, rfl⟩
          · have hadm' : admitCheck cfg s (String.ofList (Path.route path).2) pt = false := by simpa using hadm
            rw [ws_reject cfg s path c ua remote b t pt hp hout hpt hadm']
            constructor
            · rintro ⟨_, h⟩; cases h
            · rintro ⟨c', e', pt', hc, hf', _, hpt', hA⟩
              injection hc with hc; subst hc
              rw [hf] at hf'; injection hf' with hf'; subst hf'
              rw [ht, hpt] at hpt'; injection hpt' with hpt'; subst hpt'
              exact absurd ((admitCheck_iff cfg s path pt hp).2 hA) hadm
      · have hout : ∀ b t, (TtlCode.step s.codes (.exchange c)).2 ≠ .token b t :=
          fun b t h => hex ⟨b, t, h⟩
        rw [ws_badcode cfg s path c ua remote hp hout]
        constructor
        · rintro ⟨_, h⟩; cases h
        · rintro ⟨c', e', pt', hc, hf', hexp', _⟩
          injection hc with hc; subst hc
          exact absurd ((exchange_token_iff s.codes c e'.bid e'.tok).2 ⟨e', hf', hexp', rfl, rfl⟩) (hout _ _)
  · rw [ws_notfound cfg s path code ua remote hp]
    constructor
    · rintro ⟨_, h⟩; cases h
    · rintro ⟨_, _, _, _, _, _, _, hA⟩; exact absurd hA.1 hp

/-- a refused attempt never adds a member: hub and register are unchanged, whatever the reason -/
theorem ws_refused_no_join (cfg : Config) (s : St) (path : List Char) (code : Option Nat) (ua remote : String)
    (h : ∀ n, (wsAdmit cfg s path code ua remote).2 ≠ .joined n) :
    (wsAdmit cfg s path code ua remote).1.hub = s.hub ∧ (wsAdmit cfg s path code ua remote).1.reg = s.reg := by
  by_cases hp : (Path.route path).1 = "session".toList
  · cases code with
    | none => rw [ws_nocode cfg s path ua remote hp]; exact ⟨rfl, rfl⟩
    | some c =>
      by_cases hex : ∃ b t, (TtlCode.step s.codes (.exchange c)).2 = .token b t
      · obtain ⟨b, t, hout⟩ := hex
        cases hpt : s.ptoks[t]? with
        | none => rw [ws_notok cfg s path c ua remote b t hp hout hpt]; exact ⟨rfl, rfl⟩
        | some pt =>
          by_cases hadm : admitCheck cfg s (String.ofList (Path.route path).2) pt = true
          · exfalso
            rw [ws_accept cfg s path c ua remote b t pt hp hout hpt hadm] at h
            exact h _ rfl
          · have hadm' : admitCheck cfg s (String.ofList (Path.route path).2) pt = false := by simpa using hadm
            rw [ws_reject cfg s path c ua remote b t pt hp hout hpt hadm']; exact ⟨rfl, rfl⟩
      · rw [ws_badcode cfg s path c ua remote hp (fun b t h => hex ⟨b, t, h⟩)]; exact ⟨rfl, rfl⟩
  · rw [ws_notfound cfg s path code ua remote hp]; exact ⟨rfl, rfl⟩

/-- ... nor any admission record -/
theorem ws_refused_info (cfg : Config) (s : St) (path : List Char) (code : Option Nat) (ua remote : String)
    (h : ∀ n, (wsAdmit cfg s path code ua remote).2 ≠ .joined n) :
    (wsAdmit cfg s path code ua remote).1.info = s.info := by
  by_cases hp : (Path.route path).1 = "session".toList
  · cases code with
    | none => rw [ws_nocode cfg s path ua remote hp]
    | some c =>
      by_cases hex : ∃ b t, (TtlCode.step s.codes (.exchange c)).2 = .token b t
      · obtain ⟨b, t, hout⟩ := hex
        cases hpt : s.ptoks[t]? with
        | none => rw [ws_notok cfg s path c ua remote b t hp hout hpt]; rfl
        | some pt =>
          by_cases hadm : admitCheck cfg s (String.ofList (Path.route path).2) pt = true
          · exfalso
            rw [ws_accept cfg s path c ua remote b t pt hp hout hpt hadm] at h
            exact h _ rfl
          · have hadm' : admitCheck cfg s (String.ofList (Path.route path).2) pt = false := by simpa using hadm
            rw [ws_reject cfg s path c ua remote b t pt hp hout hpt hadm']; rfl
      · rw [ws_badcode cfg s path c ua remote hp (fun b t h => hex ⟨b, t, h⟩)]; rfl
  · rw [ws_notfound cfg s path code ua remote hp]

/-- **without a matching live code nothing joins**: no code, an unknown or already used (removed) code,
    or an expired code never yields a member, and the hub is unchanged. -/
theorem no_code_no_join (cfg : Config) (s : St) (path : List Char) (code : Option Nat) (ua remote : String)
    (h : code = none ∨ ∃ c, code = some c ∧
      (TtlCode.find s.codes.entries c = none ∨ ∃ e, TtlCode.find s.codes.entries c = some e ∧ s.codes.now > e.exp)) :
    (∀ n, (wsAdmit cfg s path code ua remote).2 ≠ .joined n) ∧ (wsAdmit cfg s path code ua remote).1.hub = s.hub := by
  have hno : ¬ ∃ n, (wsAdmit cfg s path code ua remote).2 = .joined n := by
    rw [ws_join_iff]
    rintro ⟨c, e, pt, hc, hf, hexp, _⟩
    rcases h with h | ⟨c', hc', h⟩
    · rw [h] at hc; cases hc
    · rw [hc'] at hc; injection hc with hc; subst hc
      rcases h with h | ⟨e', he', hgt⟩
      · rw [h] at hf; cases hf
      · rw [he'] at hf; injection hf with hf; subst hf; exact hexp hgt
  exact ⟨fun n hn => hno ⟨n, hn⟩, (ws_refused_no_join cfg s path code ua remote (fun n hn => hno ⟨n, hn⟩)).1⟩

/-- **the joined connection is bound to that token**: topic, booking id, read/write capability (from
    exactly the scope strings), scopes and expiry of the new member are those of the connection token
    the code was issued for; the buffer is the configured one; the code is consumed. -/
theorem client_bound_to_token (cfg : Config) (s : St) (path : List Char) (c : Nat) (ua remote : String) (n : Nat)
    (h : (wsAdmit cfg s path (some c) ua remote).2 = .joined n) :
    ∃ e pt, TtlCode.find s.codes.entries c = some e ∧ s.ptoks[e.tok]? = some pt ∧ n = s.hub.next ∧
      (wsAdmit cfg s path (some c) ua remote).1.hub.members =
        s.hub.members ++ [{ name := n, topic := pt.topic, bid := pt.bid, canRead := Hub.canReadOf pt.scopes,
                            canWrite := Hub.canWriteOf pt.scopes, cap := cfg.cap, joinedAt := s.hub.sent.length }] ∧
      (wsAdmit cfg s path (some c) ua remote).1.info = s.info ++ [{ name := n, scopes := pt.scopes, exp := pt.exp, ua := ua, remote := remote }] ∧
      (wsAdmit cfg s path (some c) ua remote).1.codes = (TtlCode.step s.codes (.exchange c)).1 := by
  obtain ⟨c', e, pt, hc, hf, hexp, hpt, hA⟩ := (ws_join_iff cfg s path (some c) ua remote).1 ⟨n, h⟩
  injection hc with hc; subst hc
  have hp := hA.1
  have hout := (exchange_token_iff s.codes c e.bid e.tok).2 ⟨e, hf, hexp, rfl, rfl⟩
  have hadm := (admitCheck_iff cfg s path pt hp).2 hA
  have htopic : String.ofList (Path.route path).2 = pt.topic := hA.2.2.2.2.2.2.2.2.2.1
  rw [ws_accept cfg s path c ua remote e.bid e.tok pt hp hout hpt hadm] at h ⊢
  injection h with h
  subst h
  exact ⟨e, pt, hf, hpt, rfl, by simp [Hub.step, htopic], rfl, rfl⟩

/-- end to end: a 200 from the session endpoint implies the bearer was fully valid at that moment -/
theorem joined_only_via_valid_session (cfg : Config) (s : St) (b : Bearer) (id : String) (c : Nat) (uri : String)
    (h : (session cfg s (.token b) id).2 = .sessionOK c uri) (hid : routable id = true) :
    FullyValid cfg s b id := by
  obtain ⟨b', hb', hv⟩ := (session_ok_iff cfg s (.token b) id hid).1 ⟨c, uri, h⟩
  injection hb' with hb'; subst hb'; exact hv

/-! ### non-vacuity: a valid bearer gets a code and joins; a wrong-audience bearer gets 500 and nothing -/
def exCfg : Config := { host := "https://a", target := "wss://r" }
def exGood : Bearer := { exp := some 200, nbf := some 50, iat := some 50, aud := ["https://a"], scopes := ["read"],
                         topic := "t", pfx := "session", bid := "b" }
example :
    let s0 : St := { now := 100, reg := { now := 100 }, codes := { now := 100 } }
    let r1 := session exCfg s0 (.token exGood) "t"
    let r2 := session exCfg s0 (.token { exGood with aud := ["https://other"] }) "t"
    let w := wsAdmit exCfg r1.1 "/session/t".toList (some 0) "ua" "ip"
    r1.2 = .sessionOK 0 "wss://r/session/t" ∧ r2.2 = .status 500 ∧ w.2 = .joined 0 ∧
      (wsAdmit exCfg w.1 "/session/t".toList (some 0) "ua" "ip").2 = .refused := by decide

end Access
