import Relay.Model.Status
import Relay.Lemmas.DurationRT
import Relay.Lemmas.TimeRT
import Relay.Lemmas.StatusRT
import Relay.Lemmas.StatusKeys

/-!
# C14 (codec half) — every report the relay can emit is read back by the published client as the same values

Theorems (all for every member: any metadata strings, any scopes incl. nil/empty, any traffic
history incl. never-sent / never-received, any int64 `time.Since`, any instants):
* `Dur.duration_roundtrip`      `ParseDuration(d.String()) = d` for every int64 d
* `TimeText.rfc3339_roundtrip`  `UnmarshalJSON(MarshalText(t)) = t` for every instant with UTC year 0..9999
* `Status.never_roundtrip`      a direction without traffic is read as Never = true, 999 h, 0, 0
* `Status.stats_roundtrip`      a direction with traffic is read as the same duration / size / fps, Never = false
* `Status.report_roundtrip`     finite → yearsInRange → the client decodes the stats-topic report to `view c`
* `Status.frame_roundtrip`      the same for the whole array (the frame on topic `stats`)
* `Status.nonfinite_no_frame`   excluded point 1: a non-finite size/fps ⇒ `json.Marshal` fails, no frame
* `Status.expiry_out_of_range_rejects_frame`, `Status.k4_witness`, `Status.not_ReportRoundtripAllYears`
                                excluded point 2 (known finding K4): an expiry outside years 0..9999 ⇒ `expiresAt:""` ⇒
                                the client rejects the **whole** array
* `Status.rest_decoded_by_status_client`  what the published client recovers from the body of GET /status:
                                only `connected`, `scopes`, `stats`, `topic` (names shared with the REST schema)
* `Status.not_RestRoundtrip`    … and therefore not the member's read/write capability, expiry, address, user agent
-/

namespace Dur

/-- **C14 duration**: Go's `ParseDuration` reads every `Duration.String()` back exactly — for
    every `int64` nanosecond count, including 0, the sub-second units, negative values and the
    minimum `int64`. -/
theorem duration_roundtrip (d : Int) (hlo : -2 ^ 63 ≤ d) (hhi : d < 2 ^ 63) :
    parseDuration (durationString d) = some d := duration_roundtrip' d hlo hhi

example : durationString (-9223372036854775808) = "-2562047h47m16.854775808s" := by decide
example : durationString 1500000 = "1.5ms" ∧ parseDuration "1.5ms" = some 1500000 := by decide

end Dur

namespace TimeText

/-- **C14 instants**: an instant whose UTC year is within 0..9999 is written by `MarshalText`
    and read back by `Time.UnmarshalJSON` as the same instant (to the nanosecond). -/
theorem rfc3339_roundtrip (t : Time) (hns : t.ns < 1000000000)
    (hy : 0 ≤ (civil (t.sec / 86400)).1 ∧ (civil (t.sec / 86400)).1 ≤ 9999) :
    ∃ s, formatRFC3339 t = some s ∧ parseRFC3339 s = some t := by
  obtain ⟨cs, h1, h2⟩ := parse_format t hns hy
  exact ⟨String.ofList cs, by simp [formatRFC3339, h1], by simp [parseRFC3339, String.toList_ofList, h2]⟩

/-- outside years 0..9999 `MarshalText` fails -/
theorem format_out_of_range (t : Time)
    (hy : ¬ (0 ≤ (civil (t.sec / 86400)).1 ∧ (civil (t.sec / 86400)).1 ≤ 9999)) :
    formatRFC3339 t = none := by
  have : (civil (t.sec / 86400)).1 < 0 ∨ (civil (t.sec / 86400)).1 > 9999 := by omega
  simp [formatRFC3339, formatChars, this]

example : formatRFC3339 ⟨951782400, 100⟩ = some "2000-02-29T00:00:00.0000001Z" := by decide
example : formatRFC3339 ⟨253402300800, 0⟩ = none := by decide

end TimeText

set_option linter.unusedSimpArgs false

namespace Status
open TimeText Dur

/-! ### fields -/

theorem decTime_timeField (cur t : Time) (hns : t.ns < 1000000000)
    (hy : 0 ≤ yearOf t ∧ yearOf t ≤ 9999) : decTime cur (.str (timeField t)) = some t := by
  obtain ⟨s, h1, h2⟩ := rfc3339_roundtrip t hns hy
  simp [decTime, timeField, h1, h2]

theorem timeField_out_of_range (t : Time) (hy : ¬ (0 ≤ yearOf t ∧ yearOf t ≤ 9999)) : timeField t = "" := by
  simp [timeField, format_out_of_range t hy]

theorem decTime_empty (cur : Time) : decTime cur (.str "") = none := rfl

theorem decStrings_encodeScopes (sc : Option (List String)) : decStrings (encodeScopes sc) = some sc := by
  cases sc with
  | none => rfl
  | some l =>
    have : (l.map Json.str).mapM decStringElem = some l := by
      induction l with
      | nil => rfl
      | cons a as ih => simp [List.mapM_cons, decStringElem, ih]
    simp [encodeScopes, decStrings, this]

/-- **never_roundtrip**: a direction that never carried a message is reported as
    `{"last":"Never","size":0,"fps":0}` and read as Never = true with the 999 h placeholder -/
theorem never_roundtrip (cur : Statistics) (f : Frames) (h : f.count = 0) :
    decodeStatistics cur (encodeStats (repStats f)) = some (viewStats f) ∧ (viewStats f).never = true ∧
      (viewStats f).last = 999 * 3600 * 1000000000 := by
  have : ¬ f.count > 0 := by omega
  simp only [repStats, viewStats, this, if_false, decodeStatistics_never, neverLast]
  decide

/-- a direction with traffic: duration, size and fps come back unchanged -/
theorem stats_roundtrip (cur : Statistics) (f : Frames) (hwf : f.wf) :
    decodeStatistics cur (encodeStats (repStats f)) = some (viewStats f) := by
  by_cases h : f.count > 0
  · simp only [repStats, viewStats, h, if_true]
    exact decodeStatistics_seen cur f.since f.size f.fps hwf.1 hwf.2
  · simp only [repStats, viewStats, h, if_false, decodeStatistics_never]

/-! ### the stats-topic report -/

/-- **report_roundtrip**: for every member — any metadata strings, any scopes, any traffic history
    (never-sent / never-received included), any elapsed time an int64 can hold — whose statistics are
    finite and whose two instants lie in years 0..9999, the published client decodes the report the
    relay emits on topic `stats` into exactly the member's values. -/
theorem report_roundtrip (c : Conn) (hwf : c.wf) (_hfin : c.finite) (hy : c.yearsInRange) :
    decodeReport (encodeReport (getStats c)) = some (view c) := by
  have hc := decTime_timeField zeroTime c.connected hwf.cns hy.1
  have he := decTime_timeField zeroTime c.expiresAt hwf.ens hy.2
  have htx := stats_roundtrip zeroStatistics c.tx hwf.tx
  have hrx := stats_roundtrip zeroStatistics c.rx hwf.rx
  simp only [decodeReport, encodeReport, getStats, List.foldlM_cons, List.foldlM_nil, assignReport,
    k_canRead_canRead, k_canWrite_canRead, k_canWrite_canWrite, k_connected_canRead, k_connected_canWrite, k_connected_connected, k_expiresAt_canRead, k_expiresAt_canWrite, k_expiresAt_connected, k_expiresAt_expiresAt, k_remoteAddr_canRead, k_remoteAddr_canWrite, k_remoteAddr_connected, k_remoteAddr_expiresAt, k_remoteAddr_remoteAddr, k_scopes_canRead, k_scopes_canWrite, k_scopes_connected, k_scopes_expiresAt, k_scopes_remoteAddr, k_scopes_scopes, k_stats_canRead, k_stats_canWrite, k_stats_connected, k_stats_expiresAt, k_stats_remoteAddr, k_stats_scopes, k_stats_stats, k_topic_canRead, k_topic_canWrite, k_topic_connected, k_topic_expiresAt, k_topic_remoteAddr, k_topic_scopes, k_topic_stats, k_topic_topic, k_userAgent_canRead, k_userAgent_canWrite, k_userAgent_connected, k_userAgent_expiresAt, k_userAgent_remoteAddr, k_userAgent_scopes, k_userAgent_stats, k_userAgent_topic, k_userAgent_userAgent, k_canUread_canRead, k_canUread_canWrite, k_canUread_connected, k_canUread_expiresAt, k_canUread_remoteAddr, k_canUread_scopes, k_canUread_stats, k_canUread_topic, k_canUread_userAgent, k_canUwrite_canRead, k_canUwrite_canWrite, k_canUwrite_connected, k_canUwrite_expiresAt, k_canUwrite_remoteAddr, k_canUwrite_scopes, k_canUwrite_stats, k_canUwrite_topic, k_canUwrite_userAgent, k_expiresUat_canRead, k_expiresUat_canWrite, k_expiresUat_connected, k_expiresUat_expiresAt, k_expiresUat_remoteAddr, k_expiresUat_scopes, k_expiresUat_stats, k_expiresUat_topic, k_expiresUat_userAgent, k_remoteUaddr_canRead, k_remoteUaddr_canWrite, k_remoteUaddr_connected, k_remoteUaddr_expiresAt, k_remoteUaddr_remoteAddr, k_remoteUaddr_scopes, k_remoteUaddr_stats, k_remoteUaddr_topic, k_remoteUaddr_userAgent, k_userUagent_canRead, k_userUagent_canWrite, k_userUagent_connected, k_userUagent_expiresAt, k_userUagent_remoteAddr, k_userUagent_scopes, k_userUagent_stats, k_userUagent_topic, k_userUagent_userAgent, k_tx_tx, k_rx_tx, k_rx_rx,
    if_true, if_false, Bool.false_eq_true, decBool, decString, hc, he, decStrings_encodeScopes, zeroReport,
    Option.map_some, Option.bind_some, Option.bind_eq_bind, bind_pure_comp, htx, hrx, view, pure, Option.pure_def]

/-- the link between the hypothesis `finite` on members and on the produced reports -/
theorem finite_getStats (c : Conn) (h : c.finite) : (getStats c).finite = true := by
  have key : ∀ f : Frames, f.finite → (repStats f).finite = true := by
    intro f hf
    by_cases hcount : f.count > 0
    · have := hf hcount
      simp [repStats, hcount, ReportStats.finite, this.1, this.2]
    · simp only [repStats, hcount, if_false]; decide
  simp [getStats, ClientReport.finite, key c.tx h.1, key c.rx h.2]

theorem all_finite_getStats (cs : List Conn) (h : ∀ c ∈ cs, c.finite) :
    ((cs.map getStats).all ClientReport.finite) = true := by
  simp only [List.all_eq_true, List.mem_map]
  rintro r ⟨c, hc, rfl⟩
  exact finite_getStats c (h c hc)

/-- the same for the whole array: the frame the relay sends on topic `stats` decodes, as a whole,
    to the list of the members' values, in order -/
theorem frame_roundtrip (cs : List Conn) (h : ∀ c ∈ cs, c.wf ∧ c.finite ∧ c.yearsInRange) :
    ∃ j, encodeFrame (cs.map getStats) = some j ∧ decodeFrame j = some (cs.map view) := by
  have hfin := all_finite_getStats cs (fun c hc => (h c hc).2.1)
  have hm : ((cs.map getStats).map encodeReport).mapM decodeReport = some (cs.map view) := by
    induction cs with
    | nil => rfl
    | cons a as ih =>
      have ha := h a (by simp)
      have hr := report_roundtrip a ha.1 ha.2.1 ha.2.2
      have ih' := ih (fun c hc => h c (by simp [hc])) (all_finite_getStats as (fun c hc => (h c (by simp [hc])).2.1))
      simp only [List.map_cons, List.mapM_cons, hr, ih']
      rfl
  cases cs with
  | nil => exact ⟨.null, rfl, rfl⟩
  | cons a as =>
    refine ⟨.arr ((List.map getStats (a :: as)).map encodeReport), ?_, ?_⟩
    · simp only [encodeFrame, hfin, if_true]; rfl
    · exact hm

/-! ### excluded point 1: non-finite statistics -/

/-- if any report holds a non-finite size/fps, `json.Marshal` fails: no frame at all -/
theorem nonfinite_no_frame (rs : List ClientReport) (r : ClientReport) (hr : r ∈ rs) (hnf : r.finite = false) :
    encodeFrame rs = none := by
  have : rs.all ClientReport.finite = false := by
    rw [List.all_eq_false]; exact ⟨r, hr, by simp [hnf]⟩
  simp [encodeFrame, this]

/-! ### excluded point 2 (K4): expiry outside years 0..9999 -/

theorem mapM_none_of_mem {α β : Type} (f : α → Option β) (l : List α) (x : α) (hx : x ∈ l) (hf : f x = none) :
    l.mapM f = none := by
  induction l with
  | nil => simp at hx
  | cons a as ih =>
    simp only [List.mapM_cons]
    rcases List.mem_cons.mp hx with h | h
    · subst h; simp [hf]
    · cases f a with
      | none => rfl
      | some b => simp [ih h]

/-- a member whose expiry the RFC 3339 writer refuses gets `expiresAt: ""`, which the client
    cannot parse: its report is rejected -/
theorem expiry_out_of_range_rejects_report (c : Conn)
    (hy : ¬ (0 ≤ yearOf c.expiresAt ∧ yearOf c.expiresAt ≤ 9999)) :
    (getStats c).expiresAt = "" ∧ decodeReport (encodeReport (getStats c)) = none := by
  have he : timeField c.expiresAt = "" := timeField_out_of_range _ hy
  refine ⟨he, ?_⟩
  simp only [decodeReport, encodeReport, getStats, List.foldlM_cons, assignReport,
    k_canRead_canRead, k_canWrite_canRead, k_canWrite_canWrite, k_connected_canRead, k_connected_canWrite, k_connected_connected, k_expiresAt_canRead, k_expiresAt_canWrite, k_expiresAt_connected, k_expiresAt_expiresAt, k_remoteAddr_canRead, k_remoteAddr_canWrite, k_remoteAddr_connected, k_remoteAddr_expiresAt, k_remoteAddr_remoteAddr, k_scopes_canRead, k_scopes_canWrite, k_scopes_connected, k_scopes_expiresAt, k_scopes_remoteAddr, k_scopes_scopes, k_stats_canRead, k_stats_canWrite, k_stats_connected, k_stats_expiresAt, k_stats_remoteAddr, k_stats_scopes, k_stats_stats, k_topic_canRead, k_topic_canWrite, k_topic_connected, k_topic_expiresAt, k_topic_remoteAddr, k_topic_scopes, k_topic_stats, k_topic_topic, k_userAgent_canRead, k_userAgent_canWrite, k_userAgent_connected, k_userAgent_expiresAt, k_userAgent_remoteAddr, k_userAgent_scopes, k_userAgent_stats, k_userAgent_topic, k_userAgent_userAgent, k_canUread_canRead, k_canUread_canWrite, k_canUread_connected, k_canUread_expiresAt, k_canUread_remoteAddr, k_canUread_scopes, k_canUread_stats, k_canUread_topic, k_canUread_userAgent, k_canUwrite_canRead, k_canUwrite_canWrite, k_canUwrite_connected, k_canUwrite_expiresAt, k_canUwrite_remoteAddr, k_canUwrite_scopes, k_canUwrite_stats, k_canUwrite_topic, k_canUwrite_userAgent, k_expiresUat_canRead, k_expiresUat_canWrite, k_expiresUat_connected, k_expiresUat_expiresAt, k_expiresUat_remoteAddr, k_expiresUat_scopes, k_expiresUat_stats, k_expiresUat_topic, k_expiresUat_userAgent, k_remoteUaddr_canRead, k_remoteUaddr_canWrite, k_remoteUaddr_connected, k_remoteUaddr_expiresAt, k_remoteUaddr_remoteAddr, k_remoteUaddr_scopes, k_remoteUaddr_stats, k_remoteUaddr_topic, k_remoteUaddr_userAgent, k_userUagent_canRead, k_userUagent_canWrite, k_userUagent_connected, k_userUagent_expiresAt, k_userUagent_remoteAddr, k_userUagent_scopes, k_userUagent_stats, k_userUagent_topic, k_userUagent_userAgent, k_tx_tx, k_rx_tx, k_rx_rx,
    if_true, if_false, Bool.false_eq_true, decBool, he, decTime_empty, zeroReport,
    Option.map_some, Option.map_none, Option.bind_some, Option.bind_eq_bind, bind_pure_comp]
  cases decTime zeroTime (Json.str (timeField c.connected)) <;> rfl

/-- **K4**: one member with an expiry outside years 0..9999 (a correctly signed token can carry
    one) and the published client rejects the **whole** frame — every other member's report is
    lost with it — although the frame itself is produced. -/
theorem expiry_out_of_range_rejects_frame (cs : List Conn) (c : Conn) (hc : c ∈ cs)
    (hfinite : ∀ c ∈ cs, c.finite)
    (hy : ¬ (0 ≤ yearOf c.expiresAt ∧ yearOf c.expiresAt ≤ 9999)) :
    ∃ j, encodeFrame (cs.map getStats) = some j ∧ decodeFrame j = none := by
  have hfin := all_finite_getStats cs hfinite
  cases cs with
  | nil => simp at hc
  | cons a as =>
    refine ⟨.arr ((List.map getStats (a :: as)).map encodeReport), ?_, ?_⟩
    · simp only [encodeFrame, hfin, if_true]; rfl
    · show (((a :: as).map getStats).map encodeReport).mapM decodeReport = none
      refine mapM_none_of_mem _ _ (encodeReport (getStats c)) ?_ (expiry_out_of_range_rejects_report c hy).2
      exact List.mem_map.mpr ⟨getStats c, List.mem_map.mpr ⟨c, hc, rfl⟩, rfl⟩

/-- the full statement without the year restriction … -/
def ReportRoundtripAllYears : Prop :=
  ∀ c : Conn, c.wf → c.finite → decodeReport (encodeReport (getStats c)) = some (view c)

/-- a member of topic "123" connected on 2023-11-14 whose token expires at 10000-01-01T00:00:00Z -/
def k4Conn : Conn :=
  { topic := "123", canRead := true, canWrite := true, connected := ⟨1700000001, 2⟩,
    expiresAt := ⟨253402300800, 0⟩, remoteAddr := "", scopes := some ["read", "write"],
    userAgent := "Go-http-client/1.1", tx := ⟨0, 0, 0, 0⟩, rx := ⟨1, 1000000, 4617315517961601024, 4632233691727265792⟩ }

theorem k4_witness : k4Conn.wf ∧ k4Conn.finite ∧ (getStats k4Conn).expiresAt = "" ∧
    decodeReport (encodeReport (getStats k4Conn)) = none := by
  have hy : ¬ (0 ≤ yearOf k4Conn.expiresAt ∧ yearOf k4Conn.expiresAt ≤ 9999) := by decide
  have := expiry_out_of_range_rejects_report k4Conn hy
  refine ⟨⟨⟨by decide, by decide⟩, ⟨by decide, by decide⟩, by decide, by decide⟩, ⟨?_, ?_⟩, this.1, this.2⟩
  · intro _; decide
  · intro _; decide

/-- … is false: K4 is the counterexample -/
theorem not_ReportRoundtripAllYears : ¬ ReportRoundtripAllYears := by
  intro h
  have := h k4Conn k4_witness.1 k4_witness.2.1
  rw [k4_witness.2.2.2] at this
  cases this

/-! ### the REST projection read by the published client -/

theorem decTmpS_encodeDetails (nar : Nat → Nat) (s : ReportStats) :
    decTmpS (encodeDetails nar s) = some { last := s.last, size := rest32 (nar s.size), fps := rest32 (nar s.fps) } := by
  have k1 : keyIs "last" "last" = true := by decide
  have k2 : keyIs "size" "last" = false := by decide
  have k3 : keyIs "size" "size" = true := by decide
  have k4 : keyIs "fps" "last" = false := by decide
  have k5 : keyIs "fps" "size" = false := by decide
  have k6 : keyIs "fps" "fps" = true := by decide
  by_cases ha : isZero32 (nar s.fps) = true <;> by_cases hb : isZero32 (nar s.size) = true <;>
    by_cases hl : s.last = "" <;>
    simp [decTmpS, encodeDetails, optF32, optStr, ha, hb, hl, List.foldlM, assignTmpS, k1, k2, k3, k4, k5, k6,
      decString, decFloat, rest32, Flt.zero]

theorem rest_stats (nar : Nat → Nat) (cur : Statistics) (f : Frames) (hwf : f.wf) :
    decodeStatistics cur (encodeDetails nar (repStats f)) = some (restViewStats nar f) := by
  unfold decodeStatistics
  rw [decTmpS_encodeDetails]
  by_cases h : f.count > 0
  · simp only [repStats, restViewStats, h, if_true, normLast_duration, durationString_ne_never,
      durationString_ne_empty, or_self, if_false]
    rw [Dur.duration_roundtrip' f.since hwf.1 hwf.2]
    simp
  · simp only [repStats, restViewStats, h, if_false, normLast_Never, true_or, if_true, parse_999h]
    simp [neverLast]

/-- **what the published client recovers from `GET /status`**: the REST schema names its fields
    `can_read, can_write, expires_at, remote_addr, user_agent`; `pkg/status` looks for `canRead, …`
    (no case folding bridges the underscore), so it sees only `connected`, `scopes`, `stats` and
    `topic` — those exactly (statistics at float32 precision) — and zero values for the rest. It never
    rejects the body. -/
theorem rest_decoded_by_status_client (nar : Nat → Nat) (c : Conn) (hwf : c.wf)
    (hy : 0 ≤ yearOf c.connected ∧ yearOf c.connected ≤ 9999) :
    decodeReport (encodeRest nar (getStats c)) = some (restView nar c) := by
  have hskipB : ∀ (r : Report) (k : String) (b : Bool),
      (k = "can_read" ∨ k = "can_write") → List.foldlM assignReport r (optBool k b) = some r := by
    intro r k b hk
    rcases hk with rfl | rfl <;> cases b <;>
      simp [optBool, List.foldlM, assignReport, k_canRead_canRead, k_canWrite_canRead, k_canWrite_canWrite, k_connected_canRead, k_connected_canWrite, k_connected_connected, k_expiresAt_canRead, k_expiresAt_canWrite, k_expiresAt_connected, k_expiresAt_expiresAt, k_remoteAddr_canRead, k_remoteAddr_canWrite, k_remoteAddr_connected, k_remoteAddr_expiresAt, k_remoteAddr_remoteAddr, k_scopes_canRead, k_scopes_canWrite, k_scopes_connected, k_scopes_expiresAt, k_scopes_remoteAddr, k_scopes_scopes, k_stats_canRead, k_stats_canWrite, k_stats_connected, k_stats_expiresAt, k_stats_remoteAddr, k_stats_scopes, k_stats_stats, k_topic_canRead, k_topic_canWrite, k_topic_connected, k_topic_expiresAt, k_topic_remoteAddr, k_topic_scopes, k_topic_stats, k_topic_topic, k_userAgent_canRead, k_userAgent_canWrite, k_userAgent_connected, k_userAgent_expiresAt, k_userAgent_remoteAddr, k_userAgent_scopes, k_userAgent_stats, k_userAgent_topic, k_userAgent_userAgent, k_canUread_canRead, k_canUread_canWrite, k_canUread_connected, k_canUread_expiresAt, k_canUread_remoteAddr, k_canUread_scopes, k_canUread_stats, k_canUread_topic, k_canUread_userAgent, k_canUwrite_canRead, k_canUwrite_canWrite, k_canUwrite_connected, k_canUwrite_expiresAt, k_canUwrite_remoteAddr, k_canUwrite_scopes, k_canUwrite_stats, k_canUwrite_topic, k_canUwrite_userAgent, k_expiresUat_canRead, k_expiresUat_canWrite, k_expiresUat_connected, k_expiresUat_expiresAt, k_expiresUat_remoteAddr, k_expiresUat_scopes, k_expiresUat_stats, k_expiresUat_topic, k_expiresUat_userAgent, k_remoteUaddr_canRead, k_remoteUaddr_canWrite, k_remoteUaddr_connected, k_remoteUaddr_expiresAt, k_remoteUaddr_remoteAddr, k_remoteUaddr_scopes, k_remoteUaddr_stats, k_remoteUaddr_topic, k_remoteUaddr_userAgent, k_userUagent_canRead, k_userUagent_canWrite, k_userUagent_connected, k_userUagent_expiresAt, k_userUagent_remoteAddr, k_userUagent_scopes, k_userUagent_stats, k_userUagent_topic, k_userUagent_userAgent, k_tx_tx, k_rx_tx, k_rx_rx]
  have hskipS : ∀ (r : Report) (k s : String),
      (k = "expires_at" ∨ k = "remote_addr" ∨ k = "user_agent") → List.foldlM assignReport r (optStr k s) = some r := by
    intro r k s hk
    rcases hk with rfl | rfl | rfl <;> by_cases hs : s = "" <;>
      simp [optStr, hs, List.foldlM, assignReport, k_canRead_canRead, k_canWrite_canRead, k_canWrite_canWrite, k_connected_canRead, k_connected_canWrite, k_connected_connected, k_expiresAt_canRead, k_expiresAt_canWrite, k_expiresAt_connected, k_expiresAt_expiresAt, k_remoteAddr_canRead, k_remoteAddr_canWrite, k_remoteAddr_connected, k_remoteAddr_expiresAt, k_remoteAddr_remoteAddr, k_scopes_canRead, k_scopes_canWrite, k_scopes_connected, k_scopes_expiresAt, k_scopes_remoteAddr, k_scopes_scopes, k_stats_canRead, k_stats_canWrite, k_stats_connected, k_stats_expiresAt, k_stats_remoteAddr, k_stats_scopes, k_stats_stats, k_topic_canRead, k_topic_canWrite, k_topic_connected, k_topic_expiresAt, k_topic_remoteAddr, k_topic_scopes, k_topic_stats, k_topic_topic, k_userAgent_canRead, k_userAgent_canWrite, k_userAgent_connected, k_userAgent_expiresAt, k_userAgent_remoteAddr, k_userAgent_scopes, k_userAgent_stats, k_userAgent_topic, k_userAgent_userAgent, k_canUread_canRead, k_canUread_canWrite, k_canUread_connected, k_canUread_expiresAt, k_canUread_remoteAddr, k_canUread_scopes, k_canUread_stats, k_canUread_topic, k_canUread_userAgent, k_canUwrite_canRead, k_canUwrite_canWrite, k_canUwrite_connected, k_canUwrite_expiresAt, k_canUwrite_remoteAddr, k_canUwrite_scopes, k_canUwrite_stats, k_canUwrite_topic, k_canUwrite_userAgent, k_expiresUat_canRead, k_expiresUat_canWrite, k_expiresUat_connected, k_expiresUat_expiresAt, k_expiresUat_remoteAddr, k_expiresUat_scopes, k_expiresUat_stats, k_expiresUat_topic, k_expiresUat_userAgent, k_remoteUaddr_canRead, k_remoteUaddr_canWrite, k_remoteUaddr_connected, k_remoteUaddr_expiresAt, k_remoteUaddr_remoteAddr, k_remoteUaddr_scopes, k_remoteUaddr_stats, k_remoteUaddr_topic, k_remoteUaddr_userAgent, k_userUagent_canRead, k_userUagent_canWrite, k_userUagent_connected, k_userUagent_expiresAt, k_userUagent_remoteAddr, k_userUagent_scopes, k_userUagent_stats, k_userUagent_topic, k_userUagent_userAgent, k_tx_tx, k_rx_tx, k_rx_rx]
  have hconn : ∀ r : Report, List.foldlM assignReport r (optStr "connected" (timeField c.connected)) =
      some { r with connected := c.connected } := by
    intro r
    have hd := decTime_timeField r.connected c.connected hwf.cns hy
    have hne : timeField c.connected ≠ "" := by
      intro e; rw [e, decTime_empty] at hd; cases hd
    simp [optStr, hne, List.foldlM, assignReport, k_canRead_canRead, k_canWrite_canRead, k_canWrite_canWrite, k_connected_canRead, k_connected_canWrite, k_connected_connected, k_expiresAt_canRead, k_expiresAt_canWrite, k_expiresAt_connected, k_expiresAt_expiresAt, k_remoteAddr_canRead, k_remoteAddr_canWrite, k_remoteAddr_connected, k_remoteAddr_expiresAt, k_remoteAddr_remoteAddr, k_scopes_canRead, k_scopes_canWrite, k_scopes_connected, k_scopes_expiresAt, k_scopes_remoteAddr, k_scopes_scopes, k_stats_canRead, k_stats_canWrite, k_stats_connected, k_stats_expiresAt, k_stats_remoteAddr, k_stats_scopes, k_stats_stats, k_topic_canRead, k_topic_canWrite, k_topic_connected, k_topic_expiresAt, k_topic_remoteAddr, k_topic_scopes, k_topic_stats, k_topic_topic, k_userAgent_canRead, k_userAgent_canWrite, k_userAgent_connected, k_userAgent_expiresAt, k_userAgent_remoteAddr, k_userAgent_scopes, k_userAgent_stats, k_userAgent_topic, k_userAgent_userAgent, k_canUread_canRead, k_canUread_canWrite, k_canUread_connected, k_canUread_expiresAt, k_canUread_remoteAddr, k_canUread_scopes, k_canUread_stats, k_canUread_topic, k_canUread_userAgent, k_canUwrite_canRead, k_canUwrite_canWrite, k_canUwrite_connected, k_canUwrite_expiresAt, k_canUwrite_remoteAddr, k_canUwrite_scopes, k_canUwrite_stats, k_canUwrite_topic, k_canUwrite_userAgent, k_expiresUat_canRead, k_expiresUat_canWrite, k_expiresUat_connected, k_expiresUat_expiresAt, k_expiresUat_remoteAddr, k_expiresUat_scopes, k_expiresUat_stats, k_expiresUat_topic, k_expiresUat_userAgent, k_remoteUaddr_canRead, k_remoteUaddr_canWrite, k_remoteUaddr_connected, k_remoteUaddr_expiresAt, k_remoteUaddr_remoteAddr, k_remoteUaddr_scopes, k_remoteUaddr_stats, k_remoteUaddr_topic, k_remoteUaddr_userAgent, k_userUagent_canRead, k_userUagent_canWrite, k_userUagent_connected, k_userUagent_expiresAt, k_userUagent_remoteAddr, k_userUagent_scopes, k_userUagent_stats, k_userUagent_topic, k_userUagent_userAgent, k_tx_tx, k_rx_tx, k_rx_rx, hd]
  have htopic : ∀ r : Report, r.topic = "" → List.foldlM assignReport r (optStr "topic" c.topic) =
      some { r with topic := c.topic } := by
    intro r hr
    by_cases hs : c.topic = ""
    · simp [optStr, hs, List.foldlM]; rw [← hr]
    · simp [optStr, hs, List.foldlM, assignReport, k_canRead_canRead, k_canWrite_canRead, k_canWrite_canWrite, k_connected_canRead, k_connected_canWrite, k_connected_connected, k_expiresAt_canRead, k_expiresAt_canWrite, k_expiresAt_connected, k_expiresAt_expiresAt, k_remoteAddr_canRead, k_remoteAddr_canWrite, k_remoteAddr_connected, k_remoteAddr_expiresAt, k_remoteAddr_remoteAddr, k_scopes_canRead, k_scopes_canWrite, k_scopes_connected, k_scopes_expiresAt, k_scopes_remoteAddr, k_scopes_scopes, k_stats_canRead, k_stats_canWrite, k_stats_connected, k_stats_expiresAt, k_stats_remoteAddr, k_stats_scopes, k_stats_stats, k_topic_canRead, k_topic_canWrite, k_topic_connected, k_topic_expiresAt, k_topic_remoteAddr, k_topic_scopes, k_topic_stats, k_topic_topic, k_userAgent_canRead, k_userAgent_canWrite, k_userAgent_connected, k_userAgent_expiresAt, k_userAgent_remoteAddr, k_userAgent_scopes, k_userAgent_stats, k_userAgent_topic, k_userAgent_userAgent, k_canUread_canRead, k_canUread_canWrite, k_canUread_connected, k_canUread_expiresAt, k_canUread_remoteAddr, k_canUread_scopes, k_canUread_stats, k_canUread_topic, k_canUread_userAgent, k_canUwrite_canRead, k_canUwrite_canWrite, k_canUwrite_connected, k_canUwrite_expiresAt, k_canUwrite_remoteAddr, k_canUwrite_scopes, k_canUwrite_stats, k_canUwrite_topic, k_canUwrite_userAgent, k_expiresUat_canRead, k_expiresUat_canWrite, k_expiresUat_connected, k_expiresUat_expiresAt, k_expiresUat_remoteAddr, k_expiresUat_scopes, k_expiresUat_stats, k_expiresUat_topic, k_expiresUat_userAgent, k_remoteUaddr_canRead, k_remoteUaddr_canWrite, k_remoteUaddr_connected, k_remoteUaddr_expiresAt, k_remoteUaddr_remoteAddr, k_remoteUaddr_scopes, k_remoteUaddr_stats, k_remoteUaddr_topic, k_remoteUaddr_userAgent, k_userUagent_canRead, k_userUagent_canWrite, k_userUagent_connected, k_userUagent_expiresAt, k_userUagent_remoteAddr, k_userUagent_scopes, k_userUagent_stats, k_userUagent_topic, k_userUagent_userAgent, k_tx_tx, k_rx_tx, k_rx_rx, decString]
  have hrx := rest_stats nar
  simp only [decodeReport, encodeRest, getStats, List.foldlM_append, hskipB _ _ _ (Or.inl rfl), hskipB _ _ _ (Or.inr rfl),
    hskipS _ _ _ (Or.inl rfl), hskipS _ _ _ (Or.inr (Or.inl rfl)), hskipS _ _ _ (Or.inr (Or.inr rfl)), hconn,
    Option.bind_eq_bind, Option.bind_some, List.foldlM_cons, List.foldlM_nil, assignReport, k_canRead_canRead, k_canWrite_canRead, k_canWrite_canWrite, k_connected_canRead, k_connected_canWrite, k_connected_connected, k_expiresAt_canRead, k_expiresAt_canWrite, k_expiresAt_connected, k_expiresAt_expiresAt, k_remoteAddr_canRead, k_remoteAddr_canWrite, k_remoteAddr_connected, k_remoteAddr_expiresAt, k_remoteAddr_remoteAddr, k_scopes_canRead, k_scopes_canWrite, k_scopes_connected, k_scopes_expiresAt, k_scopes_remoteAddr, k_scopes_scopes, k_stats_canRead, k_stats_canWrite, k_stats_connected, k_stats_expiresAt, k_stats_remoteAddr, k_stats_scopes, k_stats_stats, k_topic_canRead, k_topic_canWrite, k_topic_connected, k_topic_expiresAt, k_topic_remoteAddr, k_topic_scopes, k_topic_stats, k_topic_topic, k_userAgent_canRead, k_userAgent_canWrite, k_userAgent_connected, k_userAgent_expiresAt, k_userAgent_remoteAddr, k_userAgent_scopes, k_userAgent_stats, k_userAgent_topic, k_userAgent_userAgent, k_canUread_canRead, k_canUread_canWrite, k_canUread_connected, k_canUread_expiresAt, k_canUread_remoteAddr, k_canUread_scopes, k_canUread_stats, k_canUread_topic, k_canUread_userAgent, k_canUwrite_canRead, k_canUwrite_canWrite, k_canUwrite_connected, k_canUwrite_expiresAt, k_canUwrite_remoteAddr, k_canUwrite_scopes, k_canUwrite_stats, k_canUwrite_topic, k_canUwrite_userAgent, k_expiresUat_canRead, k_expiresUat_canWrite, k_expiresUat_connected, k_expiresUat_expiresAt, k_expiresUat_remoteAddr, k_expiresUat_scopes, k_expiresUat_stats, k_expiresUat_topic, k_expiresUat_userAgent, k_remoteUaddr_canRead, k_remoteUaddr_canWrite, k_remoteUaddr_connected, k_remoteUaddr_expiresAt, k_remoteUaddr_remoteAddr, k_remoteUaddr_scopes, k_remoteUaddr_stats, k_remoteUaddr_topic, k_remoteUaddr_userAgent, k_userUagent_canRead, k_userUagent_canWrite, k_userUagent_connected, k_userUagent_expiresAt, k_userUagent_remoteAddr, k_userUagent_scopes, k_userUagent_stats, k_userUagent_topic, k_userUagent_userAgent, k_tx_tx, k_rx_tx, k_rx_rx,
    if_true, if_false, Bool.false_eq_true, decStrings_encodeScopes, Option.map_some,
    hrx _ c.rx hwf.rx, hrx _ c.tx hwf.tx, bind_pure_comp, pure, Option.pure_def]
  rw [htopic _ rfl]
  rfl

/-- the full statement for the REST body … -/
def RestRoundtrip : Prop :=
  ∀ (nar : Nat → Nat) (c : Conn), c.wf → c.finite → c.yearsInRange →
    ∃ r, decodeReport (encodeRest nar (getStats c)) = some r ∧
      r.canRead = c.canRead ∧ r.canWrite = c.canWrite ∧ r.expiresAt = c.expiresAt ∧
      r.remoteAddr = c.remoteAddr ∧ r.userAgent = c.userAgent

/-- a readable member connected from 10.0.0.1 whose token expires on 2023-11-14T23:13:20Z -/
def restConn : Conn :=
  { topic := "123", canRead := true, canWrite := false, connected := ⟨1700000001, 2⟩,
    expiresAt := ⟨1700003600, 0⟩, remoteAddr := "10.0.0.1", scopes := some ["read"],
    userAgent := "Go-http-client/1.1", tx := ⟨0, 0, 0, 0⟩, rx := ⟨0, 0, 0, 0⟩ }

/-- … is false: through `GET /status` the published client sees every member as neither readable
    nor writable, with the zero expiry and no address / user agent -/
theorem not_RestRoundtrip : ¬ RestRoundtrip := by
  intro h
  have hwf : restConn.wf := ⟨⟨by decide, by decide⟩, ⟨by decide, by decide⟩, by decide, by decide⟩
  have hy : restConn.yearsInRange := ⟨by decide, by decide⟩
  obtain ⟨r, hr, h1, _⟩ := h id restConn hwf ⟨fun h => absurd h (by decide), fun h => absurd h (by decide)⟩ hy
  rw [rest_decoded_by_status_client id restConn hwf hy.1] at hr
  injection hr with hr
  subst hr
  exact absurd h1 (by decide)

/-! ### the numeric form of `last` and non-vacuity -/

/-- a numeric `last` (what re-marshalled client reports contain) is taken as nanoseconds, and
    leaves `Never` as it was -/
theorem numeric_last_is_ns (cur : Statistics) (n : Int) (size fps : Nat) (hlo : -2 ^ 63 ≤ n) (hhi : n < 2 ^ 63) :
    decodeStatistics cur (.obj [("last", .num (.int n)), ("size", .num (.f64 size)), ("fps", .num (.f64 fps))]) =
      some { last := n, size := .d size, fps := .d fps, never := cur.never } := by
  have k1 : keyIs "last" "last" = true := by decide
  have k2 : keyIs "size" "last" = false := by decide
  have k3 : keyIs "size" "size" = true := by decide
  have k4 : keyIs "fps" "last" = false := by decide
  have k5 : keyIs "fps" "size" = false := by decide
  have k6 : keyIs "fps" "fps" = true := by decide
  have hs : decTmpS (.obj [("last", .num (.int n)), ("size", .num (.f64 size)), ("fps", .num (.f64 fps))]) = none := by
    simp [decTmpS, List.foldlM, assignTmpS, k1, decString]
  have hn : decTmpN (.obj [("last", .num (.int n)), ("size", .num (.f64 size)), ("fps", .num (.f64 fps))]) =
      some { last := n, size := .d size, fps := .d fps } := by
    have hr : -9223372036854775808 ≤ n ∧ n < 9223372036854775808 := by
      have h63 : (2 : Int) ^ 63 = 9223372036854775808 := by decide
      omega
    simp [decTmpN, List.foldlM, assignTmpN, k1, k2, k3, k4, k5, k6, decInt64, decFloat, hr]
  simp [decodeStatistics, hs, hn]

/-- a concrete member: reader/writer on topic "123", user agent with a quote, last sent 2.90373838 s
    ago, never received; the report is `…"stats":{"tx":{"last":"2.90373838s",…},"rx":{"last":"Never",…}}…` -/
def sampleConn : Conn :=
  { topic := "123", canRead := true, canWrite := true, connected := ⟨1678457085, 294633437⟩,
    expiresAt := ⟨1678457115, 0⟩, remoteAddr := "10.0.0.1, 192.168.0.7", scopes := some ["read", "write"],
    userAgent := "a\"b", tx := ⟨3, 2903738380, 4617315517961601024, 4626374886658797765⟩, rx := ⟨0, 0, 0, 0⟩ }

example : (getStats sampleConn).connected = "2023-03-10T14:04:45.294633437Z" ∧
    (getStats sampleConn).tx.last = "2.90373838s" ∧ (getStats sampleConn).rx.last = "Never" := by decide

example : decodeReport (encodeReport (getStats sampleConn)) = some (view sampleConn) ∧
    (view sampleConn).rx.never = true ∧ (view sampleConn).tx.last = 2903738380 := by decide

end Status
