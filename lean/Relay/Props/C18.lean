import Relay.Model.VwApi
import Relay.Lemmas.VwJson

/-!
# C18 — the host's control interfaces answer every command and survive every input

All theorems quantify over every state, every decoded command / request and every sequence.
`marshal : JVal → String` stands for `json.Marshal`; the only thing assumed about it is
`MarshalOk marshal` (it returns a valid JSON text for the string-only values the API gives it).
Everything the Go code builds *itself* (byte literals, the `{"feeds":` … `}` concatenation) is
proved valid by construction against the grammar in `Relay.Lemmas.VwJson`.

* `api_total_valid`        no panic ∧ reply valid JSON ∧ (error → rules unchanged), any state, any command
* `api_loop_reply_valid`   the same for what the `internalAPI` goroutine finally broadcasts
                           (error replies are `json.Marshal(map{"error": …})`)
* `invalid_command_noop`   a command outside the documented grammar is answered with an error, state unchanged
* `handle_err_iff`         exactly which commands are answered with an error
* `invalid_commands_skippable`  dropping all invalid commands from a sequence does not change the final rules
* `apirule_protected`      `Opts.API ≠ ""`: after ANY command sequence the rule `apiRule` exists
* `apirule_intact_without_add`  … and is still `{api, Opts.API, apiRule}` unless a command re-added that id
* `apirule_recreated_by_delete_all`, `no_apirule_without_api_after_delete_all`
* `http_total_valid`, `http_error_noop`   the ten HTTP rule handlers
* `ops_total`              at every point of every interleaving of commands and requests the next one is answered
* `add_without_rule_panics_without_nilcheck`, `apirule_bypass_without_alias`  the theorems are not vacuous:
                           the two un-repaired variants of the dispatcher violate them with a concrete command
-/

namespace VwApi
open KV VwJson

/-- **Assumption about `encoding/json`** (not modelled): `json.Marshal` of the values the control
    API passes to it — all built from strings, string slices and string-keyed maps — yields a JSON text. -/
def MarshalOk (marshal : JVal → String) : Prop := ∀ v, ValidJson (marshal v)

/-- the replies the dispatcher can build: `json.Marshal v`, two byte literals, one concatenation -/
def Reply.built : Reply → Bool
  | .lit s => s == "{\"healthcheck\":\"ok\"}" || s == "{\"deleted\":\"deleteAll\"}"
  | .marshal _ => true
  | .wrap pre _ post => pre == "{\"feeds\":" && post == "}"

theorem lit_healthcheck_valid : ValidJson "{\"healthcheck\":\"ok\"}" := by
  have h := isJson_obj1_str "healthcheck".toList "ok".toList (by decide) (by decide)
  simpa [ValidJson] using h

theorem lit_deleted_valid : ValidJson "{\"deleted\":\"deleteAll\"}" := by
  have h := isJson_obj1_str "deleted".toList "deleteAll".toList (by decide) (by decide)
  simpa [ValidJson] using h

/-- `{"feeds":` ++ (any JSON text) ++ `}` is a JSON text -/
theorem wrap_feeds_valid (m : String) (hm : ValidJson m) : ValidJson ("{\"feeds\":" ++ m ++ "}") := by
  have h := validJson_wrap_obj1 "feeds" m (by decide) hm
  have e : ("{\"" ++ "feeds" ++ "\":" : String) = "{\"feeds\":" := by decide
  rw [e] at h
  exact h

theorem built_valid (marshal : JVal → String) (hM : MarshalOk marshal) (r : Reply)
    (h : r.built = true) : ValidJson (r.text marshal) := by
  cases r with
  | lit s =>
    simp only [Reply.built, Bool.or_eq_true, beq_iff_eq] at h
    rcases h with h | h <;> subst h
    · exact lit_healthcheck_valid
    · exact lit_deleted_valid
  | marshal v => exact hM v
  | wrap pre v post =>
    simp only [Reply.built, Bool.and_eq_true, beq_iff_eq] at h
    obtain ⟨h1, h2⟩ := h
    subst h1; subst h2
    exact wrap_feeds_valid _ (hM v)

/-- what every branch of the dispatcher guarantees -/
def Good (st : AppState) (p : AppState × Res) : Prop :=
  (∀ k, p.2 ≠ .panic k) ∧ (∀ r, p.2 = .ok r → r.built = true) ∧ (∀ m, p.2 = .err m → p.1 = st) ∧
  p.1.api = st.api

theorem good_err (st : AppState) (m : String) : Good st (st, .err m) := by
  unfold Good; simp

theorem good_ok (st st' : AppState) (r : Reply) (h : r.built = true) (ha : st'.api = st.api) :
    Good st (st', .ok r) := by
  unfold Good; simp [h, ha]

theorem destAdd_good (st : AppState) (rule : Option RuleJson) : Good st (destAdd current st rule) := by
  unfold destAdd
  split
  · simp only [current, if_true]; exact good_err _ _
  · split
    · exact good_err _ _
    · exact good_ok _ _ _ rfl rfl

theorem streamAdd_good (st : AppState) (rule : Option RuleJson) : Good st (streamAdd current st rule) := by
  unfold streamAdd
  split
  · simp only [current, if_true]; exact good_err _ _
  · split
    · exact good_err _ _
    · exact good_ok _ _ _ rfl rfl

theorem destDeleteAll_api (st : AppState) : (destDeleteAll st).api = st.api := rfl

theorem destDelete_good (v : Variant) (st : AppState) (which : String) : Good st (destDelete v st which) := by
  unfold destDelete
  split
  · exact good_err _ _
  · split
    · exact good_ok _ _ _ rfl rfl
    · split
      · exact good_ok _ _ _ rfl rfl
      · exact good_err _ _

theorem destList_good (st : AppState) (which : String) : Good st (destList st which) := by
  unfold destList
  split <;> exact good_ok _ _ _ rfl rfl

theorem streamDelete_good (st : AppState) (which : String) : Good st (streamDelete st which) := by
  unfold streamDelete
  split <;> exact good_ok _ _ _ rfl rfl

theorem streamList_good (st : AppState) (which : String) : Good st (streamList st which) := by
  unfold streamList
  split
  · exact good_err _ _
  · split <;> exact good_ok _ _ _ rfl rfl

theorem handle_good (st : AppState) (c : Cmd) : Good st (handle st c) := by
  unfold handle handleV
  split
  · exact good_err _ _
  · split
    · exact good_ok _ _ _ rfl rfl
    · split
      · split
        · exact destAdd_good _ _
        · split
          · exact destDelete_good _ _ _
          · split
            · exact destList_good _ _
            · exact good_err _ _
      · split
        · split
          · exact streamAdd_good _ _
          · split
            · exact streamDelete_good _ _
            · split
              · exact streamList_good _ _
              · exact good_err _ _
        · exact good_err _ _

/-- **C18 (i)** `handleAdminMessage` is total, every reply it returns is valid JSON, and a command
    answered with an error leaves all rules as they were — for every state and every decoded command. -/
theorem api_total_valid (marshal : JVal → String) (hM : MarshalOk marshal) (st : AppState) (c : Cmd) :
    (∀ k, (handle st c).2 ≠ .panic k) ∧
    (∀ r, (handle st c).2 = .ok r → ValidJson (r.text marshal)) ∧
    (∀ m, (handle st c).2 = .err m → (handle st c).1 = st) := by
  obtain ⟨h1, h2, h3, _⟩ := handle_good st c
  exact ⟨h1, fun r hr => built_valid marshal hM r (h2 r hr), h3⟩

/-- **C18 (i')** what the `internalAPI` goroutine broadcasts: there always is a reply (the goroutine
    does not die), it is valid JSON (result or `{"error":…}` object), error ⇒ rules unchanged. -/
theorem api_loop_reply_valid (marshal : JVal → String) (hM : MarshalOk marshal) (st : AppState) (c : Cmd) :
    ∃ rep, loopReply (handle st c).2 = some rep ∧ ValidJson (rep.text marshal) ∧
      ((handle st c).2.isErr = true → (handle st c).1 = st) := by
  obtain ⟨h1, h2, h3, _⟩ := handle_good st c
  cases hres : (handle st c).2 with
  | ok r => exact ⟨r, rfl, built_valid marshal hM r (h2 r hres), fun h => by simp [Res.isErr] at h⟩
  | err m => exact ⟨.marshal (.error m), rfl, hM _, fun _ => h3 m hres⟩
  | panic k => exact absurd hres (h1 k)

/-! ### invalid commands -/

/-- a well-formed `delete destination apiRule` — the one documented command that is refused -/
def Cmd.refusedDelete (c : Cmd) : Bool :=
  !c.decodeErr && c.verb != "healthcheck" && c.what == "destination" && c.verb == "delete" && c.which == "apiRule"

/-- brute-force characterisation of the error answers, by cases on every comparison the
    dispatcher makes -/
theorem handle_isErr (st : AppState) (c : Cmd) :
    (handle st c).2.isErr = (!c.wellFormed || c.refusedDelete) := by
  obtain ⟨de, verb, what, which, rule⟩ := c
  cases de
  · by_cases hv : verb = "healthcheck"
    · subst hv
      simp [handle, handleV, Cmd.wellFormed, Cmd.refusedDelete, Res.isErr]
    · by_cases hwd : what = "destination"
      · subst hwd
        by_cases ha : verb = "add"
        · subst ha
          cases rule with
          | none => simp [handle, handleV, destAdd, current, Cmd.wellFormed, Cmd.refusedDelete, Res.isErr]
          | some rj =>
            cases hdj : rj.asDest <;>
              simp [handle, handleV, destAdd, Cmd.wellFormed, Cmd.refusedDelete, Res.isErr, hdj]
        · by_cases hde : verb = "delete"
          · subst hde
            by_cases h1 : which = ""
            · subst h1
              simp [handle, handleV, destDelete, Cmd.wellFormed, Cmd.refusedDelete, Res.isErr]
            · by_cases h2 : which = "all"
              · subst h2
                simp [handle, handleV, destDelete, Cmd.wellFormed, Cmd.refusedDelete, Res.isErr]
              · by_cases h3 : which = "deleteAll"
                · subst h3
                  simp [handle, handleV, destDelete, current, Cmd.wellFormed, Cmd.refusedDelete, Res.isErr]
                · by_cases h4 : which = "apiRule"
                  · subst h4
                    simp [handle, handleV, destDelete, current, Cmd.wellFormed, Cmd.refusedDelete, Res.isErr]
                  · simp [handle, handleV, destDelete, current, Cmd.wellFormed, Cmd.refusedDelete, Res.isErr,
                      h1, h2, h3, h4]
          · by_cases hl : verb = "list"
            · subst hl
              by_cases h2 : which = "all" <;>
                simp [handle, handleV, destList, Cmd.wellFormed, Cmd.refusedDelete, Res.isErr, h2]
            · simp [handle, handleV, Cmd.wellFormed, Cmd.refusedDelete, Res.isErr, hv, ha, hde, hl]
      · by_cases hws : what = "stream"
        · subst hws
          by_cases ha : verb = "add"
          · subst ha
            cases rule with
            | none => simp [handle, handleV, streamAdd, current, Cmd.wellFormed, Cmd.refusedDelete, Res.isErr]
            | some rj =>
              cases hdj : rj.asStream <;>
                simp [handle, handleV, streamAdd, Cmd.wellFormed, Cmd.refusedDelete, Res.isErr, hdj]
          · by_cases hde : verb = "delete"
            · subst hde
              by_cases h2 : which = "all" <;>
                simp [handle, handleV, streamDelete, Cmd.wellFormed, Cmd.refusedDelete, Res.isErr, h2]
            · by_cases hl : verb = "list"
              · subst hl
                by_cases h1 : which = ""
                · subst h1
                  simp [handle, handleV, streamList, Cmd.wellFormed, Cmd.refusedDelete, Res.isErr]
                · by_cases h2 : which = "all" <;>
                    simp [handle, handleV, streamList, Cmd.wellFormed, Cmd.refusedDelete, Res.isErr, h1, h2]
              · simp [handle, handleV, Cmd.wellFormed, Cmd.refusedDelete, Res.isErr, hv, ha, hde, hl]
        · simp [handle, handleV, Cmd.wellFormed, Cmd.refusedDelete, Res.isErr, hv, hwd, hws]
  · simp [handle, handleV, Cmd.wellFormed, Cmd.refusedDelete, Res.isErr]

/-- **C18 (ii')** exactly the commands outside the documented grammar, plus `delete destination apiRule`,
    are answered with an error. -/
theorem handle_err_iff (st : AppState) (c : Cmd) :
    (handle st c).2.isErr = true ↔ (c.wellFormed = false ∨ c.refusedDelete = true) := by
  rw [handle_isErr]; simp

/-- **C18 (ii)** a command outside the documented grammar (not JSON, wrong types, unknown verb/what,
    `add` without a decodable rule, missing `which` where one is required) is answered with an error
    and changes nothing. -/
theorem invalid_command_noop (st : AppState) (c : Cmd) (h : c.wellFormed = false) :
    (handle st c).1 = st ∧ ∃ m, (handle st c).2 = .err m := by
  have he : (handle st c).2.isErr = true := (handle_err_iff st c).2 (Or.inl h)
  cases hres : (handle st c).2 with
  | ok r => rw [hres] at he; simp [Res.isErr] at he
  | panic k => rw [hres] at he; simp [Res.isErr] at he
  | err m => exact ⟨(handle_good st c).2.2.1 m hres, m, rfl⟩

/-- the refused delete of the control connection's own rule -/
theorem refused_delete_noop (st : AppState) (c : Cmd) (h : c.refusedDelete = true) :
    handle st c = (st, .err errNoDeleteAPIRule) := by
  simp only [Cmd.refusedDelete, Bool.and_eq_true, Bool.not_eq_true', bne_iff_ne, ne_eq, beq_iff_eq] at h
  obtain ⟨⟨⟨⟨h1, h2⟩, h3⟩, h4⟩, h5⟩ := h
  simp [handle, handleV, destDelete, h1, h3, h4, h5, current]

/-- a documented command other than the refused delete succeeds -/
theorem wellformed_ok (st : AppState) (c : Cmd) (h : c.wellFormed = true) (hr : c.refusedDelete = false) :
    ∃ r, (handle st c).2 = .ok r := by
  have he : (handle st c).2.isErr = false := by rw [handle_isErr, h, hr]; rfl
  cases hres : (handle st c).2 with
  | ok r => exact ⟨r, rfl⟩
  | panic k => exact absurd hres ((handle_good st c).1 k)
  | err m => rw [hres] at he; simp [Res.isErr] at he

/-- **C18 (ii'')** in any command sequence the invalid commands may be dropped: the final rule
    state is the same. -/
theorem invalid_commands_skippable (st : AppState) (cs : List Cmd) :
    run st (cs.filter Cmd.wellFormed) = run st cs := by
  unfold run
  induction cs generalizing st with
  | nil => rfl
  | cons c cs ih =>
    by_cases hw : c.wellFormed = true
    · simp only [List.filter_cons, hw, if_true, List.foldl_cons]
      exact ih _
    · have hw' : c.wellFormed = false := by simpa using hw
      simp only [List.filter_cons, hw', Bool.false_eq_true, if_false, List.foldl_cons]
      rw [(invalid_command_noop st c hw').1]
      exact ih _

/-! ### the control connection's own rule -/

theorem handle_api (st : AppState) (c : Cmd) : (handle st c).1.api = st.api := (handle_good st c).2.2.2

theorem has_rwcAdd_apirule (m : KV DestRule) (r : DestRule) (h : has m "apiRule" = true) :
    has (rwcAdd m r) "apiRule" = true := by
  unfold rwcAdd
  split
  · exact h
  · by_cases hk : r.id = "apiRule"
    · rw [hk]; exact has_insert_self _ _ _
    · rw [has_insert_ne m r hk]; exact h

theorem has_destDeleteAll (st : AppState) (hapi : st.api ≠ "") :
    has (destDeleteAll st).dest "apiRule" = true := by
  simp only [destDeleteAll, hapi, ne_eq, not_false_eq_true, if_true]
  simp [rwcAdd, apiRule, KV.has, KV.insert, KV.lookup]

theorem handle_keeps_apirule (st : AppState) (c : Cmd) (hapi : st.api ≠ "")
    (h : has st.dest "apiRule" = true) : has (handle st c).1.dest "apiRule" = true := by
  unfold handle handleV
  split
  · exact h
  · split
    · exact h
    · split
      · split
        · unfold destAdd
          split
          · simp only [current, if_true]; exact h
          · split
            · exact h
            · exact has_rwcAdd_apirule _ _ h
        · split
          · unfold destDelete
            split
            · exact h
            · split
              · exact has_destDeleteAll st hapi
              · rename_i hall
                split
                · rename_i hne
                  have hnd : ¬ c.which = "deleteAll" := by
                    intro e; apply hall; exact Or.inr ⟨rfl, e⟩
                  simp only [rwcDelete, hnd, if_false]
                  rw [has_erase_ne st.dest hne]; exact h
                · exact h
          · split
            · unfold destList; split <;> exact h
            · exact h
      · split
        · split
          · unfold streamAdd
            split
            · simp only [current, if_true]; exact h
            · split <;> exact h
          · split
            · unfold streamDelete; split <;> exact h
            · split
              · unfold streamList
                split
                · exact h
                · split <;> exact h
              · exact h
        · exact h

/-- general form: from any state that has `Opts.API` set and holds the rule -/
theorem run_keeps_apirule (st : AppState) (cs : List Cmd) (hapi : st.api ≠ "")
    (h : has st.dest "apiRule" = true) :
    has (run st cs).dest "apiRule" = true ∧ (run st cs).api = st.api := by
  unfold run
  induction cs generalizing st with
  | nil => exact ⟨h, rfl⟩
  | cons c cs ih =>
    simp only [List.foldl_cons]
    have ha := handle_api st c
    obtain ⟨h1, h2⟩ := ih (handle st c).1 (by rw [ha]; exact hapi) (handle_keeps_apirule st c hapi h)
    exact ⟨h1, by rw [h2, ha]⟩

theorem start_has_apirule (api : String) (hapi : api ≠ "") : has (start api).dest "apiRule" = true := by
  simp [start, hapi, rwcAdd, apiRule, KV.has, KV.insert, KV.lookup]

/-- **C18 (iii)** with `Opts.API ≠ ""`, after ANY sequence of websocket commands — valid or not,
    including `delete … all`, `delete … deleteAll`, `delete … apiRule`, `add` with id `apiRule` or
    `deleteAll` — a rule with id `apiRule` exists. (An `add` with that id replaces it: allowed.) -/
theorem apirule_protected (api : String) (hapi : api ≠ "") (cs : List Cmd) :
    has (run (start api) cs).dest "apiRule" = true :=
  (run_keeps_apirule (start api) cs (by simpa [start] using hapi) (start_has_apirule api hapi)).1

/-- the command carries a rule that decodes as a destination rule with id `apiRule` -/
def Cmd.carriesApiRule (c : Cmd) : Bool :=
  match c.rule with
  | some rj => (match rj.asDest with | .ok r => r.id == "apiRule" | .error _ => false)
  | none => false

theorem lookup_destDeleteAll (st : AppState) (hapi : st.api ≠ "") :
    lookup (destDeleteAll st).dest "apiRule" = some (apiRule st.api) := by
  simp only [destDeleteAll, hapi, ne_eq, not_false_eq_true, if_true]
  simp [rwcAdd, rwcDelete, apiRule, KV.insert, KV.lookup, KV.erase]

theorem handle_keeps_apirule_intact (st : AppState) (c : Cmd) (hapi : st.api ≠ "")
    (hc : c.carriesApiRule = false)
    (h : lookup st.dest "apiRule" = some (apiRule st.api)) :
    lookup (handle st c).1.dest "apiRule" = some (apiRule st.api) := by
  unfold handle handleV
  split
  · exact h
  · split
    · exact h
    · split
      · split
        · unfold destAdd
          split
          · simp only [current, if_true]; exact h
          · rename_i rj hrule
            split
            · exact h
            · rename_i r hdj
              have hid : ¬ r.id = "apiRule" := by
                simpa [Cmd.carriesApiRule, hrule, hdj] using hc
              simp only [rwcAdd]
              split
              · exact h
              · rw [lookup_insert_ne st.dest _ hid]; exact h
        · split
          · unfold destDelete
            split
            · exact h
            · split
              · exact lookup_destDeleteAll st hapi
              · rename_i hall
                split
                · rename_i hne
                  have hnd : ¬ c.which = "deleteAll" := by
                    intro e; apply hall; exact Or.inr ⟨rfl, e⟩
                  simp only [rwcDelete, hnd, if_false]
                  rw [lookup_erase_ne st.dest hne]; exact h
                · exact h
          · split
            · unfold destList; split <;> exact h
            · exact h
      · split
        · split
          · unfold streamAdd
            split
            · simp only [current, if_true]; exact h
            · split <;> exact h
          · split
            · unfold streamDelete; split <;> exact h
            · split
              · unfold streamList
                split
                · exact h
                · split <;> exact h
              · exact h
        · exact h

/-- **C18 (iii')** … and unless some command re-adds a rule under the id `apiRule`, the rule is still
    exactly the one created at start-up: `{stream: api, destination: Opts.API, id: apiRule}`. -/
theorem apirule_intact_without_add (api : String) (hapi : api ≠ "") (cs : List Cmd)
    (hcs : ∀ c ∈ cs, c.carriesApiRule = false) :
    lookup (run (start api) cs).dest "apiRule" = some (apiRule api) := by
  suffices ∀ st : AppState, st.api = api → lookup st.dest "apiRule" = some (apiRule api) →
      lookup (run st cs).dest "apiRule" = some (apiRule api) by
    apply this (start api) rfl
    simp [start, hapi, rwcAdd, apiRule, KV.insert, KV.lookup]
  intro st hst h
  unfold run
  induction cs generalizing st with
  | nil => exact h
  | cons c cs ih =>
    simp only [List.foldl_cons]
    apply ih (fun c' hc' => hcs c' (List.mem_cons_of_mem _ hc')) (handle st c).1
    · rw [handle_api, hst]
    · have := handle_keeps_apirule_intact st c (by rw [hst]; exact hapi)
        (hcs c (List.mem_cons_self ..)) (by rw [hst]; exact h)
      rw [hst] at this; exact this

/-- a decoded `delete destination all` / `delete destination deleteAll` -/
def Cmd.isDestDeleteAll (c : Cmd) : Bool :=
  !c.decodeErr && c.verb == "delete" && c.what == "destination" && (c.which == "all" || c.which == "deleteAll")

theorem handle_destDeleteAll (st : AppState) (c : Cmd) (h : c.isDestDeleteAll = true) :
    handle st c = (destDeleteAll st, .ok (.lit "{\"deleted\":\"deleteAll\"}")) := by
  simp only [Cmd.isDestDeleteAll, Bool.and_eq_true, Bool.not_eq_true', Bool.or_eq_true, beq_iff_eq] at h
  obtain ⟨⟨⟨h1, h2⟩, h3⟩, h4⟩ := h
  rcases h4 with h4 | h4 <;> simp [handle, handleV, destDelete, h1, h2, h3, h4, current]

/-- **C18 (iii'')** delete-all over the control connection removes every destination rule and
    re-creates the connection's own rule — whatever was there before. -/
theorem apirule_recreated_by_delete_all (st : AppState) (c : Cmd) (hapi : st.api ≠ "")
    (h : c.isDestDeleteAll = true) :
    (handle st c).1.dest = [("apiRule", apiRule st.api)] := by
  rw [handle_destDeleteAll st c h]
  simp [destDeleteAll, hapi, rwcAdd, rwcDelete, apiRule, KV.insert, KV.erase]

/-- … and with `Opts.API = ""` nothing is re-created: a user rule that happens to be called `apiRule`
    cannot be deleted on its own (`refused_delete_noop`) but goes with delete-all. -/
theorem no_apirule_without_api_after_delete_all (st : AppState) (c : Cmd) (hapi : st.api = "")
    (h : c.isDestDeleteAll = true) : (handle st c).1.dest = [] := by
  rw [handle_destDeleteAll st c h]
  simp [destDeleteAll, hapi, rwcDelete]

/-! ### the HTTP rule handlers -/

/-- **C18 (iv)** every request that reaches one of the HTTP rule handlers gets a complete response:
    the handler returns (no panic branch exists), with status 200, 404 or 500; a body sent as
    `application/json` comes with status 200 and is valid JSON; any other status leaves the rules
    unchanged. -/
theorem http_total_valid (marshal : JVal → String) (hM : MarshalOk marshal) (st : AppState) (req : HttpReq) :
    ((httpHandle st req).2.status = 200 ∨ (httpHandle st req).2.status = 404 ∨ (httpHandle st req).2.status = 500) ∧
    (∀ r, (httpHandle st req).2.body = .json r → (httpHandle st req).2.status = 200 ∧ ValidJson (r.text marshal)) ∧
    ((httpHandle st req).2.status ≠ 200 → (httpHandle st req).1 = st) ∧
    (httpHandle st req).1.api = st.api := by
  have ok : ∀ (st' : AppState) (v : JVal), st'.api = st.api →
      ((st', httpOk v).2.status = 200 ∨ (st', httpOk v).2.status = 404 ∨ (st', httpOk v).2.status = 500) ∧
      (∀ r, (st', httpOk v).2.body = .json r → (st', httpOk v).2.status = 200 ∧ ValidJson (r.text marshal)) ∧
      ((st', httpOk v).2.status ≠ 200 → (st', httpOk v).1 = st) ∧ (st', httpOk v).1.api = st.api := by
    intro st' v ha
    refine ⟨Or.inl rfl, ?_, fun h => absurd rfl h, ha⟩
    intro r hr
    simp only [httpOk, Body.json.injEq] at hr
    subst hr
    exact ⟨rfl, hM v⟩
  have er : ∀ (e : String) (code : Nat), code = 404 ∨ code = 500 →
      ((st, httpError e code).2.status = 200 ∨ (st, httpError e code).2.status = 404 ∨ (st, httpError e code).2.status = 500) ∧
      (∀ r, (st, httpError e code).2.body = .json r → (st, httpError e code).2.status = 200 ∧ ValidJson (r.text marshal)) ∧
      ((st, httpError e code).2.status ≠ 200 → (st, httpError e code).1 = st) ∧ (st, httpError e code).1.api = st.api := by
    intro e code hc
    refine ⟨Or.inr hc, ?_, fun _ => rfl, rfl⟩
    intro r hr
    simp [httpError] at hr
  cases req with
  | destShowAll => exact ok _ _ rfl
  | destShow id => exact ok _ _ rfl
  | destAdd body =>
    cases body with
    | error e => exact er e 500 (Or.inr rfl)
    | ok r => exact ok _ _ rfl
  | destDelete id => exact ok _ _ rfl
  | destDeleteAll => exact ok _ _ rfl
  | streamShowAll => exact ok _ _ rfl
  | streamShow s =>
    simp only [httpHandle]
    split
    · exact ok _ _ rfl
    · exact er _ 404 (Or.inl rfl)
  | streamAdd body =>
    cases body with
    | error e => exact er e 500 (Or.inr rfl)
    | ok r => exact ok _ _ rfl
  | streamDelete s => exact ok _ _ rfl
  | streamDeleteAll => exact ok _ _ rfl
  | api =>
    refine ⟨Or.inl rfl, ?_, fun h => absurd rfl h, rfl⟩
    intro r hr
    simp [httpHandle] at hr

/-- **C18 (iv')** a POST body that `json.Unmarshal` rejects (not JSON, wrong types) is answered
    500 with the decoder's message and changes nothing. -/
theorem http_error_noop (st : AppState) (e : String) :
    httpHandle st (.destAdd (.error e)) = (st, ⟨500, .text (e ++ "\n")⟩) ∧
    httpHandle st (.streamAdd (.error e)) = (st, ⟨500, .text (e ++ "\n")⟩) := ⟨rfl, rfl⟩

/-- the HTTP interface is *not* covered by the apiRule protection (it is the host-local interface):
    `DELETE /api/destinations/apiRule` removes the rule. -/
theorem http_can_delete_apirule (api : String) :
    has (httpHandle (start api) (.destDelete "apiRule")).1.dest "apiRule" = false := by
  simp [httpHandle, rwcDelete]

/-- the next operation is answered properly in state `st` -/
def Answered (marshal : JVal → String) (st : AppState) : Op → Prop
  | .ws c => ∃ rep, loopReply (handle st c).2 = some rep ∧ ValidJson (rep.text marshal)
  | .http r =>
      ((httpHandle st r).2.status = 200 ∨ (httpHandle st r).2.status = 404 ∨ (httpHandle st r).2.status = 500) ∧
      ∀ rep, (httpHandle st r).2.body = .json rep → ValidJson (rep.text marshal)

/-- **C18 (v)** sequences: at every point of every interleaving of websocket commands and HTTP
    requests (any bytes, any order, any length) the next operation is answered; `Opts.API` never changes. -/
theorem ops_total (marshal : JVal → String) (hM : MarshalOk marshal) (st : AppState) (pre : List Op) (op : Op) :
    Answered marshal (runOps st pre) op ∧ (runOps st pre).api = st.api := by
  constructor
  · cases op with
    | ws c =>
      obtain ⟨rep, h1, h2, _⟩ := api_loop_reply_valid marshal hM (runOps st pre) c
      exact ⟨rep, h1, h2⟩
    | http r =>
      obtain ⟨h1, h2, _, _⟩ := http_total_valid marshal hM (runOps st pre) r
      exact ⟨h1, fun rep hr => (h2 rep hr).2⟩
  · unfold runOps
    induction pre generalizing st with
    | nil => rfl
    | cons o os ih =>
      simp only [List.foldl_cons]
      rw [ih]
      cases o with
      | ws c => exact handle_api st c
      | http r => exact (http_total_valid marshal hM st r).2.2.2

/-! ### the theorems are not vacuous: the un-repaired dispatchers violate them -/

/-- before 9ae98e0: `{"verb":"add","what":"stream"}` dereferences the nil rule (and the API
    goroutine has no `recover`) -/
theorem add_without_rule_panics_without_nilcheck :
    (handleV { nilCheck := false } {} { verb := "add", what := "stream" }).2 = .panic "nil-deref" ∧
    loopReply (handleV { nilCheck := false } {} { verb := "add", what := "destination" }).2 = none := by
  constructor <;> simp [handleV, streamAdd, destAdd, loopReply]

/-- before 0014876: `{"verb":"delete","what":"destination","which":"deleteAll"}` took the default
    branch, reached the hub as the reserved id and removed every rule including `apiRule`, which was
    not re-created -/
theorem apirule_bypass_without_alias :
    has (handleV { deleteAllAlias := false } (start "wss://relay/api")
          { verb := "delete", what := "destination", which := "deleteAll" }).1.dest "apiRule" = false := by
  decide

/-! ### concrete runs -/

example :
    let add00 : Cmd := { verb := "add", what := "destination",
                         rule := some { asDest := .ok { id := "00", stream := "/s", destination := "ws://d" },
                                        asStream := .ok { stream := "/s" } } }
    let cs : List Cmd :=
      [ add00,
        { verb := "delete", what := "destination", which := "apiRule" },     -- refused
        { decodeErr := true },                                                -- not JSON
        { verb := "delete", what := "destination", which := "deleteAll" },    -- delete-all, apiRule re-created
        { verb := "add", what := "stream", rule := none },                    -- bad command
        add00 ]
    (run (start "wss://relay/api") cs).dest =
      [("00", { id := "00", stream := "s", destination := "ws://d" }), ("apiRule", apiRule "wss://relay/api")] := by
  decide

example :
    (handle { streams := [("v", some ["a", "b"])] } { verb := "list", what := "stream", which := "v" }).2.isErr = false ∧
    (handle {} { verb := "list", what := "stream", which := "" }).2.isErr = true := by
  decide

end VwApi
