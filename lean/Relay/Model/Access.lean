import Relay.Model.Deny
import Relay.Model.TtlCode
import Relay.Model.Hub
import Relay.Model.Path

/-!
# Model of the access API (`internal/access`) and of websocket admission (`crossbar.serveWs`),
composed with the code store, the deny register and the hub into one relay machine.

A bearer token is the abstract record of what golang-jwt extracts from the header value:
`wellFormed` (three segments, header and claims decode into `permission.Token` with the right JSON
types), `alg`, `sigOK` (the signature verifies under the relay's secret with that HMAC algorithm),
and the claims. HMAC, base64 and JSON decoding themselves are assumptions (trusted base).
Time claims are whole seconds (golang-jwt truncates to `TimePrecision = 1 s`); `now` is whole seconds.
-/

namespace Access

inductive Alg where
  | hs256 | hs384 | hs512 | none | rs256 | unknown
deriving Repr, DecidableEq

def Alg.isHMAC : Alg → Bool
  | .hs256 | .hs384 | .hs512 => true
  | _ => false

structure Bearer where
  wellFormed : Bool := true
  alg : Alg := .hs256
  sigOK : Bool := true
  exp : Option Int := none
  nbf : Option Int := none
  iat : Option Int := none
  aud : List String := []
  scopes : List String := []
  topic : String := ""
  pfx : String := ""
  bid : String := ""
deriving Repr

/-- what arrives in the Authorization header -/
inductive Cred where
  | absent                 -- no header (or empty)
  | token (b : Bearer)
deriving Repr

structure Config where
  host : String            -- audience the access API answers to
  target : String          -- audience of the relay (put into connection tokens)
  allowNoBid : Bool := false
  cap : Nat := 8           -- per-connection buffer
deriving Repr

/-- golang-jwt `verifyAud(aud, host, required = true)` -/
def verifyAud (aud : List String) (host : String) : Bool :=
  !aud.isEmpty && !(aud.all (· == "")) && aud.any (· == host)

/-- `RegisteredClaims.Valid` at second granularity: absent time claims pass -/
def timeValid (b : Bearer) (now : Int) : Bool :=
  (match b.exp with | none => true | some e => decide (now < e)) &&
  (match b.iat with | none => true | some i => decide (i ≤ now)) &&
  (match b.nbf with | none => true | some n => decide (n ≤ now))

/-- `validateHeader`: the token is accepted as principal -/
def headerValid (cfg : Config) (now : Int) (b : Bearer) : Bool :=
  b.wellFormed && b.alg.isHMAC && timeValid b now && b.sigOK && verifyAud b.aud cfg.host

/-- the zero `time.Time` expressed as Unix seconds (`IsZero`) -/
def zeroTimeUnix : Int := -62135596800

/-- `permission.HasRequiredClaims` (after fix 100759d: a missing exp is "missing", not a nil deref) -/
def hasRequiredClaims (b : Bearer) : Bool :=
  !(b.topic == "" || b.scopes.isEmpty || b.pfx == "" || b.aud.isEmpty ||
    (match b.exp with | none => true | some e => e == zeroTimeUnix))

/-- `claimsCheck` used by the admin and stats endpoints -/
def claimsCheck (b : Bearer) : Bool :=
  !(b.scopes.isEmpty || b.aud.isEmpty || (match b.exp with | none => true | some e => e == zeroTimeUnix))

def isRelayAdmin (b : Bearer) : Bool := claimsCheck b && b.scopes.contains "relay:admin"
def hasStatsScope (b : Bearer) : Bool := claimsCheck b && b.scopes.contains "relay:stats"

/-- connection (permission) token minted by the session handler -/
structure PTok where
  topic : String
  pfx : String
  bid : String
  scopes : List String
  iat : Int
  nbf : Int
  exp : Int
  aud : List String
deriving Repr, DecidableEq

/-- what the hub knows about a joined connection beyond the hub model's own fields -/
structure ConnInfo where
  name : Nat
  scopes : List String
  exp : Int
  ua : String
  remote : String
deriving Repr

structure St where
  now : Int := 0
  reg : Deny.Reg := {}
  codes : TtlCode.Store := {}
  ptoks : List PTok := []            -- index = `tok` field of a code store entry
  hub : Hub.Hub := {}
  info : List ConnInfo := []
  grants : List (Bearer × String × Int) := []   -- ghost: (bearer, requested id, time) of every granted session, index = tok
deriving Repr

/-- Go `strconv.ParseInt(s, 10, 64)` -/
def digitsToNat : List Char → Option Nat
  | [] => none
  | cs => cs.foldl (fun acc c => match acc with
      | none => none
      | some n => if '0' ≤ c ∧ c ≤ '9' then some (n * 10 + (c.toNat - '0'.toNat)) else none) (some 0)

def parseInt64 (s : String) : Option Int :=
  let go (neg : Bool) (cs : List Char) : Option Int :=
    match digitsToNat cs with
    | none => none
    | some n =>
      let v : Int := if neg then -(n : Int) else (n : Int)
      if -(2 : Int) ^ 63 ≤ v ∧ v < (2 : Int) ^ 63 then some v else none
  match s.toList with
  | '-' :: cs => go true cs
  | '+' :: cs => go false cs
  | cs => go false cs

/-- query parameter as sent: absent, or present with a raw value -/
abbrev Param := Option String

inductive Resp where
  | status (code : Nat)                       -- refusal / plain success
  | sessionOK (code : Nat) (uri : String)     -- 200 with a one-time code
  | list (ids : List String)                  -- 200 booking ids
  | report                                    -- 200 status report (content read off the hub)
deriving Repr, DecidableEq

def Resp.code : Resp → Nat
  | .status c => c
  | _ => 200

/-- authentication as go-openapi + `validateHeader` perform it: 401 without credentials, 500 for any
    token that does not validate (by design of the maintainers), else the principal -/
def authenticate (cfg : Config) (now : Int) : Cred → Except Nat Bearer
  | .absent => .error 401
  | .token b => if headerValid cfg now b then .ok b else .error 500

def sync (s : St) : St := { s with reg := { s.reg with now := s.now }, codes := { s.codes with now := s.now } }

/-- the ordered guards of `sessionHandler` for an authenticated bearer: the refusal status, if any -/
def sessionRefusal (cfg : Config) (s : St) (b : Bearer) (id : String) : Option Nat :=
  if !hasRequiredClaims b then some 401
  else if b.iat.isNone || b.nbf.isNone then some 401
  else if b.topic ≠ id then some 401
  else if b.bid = "" ∧ !cfg.allowNoBid then some 400
  else if Deny.isDenied s.reg b.bid then some 400
  else none

/-- what a granted session request does: note the booking on the allow list, mint the connection
    token, store it under a fresh code -/
def sessionGrant (cfg : Config) (s : St) (b : Bearer) (id : String) : St × Resp :=
  let exp := b.exp.getD 0
  let pt : PTok := { topic := id, pfx := b.pfx, bid := b.bid, scopes := b.scopes,
                     iat := b.iat.getD 0, nbf := b.nbf.getD 0, exp := exp, aud := [cfg.target] }
  ({ s with reg := Deny.step s.reg (.allow b.bid exp),
            codes := (TtlCode.step s.codes (.submit b.bid s.ptoks.length)).1,
            ptoks := s.ptoks ++ [pt], grants := s.grants ++ [(b, id, s.now)] },
    .sessionOK s.codes.next (cfg.target ++ "/" ++ b.pfx ++ "/" ++ b.topic))

/-- is the id routable by `POST /session/{session_id}` (one non-empty path segment)? -/
def routable (id : String) : Bool := id ≠ "" && !id.toList.contains '/'

/-- POST /session/{id} -/
def session (cfg : Config) (s : St) (cred : Cred) (id : String) : St × Resp :=
  if !routable id then (s, .status 404) else
  match authenticate cfg s.now cred with
  | .error c => (s, .status c)
  | .ok b =>
    match sessionRefusal cfg s b id with
    | some c => (s, .status c)
    | none => sessionGrant cfg s b id

/-- parameter binding shared by POST /bids/deny and /bids/allow: `some (bid, exp)` or 422 -/
def bindBidExp (bid exp : Param) : Option (String × Int) :=
  match bid, exp with
  | some b, some e => if b = "" ∨ e = "" then none else (parseInt64 e).map (fun v => (b, v))
  | _, _ => none

/-- remove every connection made under booking `b` (what the crossbar does on a deny notification:
    it closes each such connection's cancel channel, and each connection then tears itself down) -/
def dropBooking (h : Hub.Hub) (b : String) : Hub.Hub :=
  { h with members := h.members.filter (fun c => c.bid != b),
           gone := h.gone ++ h.members.filter (fun c => c.bid == b) }

/-- POST /bids/deny -/
def denyReq (cfg : Config) (s : St) (cred : Cred) (bid exp : Param) : St × Resp :=
  match authenticate cfg s.now cred with
  | .error c => (s, .status c)
  | .ok t =>
    match bindBidExp bid exp with
    | none => (s, .status 422)
    | some (b, e) =>
      if !isRelayAdmin t then (s, .status 401)
      else if e < s.now then (s, .status 400)
      else
        ({ s with reg := Deny.step s.reg (.deny b e),
                  codes := (TtlCode.step s.codes (.deleteByBooking b)).1,
                  hub := dropBooking s.hub b }, .status 204)

/-- POST /bids/allow -/
def allowReq (cfg : Config) (s : St) (cred : Cred) (bid exp : Param) : St × Resp :=
  match authenticate cfg s.now cred with
  | .error c => (s, .status c)
  | .ok t =>
    match bindBidExp bid exp with
    | none => (s, .status 422)
    | some (b, e) =>
      if !isRelayAdmin t then (s, .status 401)
      else if e < s.now then (s, .status 400)
      else ({ s with reg := Deny.step s.reg (.allow b e) }, .status 204)

/-- GET /bids/deny, GET /bids/allow -/
def listReq (cfg : Config) (s : St) (cred : Cred) (denied : Bool) : St × Resp :=
  match authenticate cfg s.now cred with
  | .error c => (s, .status c)
  | .ok t =>
    if !isRelayAdmin t then (s, .status 401)
    else (s, .list (if denied then KV.keys s.reg.deny else KV.keys s.reg.allow))

/-- GET /status -/
def statusReq (cfg : Config) (s : St) (cred : Cred) : St × Resp :=
  match authenticate cfg s.now cred with
  | .error c => (s, .status c)
  | .ok t => if !hasStatsScope t then (s, .status 401) else (s, .report)

inductive WsOut where
  | notFound            -- HTTP 404 before the upgrade (unsupported prefix)
  | refused             -- upgraded, then dropped without joining
  | joined (name : Nat)
deriving Repr, DecidableEq

/-- the checks `serveWs` makes on the token a code was exchanged for (any failure: the socket is
    dropped without joining; the order of the checks is immaterial to the outcome) -/
def admitCheck (cfg : Config) (s : St) (topic : String) (pt : PTok) : Bool :=
  !(pt.topic == "" || pt.scopes.isEmpty || pt.pfx == "" || pt.aud.isEmpty || pt.exp == zeroTimeUnix) &&
  decide (pt.nbf ≤ s.now) &&
  pt.aud.contains cfg.target && (topic == pt.topic) && decide (0 ≤ pt.exp - s.now) &&
  !Deny.isDenied s.reg pt.bid &&
  (Hub.canReadOf pt.scopes || Hub.canWriteOf pt.scopes)

/-- `serveWs`: admission of a websocket presenting `code` (none = no/empty code parameter) on `path` -/
def wsAdmit (cfg : Config) (s : St) (path : List Char) (code : Option Nat) (ua remote : String) : St × WsOut :=
  if (Path.route path).1 ≠ "session".toList then (s, .notFound) else
  match code with
  | none => (s, .refused)
  | some c =>
    let s1 := { s with codes := (TtlCode.step s.codes (.exchange c)).1 }
    match (TtlCode.step s.codes (.exchange c)).2 with
    | .token _ tokId =>
      match s.ptoks[tokId]? with
      | none => (s1, .refused)
      | some pt =>
        let topic := String.ofList (Path.route path).2
        if admitCheck cfg s topic pt then
          ({ s1 with hub := Hub.step s.hub (.register topic pt.bid (Hub.canReadOf pt.scopes) (Hub.canWriteOf pt.scopes) cfg.cap),
                     info := s.info ++ [{ name := s.hub.next, scopes := pt.scopes, exp := pt.exp, ua := ua, remote := remote }] },
            .joined s.hub.next)
        else (s1, .refused)
    | _ => (s1, .refused)

end Access
