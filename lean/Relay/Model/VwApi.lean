import Relay.Base.KV

/-!
# Model of the host's (`internal/vw`) control interfaces

Go code modelled (read line by line, as of the current tree):
* `internal/vw/internalAPI.go` — `handleAdminMessage` (the nested `switch`es) and the reply
  assembly of the `internalAPI` loop (`reply` if `err == nil`, else
  `json.Marshal(map[string]string{"error": err.Error()})`);
* `internal/vw/handleDestination.go`, `internal/vw/handleStream.go` — the ten HTTP rule handlers
  (what `startHTTPServer` in `http.go` routes to them is *not* modelled: the harness asks the
  real gorilla/mux router which handler a request reaches);
* the rule state: `rwc.Hub.Rules` (`rwc.go`: add refuses the reserved id `deleteAll`, replaces
  by id; delete; delete-all) and `agg.Hub.Rules` (`agg.go`: same shape, keyed by stream name);
* `stream.go`: at start-up, if `Opts.API != ""`, the rule `{api, Opts.API, apiRule}` is added.

Not modelled: `encoding/json`. A command is the *result* of `json.Unmarshal` into `vw.Command`
(`Cmd`), its nested `rule` (a `*json.RawMessage`) is seen through the two decodings the code
applies to it (`RuleJson`).  A reply is a term (`Reply`) that records exactly how the code builds
the bytes: a literal, `json.Marshal v`, or `pre ++ json.Marshal v ++ post`.

Every command / request is one atomic step: the hubs apply `Add`/`Delete` in the order the single
API goroutine sends them (unbuffered channels); overlap with *other* goroutines' listings is
known finding K5 and is outside this sequential model.
-/

namespace VwApi

/-- `rwc.Rule` -/
structure DestRule where
  id : String := ""
  stream : String := ""
  destination : String := ""
  token : String := ""
  file : String := ""
deriving Repr, DecidableEq

/-- a Go `[]string`: `nil` or a (possibly empty) slice -/
abbrev Feeds := Option (List String)

/-- `agg.Rule` -/
structure StreamRule where
  stream : String := ""
  feeds : Feeds := none
deriving Repr, DecidableEq

/-- a non-nil `*json.RawMessage`, seen through `json.Unmarshal(raw, &rwc.Rule{})` and
    `json.Unmarshal(raw, &agg.Rule{})`; `.error msg` carries `err.Error()` -/
structure RuleJson where
  asDest : Except String DestRule
  asStream : Except String StreamRule

/-- `vw.Command` after `json.Unmarshal(msg, &cmd)`; `decodeErr` = that call returned an error.
    `rule = none` is the nil pointer (member absent or `null`). -/
structure Cmd where
  decodeErr : Bool := false
  verb : String := ""
  what : String := ""
  which : String := ""
  rule : Option RuleJson := none

/-- the part of `vw.App` the control interfaces read and write -/
structure AppState where
  api : String := ""              -- Opts.API
  dest : KV DestRule := []        -- app.Websocket.Rules  (rwc.Hub.Rules)
  streams : KV Feeds := []        -- app.Hub.Rules        (agg.Hub.Rules)
deriving Repr, DecidableEq

/-! ## the two rule stores (the `Add` / `Delete` cases of `rwc.Hub.Run`, `agg.Hub.RunOptionalStats`) -/

def rwcAdd (m : KV DestRule) (r : DestRule) : KV DestRule :=
  if r.id = "deleteAll" then m else KV.insert m r.id r

def rwcDelete (m : KV DestRule) (id : String) : KV DestRule :=
  if id = "deleteAll" then [] else KV.erase m id

def aggAdd (m : KV Feeds) (r : StreamRule) : KV Feeds :=
  if r.stream = "deleteAll" then m else KV.insert m r.stream r.feeds

def aggDelete (m : KV Feeds) (s : String) : KV Feeds :=
  if s = "deleteAll" then [] else KV.erase m s

/-- `strings.TrimPrefix(s, "/")` -/
def trimSlash (s : String) : String :=
  match s.toList with
  | '/' :: cs => String.ofList cs
  | _ => s

/-- the rule `Stream()` installs at start-up and `delete all` re-creates -/
def apiRule (api : String) : DestRule := { id := "apiRule", stream := "api", destination := api }

/-- state after `Stream()`'s start-up sequence -/
def start (api : String) : AppState :=
  { api := api, dest := if api ≠ "" then rwcAdd [] (apiRule api) else [] }

/-! ## replies -/

/-- a Go value handed to `json.Marshal` -/
inductive JVal where
  | destRule (r : DestRule)            -- rwc.Rule
  | streamRule (r : StreamRule)        -- agg.Rule
  | deleted (which : String)           -- map[string]string{"deleted": which}
  | error (msg : String)               -- map[string]string{"error": msg}
  | destRules (m : KV DestRule)        -- map[string]rwc.Rule
  | streamRules (m : KV Feeds)         -- map[string][]string
  | feeds (f : Feeds)                  -- []string
  | str (s : String)                   -- string
deriving Repr

/-- how the code builds the reply bytes -/
inductive Reply where
  | lit (s : String)                              -- []byte(`...`)
  | marshal (v : JVal)                            -- json.Marshal(v)
  | wrap (pre : String) (v : JVal) (post : String)  -- []byte(pre + string(json.Marshal(v)) + post)
deriving Repr

/-- the bytes of a reply, given what `json.Marshal` returns -/
def Reply.text (marshal : JVal → String) : Reply → String
  | .lit s => s
  | .marshal v => marshal v
  | .wrap pre v post => pre ++ marshal v ++ post

def errBadCommand : String := "Unrecognised Command"
def errNoDeleteAPIRule : String := "Cannot delete apiRule"

/-- `(reply, err)` of `handleAdminMessage`, or a panic -/
inductive Res where
  | ok (r : Reply)
  | err (msg : String)
  | panic (kind : String)
deriving Repr

def Res.isErr : Res → Bool
  | .err _ => true
  | _ => false

/-- Which of the repaired defects are present (all `true` = the current tree).  The variants exist
    only so that `Props/C18` can show the theorems are not vacuous: each un-repaired variant has a
    concrete violating command. -/
structure Variant where
  nilCheck : Bool := true        -- 9ae98e0: `if cmd.Rule == nil { err = errBadCommand; break }`
  deleteAllAlias : Bool := true  -- 0014876: `case "all", "deleteAll":` in destination delete
deriving Repr, DecidableEq

def current : Variant := {}

/-! ## `handleAdminMessage` -/

def destAdd (v : Variant) (st : AppState) (rule : Option RuleJson) : AppState × Res :=
  match rule with
  | none => if v.nilCheck then (st, .err errBadCommand) else (st, .panic "nil-deref")
  | some rj =>
    match rj.asDest with
    | .error e => (st, .err e)
    | .ok r =>
      let r' : DestRule := { r with stream := trimSlash r.stream }
      ({ st with dest := rwcAdd st.dest r' }, .ok (.marshal (.destRule r')))

/-- `app.Websocket.Delete <- "deleteAll"`, then (if `Opts.API != ""`) re-add the api rule -/
def destDeleteAll (st : AppState) : AppState :=
  let d := rwcDelete st.dest "deleteAll"
  { st with dest := if st.api ≠ "" then rwcAdd d (apiRule st.api) else d }

def destDelete (v : Variant) (st : AppState) (which : String) : AppState × Res :=
  if which = "" then (st, .err errBadCommand)
  else if which = "all" ∨ (v.deleteAllAlias = true ∧ which = "deleteAll") then
    (destDeleteAll st, .ok (.lit "{\"deleted\":\"deleteAll\"}"))
  else if which ≠ "apiRule" then
    ({ st with dest := rwcDelete st.dest which }, .ok (.marshal (.deleted which)))
  else (st, .err errNoDeleteAPIRule)

def destList (st : AppState) (which : String) : AppState × Res :=
  if which = "all" then (st, .ok (.marshal (.destRules st.dest)))
  else (st, .ok (.marshal (.destRule ((KV.lookup st.dest which).getD {}))))

def streamAdd (v : Variant) (st : AppState) (rule : Option RuleJson) : AppState × Res :=
  match rule with
  | none => if v.nilCheck then (st, .err errBadCommand) else (st, .panic "nil-deref")
  | some rj =>
    match rj.asStream with
    | .error e => (st, .err e)
    | .ok r =>
      let r' : StreamRule := { r with stream := trimSlash r.stream }
      ({ st with streams := aggAdd st.streams r' }, .ok (.marshal (.streamRule r')))

def streamDelete (st : AppState) (which : String) : AppState × Res :=
  if which = "all" then
    ({ st with streams := aggDelete st.streams "deleteAll" }, .ok (.lit "{\"deleted\":\"deleteAll\"}"))
  else
    ({ st with streams := aggDelete st.streams which }, .ok (.marshal (.deleted which)))

/-- `app.Hub.Rules[which]`: nil when absent -/
def feedsOf (m : KV Feeds) (s : String) : Feeds := (KV.lookup m s).getD none

def streamList (st : AppState) (which : String) : AppState × Res :=
  if which = "" then (st, .err errBadCommand)
  else if which = "all" then (st, .ok (.marshal (.streamRules st.streams)))
  else (st, .ok (.wrap "{\"feeds\":" (.feeds (feedsOf st.streams which)) "}"))

def handleV (v : Variant) (st : AppState) (c : Cmd) : AppState × Res :=
  if c.decodeErr then (st, .err errBadCommand)
  else if c.verb = "healthcheck" then (st, .ok (.lit "{\"healthcheck\":\"ok\"}"))
  else if c.what = "destination" then
    if c.verb = "add" then destAdd v st c.rule
    else if c.verb = "delete" then destDelete v st c.which
    else if c.verb = "list" then destList st c.which
    else (st, .err errBadCommand)
  else if c.what = "stream" then
    if c.verb = "add" then streamAdd v st c.rule
    else if c.verb = "delete" then streamDelete st c.which
    else if c.verb = "list" then streamList st c.which
    else (st, .err errBadCommand)
  else (st, .err errBadCommand)

/-- the current `handleAdminMessage` -/
def handle (st : AppState) (c : Cmd) : AppState × Res := handleV current st c

/-- what the `internalAPI` loop broadcasts for a result; `none` = the goroutine panicked (it has
    no `recover`, the process exits) -/
def loopReply : Res → Option Reply
  | .ok r => some r
  | .err m => some (.marshal (.error m))
  | .panic _ => none

/-- a sequence of websocket commands, processed one at a time by the API goroutine -/
def run (st : AppState) (cs : List Cmd) : AppState := cs.foldl (fun s c => (handle s c).1) st

/-! ## the HTTP rule handlers -/

inductive HttpReq where
  | destShowAll                                   -- GET    handleDestinationShowAll
  | destShow (id : String)                        -- GET    handleDestinationShow
  | destAdd (body : Except String DestRule)       -- POST   handleDestinationAdd (body after json.Unmarshal)
  | destDelete (id : String)                      -- DELETE handleDestinationDelete
  | destDeleteAll                                 -- DELETE handleDestinationDeleteAll
  | streamShowAll
  | streamShow (s : String)
  | streamAdd (body : Except String StreamRule)
  | streamDelete (s : String)
  | streamDeleteAll
  | api                                           -- handleAPI (empty body)

inductive Body where
  | none                       -- nothing written
  | json (r : Reply)           -- content-type: application/json
  | text (s : String)          -- http.Error: text/plain, message ++ "\n"
deriving Repr

structure HttpResp where
  status : Nat
  body : Body
deriving Repr

/-- `http.Error(w, msg, code)` -/
def httpError (msg : String) (code : Nat) : HttpResp := ⟨code, .text (msg ++ "\n")⟩

def httpOk (v : JVal) : HttpResp := ⟨200, .json (.marshal v)⟩

def httpHandle (st : AppState) : HttpReq → AppState × HttpResp
  | .destShowAll => (st, httpOk (.destRules st.dest))
  | .destShow id => (st, httpOk (.destRule ((KV.lookup st.dest id).getD {})))
  | .destAdd (.error e) => (st, httpError e 500)
  | .destAdd (.ok r) =>
      let r' : DestRule := { r with stream := trimSlash r.stream }
      ({ st with dest := rwcAdd st.dest r' }, httpOk (.destRule r'))
  | .destDelete id => ({ st with dest := rwcDelete st.dest id }, httpOk (.str id))
  | .destDeleteAll => ({ st with dest := rwcDelete st.dest "deleteAll" }, httpOk (.str "deleteAll"))
  | .streamShowAll => (st, httpOk (.streamRules st.streams))
  | .streamShow s =>
      match KV.lookup st.streams s with
      | some f => (st, httpOk (.feeds f))
      | none => (st, httpError "Stream not found" 404)
  | .streamAdd (.error e) => (st, httpError e 500)
  | .streamAdd (.ok r) =>
      let r' : StreamRule := { r with stream := trimSlash r.stream }
      ({ st with streams := aggAdd st.streams r' }, httpOk (.streamRule r'))
  | .streamDelete s => ({ st with streams := aggDelete st.streams s }, httpOk (.str s))
  | .streamDeleteAll => ({ st with streams := aggDelete st.streams "deleteAll" }, httpOk (.str "deleteAll"))
  | .api => (st, ⟨200, .none⟩)

/-- any interleaving of control-connection commands and HTTP requests -/
inductive Op where
  | ws (c : Cmd)
  | http (r : HttpReq)

def stepOp (st : AppState) : Op → AppState
  | .ws c => (handle st c).1
  | .http r => (httpHandle st r).1

def runOps (st : AppState) (ops : List Op) : AppState := ops.foldl stepOp st

/-! ## syntactic classification of commands (for `invalid_command_noop`) -/

/-- the commands the API documents; everything else is "invalid" -/
def Cmd.wellFormed (c : Cmd) : Bool :=
  !c.decodeErr &&
  (c.verb == "healthcheck" ||
   (c.what == "destination" &&
     ((c.verb == "add" && (match c.rule with
                           | some rj => (match rj.asDest with | .ok _ => true | .error _ => false)
                           | none => false)) ||
      (c.verb == "delete" && c.which != "") ||
      c.verb == "list")) ||
   (c.what == "stream" &&
     ((c.verb == "add" && (match c.rule with
                           | some rj => (match rj.asStream with | .ok _ => true | .error _ => false)
                           | none => false)) ||
      c.verb == "delete" ||
      (c.verb == "list" && c.which != ""))))

end VwApi
