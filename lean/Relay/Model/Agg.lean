import Relay.Base.KV

/-!
# Model of `internal/agg` (the aggregating hub: streams made of feeds) on top of the inner
`internal/hub` registry.

Go state (`agg.Hub`, one goroutine `RunOptionalStats` owns all of it):
* `Rules      map[string][]string`                 → `rules : KV (List String)`
* `Streams    map[string]map[*hub.Client]bool`     → `regs : List Sub` (a set; the key of a client in
  `Streams` is always its own `Topic`, so `Streams[t]` is `regs.filter (·.topic = t)`)
* `SubClients map[*hub.Client]map[*SubClient]bool` → `subs : SubMap` (per subscriber its
  sub-subscriptions `{feed, stopped}`; `stopped` = `close(subClient.Stopped)` has been executed,
  which in the code always directly follows `h.Hub.Unregister <- subClient.Client`, so
  "registered at the inner hub" is `¬ stopped` for every sub-subscription)
* inner `hub.Hub.Clients` entries made directly (`plain` subscribers) → `plain : List Sub` (a set)
* sub-subscriptions that are still registered at the inner hub with a running forwarder goroutine
  but are no longer reachable from `SubClients` (`h.SubClients[client] = make(..)` in the Register
  branch overwrites a live entry) → `orphans` : nothing in the code can ever stop them.

A subscriber (`*hub.Client`, identity = pointer) is modelled by its immutable `(Name, Topic)`.
`close` of an already closed `Stopped` channel is the explicit outcome `.panic` (the hub goroutine
dies, and with it the process). No operation of the loop can block: its only channel sends go to the
inner hub's loop, which never blocks (its own sends are non-blocking); hence no `stuck` outcome.

`step fx`: `fx = true` is the code of today; `fx = false` is the code before commit e26c2fb (stopped
sub-subscriptions were left in the table by delete / delete-all) — kept to show that the panic
outcome is real (`Props/C15.lean`, `old_code_panics_*`).

Subscribers that do not drain their `Send` channel (stalled peers), and what that does to the
forwarder goroutines, are modelled in the second half of this file (`Full`, `fstep`): the tables above
are not influenced by it, and the hub loop still never blocks.

NOT modelled: the inner hub's non-blocking send to a forwarder's unbuffered channel drops the
message when the forwarder is momentarily busy although its subscriber drains (load dependent);
mutation of a client's `Topic`/`Name` after registration.
-/

namespace Agg

structure Sub where
  name : String
  topic : String
deriving DecidableEq, Repr

structure SubSub where
  feed : String
  stopped : Bool
deriving DecidableEq, Repr

/-- a freshly made sub-subscription: registered at the inner hub, forwarder running -/
def live (f : String) : SubSub := { feed := f, stopped := false }
def stop (x : SubSub) : SubSub := { x with stopped := true }

/-- `SubClients` : association list keyed by subscriber -/
abbrev SubMap := List (Sub × List SubSub)

namespace SM

def lookup : SubMap → Sub → Option (List SubSub)
  | [], _ => none
  | (a, v) :: m, k => if a = k then some v else lookup m k

def erase : SubMap → Sub → SubMap
  | [], _ => []
  | (a, v) :: m, k => if a = k then erase m k else (a, v) :: erase m k

def insert (m : SubMap) (k : Sub) (v : List SubSub) : SubMap := (k, v) :: erase m k

/-- `for client := range us { SubClients[client] = v }` -/
def setAll (m : SubMap) (us : List Sub) (v : List SubSub) : SubMap :=
  us.foldl (fun m u => insert m u v) m

/-- `for client := range us { delete(SubClients, client) }` -/
def eraseAll (m : SubMap) (us : List Sub) : SubMap :=
  us.foldl (fun m u => erase m u) m

/-- every sub-subscription of the subscribers in `us` gets `close(Stopped)` -/
def stopAll (m : SubMap) (us : List Sub) : SubMap :=
  m.map (fun kv => if kv.1 ∈ us then (kv.1, kv.2.map stop) else kv)

end SM

/-- Go: `strings.HasPrefix(client.Topic, "stream/")` -/
def isStream (t : String) : Bool := "stream/".toList.isPrefixOf t.toList

structure State where
  rules : KV (List String) := []
  regs : List Sub := []
  subs : SubMap := []
  plain : List Sub := []
  orphans : List (Sub × String) := []
deriving Repr, DecidableEq

inductive Op where
  | register (u : Sub)                          -- h.Register <- client
  | unregister (u : Sub)                        -- h.Unregister <- client
  | add (stream : String) (feeds : List String) -- h.Add <- Rule{stream, feeds}
  | delete (stream : String)                    -- h.Delete <- stream ; "deleteAll" deletes every rule
  | broadcast (topic sender : String)           -- h.Broadcast <- msg (Sender.Topic, Sender.Name)
deriving Repr, DecidableEq

/-- the reserved id -/
abbrev Op.deleteAll : Op := .delete "deleteAll"

inductive Outcome (σ : Type) where
  | ok (s : σ)
  | panic                      -- close of closed channel in the hub goroutine
deriving Repr, DecidableEq

/-- a Go `map[*Client]bool` used as a set -/
def setAdd (u : Sub) (l : List Sub) : List Sub := if u ∈ l then l else l ++ [u]
def setDel (u : Sub) (l : List Sub) : List Sub := l.filter (· ≠ u)

/-- `Streams[stream]` -/
def members (s : State) (stream : String) : List Sub := s.regs.filter (·.topic = stream)

/-- would `close(subClient.Stopped)` hit a closed channel for a sub-subscription of one of `us`? -/
def anyStopped (m : SubMap) (us : List Sub) : Bool :=
  us.any (fun u => match SM.lookup m u with
                   | some l => l.any (·.stopped)
                   | none => false)

/-- the same over the whole table (`for _, client := range h.SubClients`) -/
def anyStoppedAll (m : SubMap) : Bool := m.any (fun kv => kv.2.any (·.stopped))

/-- sub-subscriptions of `u` that are registered at the inner hub (with a running forwarder) -/
def liveOf (m : SubMap) (u : Sub) : List String :=
  match SM.lookup m u with
  | some l => (l.filter (fun x => !x.stopped)).map (·.feed)
  | none => []

/-- one iteration of the `select` loop of `RunOptionalStats` -/
def step (fx : Bool) (s : State) : Op → Outcome State
  | .register u =>
    if isStream u.topic then
      -- Streams[topic][client] = true
      let regs := setAdd u s.regs
      match KV.lookup s.rules u.topic with
      | some feeds =>
        -- SubClients[client] = make(..): a previous entry is dropped WITHOUT being stopped
        .ok { s with regs := regs,
                     subs := SM.insert s.subs u (feeds.map live),
                     orphans := (liveOf s.subs u).map (fun f => (u, f)) ++ s.orphans }
      | none => .ok { s with regs := regs }
    else .ok { s with plain := setAdd u s.plain }
  | .unregister u =>
    if isStream u.topic then
      if anyStopped s.subs [u] then .panic
      else .ok { s with regs := setDel u s.regs, subs := SM.erase s.subs u }
    else .ok { s with plain := setDel u s.plain }
  | .add stream feeds =>
    if stream = "deleteAll" then .ok s
    else
      let us := members s stream
      if KV.has s.rules stream && anyStopped s.subs us then .panic
      else .ok { s with rules := KV.insert s.rules stream feeds,
                        subs := SM.setAll s.subs us (feeds.map live) }
  | .delete stream =>
    if stream = "deleteAll" then
      if anyStoppedAll s.subs then .panic
      else .ok { s with subs := if fx then [] else SM.stopAll s.subs (s.subs.map (·.1)),
                        rules := [] }
    else
      let us := members s stream
      if KV.has s.rules stream then
        if anyStopped s.subs us then .panic
        else .ok { s with subs := if fx then SM.eraseAll s.subs us else SM.stopAll s.subs us,
                          rules := KV.erase s.rules stream }
      else .ok { s with rules := KV.erase s.rules stream }
  | .broadcast _ _ => .ok s

def Outcome.bind {σ : Type} (o : Outcome σ) (f : σ → Outcome σ) : Outcome σ :=
  match o with
  | .ok s => f s
  | .panic => .panic

/-- run from a state; after a panic nothing happens any more -/
def runFrom (fx : Bool) (s : State) (ops : List Op) : Outcome State :=
  ops.foldl (fun o op => o.bind (fun s => step fx s op)) (.ok s)

/-- the code of today, from `agg.New()` -/
def run (ops : List Op) : Outcome State := runFrom true {} ops

/-- the code before e26c2fb -/
def runOld (ops : List Op) : Outcome State := runFrom false {} ops

/-! ## Observation: who receives a message broadcast on `topic` by a sender called `sender`

Inner hub: every registered client of that topic whose `Name` differs from the sender's gets one
copy; a sub-subscription carries the `Name` of its subscriber (copied by `copier.Copy`) and its
forwarder passes the copy on to the subscriber. -/

/-- copies forwarded to `u` through the sub-subscription table -/
def fwdTable (s : State) (u : Sub) (topic sender : String) : Nat :=
  if u.name = sender then 0 else (liveOf s.subs u).count topic

/-- copies forwarded to `u` by leaked sub-subscriptions -/
def fwdOrphan (s : State) (u : Sub) (topic sender : String) : Nat :=
  if u.name = sender then 0 else s.orphans.count (u, topic)

/-- copy received as a plain (directly registered) subscriber -/
def plainRecv (s : State) (u : Sub) (topic sender : String) : Nat :=
  if u ∈ s.plain ∧ u.topic = topic ∧ u.name ≠ sender then 1 else 0

/-- total number of copies `u` receives -/
def received (s : State) (u : Sub) (topic sender : String) : Nat :=
  plainRecv s u topic sender + fwdTable s u topic sender + fwdOrphan s u topic sender

/-- everybody who could receive anything -/
def candidates (s : State) : List Sub := s.plain ++ s.subs.map (·.1) ++ s.orphans.map (·.1)

/-! ## The specification side: what an op history says, without any table -/

/-- the latest rule of stream `st` -/
def ruleStep (st : String) (cur : Option (List String)) : Op → Option (List String)
  | .add s feeds => if s = "deleteAll" then cur else if s = st then some feeds else cur
  | .delete s => if s = "deleteAll" then none else if s = st then none else cur
  | _ => cur

def latestRule (ops : List Op) (st : String) : Option (List String) :=
  ops.foldl (ruleStep st) none

/-- is `u` registered (its last register/unregister was a register) -/
def regStep (u : Sub) (cur : Bool) : Op → Bool
  | .register v => if v = u then true else cur
  | .unregister v => if v = u then false else cur
  | _ => cur

def registered (ops : List Op) (u : Sub) : Bool := ops.foldl (regStep u) false

/-- number of copies the property asks for: the multiplicity of `f` in the latest rule of `u`'s
    stream, for a registered stream subscriber that is not the sender -/
def expected (ops : List Op) (u : Sub) (f sender : String) : Nat :=
  if isStream u.topic = true ∧ registered ops u = true ∧ u.name ≠ sender then
    match latestRule ops u.topic with
    | some feeds => feeds.count f
    | none => 0
  else 0

def Op.isRuleOp : Op → Bool
  | .add _ _ => true
  | .delete _ => true
  | _ => false

/-- no stream subscriber is registered again while it is registered -/
def fresh (regd : List Sub) : List Op → Bool
  | [] => true
  | .register u :: r =>
    if isStream u.topic then !(decide (u ∈ regd)) && fresh (setAdd u regd) r else fresh regd r
  | .unregister u :: r => if isStream u.topic then fresh (setDel u regd) r else fresh regd r
  | _ :: r => fresh regd r

def NoReRegister (ops : List Op) : Prop := fresh [] ops = true

instance (ops : List Op) : Decidable (NoReRegister ops) := by
  unfold NoReRegister; infer_instance

/-! ## Stalled subscribers (peers that do not drain their `Send` channel)

What the code of today does, line by line (`RelayTo`, `hub.Run`):

* a subscriber's `Send` channel has a buffer; while the subscriber drains it nothing below applies.
  `stall u k` : from now on `u` does not read, and its buffer has `k` free slots left.
* plain subscriber: the inner hub's send is non-blocking (`select { case client.Send <- m: default: }`),
  so a message goes into a free slot or is DROPPED.
* stream subscriber: the inner hub's non-blocking send goes to the forwarder's private unbuffered
  channel; it succeeds iff the forwarder is parked in its `select`. The forwarder then executes the
  BLOCKING `c.Send <- msg`: a free slot takes the message, otherwise the forwarder goroutine stays
  blocked there holding the message (`Hold.table`, or `Hold.orphan` for a leaked forwarder). While it
  is blocked it is not in its `select`: further messages on its feed are dropped for this
  sub-subscription by the inner hub, and it cannot see `Stopped`.
* tear-down (`h.Hub.Unregister <- subClient.Client; close(subClient.Stopped)`) of a blocked forwarder:
  neither statement waits for the forwarder, so the hub loop goes on; the forwarder is no longer
  registered anywhere but still blocked with its message (`Hold.zombie`, a leaked goroutine).
* `unstall u` : the subscriber drains again: it gets the buffered messages and the message of every
  forwarder blocked on it (also of zombies: messages "in flight" arrive after the subscriber left or
  its rule changed); forwarders go back to their `select` (zombies see `Stopped` and end).

No step of `RunOptionalStats` waits for a forwarder or a subscriber, so no `stuck` outcome exists
here either: `fstep` is `step true` on the tables (`fstep_core`, Props/C15.lean).

Scheduler race kept out: a stalled subscriber with free slots that has BOTH table forwarders and
leaked forwarders (usage discipline broken) on the feed of one broadcast — which of them get the free
slots is a race; the model serves plain, then table, then leaked. -/

/-- a broadcast message: its topic (= the feed it was sent on) and the serial number of the broadcast -/
structure Msg where
  topic : String
  seq : Nat
deriving DecidableEq, Repr

/-- where an undelivered message for a stalled subscriber sits -/
inductive Hold where
  | buffered   -- in the subscriber's `Send` buffer
  | table      -- forwarder of a sub-subscription in `SubClients`, blocked in `c.Send <- msg`
  | orphan     -- leaked forwarder, blocked in `c.Send <- msg`
  | zombie     -- stopped and unregistered forwarder, still blocked in `c.Send <- msg`
deriving DecidableEq, Repr

structure Item where
  to : Sub
  hold : Hold
  msg : Msg
deriving DecidableEq, Repr

/-- "`to` gets `n` copies of `msg`" (rows are a set: the same row may be listed more than once) -/
structure Row where
  to : Sub
  msg : Msg
  n : Nat
deriving DecidableEq, Repr

structure Full where
  core : State := {}
  /-- number of broadcasts so far -/
  seq : Nat := 0
  /-- the stalled subscribers with the free slots left in their `Send` buffer -/
  room : List (Sub × Nat) := []
  /-- undelivered messages: buffered at / blocked on a stalled subscriber -/
  items : List Item := []
deriving Repr, DecidableEq

inductive FOp where
  | core (op : Op)
  | stall (u : Sub) (k : Nat)
  | unstall (u : Sub)
deriving Repr, DecidableEq

def roomOf : List (Sub × Nat) → Sub → Option Nat
  | [], _ => none
  | (a, r) :: m, u => if a = u then some r else roomOf m u

/-- forwarders of kind `h` blocked on `u` that belong to feed `topic` -/
def heldCount (items : List Item) (u : Sub) (h : Hold) (topic : String) : Nat :=
  items.countP (fun i => i.to = u ∧ i.hold = h ∧ i.msg.topic = topic)

/-- table forwarders of `u` for `topic` that are parked in their `select` -/
def freeTable (f : Full) (u : Sub) (topic sender : String) : Nat :=
  fwdTable f.core u topic sender - heldCount f.items u .table topic

/-- leaked forwarders of `u` for `topic` that are parked in their `select` -/
def freeOrphan (f : Full) (u : Sub) (topic sender : String) : Nat :=
  fwdOrphan f.core u topic sender - heldCount f.items u .orphan topic

/-- copies of a broadcast that are on their way to `u`'s `Send` channel -/
def incoming (f : Full) (u : Sub) (topic sender : String) : Nat :=
  plainRecv f.core u topic sender + freeTable f u topic sender + freeOrphan f u topic sender

/-- `n` copies of `m` arrive at stalled `u` with `r` free slots: `min r n` are buffered; the others
    stay with their blocked forwarder (`some h`) or are dropped (`none`: the inner hub's own
    non-blocking send to a plain subscriber) -/
def takeIn (u : Sub) (m : Msg) (r n : Nat) (h : Option Hold) : Nat × List Item :=
  (r - min r n,
   List.replicate (min r n) ⟨u, .buffered, m⟩ ++
     match h with
     | some k => List.replicate (n - min r n) ⟨u, k, m⟩
     | none => [])

/-- one broadcast seen from stalled `u` with `r` free slots: (free slots left, new undelivered messages) -/
def bcStalled (f : Full) (u : Sub) (r : Nat) (topic sender : String) : Nat × List Item :=
  let m : Msg := ⟨topic, f.seq⟩
  let a := takeIn u m r (plainRecv f.core u topic sender) none
  let b := takeIn u m a.1 (freeTable f u topic sender) (some .table)
  let c := takeIn u m b.1 (freeOrphan f u topic sender) (some .orphan)
  (c.1, a.2 ++ b.2 ++ c.2)

/-- `close(Stopped)` + unregister for every table forwarder of the subscribers in `us` -/
def zombify (us : List Sub) (items : List Item) : List Item :=
  items.map (fun i => if i.hold = .table ∧ i.to ∈ us then { i with hold := .zombie } else i)

/-- the same for the whole table (delete-all) -/
def zombifyAll (items : List Item) : List Item :=
  items.map (fun i => if i.hold = .table then { i with hold := .zombie } else i)

/-- `SubClients[u] = make(..)` over a live entry: its forwarders are leaked -/
def orphanize (u : Sub) (items : List Item) : List Item :=
  items.map (fun i => if i.hold = .table ∧ i.to = u then { i with hold := .orphan } else i)

/-- what a table op (on state `s`, before the op) does to the blocked forwarders -/
def retag (s : State) (items : List Item) : Op → List Item
  | .register u =>
    if isStream u.topic then
      match KV.lookup s.rules u.topic with
      | some _ => orphanize u items
      | none => items
    else items
  | .unregister u => if isStream u.topic then zombify [u] items else items
  | .add stream _ =>
    if stream = "deleteAll" then items
    else if KV.has s.rules stream then zombify (members s stream) items else items
  | .delete stream =>
    if stream = "deleteAll" then zombifyAll items
    else if KV.has s.rules stream then zombify (members s stream) items else items
  | .broadcast _ _ => items

/-- rows delivered at once by a broadcast: everybody who could receive and drains promptly -/
def bcRows (f : Full) (topic sender : String) : List Row :=
  ((candidates f.core).filter (fun u => (roomOf f.room u).isNone)).map
    (fun u => ⟨u, ⟨topic, f.seq⟩, incoming f u topic sender⟩)

def bcStep (f : Full) (topic sender : String) : Full :=
  { f with seq := f.seq + 1,
           room := f.room.map (fun p => (p.1, (bcStalled f p.1 p.2 topic sender).1)),
           items := f.items ++ f.room.flatMap (fun p => (bcStalled f p.1 p.2 topic sender).2) }

/-- rows delivered when `u` drains again -/
def drainRows (items : List Item) (u : Sub) : List Row :=
  (items.filter (·.to = u)).map (fun i => ⟨u, i.msg, items.countP (fun j => j.to = u ∧ j.msg = i.msg)⟩)

def Op.bcOf : Op → Option (String × String)
  | .broadcast topic sender => some (topic, sender)
  | _ => none

/-- a table op that did not panic (`c` = the tables after it): blocked forwarders are re-tagged, a
    broadcast is distributed -/
def tableStep (f : Full) (c : State) (op : Op) : Full × List Row :=
  let g : Full := { f with core := c, items := retag f.core f.items op }
  match op.bcOf with
  | some (topic, sender) => (bcStep g topic sender, bcRows g topic sender)
  | none => (g, [])

def stallOp (f : Full) (u : Sub) (k : Nat) : Full :=
  match roomOf f.room u with
  | some _ => f
  | none => { f with room := (u, k) :: f.room }

def unstallOp (f : Full) (u : Sub) : Full :=
  { f with room := f.room.filter (·.1 ≠ u), items := f.items.filter (·.to ≠ u) }

/-- one op of the full model: the new state and what is delivered (to subscribers that drain) -/
def fstep (f : Full) : FOp → Outcome (Full × List Row)
  | .core op =>
    match step true f.core op with
    | .panic => .panic
    | .ok c => .ok (tableStep f c op)
  | .stall u k => .ok (stallOp f u k, [])
  | .unstall u => .ok (unstallOp f u, drainRows f.items u)

/-- the state after one op (what is delivered is `fstep`'s second component) -/
def fstepS (f : Full) (op : FOp) : Outcome Full :=
  match fstep f op with
  | .panic => .panic
  | .ok p => .ok p.1

/-- run a history from a state; after a panic nothing happens any more -/
def frunFrom (f : Full) (ops : List FOp) : Outcome Full :=
  ops.foldl (fun o op => o.bind (fun f => fstepS f op)) (.ok f)

/-- the code of today, from `agg.New()`, nobody stalled -/
def frun (ops : List FOp) : Outcome Full := frunFrom {} ops

/-- the table ops of a history -/
def coreOps : List FOp → List Op
  | [] => []
  | .core op :: r => op :: coreOps r
  | _ :: r => coreOps r

/-- does `u` currently not drain (its last stall/unstall was a stall) -/
def stallStep (u : Sub) (cur : Bool) : FOp → Bool
  | .stall v _ => if v = u then true else cur
  | .unstall v => if v = u then false else cur
  | _ => cur

def stalledNow (ops : List FOp) (u : Sub) : Bool := ops.foldl (stallStep u) false

end Agg
