/-!
# Model of the ingest flush (`internal/vw/handleTs.go`, `internal/tcpconnect` `HandleConn`), of the
message ingest (`internal/vw/handleWs.go` `readPump`) and of the fan-out by reference
(`internal/hub/hub.go`), with an explicit heap.

Go (both flush sites are the same code):

```
reader goroutine :  n := ReadAtLeast(reader, glob, 1);  lock; frameBuffer.b.Write(glob[:n]); unlock
main loop, every time 1 ms passes without a read:
    lock
    n, err := frameBuffer.b.Read(rawFrame)          // at most len(rawFrame) = max bytes
    frame := append([]byte(nil), rawFrame[:n]...)   // since 833d3d2; before: frame := rawFrame[:n]
    frameBuffer.b.Reset()                           // whatever was not read is DROPPED
    unlock
    if err == nil && n > 0 { hand on frame }        // hub.Broadcast (vw) / c.In (tcpconnect)
hub: for every subscribed client:  select { case client.Send <- message: default: }   // by reference
```

Heap objects: the accumulation buffer `acc`, the flush array `raw` (one per handler, reused by every
flush) and messages. A message is either a VALUE (a fresh copy, immutable from then on) or a VIEW
`(raw, len)` = the Go slice `rawFrame[:n]`, whose bytes are looked up **when the consumer reads it**.
`copyOnFlush` selects which of the two the flush hands on (true = the code in /repo today).

`raw` is modelled by the prefix that has ever been written (Go: a zero-filled array of length `max`);
a view of length `n` is created only by a flush that has just written `n` bytes, so `n ≤ raw.length`
from then on (`view_le_raw`) and the unwritten tail is never observed.

The 1 ms idle timer is the nondeterministic point: `flush` may occur between any two writes.
Whether a subscriber's queue takes a message (`select … default`) depends on timing and queue depth:
it is an input of the `flush` op (the list of consumers that accept), so theorems quantify over it.
A consumer is everything between the hub's send and the moment the bytes are looked at (channel
buffer, goroutine holding the slice, websocket writer): `queue` holds the messages handed on whose
content has not been read yet.
-/

namespace Flush

abbrev Bytes := List Nat

inductive Msg where
  | val (b : Bytes)      -- fresh copy
  | view (len : Nat)     -- rawFrame[:len]
deriving Repr, DecidableEq

/-- the bytes a consumer sees when it reads `m` while the flush array holds `raw` -/
def content (raw : Bytes) : Msg → Bytes
  | .val b => b
  | .view n => raw.take n

/-- one consumer (subscriber / destination) -/
structure Cons where
  queue : List Msg := []      -- handed on, not yet read; oldest first
  out : List Bytes := []      -- contents AS READ, oldest first
  handed : List Bytes := []   -- ghost: the content each accepted message had at hand-off
deriving Repr

def Cons.deliver (c : Cons) (m : Msg) (now : Bytes) : Cons :=
  { c with queue := c.queue ++ [m], handed := c.handed ++ [now] }

/-- the consumer reads its oldest message (no-op on an empty queue) -/
def Cons.read (c : Cons) (raw : Bytes) : Cons :=
  match c.queue with
  | [] => c
  | m :: q => { c with queue := q, out := c.out ++ [content raw m] }

structure Cfg where
  max : Nat                 -- maxFrameBytes (vw: 1 024 000) / MaxFrameBytes (tcpconnect)
  copyOnFlush : Bool        -- true: today's code; false: `frame := rawFrame[:n]`
deriving Repr

structure St where
  acc : Bytes := []
  raw : Bytes := []
  cons : Nat → Cons := fun _ => {}

inductive Op where
  | write (chunk : Bytes)          -- reader goroutine appends what one Read returned
  | flush (accepting : List Nat)   -- idle timer fires; these consumers' queues take the message
  | read (i : Nat)                 -- consumer `i` looks at the bytes of its oldest message
deriving Repr

def step (cfg : Cfg) (s : St) : Op → St
  | .write ch => { s with acc := s.acc ++ ch }
  | .flush accepting =>
      let n := min s.acc.length cfg.max
      if n = 0 then { s with acc := [] }        -- Read gave 0 bytes (EOF, or max = 0): no message, Reset
      else
        let frame := s.acc.take n
        let m := if cfg.copyOnFlush then Msg.val frame else Msg.view n
        { acc := []
          raw := frame ++ s.raw.drop n             -- copy(rawFrame, …): overwrite the first n bytes
          cons := fun i => if i ∈ accepting then (s.cons i).deliver m frame else s.cons i }
  | .read i => { s with cons := fun j => if j = i then (s.cons j).read s.raw else s.cons j }

def runFrom (cfg : Cfg) (s : St) (ops : List Op) : St := ops.foldl (step cfg) s
def run (cfg : Cfg) (ops : List Op) : St := runFrom cfg {} ops

/-- the byte stream posted = all written chunks in order -/
def inputFrom (inp : Bytes) (ops : List Op) : Bytes :=
  ops.foldl (fun i op => match op with | .write ch => i ++ ch | _ => i) inp
def inputOf (ops : List Op) : Bytes := inputFrom [] ops

/-! ## Position bookkeeping (pure arithmetic, no heap): where each flush cuts the stream -/

/-- message = input[a, b), dropped beyond max = input[b, c) -/
structure Cut where
  a : Nat
  b : Nat
  c : Nat
deriving Repr, DecidableEq

structure Pos where
  written : Nat := 0                    -- bytes appended so far
  start : Nat := 0                      -- stream offset of the first byte of `acc`
  cuts : List (Cut × List Nat) := []    -- one per flush that produced a message, with who accepted
deriving Repr

def posStep (max : Nat) (p : Pos) : Op → Pos
  | .write ch => { p with written := p.written + ch.length }
  | .flush accepting =>
      let n := min (p.written - p.start) max
      if n = 0 then { p with start := p.written }
      else { p with start := p.written,
                    cuts := p.cuts ++ [({ a := p.start, b := p.start + n, c := p.written }, accepting)] }
  | .read _ => p

def posFrom (max : Nat) (p : Pos) (ops : List Op) : Pos := ops.foldl (posStep max) p
def posRun (max : Nat) (ops : List Op) : Pos := posFrom max {} ops

/-- the cuts of the messages consumer `i` accepted -/
def cutsOf (i : Nat) (cs : List (Cut × List Nat)) : List Cut :=
  (cs.filter (fun x => decide (i ∈ x.2))).map (·.1)

def slice (inp : Bytes) (a b : Nat) : Bytes := (inp.drop a).take (b - a)

def sliceOf (inp : Bytes) (x : Cut) : Bytes := slice inp x.a x.b

/-- cut points move forward: `lo ≤ a₁ ≤ b₁ ≤ a₂ ≤ b₂ ≤ … ≤ hi` -/
def Forward : Nat → List Cut → Nat → Prop
  | lo, [], hi => lo ≤ hi
  | lo, x :: r, hi => lo ≤ x.a ∧ x.a ≤ x.b ∧ Forward x.b r hi

/-- the cuts of ALL flushes tile the consumed part of the stream exactly: every message is non-empty
    and at most `max` long, the next message starts where the previous drop ends, and bytes are
    dropped only behind a message of full length `max` -/
def Tiles (max : Nat) : Nat → List Cut → Nat → Prop
  | lo, [], hi => lo = hi
  | lo, x :: r, hi => x.a = lo ∧ x.a < x.b ∧ x.b ≤ x.c ∧ x.b - x.a ≤ max ∧
      (x.b < x.c → x.b - x.a = max) ∧ Tiles max x.c r hi

/-! ## Message-oriented ingest (`handleWs.readPump`): `ReadMessage` returns a fresh slice per websocket
message, which is broadcast as one hub message (also when empty). No accumulation, no flush array. -/

namespace Msgq

inductive Op where
  | post (m : Bytes) (accepting : List Nat)
  | read (i : Nat)
deriving Repr

structure St where
  cons : Nat → Cons := fun _ => {}

def step (s : St) : Op → St
  | .post m accepting =>
      { cons := fun i => if i ∈ accepting then (s.cons i).deliver (.val m) m else s.cons i }
  | .read i => { cons := fun j => if j = i then (s.cons j).read [] else s.cons j }

def runFrom (s : St) (ops : List Op) : St := ops.foldl step s
def run (ops : List Op) : St := runFrom {} ops

/-- the messages posted that consumer `i`'s queue took, in posting order -/
def accepted (i : Nat) : List Op → List Bytes
  | [] => []
  | .post m a :: r => if i ∈ a then m :: accepted i r else accepted i r
  | .read _ :: r => accepted i r

end Msgq

end Flush
