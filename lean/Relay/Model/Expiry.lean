/-!
# Model of connection expiry (`serveWs`: `ttl := exp − now`, `time.After(time.Duration(ttl) * time.Second)`)
and of the keep-alive (ping every `pingPeriod`, read deadline `pongWait` renewed by each pong).

Times are integers in nanoseconds unless named `…S` (seconds). Go's `int64` multiplication wraps, so the
timer duration is `wrap64 (ttl * 10^9)`; `time.After` with a non-positive duration fires at once.
-/

namespace Expiry

def second : Int := 1000000000

/-- two's-complement wrap-around of int64 arithmetic -/
def wrap64 (x : Int) : Int := (x + 2 ^ 63) % 2 ^ 64 - 2 ^ 63

/-- `time.Now().Unix()` at real time `a` (ns since the epoch, `a ≥ 0`) -/
def nowS (a : Int) : Int := a / second

/-- the watcher's timer, as Go computes it -/
def timerNs (a : Int) (expS : Int) : Int := wrap64 ((expS - nowS a) * second)

/-- the instant at which the relay cancels a connection admitted at `a` with a token expiring at `expS` -/
def closeAt (a : Int) (expS : Int) : Int := a + max (timerNs a expS) 0

/-! keep-alive: the relay pings every `pingPeriod`; a client is *cooperative with delay δ* if it answers
    the k-th ping (sent at `t0 + k * pingPeriod`) by `t0 + k * pingPeriod + δ`; each pong moves the read
    deadline to `pong time + pongWait` -/

/-- latest possible arrival of the k-th pong (k ≥ 1) of a δ-cooperative client, connection set up at t0 -/
def pongBy (t0 pingPeriod δ : Int) (k : Nat) : Int := t0 + k * pingPeriod + δ

/-- earliest possible read deadline in force after the k-th pong (k = 0: the initial deadline) -/
def deadlineAfter (t0 pingPeriod pongWait : Int) (k : Nat) : Int := t0 + k * pingPeriod + pongWait

end Expiry
