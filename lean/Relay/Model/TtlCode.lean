/-!
# Model of `internal/ttlcode` — the one-time code store

Go: `store map[string]ExpToken` under one mutex; `SubmitToken` mints a fresh uuid code with
`Exp = now + ttl`; `ExchangeCode` deletes the entry and returns the token unless the entry is
absent or (since fix 8cb6303) already expired (`now > Exp`); `CleanExpired` (the sweeper, here an
operation allowed at any time so nothing depends on the 2×TTL timer); `DeleteByBookingID`.
Fresh codes are a counter; that `uuid.New()` never repeats and cannot be guessed is an assumption.
-/

namespace TtlCode

structure Entry where
  code : Nat
  bid : String       -- booking id of the permission token
  tok : Nat          -- identity of the permission token handed in
  exp : Int
deriving Repr, DecidableEq

structure Store where
  entries : List Entry := []
  next : Nat := 0
  now : Int := 0
  ttl : Int := 30
deriving Repr

inductive Op where
  | submit (bid : String) (tok : Nat)
  | exchange (code : Nat)
  | clean
  | deleteByBooking (bid : String)
  | setNow (t : Int)
deriving Repr

inductive Out where
  | issued (code : Nat)
  | token (bid : String) (tok : Nat)
  | invalid
  | done
deriving Repr, DecidableEq

def find : List Entry → Nat → Option Entry
  | [], _ => none
  | e :: es, c => if e.code = c then some e else find es c

def remove : List Entry → Nat → List Entry
  | [], _ => []
  | e :: es, c => if e.code = c then remove es c else e :: remove es c

def keepIf (p : Entry → Bool) : List Entry → List Entry
  | [] => []
  | e :: es => if p e then e :: keepIf p es else keepIf p es

/-- Go: `GetTime() > t.Exp` -/
def expired (now : Int) (e : Entry) : Bool := now > e.exp

def step (s : Store) : Op → Store × Out
  | .submit bid tok =>
      ({ s with entries := { code := s.next, bid := bid, tok := tok, exp := s.now + s.ttl } :: s.entries,
                next := s.next + 1 }, .issued s.next)
  | .exchange c =>
      match find s.entries c with
      | none => (s, .invalid)
      | some e =>
        let s' := { s with entries := remove s.entries c }
        if expired s.now e then (s', .invalid) else (s', .token e.bid e.tok)
  | .clean => ({ s with entries := keepIf (fun e => !expired s.now e) s.entries }, .done)
  | .deleteByBooking b => ({ s with entries := keepIf (fun e => e.bid ≠ b) s.entries }, .done)
  | .setNow t => ({ s with now := t }, .done)

/-- run a history, collecting the outputs -/
def run : Store → List Op → Store × List Out
  | s, [] => (s, [])
  | s, op :: ops =>
    let (s1, o) := step s op
    let (s2, os) := run s1 ops
    (s2, o :: os)

/-- is output `o` of operation `op` a successful exchange of code `c`? -/
def isOkExchange (c : Nat) : Op × Out → Bool
  | (.exchange c', .token _ _) => c' = c
  | _ => false

/-- number of successful exchanges of `c` in a history started in `s` -/
def successes (c : Nat) : Store → List Op → Nat
  | _, [] => 0
  | s, op :: ops =>
    (if isOkExchange c (op, (step s op).2) then 1 else 0) + successes c (step s op).1 ops

/-- the state after a history -/
def after (s : Store) (ops : List Op) : Store := ops.foldl (fun s op => (step s op).1) s

/-- the codes issued during a history, in order -/
def issuedCodes : Store → List Op → List Nat
  | _, [] => []
  | s, op :: ops =>
    match (step s op).2 with
    | .issued c => c :: issuedCodes (step s op).1 ops
    | _ => issuedCodes (step s op).1 ops

end TtlCode
