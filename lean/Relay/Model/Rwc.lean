import Relay.Base.KV

/-!
# Model of `internal/rwc` (destination rules -> one re-connecting outgoing websocket each)
together with the part of `internal/agg` + `internal/hub` that decides *who is handed a message*.

Go (`rwc.Hub.Run`, one goroutine, one step per channel receive):

* `Add rule`    : id `"deleteAll"` is refused (`break`); otherwise a previous client for the id is
                  unregistered from the message hub, its context cancelled and it is deleted from
                  `Clients`; `Rules[id] = rule`; a **new** client (new `reconws`, new context, new
                  `hub.Client{Name: rule.Destination, Topic: rule.Stream, Send: chan 2}`) is stored in
                  `Clients[id]` and registered with the message hub.  No check on an empty id.
* `Delete id`   : `"deleteAll"` unregisters + cancels every client and empties both maps; any other
                  id unregisters + cancels + deletes that client (if any) and deletes the rule.
* `agg.Hub` `Register`/`Unregister`: a topic starting with `stream/` is subscribed (through
  sub-clients that copy the client's `Name`) to every feed of the aggregation rule of that stream
  (none if the stream has no rule); any other topic is registered with the inner hub directly.
  The aggregation rules (`cfg`) are *static* in this model (changing them is C15's subject).
* inner `hub.Hub` `Broadcast m`: every client registered under `m.Sender.Topic` whose `Name` differs
  from `m.Sender.Name` is handed `m` (non-blocking send into its buffer).
* `RelayIn`: a message arriving *from* a destination over the connection of a client is broadcast
  with `Sender = that client` (topic = its stream, name = its destination).

A client generation is a fresh number (`Gen`); `cancelled` is a ghost log of the generations
whose context has been cancelled.  One `ReconWs` per generation, ended by the context cancel; a
generation has a socket open iff it is live and its destination accepts connections (`downs` is
the environment: destinations currently refusing); the reconnect machine itself is C19's subject.
What this model fixes about it (`reconws.Reconnect`: dial, on failure sleep the back-off, look at the
context, dial again; `Dial` opens the connection under the same context): a generation opens a
connection only while its context is live -- when it is created and its destination accepts, when its
destination comes up again, when its connection was dropped (`dials`).  A generation whose context was
cancelled while it sat in a back-off sleep finds the context done when the sleep ends and returns:
passing time (`idle`) makes nobody dial, and a destination coming up is dialled by live generations only.
`Token` and `File` of a rule are not modelled (kept empty by the generator).
-/

namespace Rwc

abbrev Gen := Nat
abbrev Dest := String
abbrev Stream := String

structure Rule where
  stream : Stream
  dest : Dest
deriving Repr, DecidableEq

/-- a live client: `Gen × Dest × Stream` -/
structure Cl where
  gen : Gen
  dest : Dest
  stream : Stream
deriving Repr, DecidableEq

structure St where
  cfg : KV (List String) := []      -- aggregation rules stream -> feeds (static)
  rules : KV Rule := []             -- Hub.Rules
  clients : KV Cl := []             -- Hub.Clients
  nextGen : Gen := 0
  cancelled : List Gen := []        -- ghost: generations whose context was cancelled
  downs : List Dest := []           -- environment: destinations refusing connections
  accepts : KV Nat := []            -- environment ghost: connections accepted so far per destination
deriving Repr

/-- the reserved id -/
def reserved : String := "deleteAll"

inductive Op where
  | add (id : String) (stream : Stream) (dest : Dest)   -- Hub.Add <- Rule{…}
  | delete (id : String)                                -- Hub.Delete <- id   (`deleteAll` = all)
  | bcast (topic : String) (sender : Option Dest)       -- a message broadcast on a hub topic
  | inject (dest : Dest)                                -- destination `dest` sends a message in
  | down (dest : Dest)                                  -- destination starts refusing / drops
  | up (dest : Dest)                                    -- destination accepts again
  | drop (dest : Dest)                                  -- destination drops its connections once
  | idle                                                -- real time passes (pending back-off sleeps end)
deriving Repr

def gens (m : KV Cl) : List Gen := m.map (fun p => p.2.gen)

def isUp (s : St) (d : Dest) : Bool := !(s.downs.contains d)

/-- number of live clients whose destination is `d` -/
def liveOn (s : St) (d : Dest) : Nat := (s.clients.filter (fun p => p.2.dest == d)).length

def bump (m : KV Nat) (d : Dest) (n : Nat) : KV Nat :=
  if n = 0 then m else KV.insert m d ((KV.lookup m d).getD 0 + n)

def step (s : St) : Op → St
  | .add id st d =>
      if id = reserved then s
      else
        { s with
          cancelled := (match KV.lookup s.clients id with
                        | some c => c.gen :: s.cancelled
                        | none => s.cancelled)
          rules := KV.insert s.rules id ⟨st, d⟩
          clients := KV.insert s.clients id ⟨s.nextGen, d, st⟩
          nextGen := s.nextGen + 1
          accepts := if isUp s d then bump s.accepts d 1 else s.accepts }
  | .delete id =>
      if id = reserved then
        { s with cancelled := gens s.clients ++ s.cancelled, rules := [], clients := [] }
      else
        { s with
          cancelled := (match KV.lookup s.clients id with
                        | some c => c.gen :: s.cancelled
                        | none => s.cancelled)
          clients := KV.erase s.clients id
          rules := KV.erase s.rules id }
  | .bcast _ _ => s
  | .inject _ => s
  | .down d => if s.downs.contains d then s else { s with downs := d :: s.downs }
  | .up d =>
      if s.downs.contains d then
        { s with downs := s.downs.filter (· != d), accepts := bump s.accepts d (liveOn s d) }
      else s
  | .drop d => if isUp s d then { s with accepts := bump s.accepts d (liveOn s d) } else s
  | .idle => s

/-- live clients whose destination is `d` -/
def clientsOn (s : St) (d : Dest) : List Cl := (s.clients.filter (fun p => p.2.dest == d)).map (·.2)

/-- **who dials**: the clients that open a connection to their destination because of `op` in state `s`
    (one entry per connection accepted by a destination).  The new generation of an accepted add whose
    destination accepts; the live clients of a destination that comes up again; the live clients of an
    accepting destination that dropped its connections.  Nobody else, and nobody because time passes. -/
def dials (s : St) : Op → List Cl
  | .add id st d => if id = reserved then [] else if isUp s d then [⟨s.nextGen, d, st⟩] else []
  | .up d => if s.downs.contains d then clientsOn s d else []
  | .drop d => if isUp s d then clientsOn s d else []
  | _ => []

def run (ops : List Op) (s : St := {}) : St := ops.foldl step s

/-- hub topics a client with stream `st` is registered under (agg.Register) -/
def topicsOf (cfg : KV (List String)) (st : Stream) : List String :=
  if "stream/".toList.isPrefixOf st.toList then (KV.lookup cfg st).getD [] else [st]

def subscribed (cfg : KV (List String)) (st : Stream) (topic : String) : Bool :=
  (topicsOf cfg st).contains topic

/-- does the inner hub hand a message on `topic` from `sender` to client `c`? -/
def wants (cfg : KV (List String)) (topic : String) (sender : Option Dest) (c : Cl) : Bool :=
  subscribed cfg c.stream topic && (some c.dest != sender)

/-- live clients that are handed a message broadcast on `topic` by `sender` -/
def deliveredCl (s : St) (topic : String) (sender : Option Dest) : List Cl :=
  (s.clients.filter (fun p => wants s.cfg topic sender p.2)).map (·.2)

/-- **the delivered-to set** of a broadcast: generations handed the message -/
def delivered (s : St) (topic : String) (sender : Option Dest) : List Gen :=
  (deliveredCl s topic sender).map (·.gen)

/-- clients whose socket to `d` is open: live, destination `d`, `d` accepting -/
def sources (s : St) (d : Dest) : List Cl :=
  if isUp s d then (s.clients.filter (fun p => p.2.dest == d)).map (·.2) else []

/-- clients handed a message because of operation `op` in state `s` -/
def deliveriesCl (s : St) : Op → List Cl
  | .bcast topic sender => deliveredCl s topic sender
  | .inject d => (sources s d).flatMap (fun c => deliveredCl s c.stream (some d))
  | _ => []

/-- generations handed a message because of operation `op` in state `s` -/
def deliveries (s : St) (op : Op) : List Gen := (deliveriesCl s op).map (·.gen)

/-- destinations at which the message of `op` arrives (one entry per socket) -/
def received (s : St) (op : Op) : List Dest :=
  ((deliveriesCl s op).filter (fun c => isUp s c.dest)).map (·.dest)

/-- open sockets, by destination -/
def openConns (s : St) : List Dest :=
  ((s.clients.filter (fun p => isUp s p.2.dest)).map (·.2.dest))

/-- generations created so far that are neither live nor cancelled (ghost observation) -/
def orphans (s : St) : List Gen :=
  (List.range s.nextGen).filter (fun g => !(gens s.clients).contains g && !s.cancelled.contains g)

/-! ## per-id specification: one cell holding the latest rule and its generation -/

structure Cell where
  rule : Option Rule := none
  gen : Option Gen := none
  n : Nat := 0                      -- number of accepted adds so far (all ids)
deriving Repr, DecidableEq

def specStep (id : String) (c : Cell) : Op → Cell
  | .add i st d =>
      if i = reserved then c
      else if i = id then { rule := some ⟨st, d⟩, gen := some c.n, n := c.n + 1 }
      else { c with n := c.n + 1 }
  | .delete i => if i = reserved ∨ i = id then { c with rule := none, gen := none } else c
  | _ => c

def spec (id : String) (ops : List Op) (c : Cell := {}) : Cell := ops.foldl (specStep id) c

/-- what the hub holds for `id` -/
def view (s : St) (id : String) : Cell :=
  { rule := KV.lookup s.rules id
    gen := (KV.lookup s.clients id).map (·.gen)
    n := s.nextGen }

end Rwc
