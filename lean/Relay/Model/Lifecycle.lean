/-!
# Life cycle of one admitted connection (C13, C06): the three goroutines `serveWs` starts for it
(reader = `readPump`, writer = `writePump`, watcher = the expiry/deny goroutine), its socket, its hub entry
and its cancel-channel entry, and the channels between them, as in the current code (after fixes 7a3eda9
and 866df7c).

Causes that end a connection: the client closes or the network fails (the reader's read returns an
error), the token expires (the watcher's timer fires), the booking is denied (the crossbar closes the
`denied` channel), the hub drops it for its backlog (removes it and closes its send queue), the relay
shuts down (`closed`). Each goroutine then reacts; `step` is one reaction of one goroutine.
-/

namespace Life

structure St where
  socketOpen : Bool := true     -- the relay has not closed the socket
  peerGone : Bool := false      -- the client closed / the network failed (reads fail)
  inHub : Bool := true          -- member of the hub (receives fan-out, is listed)
  inDcs : Bool := true          -- cancel channel recorded under its booking
  sendClosed : Bool := false    -- the hub closed its send queue
  denied : Bool := false        -- its `denied` channel was closed
  timerFired : Bool := false    -- the token expired
  shutdown : Bool := false      -- the relay's `closed` channel was closed
  cancelled : Bool := false     -- the watcher closed `cancelled`
  finished : Bool := false      -- the reader closed `finished`
  reader : Bool := true         -- goroutines alive
  writer : Bool := true
  watcher : Bool := true
deriving Repr, DecidableEq

inductive Cause where
  | clientClose | netLoss | expiry | denied | evicted | shutdown
deriving Repr, DecidableEq

def cause (s : St) : Cause → St
  | .clientClose => { s with peerGone := true }
  | .netLoss => { s with peerGone := true }
  | .expiry => { s with timerFired := true }
  | .denied => { s with denied := true, inDcs := false }        -- DeleteAndCloseParent removes the entries it closes
  | .evicted => { s with inHub := false, inDcs := false, sendClosed := true }   -- Hub.remove
  | .shutdown => { s with shutdown := true }

inductive Proc where
  | reader | writer | watcher
deriving Repr, DecidableEq

/-- can the goroutine make a step now? -/
def enabled (s : St) : Proc → Bool
  | .reader => s.reader && (s.peerGone || !s.socketOpen)                 -- ReadMessage returns an error
  | .writer => s.writer && (s.sendClosed || s.cancelled || s.shutdown)   -- one of its select cases is ready for good
  | .watcher => s.watcher && (s.timerFired || s.denied || s.finished)

/-- one reaction: the reader's deferred unregister + Close + close(finished); the writer's exit closes the
    socket; the watcher closes `cancelled` -/
def step (s : St) (p : Proc) : St :=
  if !enabled s p then s else
  match p with
  | .reader => { s with reader := false, inHub := false, inDcs := false,
                        sendClosed := s.sendClosed || s.inHub,      -- Hub.remove closes the queue once, if still a member
                        socketOpen := false, finished := true }
  | .writer => { s with writer := false, socketOpen := false }
  | .watcher => { s with watcher := false, cancelled := true }

def run (s : St) (sched : List Proc) : St := sched.foldl step s

def quiescent (s : St) : Bool := !enabled s .reader && !enabled s .writer && !enabled s .watcher

/-- everything held for the connection has been given back -/
def released (s : St) : Bool :=
  !s.socketOpen && !s.inHub && !s.inDcs && !s.reader && !s.writer && !s.watcher

/-- it has ended: some cause has occurred -/
def ended (s : St) : Bool := s.peerGone || s.timerFired || s.denied || s.sendClosed || s.shutdown

end Life
